// C14 harness unit "vectors": vectors and dims of dimension 1-4 with static storage and matrix row
// views (non-const and const): component-wise operators, comparisons (all six operators on equal,
// prefix-equal and differing operands), dot, cross, length_square, access (const, non-const, writes),
// conversions, compound operators (also through views and with aliased operands), builders.
// The other storage kinds and every mixed combination are driven by c14_storage_vec.cpp.
// See c14_common.hpp.
#include <c14_vec.hpp>

namespace
{
using namespace c14;

template <sz N>
void vector_cases(ivec const &v, int const k, bool const extra = true)
{
  // operands: a = v[0..N), b = v[N..2N); views are rows 0 and 1 of a 2xN matrix
  auto const a(mk_vec<N>(v, 0));
  auto const b(mk_vec<N>(v, N));
  auto m(mk_mat<2, N>(v, 0));
  auto const &cm(m);
  auto const va(m.get_unsafe(0));   // view into a non-const matrix
  auto const vb(cm.get_unsafe(1));  // view into a const matrix
  auto const vb2(m.get_unsafe(1));
  auto const vka(cm.get_unsafe(0));
  std::string const aj = vals_vec(v, 0, N), bj = vals_vec(v, N, N);
  vec_binary("vector", "static,static", aj, bj, a, b);
  if (extra) vec_binary("vector", "view,static", aj, bj, va, b);
  if (extra) vec_binary("vector", "static,constview", aj, bj, a, vb);
  vec_binary("vector", "view,constview", aj, bj, va, vb);
  vec_equal("vector", "static,static", aj, bj, a, b);
  if (extra) vec_equal("vector", "view,static", aj, bj, va, b);
  if (extra) vec_equal("vector", "static,constview", aj, bj, a, vb);
  vec_equal("vector", "view,constview", aj, bj, va, vb);
  vec_only_binary("static,static", aj, bj, a, b);
  if (extra) vec_only_binary("view,static", aj, bj, va, b);
  if (extra) vec_only_binary("static,constview", aj, bj, a, vb);
  vec_only_binary("view,constview", aj, bj, va, vb);
  vec_order("vector", "static,static", aj, bj, a, b);
  vec_order("vector", "view,view", aj, bj, va, vb2);
  if (extra) vec_order("vector", "constview,constview", aj, bj, vka, vb);
  vec_unary("vector", "static", aj, a, k, extra);
  vec_unary("vector", "view", aj, va, k, extra);
  if (extra) vec_unary("vector", "constview", bj, vb, k);
  vec_length_square("static", aj, a);
  vec_length_square("view", aj, va);
  if (extra) vec_length_square("constview", bj, vb);
  vec_conversions("vector", "static", aj, a, k);
  vec_conversions("vector", "view", aj, va, k);
  if (extra) vec_conversions("vector", "constview", bj, vb, k);
  vec_construct("vector", "view->static", aj, va);
  if (extra) vec_construct("vector", "constview->static", bj, vb);
  // non-const access and writes: a static vector, a row view (the write lands in the matrix)
  if (extra)
  {
    auto x(a);
    vec_write("vector", "static", aj, x, k + 1);
  }
  if (extra)
  {
    auto m2(mk_mat<2, N>(v, 0));
    auto row0(m2.get_unsafe(0));
    vec_write("vector", "view", aj, row0, k + 1);
    Rec r2("copy");
    r2.ks("k", "vector").ks("st", "untouched row after writes").k("a", bj).begin();
    fm::vector::static_<int, N> const other(m2.get_unsafe(1));
    r2.k("r", vj_(other)).end();
  }
  // member operators; the left operand is a static vector or a view (then the matrix row changes)
  {
    auto x(a);
    vec_compound("vector", "static,constview", '+', aj, bj, x, vb);
  }
  {
    auto x(a);
    vec_compound("vector", "static,static", '-', aj, bj, x, b);
  }
  {
    auto x(a);
    vec_compound("vector", "static,constview", '*', aj, bj, x, vb);
  }
  if (extra)
  {
    auto x(a);
    vec_compound("vector", "static,static", '+', aj, bj, x, b);
  }
  if (extra)
  {
    auto x(a);
    vec_compound("vector", "static,static", '*', aj, bj, x, b);
  }
  {
    auto x(a);
    vec_scale_assign("vector", "static", aj, x, k);
  }
  {
    auto m2(mk_mat<2, N>(v, 0));
    auto row0(m2.get_unsafe(0));
    vec_scale_assign("vector", "view", aj, row0, k);
  }
  for (char const op : {'+', '-', '*'})
  {
    if (!extra && op != "+-*"[((v[0] + k) % 3 + 3) % 3]) continue;
    {
      auto m2(mk_mat<2, N>(v, 0));
      auto row0(m2.get_unsafe(0));
      Rec r("row_op");
      r.ks("st", "view,static").k("a", vals_mat(v, 0, 2, N)).ki("i", 0).k("b", bj).ks("op", std::string(1, op) + "=").begin();
      if (op == '+') row0 += b;
      else if (op == '-') row0 -= b;
      else row0 *= b;
      r.k("r", mj_(m2)).end();
    }
    // row_i (op)= row_j of the same matrix through a view and a const view (also i = j)
    for (unsigned i = 0; i < 2; ++i)
      for (unsigned j = 0; j < 2; ++j)
      {
        auto m2(mk_mat<2, N>(v, 0));
        auto const &cm2(m2);
        auto lhs(m2.get_unsafe(i));
        // the right operand is row j
        Rec q("row_op");
        q.ks("st", i == j ? "view,constview(same row)" : "view,constview(same matrix)").k("a", vals_mat(v, 0, 2, N))
            .ki("i", i).k("b", j == 0 ? aj : bj).ks("op", std::string(1, op) + "=").begin();
        if (op == '+') lhs += cm2.get_unsafe(j);
        else if (op == '-') lhs -= cm2.get_unsafe(j);
        else lhs *= cm2.get_unsafe(j);
        q.k("r", mj_(m2)).end();
      }
  }
  {
    // both operands are rows of the same matrix (two non-const views)
    auto m2(mk_mat<2, N>(v, 0));
    auto row0(m2.get_unsafe(0));
    vec_compound("vector", "view,view(same matrix)", '+', aj, bj, row0, m2.get_unsafe(1));
    Rec r2("copy");
    r2.ks("k", "vector").ks("st", "untouched row").k("a", bj).begin();
    fm::vector::static_<int, N> const other(m2.get_unsafe(1));
    r2.k("r", vj_(other)).end();
  }
  {
    auto m2(mk_mat<2, N>(v, 0));
    auto row0(m2.get_unsafe(0));
    vec_compound("vector", "view,self", '-', aj, aj, row0, row0);
  }
  // assignment between storage types (template operator=), rows written through views
  {
    fm::vector::static_<int, N> x(b);
    vec_assign("vector", "static=view", bj, aj, x, va);
  }
  if (extra)
  {
    fm::vector::static_<int, N> x(a);
    vec_assign("vector", "static=constview", aj, bj, x, vb);
  }
  {
    auto m2(mk_mat<2, N>(v, 0));
    auto row1(m2.get_unsafe(1));
    Rec r("row_assign");
    r.ks("st", "view=static").k("a", vals_mat(v, 0, 2, N)).ki("i", 1).k("v", aj).begin();
    row1 = a;
    r.k("r", mj_(m2)).end();
  }
  {
    auto m2(mk_mat<2, N>(v, 0));
    auto const &cm2(m2);
    auto row0(m2.get_unsafe(0));
    Rec r("row_copy");
    r.ks("st", "view=constview(same matrix)").k("a", vals_mat(v, 0, 2, N)).ki("i", 0).ki("j", 1).begin();
    row0 = cm2.get_unsafe(1);
    r.k("r", mj_(m2)).end();
  }
  // dims: same component-wise operations
  auto const da(mk_dim<N>(v, 0));
  auto const db(mk_dim<N>(v, N));
  // the scalar of operator*=(value_type const &) taken from the object itself (it aliases a
  // component that the operation overwrites); the record carries its value before the call
  static_for<N>([&](auto idx) {
    constexpr sz I = decltype(idx)::value;
    {
      auto x(a);
      Rec r("scale_assign");
      r.ks("k", "vector").ks("st", "static,alias").k("a", aj).ki("k", v[I]).ki("alias", I).begin();
      x *= x.get_unsafe(I);
      r.k("r", vj_(x)).end();
    }
    {
      auto m2(mk_mat<2, N>(v, 0));
      auto row0(m2.get_unsafe(0));
      Rec r("scale_assign");
      r.ks("k", "vector").ks("st", "view,alias").k("a", aj).ki("k", v[I]).ki("alias", I).begin();
      row0 *= row0.get_unsafe(I);
      r.k("r", vj_(m2.get_unsafe(0))).end();
    }
    {
      auto d(da);
      Rec r("scale_assign");
      r.ks("k", "dim").ks("st", "static,alias").k("a", aj).ki("k", v[I]).ki("alias", I).begin();
      d *= d.get_unsafe(I);
      r.k("r", vj_(d)).end();
    }
  });
  // both operands the same object
  for (char const op : {'+', '-', '*'})
  {
    if (!extra && op != "+-*"[((v[0] + k + 1) % 3 + 3) % 3]) continue;
    {
      auto x(a);
      vec_compound("vector", "self", op, aj, aj, x, x);
    }
    {
      auto d(da);
      vec_compound("dim", "self", op, aj, aj, d, d);
    }
    {
      auto d(da);
      vec_compound("dim", "static,static", op, aj, bj, d, db);
    }
  }
  {
    auto d(da);
    vec_scale_assign("dim", "static", aj, d, k);
  }
  vec_binary("dim", "static,static", aj, bj, da, db);
  vec_equal("dim", "static,static", aj, bj, da, db);
  vec_order("dim", "static,static", aj, bj, da, db);
  vec_unary("dim", "static", aj, da, k, extra);
  vec_conversions("dim", "static", aj, da, k);
  if (extra)
  {
    auto d(da);
    vec_write("dim", "static", aj, d, k - 1);
  }
  // vector (op) dim
  vec_binary("vector,dim", "view,static", aj, bj, va, db);
  if (extra) vec_binary("vector,dim", "static,static", aj, bj, a, db);
  if (extra) vec_binary("vector,dim", "constview,static", aj, bj, vka, db);
}

// every ordering operator on equal, prefix-equal and differing operands, every same-type storage kind
template <sz N>
void order_cases(ivec const &u)
{
  order_pairs<N>(u, [](ivec const &v) {
    std::string const aj = vals_vec(v, 0, N), bj = vals_vec(v, N, N);
    auto m(mk_mat<2, N>(v, 0));
    auto const &cm(m);
    vec_order("vector", "static,static", aj, bj, mk_vec<N>(v, 0), mk_vec<N>(v, N));
    vec_order("vector", "view,view", aj, bj, m.get_unsafe(0), m.get_unsafe(1));
    vec_order("vector", "constview,constview", aj, bj, cm.get_unsafe(0), cm.get_unsafe(1));
    vec_order("dim", "static,static", aj, bj, mk_dim<N>(v, 0), mk_dim<N>(v, N));
    vec_equal("vector", "static,static", aj, bj, mk_vec<N>(v, 0), mk_vec<N>(v, N));
    vec_equal("vector", "view,constview", aj, bj, m.get_unsafe(0), cm.get_unsafe(1));
    vec_equal("dim", "static,static", aj, bj, mk_dim<N>(v, 0), mk_dim<N>(v, N));
  });
}

// large components: a 16-bit (or narrower) intermediate anywhere in a copying / component-wise path
// shows.  copies: |components| <= 500000; products: |components| <= 16000 (4 * 16000^2 < 2^30)
template <sz N>
void wide_cases(ivec const &big, ivec const &mid, int const k)
{
  {
    auto const a(mk_vec<N>(big, 0));
    auto const b(mk_vec<N>(big, N));
    auto m(mk_mat<2, N>(big, 0));
    auto const &cm(m);
    std::string const aj = vals_vec(big, 0, N), bj = vals_vec(big, N, N);
    vec_conversions("vector", "static(wide)", aj, a, big[1]);
    vec_conversions("vector", "constview(wide)", bj, cm.get_unsafe(1), big[0]);
    vec_conversions("dim", "static(wide)", aj, mk_dim<N>(big, 0), big[1]);
    vec_construct("vector", "view->static(wide)", aj, m.get_unsafe(0));
    vec_unary("vector", "view(wide)", aj, m.get_unsafe(0), 1);
    vec_unary("dim", "static(wide)", bj, mk_dim<N>(big, N), -1);
    {
      Rec r("add");
      r.ks("k", "vector").ks("st", "static,constview(wide)").k("a", aj).k("b", bj).begin();
      auto const res(a + cm.get_unsafe(1));
      r.k("r", vj_(res)).end();
    }
    {
      Rec r("sub");
      r.ks("k", "vector").ks("st", "view,static(wide)").k("a", aj).k("b", bj).begin();
      auto const res(m.get_unsafe(0) - b);
      r.k("r", vj_(res)).end();
    }
    vec_equal("vector", "static,view(wide)", aj, bj, a, m.get_unsafe(1));
    vec_order("vector", "static,static(wide)", aj, bj, a, b);
    vec_order("dim", "static,static(wide)", aj, bj, mk_dim<N>(big, 0), mk_dim<N>(big, N));
    {
      fm::vector::static_<int, N> x(b);
      vec_assign("vector", "static=view(wide)", bj, aj, x, m.get_unsafe(0));
    }
    {
      auto x(a);
      vec_compound("vector", "static,static(wide)", '+', aj, bj, x, b);
    }
    {
      auto x(a);
      vec_write("vector", "static(wide)", aj, x, big[N]);
    }
  }
  vector_cases<N>(mid, k, false);
}

template <sz N>
void vector_builders(int const x, int const c0, int const c1)
{
  using V = fm::vector::static_<int, N>;
  using D = fm::dim::static_<int, N>;
  {
    Rec r("null");
    r.ks("k", "vector").ki("n", N).begin();
    auto const res(fm::vector::null<V>());
    r.k("r", vj_(res)).end();
  }
  {
    Rec r("null");
    r.ks("k", "dim").ki("n", N).begin();
    auto const res(fm::dim::null<D>());
    r.k("r", vj_(res)).end();
  }
  {
    Rec r("fill");
    r.ks("k", "vector").ki("n", N).ki("x", x).begin();
    auto const res(fm::vector::fill<V>(x));
    r.k("r", vj_(res)).end();
  }
  {
    Rec r("fill");
    r.ks("k", "dim").ki("n", N).ki("x", x).begin();
    auto const res(fm::dim::fill<D>(x));
    r.k("r", vj_(res)).end();
  }
  {
    Rec r("init");
    r.ks("k", "vector").ki("n", N).ki("c0", c0).ki("c1", c1).begin();
    auto const res(fm::vector::init<V>([c0, c1](auto const i) { return c0 + c1 * static_cast<int>(i()); }));
    r.k("r", vj_(res)).end();
  }
  {
    Rec r("init");
    r.ks("k", "dim").ki("n", N).ki("c0", c0).ki("c1", c1).begin();
    auto const res(fm::dim::init<D>([c0, c1](auto const i) { return c0 + c1 * static_cast<int>(i()); }));
    r.k("r", vj_(res)).end();
  }
}

// C14_HALF: 0 = dimensions 1 and 2 and the builders, 1 = dimensions 3 and 4 (two translation units,
// built in parallel); anything else = all
#ifndef C14_HALF
#define C14_HALF 2
#endif

void part_vectors(vj::Rng &rng, bool const thorough)
{
#if C14_HALF != 1
  // dimension 1 and 2: all pairs over {-1,0,1,2}
  for (int a = -1; a <= 2; ++a)
    for (int b = -1; b <= 2; ++b)
      for (int k = -2; k <= 3; ++k) vector_cases<1>(ivec{a, b}, k);
  for (unsigned c = 0; c < 256; ++c)
  {
    ivec const v(mat2_of(c));
    vector_cases<2>(v, static_cast<int>(c % 7U) - 3);
  }
  for (int x = -2; x <= 2; ++x)
    for (int c1 = -2; c1 <= 2; ++c1)
    {
      vector_builders<1>(x, x + 1, c1);
      vector_builders<2>(x, x + 1, c1);
      vector_builders<3>(x, x - 1, c1);
      vector_builders<4>(x, 2 * x, c1);
    }
  // comparisons: fixed bases (zero, mixed signs) and random ones
  order_cases<1>(ivec{0});
  order_cases<2>(ivec{0, 0});
  order_cases<1>(ivec{-3});
  order_cases<2>(ivec{2, -2});
#endif
#if C14_HALF != 0
  order_cases<3>(ivec{0, 0, 0});
  order_cases<4>(ivec{0, 0, 0, 0});
  order_cases<3>(ivec{-1, 4, -4});
  order_cases<4>(ivec{5, -5, 0, 7});
#endif
  for (unsigned i = 0; i < (thorough ? 40U : 4U); ++i)
  {
#if C14_HALF != 1
    order_cases<1>(random_vals(rng, 1, -9, 9));
    order_cases<2>(random_vals(rng, 2, -9, 9));
#endif
#if C14_HALF != 0
    order_cases<3>(random_vals(rng, 3, -9, 9));
    order_cases<4>(random_vals(rng, 4, -9, 9));
#endif
  }
  for (unsigned i = 0; i < (thorough ? 300U : 30U); ++i)
  {
    int const k = static_cast<int>(rng.range(-9, 9));
#if C14_HALF != 1
    wide_cases<1>(random_vals(rng, 2, -500000, 500000), random_vals(rng, 2, -16000, 16000), k);
    wide_cases<2>(random_vals(rng, 4, -500000, 500000), random_vals(rng, 4, -16000, 16000), k);
#endif
#if C14_HALF != 0
    wide_cases<3>(random_vals(rng, 6, -500000, 500000), random_vals(rng, 6, -16000, 16000), k);
    wide_cases<4>(random_vals(rng, 8, -500000, 500000), random_vals(rng, 8, -16000, 16000), k);
#endif
  }
  unsigned const n = thorough ? 4000U : 400U;
  for (unsigned i = 0; i < n; ++i)
  {
    int const k = static_cast<int>(rng.range(-9, 9));
    bool const extra = i % 4U == 0U;
#if C14_HALF != 1
    if (i % 2U == 0U)
    {
      ivec v(random_vals(rng, 2, -9, 9));
      vector_cases<1>(v, k, extra);
    }
    {
      ivec v(random_vals(rng, 4, -9, 9));
      tweak(rng, v, 2);
      vector_cases<2>(v, k, extra);
    }
#endif
#if C14_HALF != 0
    {
      ivec v(random_vals(rng, 6, -9, 9));
      tweak(rng, v, 3);
      vector_cases<3>(v, k, extra);
    }
    {
      ivec v(random_vals(rng, 8, -9, 9));
      tweak(rng, v, 4);
      vector_cases<4>(v, k, extra);
    }
#endif
  }
}
}

int main(int argc, char **argv) { return c14::unit_main(argc, argv, "vectors", 17U + C14_HALF, part_vectors); }
