// C05 conformance harness: runs the registered generic operations of fcppt on containers of
// the instrumented element type (harness/common/tracked.hpp) for small argument shapes and
// every value category of every argument, and records the event log
//   reset, new*, begin(op, keeps, args), {copy, move, copy_assign, move_assign, read, destroy,
//   cb_enter, cb_exit}*, end(result, final contents of the arguments), destroy*
// It contains no expectations: spec/LinearityTrace.tla (TLC) judges the log.
//
//   c05_linear record OUT seed quick|thorough [only-op]
//   c05_linear selftest OUT      deliberately wrong "operations" written in the harness itself
//                                 (the judge must reject each of them: vacuity guard of the judge)
#include "c05_common.hpp"

#include <fcppt/loop.hpp>
#include <fcppt/move_clear.hpp>
#include <fcppt/move_if_rvalue.hpp>
#include <fcppt/algorithm/fold.hpp>
#include <fcppt/algorithm/fold_break.hpp>
#include <fcppt/algorithm/loop.hpp>
#include <fcppt/algorithm/map.hpp>
#include <fcppt/algorithm/map_concat.hpp>
#include <fcppt/algorithm/map_optional.hpp>
#include <fcppt/algorithm/remove_if.hpp>
#include <fcppt/algorithm/reverse.hpp>
#include <fcppt/algorithm/unique_if.hpp>
#include <fcppt/container/get_or_insert.hpp>
#include <fcppt/container/join.hpp>
#include <fcppt/container/make.hpp>
#include <fcppt/container/make_move_range.hpp>
#include <fcppt/container/move_range_impl.hpp>
#include <fcppt/container/pop_back.hpp>
#include <fcppt/container/pop_front.hpp>
#include <fcppt/container/set_difference.hpp>
#include <fcppt/container/set_intersection.hpp>
#include <fcppt/container/set_union.hpp>
#include <fcppt/optional/make.hpp>
#include <fcppt/optional/object_impl.hpp>

#include <deque>
#include <list>
#include <map>
#include <set>
#include <string>
#include <utility>
#include <vector>

namespace c05
{
void drive_values();  // c05_values.cpp: optional / either / variant
void drive_product(); // c05_product.cpp: array / tuple / record
void drive_nested();  // c05_nested.cpp: grid / tree
void drive_parsers(); // c05_parsers.cpp: options / parse
}

namespace
{
using namespace c05;
using vec = std::vector<T>;
using lst = std::list<T>;
using deq = std::deque<T>;

std::string shp(char const *kind, int n) { return std::string{kind} + std::to_string(n); }

void drive_algorithm(bool thorough)
{
  std::vector<int> const sizes = thorough ? std::vector<int>{0, 1, 2, 3, 5} : std::vector<int>{0, 1, 3};
  for (int n : sizes)
  {
    auto const mk_vec = [n] { return make_seq<vec>(n); };
    auto const mk_lst = [n] { return make_seq<lst>(n); };
    auto const mk_deq = [n] { return make_seq<deq>(n); };
    for_cats<'r', 'l', 'c'>([&](auto c)
    {
      constexpr char C = decltype(c)::value;
      // algorithm::map keeps all elements (with the pass-through continuation)
      run1<C>("algorithm::map", true, shp("vector->vector:", n), mk_vec,
              [](auto &&a) { return fcppt::algorithm::map<vec>(C05_FWD(a), pass); });
      run1<C>("algorithm::map", true, shp("vector->vector/by-value:", n), mk_vec,
              [](auto &&a) { return fcppt::algorithm::map<vec>(C05_FWD(a), pass_by_value); });
      run1<C>("algorithm::map", true, shp("list->deque:", n), mk_lst,
              [](auto &&a) { return fcppt::algorithm::map<deq>(C05_FWD(a), pass); });
      run1<C>("algorithm::map", true, shp("deque->list:", n), mk_deq,
              [](auto &&a) { return fcppt::algorithm::map<lst>(C05_FWD(a), pass_read); });
      // map_optional: every second element is dropped by the continuation
      run1<C>("algorithm::map_optional", false, shp("vector:", n), mk_vec, [](auto &&a)
      {
        int k = 0;
        return fcppt::algorithm::map_optional<vec>(C05_FWD(a), [&k](auto &&x)
        {
          cb_scope const g{C05_RECV(x)};
          using opt = fcppt::optional::object<T>;
          return (k++ % 2 == 0) ? opt{T(C05_FWD(x))} : opt{};
        });
      });
      run1<C>("algorithm::map_optional", true, shp("vector-keep-all:", n), mk_vec, [](auto &&a)
      {
        return fcppt::algorithm::map_optional<vec>(C05_FWD(a), [](auto &&x)
        {
          cb_scope const g{C05_RECV(x)};
          return fcppt::optional::make(T(C05_FWD(x)));
        });
      });
      // map_concat: the continuation returns a one-element container
      run1<C>("algorithm::map_concat", true, shp("vector:", n), mk_vec, [](auto &&a)
      {
        return fcppt::algorithm::map_concat<vec>(C05_FWD(a), [](auto &&x)
        {
          cb_scope const g{C05_RECV(x)};
          vec r;
          r.emplace_back(C05_FWD(x));
          return r;
        });
      });
      // fold: the state is a vector collecting the elements
      run1<C>("algorithm::fold", true, shp("vector:", n), mk_vec, [](auto &&a)
      {
        return fcppt::algorithm::fold(C05_FWD(a), vec{}, [](auto &&x, vec &&state)
        {
          cb_scope const g{C05_RECV(x)};
          state.emplace_back(C05_FWD(x));
          return std::move(state);
        });
      });
      // fold_break: stops after two elements
      run1<C>("algorithm::fold_break", false, shp("vector:", n), mk_vec, [](auto &&a)
      {
        return fcppt::algorithm::fold_break(C05_FWD(a), vec{}, [](auto &&x, vec &&state)
        {
          cb_scope const g{C05_RECV(x)};
          state.emplace_back(C05_FWD(x));
          bool const stop = state.size() >= 2U;
          return std::make_pair(stop ? fcppt::loop::break_ : fcppt::loop::continue_, std::move(state));
        });
      });
      // loop: the body only reads
      run1<C>("algorithm::loop", false, shp("vector:", n), mk_vec, [](auto &&a)
      {
        fcppt::algorithm::loop(C05_FWD(a), [](auto &&x)
        {
          cb_scope const g{C05_RECV(x)};
          (void)x.value();
        });
        return nothing{};
      });
      run1<C>("algorithm::reverse", true, shp("vector:", n), mk_vec,
              [](auto &&a) { return fcppt::algorithm::reverse(C05_FWD(a)); });
      run1<C>("algorithm::reverse", true, shp("list:", n), mk_lst,
              [](auto &&a) { return fcppt::algorithm::reverse(C05_FWD(a)); });
      // container::join with one, two and three containers
      run1<C>("container::join", true, shp("vector:", n), mk_vec,
              [](auto &&a) { return fcppt::container::join(C05_FWD(a)); });
    });
    // make_move_range: an rvalue container whose elements are then handed out as rvalues
    run1<'r'>("container::make_move_range+map", true, shp("vector:", n), mk_vec, [](auto &&a)
    { return fcppt::algorithm::map<vec>(fcppt::container::make_move_range(C05_FWD(a)), pass); });
    run1<'r'>("container::make_move_range+fold", true, shp("vector:", n), mk_vec, [](auto &&a)
    {
      return fcppt::algorithm::fold(fcppt::container::make_move_range(C05_FWD(a)), vec{}, [](auto &&x, vec &&state)
      {
        cb_scope const g{C05_RECV(x)};
        state.emplace_back(C05_FWD(x));
        return std::move(state);
      });
    });
    // operations documented to modify their (lvalue) argument: category "inout"
    run1<'m'>("container::pop_back", true, shp("vector:", n), mk_vec, [](auto &&a)
    {
      auto r = fcppt::container::pop_back(a);
      return std::make_pair(std::move(r), fcppt::make_cref(a));
    });
    run1<'m'>("container::pop_front", true, shp("deque:", n), mk_deq, [](auto &&a)
    {
      auto r = fcppt::container::pop_front(a);
      return std::make_pair(std::move(r), fcppt::make_cref(a));
    });
    run1<'m'>("container::pop_front", true, shp("list:", n), mk_lst, [](auto &&a)
    {
      auto r = fcppt::container::pop_front(a);
      return std::make_pair(std::move(r), fcppt::make_cref(a));
    });
    run1<'m'>("move_clear", true, shp("vector:", n), mk_vec, [](auto &&a) { return fcppt::move_clear(a); });
    run1<'m'>("algorithm::remove_if", false, shp("vector:", n), mk_vec, [](auto &&a)
    {
      int k = 0;
      fcppt::algorithm::remove_if(a, [&k](T const &x)
      {
        cb_scope const g{C05_RECV(x)};
        (void)x.value();
        return k++ % 2 == 0;
      });
      return fcppt::make_cref(a);
    });
    run1<'m'>("algorithm::unique_if", false, shp("vector:", n), mk_vec, [](auto &&a)
    {
      fcppt::algorithm::unique_if(a, [](T const &x, T const &y)
      {
        cb_scope const g{C05_RECV(x) + "," + C05_RECV(y)};
        return (x.value() / 2) == (y.value() / 2);
      });
      return fcppt::make_cref(a);
    });
    // two-container join, every pair of categories
    for (int m : sizes)
    {
      if (!thorough && m == 1) continue;
      auto const mk2 = [m] { return make_seq<vec>(m); };
      std::string const s2 = "vector:" + std::to_string(n) + "+" + std::to_string(m);
      for_cats<'r', 'l', 'c'>([&](auto c1)
      {
        for_cats<'r', 'l', 'c'>([&](auto c2)
        {
          run2<decltype(c1)::value, decltype(c2)::value>("container::join", true, s2, mk_vec, mk2,
              [](auto &&a, auto &&b) { return fcppt::container::join(C05_FWD(a), C05_FWD(b)); });
        });
      });
      // three and four containers: EVERY combination of value categories of every position
      if (m == n || thorough)
      {
        for_cats3([&](auto c1, auto c2, auto c3)
        {
          run3<decltype(c1)::value, decltype(c2)::value, decltype(c3)::value>("container::join", true, s2 + "+2", mk_vec, mk2,
              [] { return make_seq<vec>(2); },
              [](auto &&a, auto &&b, auto &&cc) { return fcppt::container::join(C05_FWD(a), C05_FWD(b), C05_FWD(cc)); });
        });
      }
      if (m == n && (n == 3 || (thorough && n >= 1)))
      {
        for_cats4([&](auto c1, auto c2, auto c3, auto c4)
        {
          run4<decltype(c1)::value, decltype(c2)::value, decltype(c3)::value, decltype(c4)::value>("container::join", true,
              s2 + "+2+1", mk_vec, mk2, [] { return make_seq<vec>(2); }, [] { return make_seq<vec>(1); },
              [](auto &&a, auto &&b, auto &&cc, auto &&d) { return fcppt::container::join(C05_FWD(a), C05_FWD(b), C05_FWD(cc), C05_FWD(d)); });
        });
      }
    }
    // get_or_insert: map<int, T> (inout), the created element comes from the continuation
    for (int key : {1, 7})
      run1<'m'>("container::get_or_insert", true, shp(key == 1 ? "map-hit:" : "map-miss:", n), [n]
      {
        std::map<int, T> m;
        for (int i = 0; i < n; ++i) m.emplace(i + 1, next_tok());
        return m;
      },
      [key](auto &&a)
      {
        T &r = fcppt::container::get_or_insert(a, key, [](int)
        {
          cb_scope const g{""};
          return T(1000);
        });
        (void)r;
        return fcppt::make_cref(a);
      });
    // container::make: "creates a container from variadic arguments by moving"
    if (n == 3)
    {
      run3<'r', 'r', 'r'>("container::make", true, "3 elements", [] { return T(next_tok()); }, [] { return T(next_tok()); },
          [] { return T(next_tok()); },
          [](auto &&a, auto &&b, auto &&cc) { return fcppt::container::make<vec>(C05_FWD(a), C05_FWD(b), C05_FWD(cc)); });
    }
    // set operations take both sets by const reference
    {
      auto const mk_set = [n]
      {
        std::set<T> s;
        for (int i = 0; i < n; ++i) s.emplace(next_tok());
        return s;
      };
      run2<'c', 'c'>("container::set_union", true, shp("set:", n), mk_set, mk_set,
          [](auto &&a, auto &&b) { return fcppt::container::set_union(a, b); });
      run2<'c', 'c'>("container::set_difference", false, shp("set:", n), mk_set, mk_set,
          [](auto &&a, auto &&b) { return fcppt::container::set_difference(a, b); });
      run2<'c', 'c'>("container::set_intersection", false, shp("set:", n), mk_set, mk_set,
          [](auto &&a, auto &&b) { return fcppt::container::set_intersection(a, b); });
    }
  }
  // move_if_rvalue itself
  run1<'r'>("move_if_rvalue", true, "element", [] { return T(next_tok()); },
            [](auto &&a) { return T(fcppt::move_if_rvalue<decltype(a)>(a)); });
  run1<'l'>("move_if_rvalue", true, "element", [] { return T(next_tok()); },
            [](auto &&a) { return T(fcppt::move_if_rvalue<decltype(a)>(a)); });
  run1<'c'>("move_if_rvalue", true, "element", [] { return T(next_tok()); },
            [](auto &&a) { return T(fcppt::move_if_rvalue<decltype(a)>(a)); });
}

// ------------------------------------------------------------------ selftest: wrong "operations"
// written here (not fcppt code) to show that the judge rejects each kind of violation
void selftest()
{
  auto const mk = [] { return make_seq<vec>(2); };
  // copies an element of an rvalue argument
  run1<'r'>("selftest::copy-of-rvalue-element", true, "", mk, [](auto &&a)
  {
    vec r;
    for (auto const &x : a) r.push_back(x);
    return r;
  });
  // moves out of an lvalue argument
  run1<'l'>("selftest::move-from-lvalue-argument", true, "", mk, [](auto &&a)
  {
    vec r;
    for (auto &x : a) r.push_back(std::move(x));
    return r;
  });
  // reads after move
  run1<'r'>("selftest::read-after-move", true, "", mk, [](auto &&a)
  {
    vec r;
    for (auto &x : a)
    {
      r.push_back(std::move(x));
      (void)x.value();
    }
    return r;
  });
  // loses an element although it keeps all
  run1<'r'>("selftest::element-lost", true, "", mk, [](auto &&a)
  {
    vec r;
    r.push_back(std::move(a.front()));
    return r;
  });
  // hands an lvalue element to the continuation as an rvalue
  run1<'l'>("selftest::lvalue-element-passed-as-rvalue", true, "", mk, [](auto &&a)
  {
    vec r;
    for (auto &x : a) r.push_back(pass(std::move(x)));
    return r;
  });
  // assigns to an element of a const lvalue argument (through a const_cast)
  run1<'c'>("selftest::lvalue-argument-modified", false, "", mk, [](auto &&a)
  {
    T tmp(next_tok());
    const_cast<T &>(a.front()) = std::move(tmp);
    return nothing{};
  });
  // result holds a moved-from object
  run1<'r'>("selftest::result-holds-moved-from-object", false, "", mk, [](auto &&a)
  {
    vec r(std::move(a));
    T sink(std::move(r.front()));
    (void)sink;
    return r;
  });
  // duplicates an rvalue element through a harness-looking but library-level copy of a temporary
  run1<'r'>("selftest::rvalue-element-duplicated", false, "", mk, [](auto &&a)
  {
    vec r;
    T tmp(std::move(a.front()));
    r.push_back(tmp);
    r.push_back(std::move(tmp));
    return r;
  });
  // hands the element of an rvalue argument to a by-value continuation (which consumes it) and then
  // returns the argument itself: the result holds the moved-from object and the value is lost
  run1<'r'>("selftest::consumed-then-returned", true, "", mk, [](auto &&a)
  {
    for (auto &x : a) (void)pass_by_value(std::move(x));
    return vec(std::move(a));
  });
  // moves the same object twice
  run1<'r'>("selftest::moved-twice", false, "", mk, [](auto &&a)
  {
    T first(std::move(a.front()));
    T second(std::move(a.front()));
    (void)first;
    (void)second;
    return nothing{};
  });
  // an acceptable behaviour, for contrast
  run1<'r'>("selftest::ok", true, "", mk, [](auto &&a)
  {
    vec r;
    for (auto &x : a) r.push_back(std::move(x));
    return r;
  });
}
}

int main(int argc, char **argv)
{
  if (argc >= 3 && std::string(argv[1]) == "selftest")
  {
    vj::open(argv[2]);
    selftest();
    vj::close();
    return 0;
  }
  if (argc < 5 || std::string(argv[1]) != "record")
  {
    std::fprintf(stderr, "usage: c05_linear record OUT seed quick|thorough [only] | selftest OUT\n");
    return 3;
  }
  vj::open(argv[2]);
  bool const thorough = std::string(argv[4]) == "thorough";
  if (argc > 5) c05::only_op() = argv[5];
  c05::thorough() = thorough;
  drive_algorithm(thorough);
  c05::drive_values();
  c05::drive_product();
  c05::drive_nested();
  c05::drive_parsers();
  vj::close();
  std::fprintf(stderr, "c05_linear: %ld histories, %ld events\n", c05::history_count(), trk::event_count());
  return 0;
}
