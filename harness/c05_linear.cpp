// C05 conformance harness: runs the registered generic operations of fcppt on containers of
// the instrumented element type (harness/common/tracked.hpp) for small argument shapes and
// every value category of every argument, and records the event log
//   reset, new*, begin(op, keeps, args), {copy, move, copy_assign, move_assign, read, destroy,
//   cb_enter, cb_exit}*, end(result, final contents of the arguments), destroy*
// It contains no expectations: spec/LinearityTrace.tla (TLC) judges the log.
//
//   c05_linear record OUT seed quick|thorough [only-op] [--start N] [--skip op|op] [--seconds N]
//        --start N    histories with index < N are not run (restart after a crash / hang in history N-1)
//        --skip       operations not driven any more; --seconds: watchdog per history
//   c05_linear selftest OUT      deliberately wrong "operations" written in the harness itself
//                                 (the judge must reject each of them: vacuity guard of the judge)
#include "c05_common.hpp"

#include <algorithm>
#include <cstdlib>
#include <cstring>
#include <stdexcept>
#include <string>
#include <utility>
#include <vector>

namespace
{
using namespace c05;
using vec = std::vector<T>;

// ------------------------------------------------------------------ selftest: wrong "operations"
// written here (not fcppt code) to show that the judge rejects each kind of violation
void selftest()
{
  auto const mk = [] { return make_seq<vec>(2); };
  // copies an element of an rvalue argument
  run1<'r'>("selftest::copy-of-rvalue-element", true, "", mk, [](auto &&a)
  {
    vec r;
    for (auto const &x : a) r.push_back(x);
    return r;
  });
  // moves out of an lvalue argument
  run1<'l'>("selftest::move-from-lvalue-argument", true, "", mk, [](auto &&a)
  {
    vec r;
    for (auto &x : a) r.push_back(std::move(x));
    return r;
  });
  // reads after move
  run1<'r'>("selftest::read-after-move", true, "", mk, [](auto &&a)
  {
    vec r;
    for (auto &x : a)
    {
      r.push_back(std::move(x));
      (void)x.value();
    }
    return r;
  });
  // loses an element although it keeps all
  run1<'r'>("selftest::element-lost", true, "", mk, [](auto &&a)
  {
    vec r;
    r.push_back(std::move(a.front()));
    return r;
  });
  // hands an lvalue element to the continuation as an rvalue
  run1<'l'>("selftest::lvalue-element-passed-as-rvalue", true, "", mk, [](auto &&a)
  {
    vec r;
    for (auto &x : a) r.push_back(pass(std::move(x)));
    return r;
  });
  // assigns to an element of a const lvalue argument (through a const_cast)
  run1<'c'>("selftest::lvalue-argument-modified", false, "", mk, [](auto &&a)
  {
    T tmp(next_tok());
    const_cast<T &>(a.front()) = std::move(tmp);
    return nothing{};
  });
  // result holds a moved-from object
  run1<'r'>("selftest::result-holds-moved-from-object", false, "", mk, [](auto &&a)
  {
    vec r(std::move(a));
    T sink(std::move(r.front()));
    (void)sink;
    return r;
  });
  // duplicates an rvalue element through a harness-looking but library-level copy of a temporary
  run1<'r'>("selftest::rvalue-element-duplicated", false, "", mk, [](auto &&a)
  {
    vec r;
    T tmp(std::move(a.front()));
    r.push_back(tmp);
    r.push_back(std::move(tmp));
    return r;
  });
  // hands the element of an rvalue argument to a by-value continuation (which consumes it) and then
  // returns the argument itself: the result holds the moved-from object and the value is lost
  run1<'r'>("selftest::consumed-then-returned", true, "", mk, [](auto &&a)
  {
    for (auto &x : a) (void)pass_by_value(std::move(x));
    return vec(std::move(a));
  });
  // moves the same object twice
  run1<'r'>("selftest::moved-twice", false, "", mk, [](auto &&a)
  {
    T first(std::move(a.front()));
    T second(std::move(a.front()));
    (void)first;
    (void)second;
    return nothing{};
  });
  // an exception escapes the call
  run1<'r'>("selftest::throws", false, "", mk, [](auto &&a) -> vec
  {
    vec r(std::move(a));
    throw std::runtime_error("selftest");
  });
  // copies a value held inside an opaque rvalue argument (only its token is known)
  if (reset("selftest::opaque-copy", "", "r"))
    guarded([]
    {
      std::vector<T> holder;
      holder.emplace_back(next_tok());
      begin("selftest::opaque-copy", false, {opaque('r', {holder.front().raw().tok})});
      std::vector<T> const copy(holder);
      end(nothing{}, {{}});
    });
  // the result holds an object that was never constructed (a bitwise duplicate)
  if (reset("selftest::untracked-result", "", "r"))
    guarded([]
    {
      vec a = make_seq<vec>(1);
      begin("selftest::untracked-result", false, {desc('r', a)});
      trk::emit("{\"e\":\"end\",\"result\":[{\"obj\":" + std::to_string(a.front().raw().id + 1000) + ",\"tok\":1}],\"args\":[{\"objs\":[]}]}");
    });
  // an acceptable behaviour, for contrast
  run1<'r'>("selftest::ok", true, "", mk, [](auto &&a)
  {
    vec r;
    for (auto &x : a) r.push_back(std::move(x));
    return r;
  });
}
}

// the units (separately compiled; a unit that does not compile against the tree under test is replaced by a
// stub from c05_stub.cpp, see checks/c05.py)
namespace c05
{
void drive_algorithm();       // c05_algorithm.cpp
void drive_container();       // c05_algorithm.cpp
void drive_optionals();       // c05_values.cpp
void drive_optionals_multi(); // c05_values.cpp
void drive_eithers();         // c05_values.cpp
void drive_eithers_multi();   // c05_values.cpp
void drive_variants();        // c05_values.cpp
void drive_arrays();          // c05_product.cpp
void drive_tuples();          // c05_product.cpp
void drive_records();         // c05_product.cpp
void drive_grids();           // c05_nested.cpp
void drive_trees();           // c05_nested.cpp
void drive_options_ctor();    // c05_parsers.cpp (in scope: constructors)
void drive_parse_ctor();      // c05_parsers.cpp (in scope: constructors)
void drive_options_parse();   // c05_parsers.cpp (observed only: parse results)
void drive_parse_results();   // c05_parsers.cpp (observed only: parse results)
}

int main(int argc, char **argv)
{
  if (argc >= 3 && std::string(argv[1]) == "selftest")
  {
    vj::open(argv[2]);
    selftest();
    vj::close();
    return 0;
  }
  if (argc < 5 || std::string(argv[1]) != "record")
  {
    std::fprintf(stderr, "usage: c05_linear record OUT seed quick|thorough [only-op] [--start N] [--skip op,op] [--seconds N] | selftest OUT\n");
    return 3;
  }
  vj::open(argv[2]);
  c05::thorough() = std::string(argv[4]) == "thorough";
  trk::history_event_cap() = 5000; // the longest legitimate history has < 200 events (quick), < 1000 (thorough)
  for (int i = 5; i < argc; ++i)
  {
    std::string const a{argv[i]};
    if (a == "--start" && i + 1 < argc) c05::start_history() = std::atol(argv[++i]);
    else if (a == "--seconds" && i + 1 < argc) c05::history_seconds() = static_cast<unsigned>(std::atol(argv[++i]));
    else if (a == "--skip" && i + 1 < argc)
    {
      std::string const list{argv[++i]};
      std::size_t pos = 0;
      while (pos <= list.size())
      {
        std::size_t const next = std::min(list.find('|', pos), list.size());
        if (next > pos) c05::skip_ops().insert(list.substr(pos, next - pos));
        pos = next + 1U;
      }
    }
    else if (i == 5) c05::only_op() = a;
  }
  c05::drive_algorithm();
  c05::drive_container();
  c05::drive_optionals();
  c05::drive_optionals_multi();
  c05::drive_eithers();
  c05::drive_eithers_multi();
  c05::drive_variants();
  c05::drive_arrays();
  c05::drive_tuples();
  c05::drive_records();
  c05::drive_grids();
  c05::drive_trees();
  c05::drive_options_ctor();
  c05::drive_parse_ctor();
  c05::drive_options_parse();
  c05::drive_parse_results();
  ::alarm(0U);
  trk::history_event_cap() = 0;
  trk::emit("{\"e\":\"done\",\"histories\":" + std::to_string(c05::history_count()) + "}");
  vj::close();
  std::fprintf(stderr, "c05_linear: %ld histories, %ld events\n", c05::history_count(), trk::event_count());
  return 0;
}
