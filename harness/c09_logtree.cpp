// C09, second harness: the log context's use of fcppt::container::tree.
// fcppt::log::context keeps its locations in a tree<context_tree_node> (context.cpp) that the
// public API does not expose.  This harness therefore drives, side by side,
//   (1) a context tree of its own through exactly the operations the context uses - the real
//       fcppt::log::impl::find_or_create_child (impl/find_or_create_child.cpp: find_child or
//       push_back(context_tree_node{name, level()})) folded along a location, and the
//       make_pre_order loop of context::set - and dumps it after every step like any other
//       forest (label type "log": name * 10 + level), and
//   (2) a real fcppt::log::context / fcppt::log::object through the public API with the same
//       operations, recording what that API shows of its hidden tree: context::get for a grid
//       of probe locations, object::level() and the object's formatter applied to "m" (the
//       tree_formatter folds make_to_root over the context's node: "a: b: m").
// No expected values: spec/TreeTrace.tla judges the events (operations log_ctor, log_create, log_set
// of spec/Tree.tla).
//
//   c09_logtree record OUT seed histories maxlen
//   c09_logtree replay SCRIPTS.ndjson OUT [stride] [phase]
#include "c09_forest.hpp"

#include <fcppt/make_ref.hpp>
#include <fcppt/string.hpp>
#include <fcppt/text.hpp>
#include <fcppt/enum/array_init.hpp>
#include <fcppt/log/context.hpp>
#include <fcppt/log/level.hpp>
#include <fcppt/log/level_stream.hpp>
#include <fcppt/log/level_stream_array.hpp>
#include <fcppt/log/location.hpp>
#include <fcppt/log/name.hpp>
#include <fcppt/log/object.hpp>
#include <fcppt/log/optional_level.hpp>
#include <fcppt/log/parameters.hpp>
#include <fcppt/log/detail/context_tree.hpp>
#include <fcppt/log/detail/context_tree_node.hpp>
#include <fcppt/log/format/optional_function.hpp>
#include <fcppt/log/impl/find_or_create_child.hpp>

#include <sstream>
#include <type_traits>

namespace fl = fcppt::log;
using node_label = fl::detail::context_tree_node;

static_assert(std::is_same_v<fcppt::string, std::string>, "narrow fcppt::string expected");

namespace
{
long level_code(fl::optional_level const &l)
{
  return l.has_value() ? static_cast<long>(l.get_unsafe()) : 6L;
}

fl::optional_level level_of(long code)
{
  return code == 6 ? fl::optional_level{} : fl::optional_level{static_cast<fl::level>(code)};
}

fl::name name_of(long idx)
{
  return fl::name{idx == 0 ? std::string() : std::string(1, static_cast<char>('a' + idx - 1))};
}

long name_code(fl::name const &n)
{
  std::string const &s = n.get();
  if (s.empty()) return 0;
  return (s.size() == 1 && s[0] >= 'a' && s[0] <= 'i') ? static_cast<long>(s[0] - 'a' + 1) : 99;
}
}

namespace c09
{
template <>
struct label_traits<node_label>
{
  static constexpr char const *name = "log";
  static constexpr bool copyable = false, has_less = false, eq_by_value = false, printable = false;
  static long get(node_label const &v) { return name_code(v.name()) * 10 + level_code(v.level()); }
};
}

namespace
{
using ctree = fl::detail::context_tree;
static_assert(std::is_same_v<ctree, fcppt::container::tree::object<node_label>>, "context_tree is a tree of context_tree_node");

c09::forest<node_label> own;        // slot 1: the harness' own context tree
std::ostringstream sink;            // the level streams of the real context write here
std::optional<fl::context> real;    // the real context, driven through the public API

fl::location location_of(std::vector<int> const &names, std::size_t count)
{
  fl::location loc;
  for (std::size_t i = 0; i < count; ++i) loc /= name_of(names[i]);
  return loc;
}

// find_location_impl of context.cpp, on the harness' own tree
fcppt::reference<ctree> find_location(std::vector<int> const &names)
{
  fcppt::reference<ctree> cur = fcppt::make_ref(*own.slots[1]);
  for (int n : names) cur = fl::impl::find_or_create_child(cur, name_of(n));
  return cur;
}

void exec(c09::Op const &op)
{
  vj::J pre;
  pre.kv("e", "op").kv("lt", "log").kv("op", op.op).kv("as", op.as).kv("ap", op.ap).kv("bs", op.bs).kv("bp", op.bp);
  pre.kv("d", op.d).kv("pos", op.pos).kv("pos2", op.pos2).kv("x", op.x).kv("rv", op.rv).kv("ss", op.ss);
  vj::begin_call(pre.s);
  ctree const *ret = nullptr;
  bool has_ret = false;
  long olvl = -1;
  std::string ofmt;
  if (op.op == "log_ctor")
  {
    own.slots[1].emplace(node_label(name_of(0), level_of(op.x)));
    real.emplace(level_of(op.x), fcppt::enum_::array_init<fl::level_stream_array>([](fl::level) {
                   return fl::level_stream(sink, fl::format::optional_function{});
                 }));
  }
  else if (op.op == "log_create")
  {
    ret = &find_location(op.ss).get();
    has_ret = true;
    // "a log context and a location, in which case its location is the given location plus its name"
    fl::object const obj{
        fcppt::make_ref(*real), location_of(op.ss, op.ss.size() - 1),
        fl::parameters(name_of(op.ss.back()), fl::format::optional_function{})};
    olvl = level_code(obj.level());
    fl::format::optional_function const &f = obj.formatter();
    ofmt = f.has_value() ? f.get_unsafe()(std::string("m")) : std::string("m");
  }
  else if (op.op == "log_set")
  {
    // context::set: for (node : make_pre_order(find_location_impl(location))) node.value().level(level)
    for (ctree &node : fcppt::container::tree::make_pre_order(find_location(op.ss).get()))
      node.value().level(level_of(op.x));
    real->set(location_of(op.ss, op.ss.size()), level_of(op.x));
  }
  else
  {
    std::fprintf(stderr, "unknown op %s\n", op.op.c_str());
    std::exit(3);
  }
  std::string const st = own.state_json();
  // what the public API shows of the real context's tree: get() on a grid of probe locations
  vj::J get('[');
  std::vector<std::vector<int>> probes{{}};
  for (int a = 1; a <= 3; ++a)
  {
    probes.push_back({a});
    for (int b = 1; b <= 3; ++b)
    {
      probes.push_back({a, b});
      if (a == b) probes.push_back({a, b, 1});
    }
  }
  fl::context const &creal = *real;
  for (auto const &p : probes)
    get.el_raw(vj::J().kv("ns", p).kv("l", level_code(creal.get(location_of(p, p.size())))).str());
  std::string rest = ",\"ret\":" + std::to_string(has_ret ? own.ref_of(ret) : -1L);
  rest += ",\"some\":false,\"rb\":false," + st + ",\"get\":" + get.str() + ",\"olvl\":" + std::to_string(olvl) +
          ",\"ofmt\":" + vj::cps(ofmt) + "}";
  vj::end_call(rest);
}

void begin_history(long h) { vj::line(vj::J().kv("e", "reset").kv("h", h).kv("lt", "log")); }

void end_history()
{
  vj::begin_call(vj::J().kv("e", "end").s);
  own.reset_all();
  real.reset();
  vj::end_call("}");
}

c09::Op from_json(vj::V const &v)
{
  c09::Op op;
  op.op = v.str("op");
  op.as = static_cast<int>(v.num_or("as", 0));
  op.d = static_cast<int>(v.num_or("d", 0));
  op.x = v.num_or("x", 0);
  if (v.has("ss")) for (long long q : v.nums("ss")) op.ss.push_back(static_cast<int>(q));
  return op;
}
}

int main(int argc, char **argv)
{
  if (argc < 4)
  {
    std::fprintf(stderr, "usage: c09_logtree record OUT seed histories maxlen | replay SCRIPTS OUT [stride] [phase]\n");
    return 3;
  }
  std::string const mode = argv[1];
  if (mode == "record" && argc >= 6)
  {
    vj::open(argv[2]);
    std::uint64_t const seed = std::strtoull(argv[3], nullptr, 10);
    long const hist = std::strtol(argv[4], nullptr, 10);
    long const maxlen = std::strtol(argv[5], nullptr, 10);
    for (long h = 0; h < hist; ++h)
    {
      vj::Rng r(seed * 7000003ULL + static_cast<std::uint64_t>(h));
      begin_history(h);
      c09::Op ctor;
      ctor.op = "log_ctor";
      ctor.d = 1;
      ctor.x = static_cast<long>(r.below(7));
      exec(ctor);
      long const len = 1 + static_cast<long>(r.below(static_cast<std::uint64_t>(maxlen)));
      for (long i = 0; i < len; ++i)
      {
        own.rebuild_table();
        c09::Op op;
        op.as = 1;
        bool const create = r.below(5) < 3;
        op.op = create ? "log_create" : "log_set";
        op.x = static_cast<long>(r.below(7));
        std::size_t const depth = (create ? 1 : 0) + r.below(3);
        for (std::size_t k = 0; k < depth; ++k) op.ss.push_back(1 + static_cast<int>(r.below(3)));
        if (own.table.size() + depth > c09::max_nodes) op.ss.resize(op.ss.empty() ? 0 : 1); // keep the dump small
        if (create && op.ss.empty()) op.ss.push_back(1);
        exec(op);
      }
      end_history();
    }
    vj::close();
    return 0;
  }
  if (mode == "replay")
  {
    auto lines = vj::read_lines(argv[2]);
    vj::open(argv[3]);
    long const stride = argc >= 5 ? std::strtol(argv[4], nullptr, 10) : 1;
    long const phase = argc >= 6 ? std::strtol(argv[5], nullptr, 10) : 0;
    long h = 0;
    for (auto const &l : lines)
    {
      if ((h++ % (stride < 1 ? 1 : stride)) != phase) continue;
      vj::VP script = vj::parse(l);
      begin_history(h - 1);
      for (auto const &e : script->a) exec(from_json(*e));
      end_history();
    }
    vj::close();
    return 0;
  }
  return 3;
}
