// C14 harness unit "types": operands with DIFFERENT value types (short, int, long).  The result type
// of an operator is the type of the C++ expression on the components (short * int is int, int * long
// is long); a narrower intermediate (e.g. a sum kept in the left operand's type) loses the value.
// Left operands are small (|x| <= 9, they fit every type), right operands are large (|x| <= 16000,
// they do not fit short after a multiplication): every exact result stays below 2^30.
// See c14_common.hpp.
#include <c14_vec.hpp>
#include <c14_matrix.hpp>

namespace
{
using namespace c14;

template <typename T, sz N>
fm::vector::static_<T, N> mk_vec_t(ivec const &v, std::size_t const off)
{
  return [&]<std::size_t... Is>(std::index_sequence<Is...>) {
    return fm::vector::static_<T, N>{static_cast<T>(v[off + Is])...};
  }(std::make_index_sequence<N>{});
}
template <typename T, sz N>
fm::dim::static_<T, N> mk_dim_t(ivec const &v, std::size_t const off)
{
  return [&]<std::size_t... Is>(std::index_sequence<Is...>) {
    return fm::dim::static_<T, N>{static_cast<T>(v[off + Is])...};
  }(std::make_index_sequence<N>{});
}
template <typename T, sz R, sz C>
fm::matrix::static_<T, R, C> mk_mat_t(ivec const &v, std::size_t const off)
{
  return [&]<std::size_t... Rs>(std::index_sequence<Rs...>) {
    return fm::matrix::static_<T, R, C>{mk_vec_t<T, C>(v, off + Rs * C)...};
  }(std::make_index_sequence<R>{});
}

// v: a (N small values), b (N large values)
template <typename L, typename Rt, sz N>
void typed_vectors(char const *types, ivec const &v, int const k)
{
  std::string const aj = vals_vec(v, 0, N), bj = vals_vec(v, N, N);
  auto const a(mk_vec_t<L, N>(v, 0));
  auto const b(mk_vec_t<Rt, N>(v, N));
  vec_binary("vector", std::string("static,static;") + types, aj, bj, a, b);
  vec_binary("vector,dim", std::string("static,static;") + types, aj, bj, a, mk_dim_t<Rt, N>(v, N));
  vec_binary("dim", std::string("static,static;") + types, aj, bj, mk_dim_t<L, N>(v, 0), mk_dim_t<Rt, N>(v, N));
  {
    Rec r("scale");
    r.ks("k", "vector").ks("st", std::string("static;") + types).k("a", aj).ki("k", v[N]).begin();
    auto const res(a * static_cast<Rt>(v[N]));   // vector<L> * scalar of type R
    r.k("r", vj_(res)).end();
  }
  {
    Rec r("scale_left");
    r.ks("k", "vector").ks("st", std::string("static;") + types).k("a", bj).ki("k", k).begin();
    auto const res(static_cast<L>(k) * b);       // scalar of type L * vector<R>
    r.k("r", vj_(res)).end();
  }
  {
    Rec r("scale");
    r.ks("k", "dim").ks("st", std::string("static;") + types).k("a", aj).ki("k", v[N]).begin();
    auto const res(mk_dim_t<L, N>(v, 0) * static_cast<Rt>(v[N]));
    r.k("r", vj_(res)).end();
  }
}

// v: a (M1*N small), b (N*M2 large), vector (N large)
template <typename L, typename Rt, sz M1, sz N, sz M2>
void typed_matrices(char const *grp, char const *types, ivec const &v, int const k)
{
  std::string const aj = vals_mat(v, 0, M1, N), bj = vals_mat(v, M1 * N, N, M2);
  auto const a(mk_mat_t<L, M1, N>(v, 0));
  auto const b(mk_mat_t<Rt, N, M2>(v, M1 * N));
  matrix_product_of(grp, (std::string("static,static;") + types).c_str(), aj, bj, a, b);
  {
    std::string const vecj = vals_vec(v, M1 * N, N);
    Rec r("mvec");
    r.ks("g", grp).ks("st", std::string("static;static;") + types).k("a", aj).k("v", vecj).begin();
    auto const res(a * mk_vec_t<Rt, N>(v, M1 * N));
    r.k("r", vj_(res)).end();
  }
  {
    // same shape: a (M1xN small) and the first M1*N large values
    std::string const b2j = vals_mat(v, M1 * N, M1, N);
    matrix_sum_of(grp, (std::string("static,static;") + types).c_str(), aj, b2j, a, mk_mat_t<Rt, M1, N>(v, M1 * N));
  }
  {
    Rec r("mscale");
    r.ks("g", grp).ks("st", std::string("static;") + types).k("a", aj).ki("k", v[M1 * N]).begin();
    auto const res(a * static_cast<Rt>(v[M1 * N]));
    r.k("r", mj_(res)).end();
  }
  {
    Rec r("mscale_left");
    r.ks("g", grp).ks("st", std::string("static;") + types).k("a", bj).ki("k", k).begin();
    auto const res(static_cast<L>(k) * b);
    r.k("r", mj_(res)).end();
  }
}

ivec small_large(vj::Rng &rng, std::size_t const ns, std::size_t const nl)
{
  ivec v(random_vals(rng, ns, -9, 9));
  ivec const w(random_vals(rng, nl, -16000, 16000));
  v.insert(v.end(), w.begin(), w.end());
  return v;
}

void part_types(vj::Rng &rng, bool const thorough)
{
  unsigned const n = thorough ? 400U : 40U;
  for (unsigned i = 0; i < n; ++i)
  {
    int const k = static_cast<int>(rng.range(-9, 9));
    typed_vectors<short, int, 2>("short,int", small_large(rng, 2, 2), k);
    typed_vectors<short, int, 4>("short,int", small_large(rng, 4, 4), k);
    typed_vectors<int, long, 3>("int,long", small_large(rng, 3, 3), k);
    typed_vectors<signed char, int, 3>("schar,int", small_large(rng, 3, 3), k);
    typed_matrices<short, int, 2, 2, 2>("2x2", "short,int", small_large(rng, 4, 8), k);
    typed_matrices<short, int, 3, 3, 3>("3x3", "short,int", small_large(rng, 9, 18), k);
    typed_matrices<short, int, 4, 4, 4>("4x4", "short,int", small_large(rng, 16, 32), k);
    typed_matrices<int, long, 2, 3, 4>("2x3*3x4", "int,long", small_large(rng, 6, 24), k);
    typed_matrices<signed char, int, 3, 2, 2>("3x2*2x2", "schar,int", small_large(rng, 6, 12), k);
  }
}
}

int main(int argc, char **argv) { return c14::unit_main(argc, argv, "types", 37U, part_types); }
