// C16 conformance harness (extension round): the remaining helpers of fcppt.algorithm,
// fcppt.container, fcppt.array, fcppt.tuple, fcppt.enum_ and fcppt.range, and the exhaustive
// fold / fold_break table enumeration of the thorough tier.
// Drives and records only; spec/AlgorithmsJudge.tla (TLC) is the judge.
#include "c16_common.hpp"

#include <fcppt/make_int_range.hpp>
#include <fcppt/int_range_impl.hpp>
#include <fcppt/int_iterator_impl.hpp>
#include <fcppt/reference.hpp>
#include <fcppt/algorithm/equal.hpp>
#include <fcppt/array/apply.hpp>
#include <fcppt/array/comparison.hpp>
#include <fcppt/array/get.hpp>
#include <fcppt/array/make.hpp>
#include <fcppt/array/object.hpp>
#include <fcppt/array/output.hpp>
#include <fcppt/container/contains.hpp>
#include <fcppt/container/data.hpp>
#include <fcppt/container/data_end.hpp>
#include <fcppt/container/find_opt.hpp>
#include <fcppt/container/find_opt_iterator.hpp>
#include <fcppt/container/index_map.hpp>
#include <fcppt/container/insert.hpp>
#include <fcppt/container/make.hpp>
#include <fcppt/container/maybe_back.hpp>
#include <fcppt/container/maybe_front.hpp>
#include <fcppt/container/output.hpp>
#include <fcppt/container/pop_back.hpp>
#include <fcppt/container/pop_front.hpp>
#include <fcppt/container/size.hpp>
#include <fcppt/enum/array.hpp>
#include <fcppt/enum/array_comparison.hpp>
#include <fcppt/enum/array_init.hpp>
#include <fcppt/enum/array_output.hpp>
#include <fcppt/enum/from_string.hpp>
#include <fcppt/enum/index_of_array.hpp>
#include <fcppt/enum/max_value.hpp>
#include <fcppt/enum/min_value.hpp>
#include <fcppt/enum/names.hpp>
#include <fcppt/enum/size.hpp>
#include <fcppt/enum/to_static.hpp>
#include <fcppt/enum/to_string.hpp>
#include <fcppt/enum/to_string_impl_fwd.hpp>
#include <fcppt/optional/object.hpp>
#include <fcppt/optional/reference.hpp>
#include <fcppt/range/begin.hpp>
#include <fcppt/range/empty.hpp>
#include <fcppt/range/end.hpp>
#include <fcppt/range/from_pair.hpp>
#include <fcppt/range/singular.hpp>
#include <fcppt/range/size.hpp>
#include <fcppt/tuple/apply.hpp>
#include <fcppt/tuple/comparison.hpp>
#include <fcppt/tuple/from_array.hpp>
#include <fcppt/tuple/get.hpp>
#include <fcppt/tuple/init.hpp>
#include <fcppt/tuple/invoke.hpp>
#include <fcppt/tuple/make.hpp>
#include <fcppt/tuple/object.hpp>
#include <fcppt/tuple/output.hpp>

#include <deque>
#include <list>
#include <map>
#include <set>
#include <sstream>
#include <string>
#include <string_view>
#include <unordered_map>
#include <unordered_set>
#include <vector>

namespace c16
{
enum class E1
{
  only,
  fcppt_maximum = only
};
enum class E5
{
  a0,
  a1,
  a2,
  a3,
  a4,
  fcppt_maximum = a4
};
}

// harness-provided names of the enumerators (an input of names / from_string / array output)
namespace fcppt::enum_
{
template <>
struct to_string_impl<c16::E3>
{
  static std::string_view get(c16::E3 const v)
  {
    switch (v)
    {
    case c16::E3::e0: return "e0";
    case c16::E3::e1: return "e1";
    case c16::E3::e2: return "e2";
    }
    return "?";
  }
};
template <>
struct to_string_impl<c16::E1>
{
  static std::string_view get(c16::E1) { return "only"; }
};
template <>
struct to_string_impl<c16::E5>
{
  static std::string_view get(c16::E5 const v)
  {
    static char const *const n[5] = {"a0", "a1", "a2", "a3", "a4"};
    return n[static_cast<int>(v)];
  }
};
}

namespace c16
{
namespace
{
using ivec = std::vector<int>;
using pvec = std::vector<std::pair<int, int>>;

inline std::string ej(E1 x) { return std::to_string(static_cast<int>(x)); }
inline std::string ej(E5 x) { return std::to_string(static_cast<int>(x)); }
inline std::string optj(fcppt::optional::object<int> const &o) { return c16::ej(o); }
template <typename Ref>
std::string optrefj(fcppt::optional::object<Ref> const &o)
{
  return o.has_value() ? "[" + c16::ej(o.get_unsafe().get()) + "]" : std::string("[]");
}
inline std::string textj(std::string const &s) { return seqj(s); }

// ---------------------------------------------------------------- algorithm::equal
template <typename C1, typename C2>
void do_equal(char const *sn, ivec const &a, ivec const &b)
{
  C1 const x(a.begin(), a.end());
  C2 const y(b.begin(), b.end());
  Rec r("equal");
  r.ks("src", sn).k("xs", seqj(a)).k("ys", seqj(b)).begin();
  bool const res = fcppt::algorithm::equal(x, y);
  r.kb("r", res).end();
}

void equal_algos(unsigned const maxlen)
{
  std::vector<ivec> pool;
  each_seq_upto(maxlen, 3, [&](ivec const &v) { pool.push_back(v); });
  for (ivec const &a : pool)
    for (ivec const &b : pool)
    {
      do_equal<std::vector<int>, std::vector<int>>("vector,vector", a, b);
      do_equal<std::list<int>, std::deque<int>>("list,deque", a, b);
    }
}

// ---------------------------------------------------------------- sequence containers
template <typename Cont>
void seq_container_algos(char const *sn, ivec const &v, bool const has_pop_front, bool const has_data)
{
  std::string const xs = seqj(v);
  {
    Cont const c(v.begin(), v.end());
    Rec r("maybe_front");
    r.ks("src", sn).k("xs", xs).begin();
    auto const res(fcppt::container::maybe_front(c));
    r.k("r", optrefj(res)).end();
  }
  {
    Cont const c(v.begin(), v.end());
    Rec r("maybe_back");
    r.ks("src", sn).k("xs", xs).begin();
    auto const res(fcppt::container::maybe_back(c));
    r.k("r", optrefj(res)).end();
  }
  {
    Cont c(v.begin(), v.end());
    Rec r("maybe_front_mut");
    r.ks("src", sn).k("xs", xs).ki("bump", 4).begin();
    auto const res(fcppt::container::maybe_front(c));
    r.k("r", optrefj(res));
    if (res.has_value()) res.get_unsafe().get() += 4;
    r.k("st", seqj(c)).end();
  }
  {
    Cont c(v.begin(), v.end());
    Rec r("maybe_back_mut");
    r.ks("src", sn).k("xs", xs).ki("bump", 6).begin();
    auto const res(fcppt::container::maybe_back(c));
    r.k("r", optrefj(res));
    if (res.has_value()) res.get_unsafe().get() += 6;
    r.k("st", seqj(c)).end();
  }
  {
    Cont c(v.begin(), v.end());
    Rec r("pop_back");
    r.ks("src", sn).k("xs", xs).begin();
    auto const res(fcppt::container::pop_back(c));
    r.k("r", optj(res)).k("st", seqj(c)).end();
  }
  if constexpr (!std::is_same_v<Cont, std::vector<int>>)
  {
    Cont c(v.begin(), v.end());
    Rec r("pop_front");
    r.ks("src", sn).k("xs", xs).begin();
    auto const res(fcppt::container::pop_front(c));
    r.k("r", optj(res)).k("st", seqj(c)).end();
  }
  {
    Cont const c(v.begin(), v.end());
    Rec r("container_size");
    r.ks("src", sn).k("xs", xs).begin();
    auto const res(fcppt::container::size(c));
    r.ki("r", static_cast<long long>(res)).end();
  }
  {
    Cont const c(v.begin(), v.end());
    Rec r("container_output");
    r.ks("src", sn).k("xs", xs).begin();
    std::ostringstream os;
    os << fcppt::container::output(c);
    r.k("r", textj(os.str())).end();
  }
  {
    Cont const c(v.begin(), v.end());
    {
      Rec r("range_empty");
      r.ks("src", sn).k("xs", xs).begin();
      bool const res = fcppt::range::empty(c);
      r.kb("r", res).end();
    }
    {
      Rec r("range_size");
      r.ks("src", sn).k("xs", xs).begin();
      auto const res(fcppt::range::size(c));
      r.ki("r", static_cast<long long>(res)).end();
    }
    {
      Rec r("range_singular");
      r.ks("src", sn).k("xs", xs).begin();
      bool const res = fcppt::range::singular(c);
      r.kb("r", res).end();
    }
    {
      Rec r("range_begin_end");
      r.ks("src", sn).k("xs", xs).begin();
      auto const b(fcppt::range::begin(c));
      auto const e(fcppt::range::end(c));
      long n = 0;
      for (auto it(b); it != e; ++it) ++n;
      r.kb("null", b == e).ki("len", n).k("first", b == e ? std::string("[]") : "[" + c16::ej(*b) + "]").end();
    }
    for (std::size_t i = 0; i <= v.size(); ++i)
      for (std::size_t j = i; j <= v.size(); ++j)
      {
        auto bi(c.begin());
        std::advance(bi, static_cast<std::ptrdiff_t>(i));
        auto ej_(c.begin());
        std::advance(ej_, static_cast<std::ptrdiff_t>(j));
        Rec r("range_from_pair");
        r.ks("src", sn).k("xs", xs).ki("i", static_cast<long long>(i)).ki("j", static_cast<long long>(j)).begin();
        auto const res(fcppt::range::from_pair(std::make_pair(bi, ej_)));
        r.k("r", seqj(res)).end();
      }
  }
  if constexpr (std::is_same_v<Cont, std::vector<int>>)
  {
    Cont c(v.begin(), v.end());
    Rec r("data");
    r.ks("src", sn).k("xs", xs).begin();
    int *const d(fcppt::container::data(c));
    int *const e(fcppt::container::data_end(c));
    r.kb("null", d == nullptr).ki("len", d == nullptr ? 0 : e - d)
        .k("first", d == nullptr ? std::string("[]") : "[" + std::to_string(*d) + "]").end();
    (void)has_data;
  }
  (void)has_pop_front;
}

template <typename Cont>
void do_make(char const *tn, ivec const &v)
{
  // container::make takes its arguments by forwarding reference and moves them into the container
  int a0 = v.size() > 0 ? v[0] : 0, a1 = v.size() > 1 ? v[1] : 0, a2 = v.size() > 2 ? v[2] : 0,
      a3 = v.size() > 3 ? v[3] : 0;
  Rec r("container_make");
  r.ks("tgt", tn).k("xs", seqj(v)).begin();
  Cont res;
  switch (v.size())
  {
  case 0: res = fcppt::container::make<Cont>(); break;
  case 1: res = fcppt::container::make<Cont>(a0); break;
  case 2: res = fcppt::container::make<Cont>(a0, a1); break;
  case 3: res = fcppt::container::make<Cont>(a0, a1, a2); break;
  default: res = fcppt::container::make<Cont>(a0, a1, a2, a3);
  }
  r.k("r", seqj(res)).end();
}

// ---------------------------------------------------------------- associative containers
template <typename Set>
void set_key_algos(char const *sn, ivec const &v)
{
  Set const c(v.begin(), v.end());
  std::string const xs = seqj(v);
  for (int k = -1; k <= 3; ++k)
  {
    {
      Rec r("contains_key");
      r.ks("src", sn).ki("ek", 0).k("xs", xs).ki("k", k).begin();
      bool const res = fcppt::container::contains(c, k);
      r.kb("r", res).end();
    }
    {
      Rec r("container_find_opt");
      r.ks("src", sn).ki("ek", 0).k("xs", xs).ki("k", k).begin();
      auto const res(fcppt::container::find_opt(c, k));
      r.k("r", optrefj(res)).end();
    }
    {
      Set s2(c);
      Rec r("insert_set");
      r.ks("src", sn).k("a", xs).ki("x", k).begin();
      bool const res = fcppt::container::insert(s2, k);
      std::string st = "[";
      bool first = true;
      for (int q = -2; q <= 4; ++q)
        if (s2.count(q) != 0)
        {
          if (!first) st += ',';
          first = false;
          st += std::to_string(q);
        }
      r.kb("r", res).k("st", st + "]").end();
    }
  }
}

template <typename Map>
void map_key_algos(char const *sn, pvec const &ps, bool const ordered)
{
  Map const c(ps.begin(), ps.end());
  std::string const xs = seqj(ps);
  for (int k = -1; k <= 3; ++k)
  {
    {
      Rec r("contains_key");
      r.ks("src", sn).ki("ek", 1).k("xs", xs).ki("k", k).begin();
      bool const res = fcppt::container::contains(c, k);
      r.kb("r", res).end();
    }
    {
      Rec r("container_find_opt");
      r.ks("src", sn).ki("ek", 1).k("xs", xs).ki("k", k).begin();
      auto const res(fcppt::container::find_opt(c, k));
      r.k("r", optrefj(res)).end();
    }
    if (ordered)
    {
      Rec r("container_find_opt_iterator");
      r.ks("src", sn).ki("ek", 1).k("xs", xs).ki("k", k).begin();
      auto const res(fcppt::container::find_opt_iterator(c, k));
      r.k("r", res.has_value() ? "[" + std::to_string(std::distance(c.begin(), res.get_unsafe())) + "]" : std::string("[]"))
          .end();
    }
    for (int x = 0; x <= 2; x += 2)
    {
      Map m2(c);
      Rec r("insert_map");
      r.ks("src", sn).k("m", xs).ki("k", k).ki("x", x).begin();
      bool const res = fcppt::container::insert(m2, std::make_pair(k, x));
      std::string st = "[";
      bool first = true;
      for (int q = -2; q <= 4; ++q)
      {
        auto const it(m2.find(q));
        if (it == m2.end()) continue;
        if (!first) st += ',';
        first = false;
        st += c16::ej(*it);
      }
      r.kb("r", res).k("st", st + "]").end();
    }
  }
}

// ---------------------------------------------------------------- index_map
struct GenF // insert function of index_map::get: the j-th call of one access returns t[j % 3]
{
  std::array<int, 3> t;
  unsigned *n;
  int operator()() const
  {
    lg(std::to_string(*n));
    return t[(*n)++ % 3];
  }
};

void index_map_histories(vj::Rng &rng, unsigned const histories)
{
  for (unsigned h = 0; h < histories; ++h)
  {
    fcppt::container::index_map<int> im{};
    unsigned const steps = 2U + static_cast<unsigned>(rng.below(6));
    for (unsigned s = 0; s < steps; ++s)
    {
      std::size_t const size = im.impl().size();
      std::size_t const idx = rng.below(3) == 0 ? size + rng.below(4) : rng.below(size + 2);
      if (idx > 9) continue;
      int const bump = 3 + static_cast<int>(rng.below(3));
      std::string const pre = seqj(im.impl());
      if (rng.coin())
      {
        UF const tab(static_cast<int>(rng.below(27)));
        unsigned n = 0;
        GenF const g{tab.t, &n};
        Rec r("index_map_get");
        r.ki("h", h).k("xs", pre).ki("i", static_cast<long long>(idx)).k("ft", tab.json()).ki("bump", bump).begin();
        int &res(im.get(idx, fcppt::container::index_map<int>::insert_function{g}));
        r.ki("r", res);
        res += bump;
        r.k("st", seqj(im.impl())).end_calls();
      }
      else
      {
        Rec r("index_map_subscript");
        r.ki("h", h).k("xs", pre).ki("i", static_cast<long long>(idx)).ki("bump", bump).begin();
        int &res(im[idx]);
        r.ki("r", res);
        res += bump;
        r.k("st", seqj(im.impl())).end();
      }
    }
  }
}

// ---------------------------------------------------------------- arrays
template <std::size_t N, std::size_t... Is>
fcppt::array::object<int, N> mk_array(ivec const &v, std::size_t const off, std::index_sequence<Is...>)
{
  return fcppt::array::object<int, N>{v[off + Is]...};
}
template <std::size_t N>
fcppt::array::object<int, N> mk_array(ivec const &v, std::size_t const off = 0)
{
  return mk_array<N>(v, off, std::make_index_sequence<N>{});
}

struct BinF // binary function table {0,1,2}^2 -> {0,1,2}; logs the argument pair
{
  std::array<std::array<int, 3>, 3> t;
  explicit BinF(vj::Rng &rng)
  {
    for (auto &row : t)
      for (auto &x : row) x = static_cast<int>(rng.below(3));
  }
  template <typename A, typename B>
  int operator()(A const &a, B const &b) const
  {
    lg("[" + c16::ej(a) + "," + c16::ej(b) + "]");
    return t[static_cast<std::size_t>(code(a))][static_cast<std::size_t>(code(b))];
  }
  std::string json() const { return seqseqj(t); }
};

template <std::size_t N, std::size_t... Is>
std::string array_get_json(fcppt::array::object<int, N> const &a, std::index_sequence<Is...>)
{
  ivec const g{fcppt::array::get<Is>(a)...};
  return seqj(g);
}

template <std::size_t N, std::size_t... Is>
fcppt::array::object<int, N> array_make_call(ivec const &v, std::index_sequence<Is...>)
{
  return fcppt::array::make(int{v[Is]}...);
}

template <std::size_t N>
void array_ext(vj::Rng &rng)
{
  each_seq(N, 3, [&](ivec const &v) {
    auto a(mk_array<N>(v));
    auto const &ca(a);
    std::string const xs = seqj(v);
    {
      Rec r("array_members");
      r.ki("n", static_cast<long long>(N)).k("xs", xs).begin();
      ivec unsafe, data;
      for (std::size_t i = 0; i < ca.size(); ++i) unsafe.push_back(ca.get_unsafe(i));
      for (std::size_t i = 0; i < N; ++i) data.push_back(ca.data()[i]);
      ivec const iter(ca.begin(), ca.end());
      r.ki("size", static_cast<long long>(ca.size())).k("unsafe", seqj(unsafe)).k("get", array_get_json(ca, std::make_index_sequence<N>{}))
          .k("iter", seqj(iter)).k("data", seqj(data)).end();
    }
    {
      Rec r("array_output");
      r.k("xs", xs).begin();
      std::ostringstream os;
      os << ca;
      r.k("r", textj(os.str())).end();
    }
    if constexpr (N >= 1)
    {
      Rec r("array_make");
      r.k("xs", xs).begin();
      auto const res(array_make_call<N>(v, std::make_index_sequence<N>{}));
      r.k("r", seqj(res)).end();
    }
    {
      Rec r("tuple_from_array");
      r.ks("cat", "lvalue").k("xs", xs).begin();
      auto const res(fcppt::tuple::from_array(ca));
      std::string s = "[";
      [&]<std::size_t... Is>(std::index_sequence<Is...>) {
        bool first = true;
        (void)first;
        ((s += (first ? "" : ","), s += std::to_string(fcppt::tuple::get<Is>(res)), first = false), ...);
      }(std::make_index_sequence<N>{});
      r.k("r", s + "]").end();
    }
  });
  // pairs of arrays: apply, comparison
  each_seq(2 * N, 3, [&](ivec const &v) {
    auto const a(mk_array<N>(v, 0));
    auto const b(mk_array<N>(v, N));
    ivec const va(v.begin(), v.begin() + static_cast<std::ptrdiff_t>(N));
    ivec const vb(v.begin() + static_cast<std::ptrdiff_t>(N), v.end());
    {
      BinF const f(rng);
      Rec r("array_apply");
      r.k("a", seqj(va)).k("b", seqj(vb)).k("ft2", f.json()).begin();
      auto const res(fcppt::array::apply(f, a, b));
      r.k("r", seqj(res)).end_log();
    }
    {
      Rec r("array_eq");
      r.k("a", seqj(va)).k("b", seqj(vb)).begin();
      bool const res = a == b;
      r.kb("r", res).end();
    }
    {
      Rec r("array_ne");
      r.k("a", seqj(va)).k("b", seqj(vb)).begin();
      bool const res = a != b;
      r.kb("r", res).end();
    }
  });
}

// ---------------------------------------------------------------- tuples
template <typename Tuple, std::size_t... Is>
std::string tuple_json(Tuple const &t, std::index_sequence<Is...>)
{
  std::string s = "[";
  bool first = true;
  (void)first;
  ((s += (first ? "" : ","), s += c16::ej(fcppt::tuple::get<Is>(t)), first = false), ...);
  return s + "]";
}
template <typename... Ts>
std::string tuple_json(fcppt::tuple::object<Ts...> const &t)
{
  return tuple_json(t, std::index_sequence_for<Ts...>{});
}

struct InvokeF // logs all arguments as one call, returns t[(sum of the codes) % 3]
{
  std::array<int, 3> t;
  template <typename... Args>
  int operator()(Args const &...args) const
  {
    std::string s = "[";
    bool first = true;
    (void)first;
    int sum = 0;
    ((s += (first ? "" : ","), s += c16::ej(args), first = false, sum += code(args)), ...);
    lg(s + "]");
    return t[static_cast<std::size_t>(sum % 3)];
  }
};

struct TupleInitF
{
  std::array<int, 3> t;
  template <std::size_t I>
  int operator()(std::integral_constant<std::size_t, I>) const
  {
    lg(std::to_string(I));
    return t[I % 3];
  }
};

template <typename Tuple>
void tuple_unary_ext(Tuple const &t, std::string const &xs)
{
  {
    Rec r("tuple_output");
    r.k("xs", xs).begin();
    std::ostringstream os;
    os << t;
    r.k("r", textj(os.str())).end();
  }
  {
    Rec r("tuple_get");
    r.k("xs", xs).begin();
    r.k("get", tuple_json(t)).end();
  }
  for (int idx = 0; idx < 27; idx += 2)
  {
    UF const tab(idx);
    InvokeF const f{tab.t};
    {
      Rec r("tuple_invoke");
      r.ks("cat", "lvalue").k("xs", xs).k("ft", tab.json()).begin();
      int const res = fcppt::tuple::invoke(f, t);
      r.ki("r", res).end_log();
    }
    if (idx % 6 == 0)
    {
      Tuple copy(t);
      Rec r("tuple_invoke");
      r.ks("cat", "rvalue").k("xs", xs).k("ft", tab.json()).begin();
      int const res = fcppt::tuple::invoke(f, std::move(copy));
      r.ki("r", res).end_log();
    }
  }
}

void tuple_ext(vj::Rng &rng)
{
  tuple_unary_ext(fcppt::tuple::object<>{}, "[]");
  each_seq(1, 3, [&](ivec const &v) { tuple_unary_ext(fcppt::tuple::object<long>{static_cast<long>(v[0])}, seqj(v)); });
  each_seq(2, 3, [&](ivec const &v) {
    tuple_unary_ext(fcppt::tuple::object<int, unsigned>{v[0], static_cast<unsigned>(v[1])}, seqj(v));
  });
  each_seq(3, 3, [&](ivec const &v) {
    tuple_unary_ext(fcppt::tuple::object<int, long, int>{v[0], static_cast<long>(v[1]), v[2]}, seqj(v));
  });
  each_seq(4, 3, [&](ivec const &v) {
    tuple_unary_ext(
        fcppt::tuple::object<unsigned, int, int, long>{static_cast<unsigned>(v[0]), v[1], v[2], static_cast<long>(v[3])},
        seqj(v));
  });
  // make
  each_seq(3, 3, [&](ivec const &v) {
    Rec r("tuple_make");
    r.k("xs", seqj(v)).begin();
    auto const res(fcppt::tuple::make(v[0], static_cast<long>(v[1]), static_cast<E3>(v[2])));
    r.k("r", tuple_json(res)).end();
  });
  {
    Rec r("tuple_make");
    r.k("xs", "[]").begin();
    auto const res(fcppt::tuple::make());
    r.k("r", tuple_json(res)).end();
  }
  // init
  for (int idx = 0; idx < 27; ++idx)
  {
    UF const tab(idx);
    TupleInitF const f{tab.t};
    {
      Rec r("tuple_init");
      r.ki("n", 0).k("ft", tab.json()).begin();
      auto const res(fcppt::tuple::init<fcppt::tuple::object<>>(f));
      r.k("r", tuple_json(res)).end_log();
    }
    {
      Rec r("tuple_init");
      r.ki("n", 2).k("ft", tab.json()).begin();
      auto const res(fcppt::tuple::init<fcppt::tuple::object<int, long>>(f));
      r.k("r", tuple_json(res)).end_log();
    }
    {
      Rec r("tuple_init");
      r.ki("n", 5).k("ft", tab.json()).begin();
      auto const res(fcppt::tuple::init<fcppt::tuple::object<int, long, unsigned, int, long>>(f));
      r.k("r", tuple_json(res)).end_log();
    }
  }
  // apply on two tuples of equal size, comparison
  each_seq(6, 3, [&](ivec const &v) {
    fcppt::tuple::object<int, long, E3> const a{v[0], static_cast<long>(v[1]), static_cast<E3>(v[2])};
    fcppt::tuple::object<unsigned, int, long> const b{static_cast<unsigned>(v[3]), v[4], static_cast<long>(v[5])};
    fcppt::tuple::object<int, long, E3> const a2{v[3], static_cast<long>(v[4]), static_cast<E3>(v[5])};
    {
      // tuple::apply only accepts rvalue tuples unless tuple/apply_result.hpp strips the reference
      // (see harness/c16_probe_tuple_apply.cpp): moved copies
      BinF const f(rng);
      fcppt::tuple::object<int, long, E3> ac(a);
      fcppt::tuple::object<unsigned, int, long> bc(b);
      Rec r("tuple_apply");
      r.ks("cat", "rvalue").k("a", tuple_json(a)).k("b", tuple_json(b)).k("ft2", f.json()).begin();
      auto const res(fcppt::tuple::apply(f, std::move(ac), std::move(bc)));
      r.k("r", tuple_json(res)).end_log();
    }
#ifdef C16_TUPLE_APPLY_LVALUE
    if (v[0] == 1)
    {
      BinF const f(rng);
      Rec r("tuple_apply");
      r.ks("cat", "lvalue").k("a", tuple_json(a)).k("b", tuple_json(b)).k("ft2", f.json()).begin();
      auto const res(fcppt::tuple::apply(f, a, b));
      r.k("r", tuple_json(res)).end_log();
    }
#endif
    {
      Rec r("tuple_eq");
      r.k("a", tuple_json(a)).k("b", tuple_json(a2)).begin();
      bool const res = a == a2;
      r.kb("r", res).end();
    }
  });
}

// ---------------------------------------------------------------- enums
template <typename Enum>
std::string names_json()
{
  std::string s = "[";
  for (unsigned i = 0; i < fcppt::enum_::size<Enum>::value; ++i)
  {
    if (i) s += ',';
    s += textj(std::string{fcppt::enum_::to_string_impl<Enum>::get(static_cast<Enum>(i))});
  }
  return s + "]";
}

template <typename Enum>
struct EnumInitF
{
  std::array<int, 3> t;
  template <Enum E>
  int operator()(std::integral_constant<Enum, E>) const
  {
    lg(std::to_string(static_cast<int>(E)));
    return t[static_cast<std::size_t>(E) % 3];
  }
};

template <typename Enum, std::size_t... Is>
fcppt::enum_::array<Enum, int> mk_enum_array(ivec const &v, std::index_sequence<Is...>)
{
  return fcppt::enum_::array<Enum, int>{v[Is]...};
}

template <typename Enum>
void enum_ext(char const *en, unsigned const maxvals)
{
  constexpr std::size_t N = fcppt::enum_::size<Enum>::value;
  std::string const names = names_json<Enum>();
  {
    Rec r("enum_consts");
    r.ks("enum", en).ki("n", static_cast<long long>(N)).begin();
    r.ki("min", static_cast<int>(fcppt::enum_::min_value<Enum>::value)).ki("max", static_cast<int>(fcppt::enum_::max_value<Enum>::value))
        .ki("size", static_cast<long long>(fcppt::enum_::size<Enum>::value)).end();
  }
  {
    Rec r("enum_names");
    r.ks("enum", en).k("names", names).begin();
    auto const res(fcppt::enum_::names<Enum>());
    std::string s = "[";
    bool first = true;
    for (std::string_view const n : res)
    {
      if (!first) s += ',';
      first = false;
      s += textj(std::string{n});
    }
    r.k("r", s + "]").end();
  }
  for (std::string const &str : {std::string("e0"), std::string("e1"), std::string("e2"), std::string("e3"), std::string("a0"),
                                 std::string("a3"), std::string("a4"), std::string("a"), std::string(""), std::string("only"),
                                 std::string("onl"), std::string("only "), std::string("E0")})
  {
    Rec r("enum_from_string");
    r.ks("enum", en).k("names", names).k("s", textj(str)).begin();
    auto const res(fcppt::enum_::from_string<Enum>(str));
    r.k("r", res.has_value() ? "[" + std::to_string(static_cast<int>(res.get_unsafe())) + "]" : std::string("[]")).end();
  }
  for (int idx = 0; idx < 27; ++idx)
  {
    UF const tab(idx);
    {
      EnumInitF<Enum> const f{tab.t};
      Rec r("enum_array_init");
      r.ks("enum", en).ki("n", static_cast<long long>(N)).k("ft", tab.json()).begin();
      auto const res(fcppt::enum_::array_init<fcppt::enum_::array<Enum, int>>(f));
      r.k("r", seqj(res)).end_log();
    }
    for (unsigned e = 0; e < N; ++e)
    {
      EnumInitF<Enum> const f{tab.t};
      Rec r("enum_to_static");
      r.ks("enum", en).ki("n", static_cast<long long>(N)).ki("e", e).k("ft", tab.json()).begin();
      int const res = fcppt::enum_::to_static(static_cast<Enum>(e), f);
      r.ki("r", res).end_log();
    }
  }
  each_seq(static_cast<unsigned>(N), maxvals, [&](ivec const &v) {
    auto arr(mk_enum_array<Enum>(v, std::make_index_sequence<N>{}));
    auto const &carr(arr);
    std::string const xs = seqj(v);
    for (unsigned e = 0; e < N; ++e)
    {
      auto copy(arr);
      Rec r("enum_array_at");
      r.ks("enum", en).k("xs", xs).ki("e", e).ki("bump", 5).begin();
      int &ref(copy[static_cast<Enum>(e)]);
      r.ki("r", ref);
      ref += 5;
      r.k("st", seqj(copy)).end();
    }
    for (int val = -1; val <= 3; ++val)
    {
      Rec r("enum_index_of_array");
      r.ks("enum", en).k("xs", xs).ki("v", val).begin();
      auto const res(fcppt::enum_::index_of_array(carr, val));
      r.k("r", res.has_value() ? "[" + std::to_string(static_cast<int>(res.get_unsafe())) + "]" : std::string("[]")).end();
    }
    {
      Rec r("enum_array_output");
      r.ks("enum", en).k("names", names).k("xs", xs).begin();
      std::ostringstream os;
      os << carr;
      r.k("r", textj(os.str())).end();
    }
    {
      ivec w(v);
      w[w.size() - 1] = (w[w.size() - 1] + 1) % 3;
      auto const other(mk_enum_array<Enum>(w, std::make_index_sequence<N>{}));
      auto const same(mk_enum_array<Enum>(v, std::make_index_sequence<N>{}));
      {
        Rec r("enum_array_eq");
        r.ks("enum", en).k("a", xs).k("b", seqj(w)).begin();
        bool const res = carr == other;
        r.kb("r", res).end();
      }
      {
        Rec r("enum_array_eq");
        r.ks("enum", en).k("a", xs).k("b", xs).begin();
        bool const res = carr == same;
        r.kb("r", res).end();
      }
    }
  });
}

}
}

// entry point of part "extension" (observed-only kinds; see c16_main.cpp)
extern "C" void c16_part_extension(unsigned long long const seed, int const thorough_flag)
{
  using namespace c16;
  bool const thorough = thorough_flag != 0;
  Sel sel(seed, thorough);
  equal_algos(thorough ? 4U : 3U);
  each_seq_upto(thorough ? 5U : 4U, 3, [&](ivec const &v) {
    seq_container_algos<std::vector<int>>("vector", v, false, true);
    seq_container_algos<std::deque<int>>("deque", v, true, false);
    seq_container_algos<std::list<int>>("list", v, true, false);
    if (v.size() <= 4)
    {
      do_make<std::vector<int>>("vector", v);
      do_make<std::list<int>>("list", v);
      do_make<std::set<int>>("set", v);
    }
  });
  // container::size / range functions on a range without size(): int_range
  for (int a = 0; a <= 3; ++a)
    for (int b = a; b <= 3; ++b)
    {
      ivec v;
      for (int i = a; i < b; ++i) v.push_back(i);
      auto const rg(fcppt::make_int_range(a, b));
      {
        Rec r("container_size");
        r.ks("src", "int_range").k("xs", seqj(v)).begin();
        auto const res(fcppt::container::size(rg));
        r.ki("r", static_cast<long long>(res)).end();
      }
      {
        Rec r("range_empty");
        r.ks("src", "int_range").k("xs", seqj(v)).begin();
        bool const res = fcppt::range::empty(rg);
        r.kb("r", res).end();
      }
    }
  for (unsigned mask = 0; mask < 16; ++mask)
  {
    ivec v;
    for (int i = 0; i < 4; ++i)
      if (mask & (1U << i)) v.push_back(i - 1 + (i == 3 ? 1 : 0));
    set_key_algos<std::set<int>>("set", v);
    set_key_algos<std::unordered_set<int>>("unordered_set", v);
  }
  for (unsigned mask = 0; mask < 8; ++mask)
  {
    ivec keys;
    for (int i = 0; i < 3; ++i)
      if (mask & (1U << i)) keys.push_back(i);
    each_seq(static_cast<unsigned>(keys.size()), 3, [&](ivec const &vals) {
      pvec ps;
      for (std::size_t i = 0; i < keys.size(); ++i) ps.emplace_back(keys[i], vals[i]);
      map_key_algos<std::map<int, int>>("map", ps, true);
      map_key_algos<std::unordered_map<int, int>>("unordered_map", ps, false);
    });
  }
  index_map_histories(sel.rng, thorough ? 20000U : 3000U);
  array_ext<0>(sel.rng);
  array_ext<1>(sel.rng);
  array_ext<2>(sel.rng);
  array_ext<3>(sel.rng);
  if (thorough) array_ext<4>(sel.rng);
  tuple_ext(sel.rng);
  enum_ext<E3>("E3", 3);
  enum_ext<E1>("E1", 3);
  enum_ext<E5>("E5", thorough ? 3U : 2U);
}

