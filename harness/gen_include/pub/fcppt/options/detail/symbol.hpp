
#ifndef FCPPT_OPTIONS_DETAIL_SYMBOL_HPP_INCLUDED
#define FCPPT_OPTIONS_DETAIL_SYMBOL_HPP_INCLUDED

#if defined(FCPPT_STATIC_LINK)
#	define FCPPT_OPTIONS_DETAIL_SYMBOL
#elif defined(fcppt_options_EXPORTS)
#	include <fcppt/symbol/export.hpp>
#	define FCPPT_OPTIONS_DETAIL_SYMBOL FCPPT_SYMBOL_EXPORT
#else
#	include <fcppt/symbol/import.hpp>
#	define FCPPT_OPTIONS_DETAIL_SYMBOL FCPPT_SYMBOL_IMPORT
#endif

#endif
