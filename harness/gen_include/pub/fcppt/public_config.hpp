//          Copyright Carl Philipp Reh 2009 - 2010.
// Distributed under the Boost Software License, Version 1.0.
//    (See accompanying file LICENSE_1_0.txt or copy at
//          http://www.boost.org/LICENSE_1_0.txt)


#ifndef FCPPT_PUBLIC_CONFIG_HPP_INCLUDED
#define FCPPT_PUBLIC_CONFIG_HPP_INCLUDED

// All configuration that changes API or ABI is included here

// String config
#define FCPPT_NARROW_STRING

#endif
