//          Copyright Carl Philipp Reh 2009 - 2010.
// Distributed under the Boost Software License, Version 1.0.
//    (See accompanying file LICENSE_1_0.txt or copy at
//          http://www.boost.org/LICENSE_1_0.txt)


#ifndef FCPPT_VERSION_HPP_INCLUDED
#define FCPPT_VERSION_HPP_INCLUDED

// The version consists of three digits for every version "part"
// FCPPT_VERSION / 100000 is the major version,
// FCPPT_VERSION / 1000 % 1000 is the minor version
// FCPPT_VERSION % 1000 is the micro version
#define FCPPT_VERSION 4000000UL

#endif
