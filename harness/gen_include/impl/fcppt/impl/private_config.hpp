//          Copyright Carl Philipp Reh 2009 - 2013.
// Distributed under the Boost Software License, Version 1.0.
//    (See accompanying file LICENSE_1_0.txt or copy at
//          http://www.boost.org/LICENSE_1_0.txt)


#ifndef FCPPT_IMPL_PRIVATE_CONFIG_HPP_INCLUDED
#define FCPPT_IMPL_PRIVATE_CONFIG_HPP_INCLUDED

#define FCPPT_HAVE_GCC_DEMANGLE


#endif
