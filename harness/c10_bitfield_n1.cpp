// C10 harness: the executable for the enum with 1 enumerator, stored in 8/16/32/64-bit
// words (driver and main: c10_bitfield.hpp; compiled a second time, with C10_OBSERVED, by
// c10_bitfield_x1.cpp for the record kinds outside the statement)
#include "c10_bitfield.hpp"

namespace
{
enum class e1
{
  v0,
  fcppt_maximum = v0
};
}

C10_MAIN(e1)
