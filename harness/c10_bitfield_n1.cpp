// C10 harness: instantiations for the enum with 1 enumerator (8/16/32/64-bit words)
#include "c10_bitfield.hpp"

int c10_run_n1(int const w, c10_args const &a) { return run_enum<e1>(w, a); }
