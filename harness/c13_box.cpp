// C13 conformance harness: drives the real fcppt::math::box functions over exhaustively enumerated
// boxes / box pairs / points on a small integer lattice (1-D, 2-D) and seeded random 3-D ones and
// records inputs and outputs (ndjson).  It contains no expected values: spec/BoxJudge.tla (TLC)
// judges every record against the point-set semantics of spec/Box.tla.
//
//   c13_box record OUT tier seed      (tier: quick | thorough)
//   c13_box replay RECORD.json OUT
//
// Records: "box1" = everything about one box a (accessors, constructors, contains_point and
// extend_bounding_box over a list of points, corner_points, center, shrink / stretch_absolute over a
// list of amounts), "box2" = everything about the pairs (a, b) for a list of boxes b (intersects,
// contains(a, b), intersection, extend_bounding_box, distance, ==), "null" = the null box.
// Unsigned coordinate type: amounts that would wrap (shrink beyond max, stretch below 0) and
// distance (negative results) are not driven; logged values are clamped to [-24, 24] (see sat).
#include <common/vjson.hpp>
#include <sys/time.h>

#include <fcppt/math/box/center.hpp>
#include <fcppt/math/box/comparison.hpp>
#include <fcppt/math/box/contains.hpp>
#include <fcppt/math/box/contains_point.hpp>
#include <fcppt/math/box/corner_points.hpp>
#include <fcppt/math/box/distance.hpp>
#include <fcppt/math/box/extend_bounding_box.hpp>
#include <fcppt/math/box/init_dim.hpp>
#include <fcppt/math/box/init_max.hpp>
#include <fcppt/math/box/intersection.hpp>
#include <fcppt/math/box/intersects.hpp>
#include <fcppt/math/box/null.hpp>
#include <fcppt/math/box/object.hpp>
#include <fcppt/math/box/output.hpp>
#include <fcppt/math/box/structure_cast.hpp>
#include <fcppt/math/interval_distance.hpp>
#include <fcppt/cast/size_fun.hpp>
#include <fcppt/math/box/shrink.hpp>
#include <fcppt/math/box/stretch_absolute.hpp>
#include <fcppt/math/dim/init.hpp>
#include <fcppt/math/dim/static.hpp>
#include <fcppt/math/vector/init.hpp>
#include <fcppt/math/vector/static.hpp>
#include <fcppt/tuple/make.hpp>

#include <array>
#include <sstream>
#include <string>
#include <type_traits>
#include <vector>

namespace
{
using ll = long long;
template <std::size_t N>
using tup = std::array<ll, N>;

// ---- per-call watchdog (round 3): every driven call re-arms a CPU-time timer (ITIMER_VIRTUAL: user
// time of this process only, so a loaded machine cannot fire it); a call that spins for WD_SECS of CPU
// ends the process with a {"e":"crash","what":"hang"} line and rc 68 while the partial line names the call.
constexpr int WD_SECS = 30;
// the function of fcppt::math::box that is being driven inside the current record (a record batches many
// functions): named in the crash line so that the verdict can name the operation
char const *volatile stage = "";
void crash_stage(char const *what, int code)
{
  char buf[240];
  int const n = std::snprintf(buf, sizeof buf, "\n{\"e\":\"crash\",\"what\":\"%s\",\"code\":%d,\"stage\":\"%s\"}\n", what, code, stage);
  if (vj::out_file() != nullptr) std::fflush(vj::out_file());
  if (n > 0)
  {
    ssize_t const r = ::write(vj::out_fd(), buf, static_cast<size_t>(n));
    (void)r;
  }
}
void wd_fire(int) { crash_stage("hang", SIGVTALRM); _exit(68); }
void on_sig_stage(int sig) { crash_stage(sig == SIGALRM ? "hang" : "signal", sig); _exit(sig == SIGALRM ? 68 : 67); }
void on_term_stage() { crash_stage("terminate", 0); _exit(67); }
void open_out(char const *path)
{
  vj::open(path);
  std::set_terminate(on_term_stage);
  for (int sig : {SIGSEGV, SIGBUS, SIGFPE, SIGILL, SIGABRT, SIGALRM}) std::signal(sig, on_sig_stage);
}
void wd_arm()
{
  static bool installed = false;
  if (!installed) { std::signal(SIGVTALRM, wd_fire); installed = true; }
  struct itimerval t{};
  t.it_value.tv_sec = WD_SECS;
  setitimer(ITIMER_VIRTUAL, &t, nullptr);
}
void wd_begin(std::string const &prefix) { wd_arm(); vj::begin_call(prefix); }

// Representation convention (not an expectation): every input coordinate is in [-4, 7] and every amount in
// [0, 2], so nothing the specification can demand lies outside [-6, 11]; logged values are clamped to
// [-SATW, SATW] so that a garbage result (INT_MAX, a wrapped unsigned) reaches the judge as a small wrong
// number (rejected in bounded time) instead of a box with 2^31 lattice points per coordinate.
constexpr ll SATW = 24;
template <typename T>
ll sat(T v)
{
  if constexpr (std::is_unsigned_v<T>)
    return static_cast<unsigned long long>(v) >= static_cast<unsigned long long>(SATW) ? SATW : static_cast<ll>(v);
  else if constexpr (std::is_floating_point_v<T>)
    // integer-valued in every driven call; a fractional or NaN result is logged truncated / as SATW
    return !(v == v) ? SATW : (v > static_cast<T>(SATW) ? SATW : (v < static_cast<T>(-SATW) ? -SATW : static_cast<ll>(v)));
  else
    return static_cast<ll>(v) > SATW ? SATW : (static_cast<ll>(v) < -SATW ? -SATW : static_cast<ll>(v));
}

template <typename T>
char const *tname();
template <>
char const *tname<int>() { return "i32"; }
template <>
char const *tname<unsigned>() { return "u32"; }
// round 3: a 64-bit and a floating-point coordinate type (integer-valued coordinates)
template <>
char const *tname<long>() { return "i64"; }
template <>
char const *tname<double>() { return "f64"; }

template <typename T, std::size_t N>
using box_t = fcppt::math::box::object<T, N>;
template <typename T, std::size_t N>
using vec_t = fcppt::math::vector::static_<T, N>;
template <typename T, std::size_t N>
using dim_t = fcppt::math::dim::static_<T, N>;

template <typename T, std::size_t N>
vec_t<T, N> mkvec(tup<N> const &a)
{
  return fcppt::math::vector::init<vec_t<T, N>>([&a](auto const i) { return static_cast<T>(a[decltype(i)::value]); });
}
template <typename T, std::size_t N>
box_t<T, N> mkbox(tup<N> const &p, tup<N> const &m)
{
  return box_t<T, N>(mkvec<T, N>(p), mkvec<T, N>(m));
}

template <std::size_t N>
std::string js(tup<N> const &a)
{
  std::string s = "[";
  for (std::size_t i = 0; i < N; ++i)
  {
    if (i) s += ',';
    s += std::to_string(a[i]);
  }
  return s + "]";
}
template <std::size_t N, typename V>
std::string jv(V const &v)
{
  std::string s = "[";
  for (std::size_t i = 0; i < N; ++i)
  {
    if (i) s += ',';
    s += std::to_string(sat(v.get_unsafe(i)));
  }
  return s + "]";
}
// a list of JSON values
struct jlist
{
  std::string s = "[";
  bool first = true;
  void add(std::string const &x)
  {
    if (!first) s += ',';
    first = false;
    s += x;
  }
  std::string str() const { return s + "]"; }
};

template <std::size_t N>
using boxin = std::pair<tup<N>, tup<N>>; // pos, max

template <std::size_t N, typename F>
void for_cube(ll lo, ll hi, F const &f)
{
  tup<N> c;
  c.fill(lo);
  if (lo > hi) return;
  for (;;)
  {
    f(c);
    std::size_t i = 0;
    for (; i < N; ++i)
    {
      if (c[i] < hi)
      {
        ++c[i];
        break;
      }
      c[i] = lo;
    }
    if (i == N) return;
  }
}

template <std::size_t N>
std::vector<boxin<N>> all_boxes(ll lo, ll hi)
{
  std::vector<boxin<N>> r;
  for_cube<N>(lo, hi, [&](tup<N> const &p) { for_cube<N>(lo, hi, [&](tup<N> const &m) { r.push_back({p, m}); }); });
  return r;
}

// ------------------------------------------------------------------ one box
template <typename T, std::size_t N>
void op_box1(boxin<N> const &a, std::vector<tup<N>> const &pts, std::vector<tup<N>> const &amounts)
{
  using B = box_t<T, N>;
  jlist jp, ja;
  for (auto const &p : pts) jp.add(js<N>(p));
  for (auto const &v : amounts) ja.add(js<N>(v));
  wd_begin(vj::J().kv("f", "box1").kv("T", tname<T>()).kv("N", static_cast<ll>(N)).raw("ap", js<N>(a.first)).raw("am", js<N>(a.second))
                     .raw("pts", jp.str()).raw("amounts", ja.str()).s);
  stage = "pos_max_size";
  B const b = mkbox<T, N>(a.first, a.second);
  std::string out = ",\"pos\":" + jv<N>(b.pos()) + ",\"max\":" + jv<N>(b.max()) + ",\"size\":" + jv<N>(b.size());
  {
    // the non-const accessors: read through them, then write through them (corners exchanged) and
    // look at the result through the const ones
    B m(b);
    out += ",\"mp\":" + jv<N>(m.pos()) + ",\"mm\":" + jv<N>(m.max());
    B w(b);
    w.pos() = b.max();
    w.max() = b.pos();
    B const &wc = w;
    out += ",\"wp\":" + jv<N>(wc.pos()) + ",\"wm\":" + jv<N>(wc.max()) + ",\"ws\":" + jv<N>(wc.size());
    B v(b);
    v.max() = b.max();
    B const &vc = v;
    out += ",\"vp\":" + jv<N>(vc.pos()) + ",\"vm\":" + jv<N>(vc.max());
  }
  stage = "init_max_init_dim";
  // the other ways to build the same box
  bool proper = true;
  for (std::size_t i = 0; i < N; ++i) proper = proper && a.first[i] <= a.second[i];
  B const im = fcppt::math::box::init_max<B>(
      [&a](auto const i) { return fcppt::tuple::make(static_cast<T>(a.first[decltype(i)::value]), static_cast<T>(a.second[decltype(i)::value])); });
  out += ",\"imp\":" + jv<N>(im.pos()) + ",\"imm\":" + jv<N>(im.max());
  if (proper || std::is_signed_v<T>)
  {
    B const id = fcppt::math::box::init_dim<B>([&a](auto const i) {
      return fcppt::tuple::make(static_cast<T>(a.first[decltype(i)::value]), static_cast<T>(a.second[decltype(i)::value] - a.first[decltype(i)::value]));
    });
    tup<N> sz;
    for (std::size_t i = 0; i < N; ++i) sz[i] = a.second[i] - a.first[i];
    B const pd(mkvec<T, N>(a.first), fcppt::math::dim::init<dim_t<T, N>>([&sz](auto const i) { return static_cast<T>(sz[decltype(i)::value]); }));
    out += ",\"idp\":[" + jv<N>(id.pos()) + "],\"idm\":[" + jv<N>(id.max()) + "],\"pdp\":[" + jv<N>(pd.pos()) + "],\"pdm\":[" + jv<N>(pd.max()) + "]";
  }
  else
    out += ",\"idp\":[],\"idm\":[],\"pdp\":[],\"pdm\":[]";
  stage = "corner_points";
  jlist corners;
  for (auto const &c : fcppt::math::box::corner_points(b)) corners.add(jv<N>(c));
  out += ",\"corners\":" + corners.str();
  stage = "center";
  out += ",\"center\":" + jv<N>(fcppt::math::box::center(b));
  jlist cp, epp, epm;
  for (auto const &p : pts)
  {
    auto const v = mkvec<T, N>(p);
    stage = "contains_point";
    cp.add(fcppt::math::box::contains_point(b, v) ? "1" : "0");
    stage = "extend_bounding_box_point";
    B const e = fcppt::math::box::extend_bounding_box(b, v);
    epp.add(jv<N>(e.pos()));
    epm.add(jv<N>(e.max()));
  }
  out += ",\"cp\":" + cp.str() + ",\"epp\":" + epp.str() + ",\"epm\":" + epm.str();
  jlist shv, shp, shm, stv, stp, stm;
  for (auto const &v : amounts)
  {
    bool sh_ok = true, st_ok = true;
    if (std::is_unsigned_v<T>)
      for (std::size_t i = 0; i < N; ++i)
      {
        sh_ok = sh_ok && v[i] <= a.second[i];
        st_ok = st_ok && v[i] <= a.first[i];
      }
    auto const vv = mkvec<T, N>(v);
    if (sh_ok)
    {
      stage = "shrink";
      B const s = fcppt::math::box::shrink(b, vv);
      shv.add(js<N>(v));
      shp.add(jv<N>(s.pos()));
      shm.add(jv<N>(s.max()));
    }
    if (st_ok)
    {
      stage = "stretch_absolute";
      B const s = fcppt::math::box::stretch_absolute(b, vv);
      stv.add(js<N>(v));
      stp.add(jv<N>(s.pos()));
      stm.add(jv<N>(s.max()));
    }
  }
  out += ",\"shv\":" + shv.str() + ",\"shp\":" + shp.str() + ",\"shm\":" + shm.str() + ",\"stv\":" + stv.str() + ",\"stp\":" + stp.str() + ",\"stm\":" + stm.str();
  // extension: structure_cast to a box over long long (every value is representable) and operator<<
  {
    stage = "structure_cast_output";
    using L = box_t<long long, N>;
    std::string scs = "[", scm = "[";
    if constexpr (std::is_integral_v<T>)
    {
    L const sc = fcppt::math::box::structure_cast<L, fcppt::cast::size_fun>(b);
    for (std::size_t i = 0; i < N; ++i)
    {
      if (i) { scs += ','; scm += ','; }
      scs += std::to_string(std::is_unsigned_v<T> ? sat(static_cast<unsigned long long>(sc.pos().get_unsafe(i))) : sat(sc.pos().get_unsafe(i)));
      scm += std::to_string(std::is_unsigned_v<T> ? sat(static_cast<unsigned long long>(sc.max().get_unsafe(i))) : sat(sc.max().get_unsafe(i)));
    }
    }
    std::ostringstream os;
    os << b;
    out += ",\"scp\":" + scs + "],\"scm\":" + scm + "],\"text\":" + vj::cps(os.str());
  }
  vj::end_call(out + "}");
}

// ------------------------------------------------------------------ extension: interval_distance itself
// every pair of intervals with ends in lo..hi, both argument orders
void op_interval_distance(ll a1, ll a2, ll lo, ll hi)
{
  wd_begin(vj::J().kv("f", "interval_distance").kv("T", "i32").kv("N", 1).kv("a1", a1).kv("a2", a2).kv("lo", lo).kv("hi", hi).s);
  jlist bs, d12, d21;
  for (ll b1 = lo; b1 <= hi; ++b1)
    for (ll b2 = lo; b2 <= hi; ++b2)
    {
      bs.add("[" + std::to_string(b1) + "," + std::to_string(b2) + "]");
      auto const ia = fcppt::tuple::make(static_cast<int>(a1), static_cast<int>(a2));
      auto const ib = fcppt::tuple::make(static_cast<int>(b1), static_cast<int>(b2));
      d12.add(std::to_string(sat(fcppt::math::interval_distance(ia, ib))));
      d21.add(std::to_string(sat(fcppt::math::interval_distance(ib, ia))));
    }
  vj::end_call(",\"bs\":" + bs.str() + ",\"d12\":" + d12.str() + ",\"d21\":" + d21.str() + "}");
}

// ------------------------------------------------------------------ pairs
// cube == true: bs is all_boxes<N>(lo, hi) in its canonical order (position tuple outer, maximum
// tuple inner, first coordinate fastest); the list itself is then not logged, only lo, hi, its
// length and three probes (index, box) so that the judge can confirm the order it assumes.
template <typename T, std::size_t N>
void op_box2(boxin<N> const &a, std::vector<boxin<N>> const &bs, bool cube, ll lo, ll hi)
{
  using B = box_t<T, N>;
  vj::J head;
  head.kv("f", "box2").kv("T", tname<T>()).kv("N", static_cast<ll>(N)).raw("ap", js<N>(a.first)).raw("am", js<N>(a.second)).kv("cube", cube).kv("lo", lo).kv("hi", hi);
  if (cube)
  {
    jlist pi, pb;
    for (std::size_t k : {std::size_t{1}, bs.size() / 3 + 2, bs.size() - 2})
      if (k < bs.size())
      {
        pi.add(std::to_string(k));
        pb.add("[" + js<N>(bs[k].first) + "," + js<N>(bs[k].second) + "]");
      }
    head.kv("nb", static_cast<ll>(bs.size())).raw("probe_i", pi.str()).raw("probe_b", pb.str()).raw("bs", "[]");
  }
  else
  {
    jlist jb;
    for (auto const &b : bs) jb.add("[" + js<N>(b.first) + "," + js<N>(b.second) + "]");
    head.kv("nb", static_cast<ll>(bs.size())).raw("probe_i", "[]").raw("probe_b", "[]").raw("bs", jb.str());
  }
  wd_begin(head.s);
  B const ba = mkbox<T, N>(a.first, a.second);
  jlist isx, con, inp, inm, exp, exm, dist, eq;
  for (auto const &b : bs)
  {
    B const bb = mkbox<T, N>(b.first, b.second);
    stage = "intersects";
    isx.add(fcppt::math::box::intersects(ba, bb) ? "1" : "0");
    stage = "contains";
    con.add(fcppt::math::box::contains(ba, bb) ? "1" : "0");
    stage = "intersection";
    B const in = fcppt::math::box::intersection(ba, bb);
    inp.add(jv<N>(in.pos()));
    inm.add(jv<N>(in.max()));
    stage = "extend_bounding_box";
    B const ex = fcppt::math::box::extend_bounding_box(ba, bb);
    exp.add(jv<N>(ex.pos()));
    exm.add(jv<N>(ex.max()));
    stage = "distance_comparison";
    if constexpr (std::is_signed_v<T>) dist.add(jv<N>(fcppt::math::box::distance(ba, bb)));
    eq.add(ba == bb ? "1" : "0");
  }
  vj::end_call(",\"isx\":" + isx.str() + ",\"con\":" + con.str() + ",\"inp\":" + inp.str() + ",\"inm\":" + inm.str() + ",\"exp\":" + exp.str() + ",\"exm\":" +
               exm.str() + ",\"dist\":" + dist.str() + ",\"eq\":" + eq.str() + "}");
}

template <typename T, std::size_t N>
void op_null()
{
  wd_begin(vj::J().kv("f", "null").kv("T", tname<T>()).kv("N", static_cast<ll>(N)).s);
  auto const b = fcppt::math::box::null<box_t<T, N>>();
  vj::end_call(",\"pos\":" + jv<N>(b.pos()) + ",\"max\":" + jv<N>(b.max()) + ",\"size\":" + jv<N>(b.size()) + "}");
}

// ------------------------------------------------------------------ enumeration
template <typename T, std::size_t N>
void exhaustive(ll lo, ll hi)
{
  auto const boxes = all_boxes<N>(lo, hi);
  std::vector<tup<N>> pts, amounts;
  for_cube<N>(std::is_unsigned_v<T> && lo == 0 ? 0 : lo - 1, hi + 1, [&](tup<N> const &p) { pts.push_back(p); });
  for_cube<N>(0, 2, [&](tup<N> const &v) { amounts.push_back(v); });
  op_null<T, N>();
  for (auto const &a : boxes) op_box1<T, N>(a, pts, amounts);
  for (auto const &a : boxes) op_box2<T, N>(a, boxes, true, lo, hi);
}

template <typename T>
void random3(vj::Rng &rng, int count, ll lo, ll hi)
{
  constexpr std::size_t N = 3;
  auto const rt = [&] {
    tup<N> t;
    for (auto &x : t) x = rng.range(lo, hi);
    return t;
  };
  auto const rbox = [&] {
    boxin<N> b{rt(), rt()};
    // three quarters of the boxes are made non-empty (swap / widen), the rest stays arbitrary
    if (rng.below(4) != 0)
      for (std::size_t i = 0; i < N; ++i)
      {
        if (b.first[i] > b.second[i]) std::swap(b.first[i], b.second[i]);
        if (b.first[i] == b.second[i])
        {
          if (b.second[i] < hi) ++b.second[i];
          else --b.first[i];
        }
      }
    return b;
  };
  op_null<T, N>();
  for (int k = 0; k < count; ++k)
  {
    auto const a = rbox();
    std::vector<tup<N>> pts, amounts;
    for (int i = 0; i < 40; ++i)
    {
      tup<N> p;
      for (auto &x : p) x = rng.range(std::is_unsigned_v<T> && lo == 0 ? 0 : lo - 1, hi + 1);
      pts.push_back(p);
    }
    for (int i = 0; i < 6; ++i)
    {
      tup<N> v;
      for (auto &x : v) x = rng.range(0, 2);
      amounts.push_back(v);
    }
    op_box1<T, N>(a, pts, amounts);
    std::vector<boxin<N>> bs;
    for (int i = 0; i < 20; ++i) bs.push_back(rbox());
    bs.push_back(a);
    op_box2<T, N>(a, bs, false, lo, hi);
  }
}

template <typename T, std::size_t N>
void replay_tn(vj::V const &v)
{
  auto const get = [](vj::V const &x) {
    tup<N> t;
    for (std::size_t i = 0; i < N; ++i) t[i] = x.a.at(i)->n;
    return t;
  };
  std::string const f = v.str("f");
  if (f == "null") return op_null<T, N>();
  boxin<N> const a{get(v.at("ap")), get(v.at("am"))};
  if (f == "box1")
  {
    std::vector<tup<N>> pts, amounts;
    for (auto const &p : v.at("pts").a) pts.push_back(get(*p));
    for (auto const &p : v.at("amounts").a) amounts.push_back(get(*p));
    return op_box1<T, N>(a, pts, amounts);
  }
  if (f == "box2")
  {
    std::vector<boxin<N>> bs;
    bool const cube = v.at("cube").b;
    if (cube)
      bs = all_boxes<N>(v.num("lo"), v.num("hi"));
    else
      for (auto const &b : v.at("bs").a) bs.push_back({get(*b->a.at(0)), get(*b->a.at(1))});
    return op_box2<T, N>(a, bs, cube, v.num("lo"), v.num("hi"));
  }
  throw std::runtime_error("replay: unknown f " + f);
}
template <typename T>
void replay_t(vj::V const &v)
{
  switch (v.num("N"))
  {
  case 1: return replay_tn<T, 1>(v);
  case 2: return replay_tn<T, 2>(v);
  case 3: return replay_tn<T, 3>(v);
  default: throw std::runtime_error("replay: bad N");
  }
}
}

int main(int argc, char **argv)
{
  if (argc < 4)
  {
    std::fprintf(stderr, "usage: c13_box record OUT tier seed | replay RECORD OUT\n");
    return 3;
  }
  std::string const mode = argv[1];
  alarm(1500);
  if (mode == "record")
  {
    open_out(argv[2]);
    bool const thorough = std::string(argv[3]) == "thorough";
    // round 3: `record OUT tier seed SECTION` drives one section (1..13) only; the check runs every section in
    // its own process, so that a call that kills the process does not hide the other sections
    int const sec = argc > 5 ? std::atoi(argv[5]) : 0;
    auto const on = [sec](int const k) { return sec == 0 || sec == k; };
    std::uint64_t const seed = argc > 4 ? std::strtoull(argv[4], nullptr, 10) : 1;
    if (on(1)) exhaustive<int, 1>(-3, 3);
    if (on(2)) exhaustive<unsigned, 1>(0, 6);
    if (on(3)) exhaustive<int, 2>(thorough ? -3 : -2, thorough ? 3 : 2);
    if (on(4)) exhaustive<unsigned, 2>(0, 4);
    // extension: 3-D exhaustive (thorough: corners in [-1,1], 729 boxes, 531 441 pairs; quick: [0,1])
    if (on(5)) exhaustive<int, 3>(thorough ? -1 : 0, 1);
    if (on(6)) exhaustive<unsigned, 3>(0, 1);
    if (on(7))
    {
      vj::Rng r7(seed * 1000003ULL + 7U);
      random3<int>(r7, thorough ? 3000 : 300, -3, 3);
    }
    if (on(8))
    {
      vj::Rng r8(seed * 1000003ULL + 8U);
      random3<unsigned>(r8, thorough ? 1000 : 100, 0, 6);
    }
    // round 3: 64-bit and floating-point coordinates
    if (on(10)) { exhaustive<long, 1>(-2, 2); exhaustive<long, 2>(-1, 1); }
    if (on(11)) { exhaustive<double, 1>(-2, 2); exhaustive<double, 2>(-1, 1); }
    if (on(12))
    {
      vj::Rng r12(seed * 1000003ULL + 12U);
      random3<long>(r12, thorough ? 600 : 100, -3, 3);
    }
    if (on(13))
    {
      vj::Rng r13(seed * 1000003ULL + 13U);
      random3<double>(r13, thorough ? 600 : 100, -3, 3);
    }
    // observed only (outside the statement of C13): driven last
    if (on(9))
      for (ll a1 = -3; a1 <= 3; ++a1)
        for (ll a2 = -3; a2 <= 3; ++a2) op_interval_distance(a1, a2, -3, 3);
    vj::close();
    return 0;
  }
  if (mode == "replay")
  {
    auto const lines = vj::read_lines(argv[2]);
    open_out(argv[3]);
    for (auto const &l : lines)
    {
      auto const v = vj::parse(l);
      if (v->str("f") == "interval_distance")
      {
        op_interval_distance(v->num("a1"), v->num("a2"), v->num("lo"), v->num("hi"));
        continue;
      }
      if (v->str("T") == "i32") replay_t<int>(*v);
      else if (v->str("T") == "i64") replay_t<long>(*v);
      else if (v->str("T") == "f64") replay_t<double>(*v);
      else replay_t<unsigned>(*v);
    }
    vj::close();
    return 0;
  }
  return 3;
}
