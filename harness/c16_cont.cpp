// C16 conformance harness (parts "containers", "arrays", "tuples": fcppt.container helpers,
// fcppt::array, fcppt::tuple).  Drives and records only; spec/AlgorithmsJudge.tla (TLC) is the judge.
//
// checks/c16.py compiles this file three times, once per section (-DC16_SECTION_CONTAINERS,
// -DC16_SECTION_ARRAYS, -DC16_SECTION_TUPLES), so that a section whose fcppt headers no longer
// compile against a changed tree does not take the other two with it.  Without any of the macros
// all three sections are compiled.
#if !defined(C16_SECTION_CONTAINERS) && !defined(C16_SECTION_ARRAYS) && !defined(C16_SECTION_TUPLES)
#define C16_SECTION_CONTAINERS
#define C16_SECTION_ARRAYS
#define C16_SECTION_TUPLES
#endif

#include "c16_common.hpp"

#ifdef C16_SECTION_CONTAINERS
#include <fcppt/make_ref.hpp>
#include <fcppt/reference.hpp>
#include <fcppt/container/at_optional.hpp>
#include <fcppt/container/find_opt_mapped.hpp>
#include <fcppt/container/get_or_insert.hpp>
#include <fcppt/container/join.hpp>
#include <fcppt/container/key_set.hpp>
#include <fcppt/container/map_values_copy.hpp>
#include <fcppt/container/map_values_ref.hpp>
#include <fcppt/container/set_difference.hpp>
#include <fcppt/container/set_intersection.hpp>
#include <fcppt/container/set_union.hpp>
#include <fcppt/optional/object.hpp>
#include <fcppt/optional/reference.hpp>
#endif
#ifdef C16_SECTION_ARRAYS
#include <fcppt/array/append.hpp>
#include <fcppt/array/from_range.hpp>
#include <fcppt/array/init.hpp>
#include <fcppt/array/join.hpp>
#include <fcppt/array/map.hpp>
#include <fcppt/array/object.hpp>
#include <fcppt/array/push_back.hpp>
#include <fcppt/optional/object.hpp>
#endif
#ifdef C16_SECTION_TUPLES
#include <fcppt/tuple/concat.hpp>
#include <fcppt/tuple/get.hpp>
#include <fcppt/tuple/map.hpp>
#include <fcppt/tuple/object.hpp>
#include <fcppt/tuple/push_back.hpp>
#endif

#include <deque>
#include <list>
#include <map>
#include <set>
#include <string>
#include <tuple>
#include <unordered_map>
#include <vector>

namespace c16
{
namespace
{
using ivec = std::vector<int>;
using pvec = std::vector<std::pair<int, int>>;

#ifdef C16_SECTION_CONTAINERS
// ---------------------------------------------------------------- container::join
template <typename Cont, typename Seq>
Cont mk(Seq const &v)
{
  return Cont(v.begin(), v.end());
}

template <typename Cont, typename Seq>
void do_join(char const *kind, char const *sn, std::vector<Seq> const &parts)
{
  std::string cs = "[";
  for (std::size_t i = 0; i < parts.size(); ++i)
  {
    if (i) cs += ',';
    cs += seqj(parts[i]);
  }
  cs += ']';
  for (int cat = 0; cat < 2; ++cat)
  {
    Cont a(mk<Cont>(parts[0]));
    Cont const b(parts.size() > 1 ? mk<Cont>(parts[1]) : Cont());
    Cont c(parts.size() > 2 ? mk<Cont>(parts[2]) : Cont());
    Rec r("join");
    r.ks("kind", kind).ks("src", sn).ks("cat", cat == 0 ? "lvalue" : "rvalue").k("cs", cs).begin();
    Cont res;
    switch (parts.size())
    {
    case 1: res = cat == 0 ? fcppt::container::join(a) : fcppt::container::join(std::move(a)); break;
    case 2: res = cat == 0 ? fcppt::container::join(a, b) : fcppt::container::join(std::move(a), b); break;
    default:
      res = cat == 0 ? fcppt::container::join(a, b, c) : fcppt::container::join(std::move(a), b, std::move(c));
    }
    r.k("r", seqj(res)).end();
  }
}

// join(a, a) and join(a, b, a): the first container is also one of the inserted ones (lvalues)
template <typename Cont, typename Seq>
void do_join_same(char const *kind, char const *sn, Seq const &pa, Seq const &pb)
{
  {
    Cont a(mk<Cont>(pa));
    Rec r("join");
    r.ks("kind", kind).ks("src", sn).ks("cat", "same").k("cs", "[" + seqj(pa) + "," + seqj(pa) + "]").begin();
    Cont const res(fcppt::container::join(a, a));
    r.k("r", seqj(res)).end();
  }
  {
    Cont a(mk<Cont>(pa));
    Cont const b(mk<Cont>(pb));
    Rec r("join");
    r.ks("kind", kind).ks("src", sn).ks("cat", "same").k("cs", "[" + seqj(pa) + "," + seqj(pb) + "," + seqj(pa) + "]").begin();
    Cont const res(fcppt::container::join(a, b, a));
    r.k("r", seqj(res)).end();
  }
}

// (round 3 audit) join of 4 and 5 containers (the variadic recursion of detail::join_all goes deeper
// than with the <= 3 arguments above), lvalues, rvalues and a mix
template <typename Cont>
void do_join_many(char const *kind, char const *sn, std::vector<ivec> const &parts)
{
  std::string cs = "[";
  for (std::size_t i = 0; i < parts.size(); ++i)
  {
    if (i) cs += ',';
    cs += seqj(parts[i]);
  }
  cs += ']';
  for (int cat = 0; cat < 3; ++cat)
  {
    Cont a(mk<Cont>(parts[0])), b(mk<Cont>(parts[1])), c(mk<Cont>(parts[2])), d(mk<Cont>(parts[3]));
    Cont e(parts.size() > 4 ? mk<Cont>(parts[4]) : Cont());
    Cont const &cb(b);
    Rec r("join");
    r.ks("kind", kind).ks("src", sn).ks("cat", cat == 0 ? "lvalue" : cat == 1 ? "rvalue" : "mixed").k("cs", cs).begin();
    Cont res;
    if (parts.size() == 4)
      res = cat == 0   ? fcppt::container::join(a, cb, c, d)
            : cat == 1 ? fcppt::container::join(std::move(a), std::move(b), std::move(c), std::move(d))
                       : fcppt::container::join(a, std::move(b), c, std::move(d));
    else
      res = cat == 0   ? fcppt::container::join(a, cb, c, d, e)
            : cat == 1 ? fcppt::container::join(std::move(a), std::move(b), std::move(c), std::move(d), std::move(e))
                       : fcppt::container::join(std::move(a), cb, std::move(c), d, std::move(e));
    r.k("r", seqj(res)).end();
  }
}

void join_many_algos(bool const thorough)
{
  vj::Rng rng(4711U);
  for (unsigned k = 0; k < (thorough ? 200U : 40U); ++k)
  {
    std::vector<ivec> parts, sets;
    unsigned const n = 4U + k % 2U;
    for (unsigned i = 0; i < n; ++i)
    {
      ivec v, sv;
      unsigned const len = static_cast<unsigned>(rng.below(k % 5U == 0 ? 12U : 4U));
      for (unsigned j = 0; j < len; ++j) v.push_back(static_cast<int>(rng.below(3)));
      for (int x = 0; x < 6; ++x)
        if (rng.below(3) == 0) sv.push_back(x);
      parts.push_back(v);
      sets.push_back(sv);
    }
    do_join_many<std::vector<int>>("seq", "vector", parts);
    do_join_many<std::list<int>>("seq", "list", parts);
    do_join_many<std::deque<int>>("seq", "deque", parts);
    do_join_many<std::set<int>>("set", "set", sets);
  }
}

// joins of 3 and 4 maps with keys 0..5 (an existing key keeps its mapped value)
void join_maps_many()
{
  vj::Rng rng(555U);
  for (unsigned k = 0; k < 40U; ++k)
  {
    std::vector<pvec> parts;
    std::string cs = "[";
    for (unsigned i = 0; i < 3U + k % 2U; ++i)
    {
      pvec ps;
      for (int key = 0; key < 6; ++key)
        if (rng.below(2) == 0) ps.emplace_back(key, static_cast<int>(rng.below(3)));
      if (i) cs += ',';
      cs += seqj(ps);
      parts.push_back(ps);
    }
    cs += ']';
    using map_t = std::map<int, int>;
    map_t a(parts[0].begin(), parts[0].end());
    map_t const b(parts[1].begin(), parts[1].end());
    map_t c(parts[2].begin(), parts[2].end());
    Rec r("join");
    r.ks("kind", "map").ks("src", "map").ks("cat", k % 3U == 0 ? "lvalue" : "mixed").k("cs", cs).begin();
    map_t res;
    if (parts.size() == 3)
      res = k % 3U == 0 ? fcppt::container::join(a, b, c) : fcppt::container::join(std::move(a), b, std::move(c));
    else
    {
      map_t d(parts[3].begin(), parts[3].end());
      res = k % 3U == 0 ? fcppt::container::join(a, b, c, d) : fcppt::container::join(a, b, std::move(c), std::move(d));
    }
    r.k("r", seqj(res)).end();
  }
}

void join_algos(bool thorough)
{
  std::vector<ivec> pool;
  each_seq_upto(thorough ? 3U : 2U, 3, [&](ivec const &v) { pool.push_back(v); });
  unsigned const n = static_cast<unsigned>(pool.size());
  each_seq_upto(3, n, [&](ivec const &idx) {
    if (idx.empty()) return;
    if (idx.size() == 3 && !thorough && (idx[0] + 2 * idx[1] + 3 * idx[2]) % 5 != 0) return;
    std::vector<ivec> parts;
    for (int i : idx) parts.push_back(pool[static_cast<std::size_t>(i)]);
    do_join<std::vector<int>>("seq", "vector", parts);
    if (idx.size() == 2)
    {
      do_join_same<std::vector<int>>("seq", "vector", parts[0], parts[1]);
      do_join_same<std::deque<int>>("seq", "deque", parts[0], parts[1]);
      do_join_same<std::list<int>>("seq", "list", parts[0], parts[1]);
    }
    if (idx.size() <= 2 || thorough)
    {
      do_join<std::list<int>>("seq", "list", parts);
      do_join<std::deque<int>>("seq", "deque", parts);
    }
    bool all_sets = true;
    for (ivec const &p : parts)
      for (std::size_t i = 1; i < p.size(); ++i)
        if (p[i - 1] >= p[i]) all_sets = false;
    if (all_sets) do_join<std::set<int>>("set", "set", parts);
  });
  // maps: keys {0,1,2}, values {0,1,2}
  std::vector<pvec> maps;
  for (unsigned mask = 0; mask < 8; ++mask)
  {
    ivec keys;
    for (int i = 0; i < 3; ++i)
      if (mask & (1U << i)) keys.push_back(i);
    each_seq(static_cast<unsigned>(keys.size()), 3, [&](ivec const &vals) {
      pvec ps;
      for (std::size_t i = 0; i < keys.size(); ++i) ps.emplace_back(keys[i], vals[i]);
      maps.push_back(ps);
    });
  }
  for (pvec const &a : maps)
    for (pvec const &b : maps)
    {
      std::vector<pvec> const parts{a, b};
      do_join<std::map<int, int>>("map", "map", parts);
    }
}

// ---------------------------------------------------------------- at_optional
template <typename Cont>
void do_at_optional(char const *sn, ivec const &v)
{
  Cont c(v.begin(), v.end());
  std::string const xs = seqj(v);
  std::vector<std::size_t> idxs;
  for (std::size_t i = 0; i <= v.size() + 2; ++i) idxs.push_back(i);
  idxs.push_back(2147483647U);
  // (round 3 audit) indices that only a 64-bit size_type can hold: an intermediate of a narrower type
  // maps 2^32 + k to k; to_signed(2^63 + k) is negative.  The record carries the index clamped to 2^30
  // (TLC integers are 32-bit; every index >= the size is "out of range" for the specification).
  if constexpr (sizeof(std::size_t) > 4)
  {
    std::size_t const two32 = static_cast<std::size_t>(1) << 32U;
    idxs.push_back(two32);
    if (!v.empty()) idxs.push_back(two32 + v.size() - 1U);
    idxs.push_back((static_cast<std::size_t>(1) << 63U) + (v.size() % 2U));
    idxs.push_back(static_cast<std::size_t>(-1) - (v.size() % 3U));
  }
  for (std::size_t const i : idxs)
  {
    {
      // the result is a reference into the container: add `bump` through it and log the contents
      Cont c2(v.begin(), v.end());
      Rec r("at_optional_mut");
      r.ks("src", sn).k("xs", xs).ki("i", static_cast<long long>(i)).ki("bump", 7).begin();
      auto const res(fcppt::container::at_optional(c2, i));
      r.k("r", res.has_value() ? "[" + ej(res.get_unsafe().get()) + "]" : std::string("[]"));
      if (res.has_value()) res.get_unsafe().get() += 7;
      r.k("st", seqj(c2)).end();
    }
    {
      Cont const &cc(c);
      Rec r("at_optional");
      r.ks("src", sn).ks("cat", "const").k("xs", xs).ki("i", static_cast<long long>(i)).begin();
      auto const res(fcppt::container::at_optional(cc, i));
      r.k("r", res.has_value() ? "[" + ej(res.get_unsafe().get()) + "]" : std::string("[]")).end();
    }
  }
}

// ---------------------------------------------------------------- maps
template <typename Map>
std::string map_state(Map const &m)
{
  // presentation of the final state in key order (also for unordered maps)
  std::string s = "[";
  bool first = true;
  for (int k = -2; k <= 5; ++k)
  {
    auto const it(m.find(k));
    if (it == m.end()) continue;
    if (!first) s += ',';
    first = false;
    s += ej(*it);
  }
  return s + "]";
}

// create function of get_or_insert: a table, logs the key it is called with and whether that key
// is already in the map at that moment
template <typename Map>
struct CreateF
{
  UF f;
  Map const *m;
  std::string *present;
  int operator()(int const key) const
  {
    if (!present->empty()) *present += ',';
    *present += m->find(key) != m->end() ? "true" : "false";
    return f(key);
  }
};

template <typename Map>
void map_algos(char const *sn, pvec const &ps)
{
  std::string const mj = seqj(ps);
  Map const base(ps.begin(), ps.end());
  for (int k = -1; k <= 3; ++k)
  {
    {
      Map m(base);
      Rec r("find_opt_mapped_mut");
      r.ks("src", sn).k("m", mj).ki("k", k).ki("bump", 5).begin();
      auto const res(fcppt::container::find_opt_mapped(m, k));
      r.k("r", res.has_value() ? "[" + ej(res.get_unsafe().get()) + "]" : std::string("[]"));
      if (res.has_value()) res.get_unsafe().get() += 5;
      r.k("st", map_state(m)).end();
    }
    {
      Rec r("find_opt_mapped");
      r.ks("src", sn).ks("cat", "const").k("m", mj).ki("k", k).begin();
      auto const res(fcppt::container::find_opt_mapped(base, k));
      r.k("r", res.has_value() ? "[" + ej(res.get_unsafe().get()) + "]" : std::string("[]")).end();
    }
  }
  for (int k = 0; k <= 2; ++k)
    for (int idx = 0; idx < 27; idx += (k == 1 ? 1 : 4))
    {
      int const bump = 3 + idx % 2;
      {
        Map m(base);
        std::string present;
        CreateF<Map> const f{UF(idx), &m, &present};
        Rec r("get_or_insert");
        r.ks("src", sn).k("m", mj).ki("k", k).k("ft", f.f.json()).ki("bump", bump).begin();
        int &res(fcppt::container::get_or_insert(m, k, f));
        r.ki("elem", res);
        res += bump;
        r.k("present", "[" + present + "]").k("st", map_state(m)).end_log();
      }
    }
}

void ordered_map_algos(pvec const &ps)
{
  std::string const mj = seqj(ps);
  std::map<int, int> m(ps.begin(), ps.end());
  {
    Rec r("key_set");
    r.ks("tgt", "set").k("m", mj).begin();
    auto const res(fcppt::container::key_set<std::set<int>>(m));
    r.k("r", seqj(res)).end();
  }
  {
    Rec r("map_values_copy");
    r.ks("tgt", "vector").k("m", mj).begin();
    auto const res(fcppt::container::map_values_copy<std::vector<int>>(m));
    r.k("r", seqj(res)).end();
  }
  {
    std::unordered_map<int, int> const um(ps.begin(), ps.end());
    Rec r("key_set");
    r.ks("src", "unordered_map").ks("tgt", "set").k("m", mj).begin();
    auto const res(fcppt::container::key_set<std::set<int>>(um));
    r.k("r", seqj(res)).end();
  }
  {
    Rec r("map_values_copy");
    r.ks("tgt", "deque").k("m", mj).begin();
    auto const res(fcppt::container::map_values_copy<std::deque<int>>(m));
    r.k("r", seqj(res)).end();
  }
  {
    Rec r("map_values_copy");
    r.ks("tgt", "list").k("m", mj).begin();
    auto const res(fcppt::container::map_values_copy<std::list<int>>(m));
    r.k("r", seqj(res)).end();
  }
  {
    // references to the mapped objects: add 10 (i + 1) through the i-th one and log the map
    std::map<int, int> m2(m);
    Rec r("map_values_ref_mut");
    r.ks("tgt", "vector").k("m", mj).begin();
    auto const res(fcppt::container::map_values_ref<std::vector<fcppt::reference<int>>>(m2));
    std::string s = "[";
    for (std::size_t i = 0; i < res.size(); ++i)
    {
      if (i) s += ',';
      s += ej(res[i].get());
    }
    for (std::size_t i = 0; i < res.size(); ++i) res[i].get() += 10 * static_cast<int>(i + 1);
    r.k("r", s + "]").k("st", seqj(m2)).end();
  }
  {
    std::map<int, int> const &cm(m);
    Rec r("map_values_ref");
    r.ks("tgt", "vector_const").k("m", mj).begin();
    auto const res(fcppt::container::map_values_ref<std::vector<fcppt::reference<int const>>>(cm));
    std::string s = "[";
    for (std::size_t i = 0; i < res.size(); ++i)
    {
      if (i) s += ',';
      s += ej(res[i].get());
    }
    r.k("r", s + "]").end();
  }
}

// ---------------------------------------------------------------- set algebra
void set_ops(ivec const &va, ivec const &vb);

void set_algos(int universe)
{
  unsigned const n = 1U << universe;
  for (unsigned ma = 0; ma < n; ++ma)
    for (unsigned mb = 0; mb < n; ++mb)
    {
      ivec va, vb;
      for (int i = 0; i < universe; ++i)
      {
        if (ma & (1U << i)) va.push_back(i);
        if (mb & (1U << i)) vb.push_back(i);
      }
      set_ops(va, vb);
    }
  // (round 3 audit) sets of up to 16 elements, negative elements included
  vj::Rng rng(99U);
  for (unsigned k = 0; k < 60U; ++k)
  {
    ivec va, vb;
    for (int x = -5; x <= 10; ++x)
    {
      if (rng.below(k % 3U + 2U) == 0) va.push_back(x);
      if (rng.below(k % 4U + 2U) == 0) vb.push_back(x);
    }
    set_ops(va, vb);
    set_ops(va, va);
  }
}

void set_ops(ivec const &va, ivec const &vb)
{
    {
      std::set<int> const a(va.begin(), va.end());
      std::set<int> const b(vb.begin(), vb.end());
      std::string const aj = seqj(va), bj = seqj(vb);
      {
        Rec r("set_union");
        r.k("a", aj).k("b", bj).begin();
        auto const res(fcppt::container::set_union(a, b));
        r.k("r", seqj(res)).end();
      }
      {
        Rec r("set_intersection");
        r.k("a", aj).k("b", bj).begin();
        auto const res(fcppt::container::set_intersection(a, b));
        r.k("r", seqj(res)).end();
      }
      {
        Rec r("set_difference");
        r.k("a", aj).k("b", bj).begin();
        auto const res(fcppt::container::set_difference(a, b));
        r.k("r", seqj(res)).end();
      }
    }
}

#endif // C16_SECTION_CONTAINERS

#ifdef C16_SECTION_ARRAYS
// ---------------------------------------------------------------- arrays
template <std::size_t N, std::size_t... Is>
fcppt::array::object<int, N> mk_array(ivec const &v, std::size_t const off, std::index_sequence<Is...>)
{
  return fcppt::array::object<int, N>{v[off + Is]...};
}
template <std::size_t N>
fcppt::array::object<int, N> mk_array(ivec const &v, std::size_t const off = 0)
{
  return mk_array<N>(v, off, std::make_index_sequence<N>{});
}

struct IdxF // array::init function: static index -> table value, logs the index
{
  std::array<int, 3> t;
  explicit IdxF(int idx) : t{idx % 3, (idx / 3) % 3, (idx / 9) % 3} {}
  template <std::size_t I>
  int operator()(std::integral_constant<std::size_t, I>) const
  {
    lg(std::to_string(I));
    return t[I % 3];
  }
  std::string json() const { return seqj(t); }
};

template <std::size_t N>
void array_unary()
{
  for (int idx = 0; idx < 27; ++idx)
  {
    IdxF const f(idx);
    Rec r("array_init");
    r.ki("n", static_cast<long long>(N)).k("ft", f.json()).begin();
    auto const res(fcppt::array::init<fcppt::array::object<int, N>>(f));
    r.k("r", seqj(res)).end_log();
  }
  each_seq(N, 3, [&](ivec const &v) {
    std::string const xs = seqj(v);
    for (int idx = 0; idx < 27; ++idx)
    {
      {
        auto const a(mk_array<N>(v));
        UF const f(idx);
        Rec r("array_map");
        r.ks("cat", "lvalue").k("xs", xs).k("ft", f.json()).begin();
        auto const res(fcppt::array::map(a, f));
        r.k("r", seqj(res)).end_log();
      }
      if (idx % 3 == 0)
      {
        auto a(mk_array<N>(v));
        UF const f(idx);
        Rec r("array_map");
        r.ks("cat", "rvalue").k("xs", xs).k("ft", f.json()).begin();
        auto const res(fcppt::array::map(std::move(a), f));
        r.k("r", seqj(res)).end_log();
      }
    }
    for (int x = 0; x <= 2; ++x)
    {
#ifdef C16_APPEND_LVALUE
      {
        auto const a(mk_array<N>(v));
        Rec r("array_push_back");
        r.ks("cat", "lvalue").k("a", xs).ki("x", x).begin();
        auto const res(fcppt::array::push_back(a, x));
        r.k("r", seqj(res)).end();
      }
#endif
      {
        auto a(mk_array<N>(v));
        Rec r("array_push_back");
        r.ks("cat", "rvalue").k("a", xs).ki("x", x).begin();
        auto const res(fcppt::array::push_back(std::move(a), int{x}));
        r.k("r", seqj(res)).end();
      }
    }
  });
}

template <std::size_t N, std::size_t M>
void array_binary()
{
  each_seq(N + M, 3, [&](ivec const &v) {
    ivec const va(v.begin(), v.begin() + static_cast<std::ptrdiff_t>(N));
    ivec const vb(v.begin() + static_cast<std::ptrdiff_t>(N), v.end());
#ifdef C16_APPEND_LVALUE
    {
      auto const a(mk_array<N>(v));
      auto const b(mk_array<M>(v, N));
      Rec r("array_append");
      r.ks("cat", "lvalue").k("a", seqj(va)).k("b", seqj(vb)).begin();
      auto const res(fcppt::array::append(a, b));
      r.k("r", seqj(res)).end();
    }
#endif
    {
      auto a(mk_array<N>(v));
      auto b(mk_array<M>(v, N));
      Rec r("array_append");
      r.ks("cat", "rvalue").k("a", seqj(va)).k("b", seqj(vb)).begin();
      auto const res(fcppt::array::append(std::move(a), std::move(b)));
      r.k("r", seqj(res)).end();
    }
  });
}

template <std::size_t A, std::size_t B, std::size_t C>
void array_ternary()
{
  each_seq(A + B + C, 3, [&](ivec const &v) {
    ivec const va(v.begin(), v.begin() + static_cast<std::ptrdiff_t>(A));
    ivec const vb(v.begin() + static_cast<std::ptrdiff_t>(A), v.begin() + static_cast<std::ptrdiff_t>(A + B));
    ivec const vc(v.begin() + static_cast<std::ptrdiff_t>(A + B), v.end());
    std::string const as = "[" + seqj(va) + "," + seqj(vb) + "," + seqj(vc) + "]";
#ifdef C16_APPEND_LVALUE
    {
      auto const a(mk_array<A>(v));
      auto const b(mk_array<B>(v, A));
      auto const c(mk_array<C>(v, A + B));
      Rec r("array_join");
      r.ks("cat", "lvalue").k("as", as).begin();
      auto const res(fcppt::array::join(a, b, c));
      r.k("r", seqj(res)).end();
    }
    {
      auto a(mk_array<A>(v));
      auto const b(mk_array<B>(v, A));
      auto c(mk_array<C>(v, A + B));
      Rec r("array_join");
      r.ks("cat", "mixed").k("as", as).begin();
      auto const res(fcppt::array::join(std::move(a), b, std::move(c)));
      r.k("r", seqj(res)).end();
    }
#endif
    {
      auto a(mk_array<A>(v));
      auto b(mk_array<B>(v, A));
      auto c(mk_array<C>(v, A + B));
      Rec r("array_join");
      r.ks("cat", "rvalue").k("as", as).begin();
      auto const res(fcppt::array::join(std::move(a), std::move(b), std::move(c)));
      r.k("r", seqj(res)).end();
    }
  });
}

// (round 3 audit) join of 1, 2, 4 and 5 arrays (array::detail::join recurses over append from the left),
// seeded element values
template <std::size_t... Ns, std::size_t... Is>
void array_join_sampled_one(ivec const &v, std::index_sequence<Is...>)
{
  constexpr std::size_t sizes[] = {Ns...};
  std::size_t offs[sizeof...(Ns) + 1U] = {0};
  for (std::size_t i = 0; i < sizeof...(Ns); ++i) offs[i + 1U] = offs[i] + sizes[i];
  std::string as = "[";
  for (std::size_t i = 0; i < sizeof...(Ns); ++i)
  {
    if (i) as += ',';
    as += seqj(ivec(v.begin() + static_cast<std::ptrdiff_t>(offs[i]), v.begin() + static_cast<std::ptrdiff_t>(offs[i + 1U])));
  }
  as += ']';
  {
    Rec r("array_join");
    r.ks("cat", "rvalue").ki("arity", static_cast<long long>(sizeof...(Ns))).k("as", as).begin();
    auto const res(fcppt::array::join(mk_array<Ns>(v, offs[Is])...));
    r.k("r", seqj(res)).end();
  }
#ifdef C16_APPEND_LVALUE
  {
    std::tuple<fcppt::array::object<int, Ns>...> const arrs{mk_array<Ns>(v, offs[Is])...};
    Rec r("array_join");
    r.ks("cat", "lvalue").ki("arity", static_cast<long long>(sizeof...(Ns))).k("as", as).begin();
    auto const res(fcppt::array::join(std::get<Is>(arrs)...));
    r.k("r", seqj(res)).end();
  }
#endif
}

template <std::size_t... Ns>
void array_join_sampled(vj::Rng &rng, unsigned const count)
{
  for (unsigned k = 0; k < count; ++k)
  {
    ivec v;
    for (std::size_t i = 0; i < (Ns + ... + 0U) + 1U; ++i) v.push_back(static_cast<int>(rng.below(3)));
    array_join_sampled_one<Ns...>(v, std::make_index_sequence<sizeof...(Ns)>{});
  }
}

// arrays beyond the exhaustive bound: seeded samples of map / push_back / init
template <std::size_t N>
void array_unary_sampled(vj::Rng &rng, unsigned const count)
{
  for (int idx = 1; idx < 27; idx += 5)
  {
    IdxF const f(idx);
    Rec r("array_init");
    r.ki("n", static_cast<long long>(N)).k("ft", f.json()).begin();
    auto const res(fcppt::array::init<fcppt::array::object<int, N>>(f));
    r.k("r", seqj(res)).end_log();
  }
  for (unsigned k = 0; k < count; ++k)
  {
    ivec v;
    for (std::size_t i = 0; i < N; ++i) v.push_back(static_cast<int>(rng.below(3)));
    std::string const xs = seqj(v);
    for (int idx = static_cast<int>(rng.below(4)); idx < 27; idx += 4)
    {
      {
        auto const a(mk_array<N>(v));
        UF const f(idx);
        Rec r("array_map");
        r.ks("cat", "lvalue").k("xs", xs).k("ft", f.json()).begin();
        auto const res(fcppt::array::map(a, f));
        r.k("r", seqj(res)).end_log();
      }
      {
        auto a(mk_array<N>(v));
        UF const f(idx);
        Rec r("array_map");
        r.ks("cat", "rvalue").k("xs", xs).k("ft", f.json()).begin();
        auto const res(fcppt::array::map(std::move(a), f));
        r.k("r", seqj(res)).end_log();
      }
    }
    int const x = static_cast<int>(rng.below(3));
    {
      auto a(mk_array<N>(v));
      Rec r("array_push_back");
      r.ks("cat", "rvalue").k("a", xs).ki("x", x).begin();
      auto const res(fcppt::array::push_back(std::move(a), int{x}));
      r.k("r", seqj(res)).end();
    }
#ifdef C16_APPEND_LVALUE
    {
      auto const a(mk_array<N>(v));
      Rec r("array_push_back");
      r.ks("cat", "lvalue").k("a", xs).ki("x", x).begin();
      auto const res(fcppt::array::push_back(a, x));
      r.k("r", seqj(res)).end();
    }
#endif
  }
}

template <std::size_t N, typename Cont>
void do_from_range(char const *sn, ivec const &v)
{
  {
    Cont const c(v.begin(), v.end());
    Rec r("array_from_range");
    r.ks("src", sn).ks("cat", "lvalue").ki("n", static_cast<long long>(N)).k("xs", seqj(v)).begin();
    auto const res(fcppt::array::from_range<N>(c));
    r.k("r", res.has_value() ? "[" + seqj(res.get_unsafe()) + "]" : std::string("[]")).end();
  }
  {
    Cont c(v.begin(), v.end());
    Rec r("array_from_range");
    r.ks("src", sn).ks("cat", "rvalue").ki("n", static_cast<long long>(N)).k("xs", seqj(v)).begin();
    auto const res(fcppt::array::from_range<N>(std::move(c)));
    r.k("r", res.has_value() ? "[" + seqj(res.get_unsafe()) + "]" : std::string("[]")).end();
  }
}

// from_range<N> beyond N = 3: seeded sequences of length N - 1, N, N + 1
template <std::size_t N>
void from_range_sampled(vj::Rng &rng, unsigned const count)
{
  for (std::size_t len = N - 1U; len <= N + 1U; ++len)
    for (unsigned k = 0; k < count; ++k)
    {
      ivec v;
      for (std::size_t i = 0; i < len; ++i) v.push_back(static_cast<int>(rng.below(3)));
      do_from_range<N, std::vector<int>>("vector", v);
      do_from_range<N, std::deque<int>>("deque", v);
    }
}

template <std::size_t N>
void from_range_algos()
{
  each_seq_upto(N + 2, 3, [&](ivec const &v) {
    do_from_range<N, std::vector<int>>("vector", v);
    do_from_range<N, std::deque<int>>("deque", v);
  });
}

#endif // C16_SECTION_ARRAYS

#ifdef C16_SECTION_TUPLES
// ---------------------------------------------------------------- tuples
template <typename Tuple, std::size_t... Is>
std::string tuple_json(Tuple const &t, std::index_sequence<Is...>)
{
  std::string s = "[";
  bool first = true;
  (void)first;
  ((s += (first ? "" : ","), s += ej(fcppt::tuple::get<Is>(t)), first = false), ...);
  return s + "]";
}
template <typename... Ts>
std::string tuple_json(fcppt::tuple::object<Ts...> const &t)
{
  return tuple_json(t, std::index_sequence_for<Ts...>{});
}

template <typename Tuple>
void do_tuple_unary(Tuple const &t, std::string const &xs)
{
  for (int idx = 0; idx < 27; ++idx)
  {
    {
      UF const f(idx);
      Rec r("tuple_map");
      r.ks("cat", "lvalue").k("xs", xs).k("ft", f.json()).begin();
      auto const res(fcppt::tuple::map(t, f));
      r.k("r", tuple_json(res)).end_log();
    }
    if (idx % 3 == 1)
    {
      Tuple copy(t);
      UF const f(idx);
      Rec r("tuple_map");
      r.ks("cat", "rvalue").k("xs", xs).k("ft", f.json()).begin();
      auto const res(fcppt::tuple::map(std::move(copy), f));
      r.k("r", tuple_json(res)).end_log();
    }
  }
  for (int x = 0; x <= 2; ++x)
  {
    {
      Rec r("tuple_push_back");
      r.ks("cat", "lvalue").k("a", xs).ki("x", x).begin();
      auto const res(fcppt::tuple::push_back(t, x));
      r.k("r", tuple_json(res)).end();
    }
    {
      Tuple copy(t);
      Rec r("tuple_push_back");
      r.ks("cat", "rvalue").k("a", xs).ki("x", x).begin();
      auto const res(fcppt::tuple::push_back(std::move(copy), static_cast<long>(x)));
      r.k("r", tuple_json(res)).end();
    }
  }
}

void tuple_algos()
{
  do_tuple_unary(fcppt::tuple::object<>{}, "[]");
  each_seq(1, 3, [&](ivec const &v) { do_tuple_unary(fcppt::tuple::object<long>{static_cast<long>(v[0])}, seqj(v)); });
  each_seq(2, 3, [&](ivec const &v) {
    do_tuple_unary(fcppt::tuple::object<int, unsigned>{v[0], static_cast<unsigned>(v[1])}, seqj(v));
  });
  each_seq(3, 3, [&](ivec const &v) {
    do_tuple_unary(fcppt::tuple::object<int, long, E3>{v[0], static_cast<long>(v[1]), static_cast<E3>(v[2])}, seqj(v));
  });
  each_seq(4, 3, [&](ivec const &v) {
    do_tuple_unary(
        fcppt::tuple::object<unsigned, int, int, long>{static_cast<unsigned>(v[0]), v[1], v[2], static_cast<long>(v[3])},
        seqj(v));
  });
  // (round 3 audit) tuples beyond 4 elements (seeded) ...
  {
    vj::Rng rng(31337U);
    for (unsigned k = 0; k < 10; ++k)
    {
      ivec v;
      for (unsigned i = 0; i < 7; ++i) v.push_back(static_cast<int>(rng.below(3)));
      ivec const w(v.begin(), v.begin() + 5);
      do_tuple_unary(
          fcppt::tuple::object<int, long, E3, unsigned, int>{
              v[0], static_cast<long>(v[1]), static_cast<E3>(v[2]), static_cast<unsigned>(v[3]), v[4]},
          seqj(w));
      do_tuple_unary(
          fcppt::tuple::object<long, int, int, E3, unsigned, int, long>{
              static_cast<long>(v[0]), v[1], v[2], static_cast<E3>(v[3]), static_cast<unsigned>(v[4]), v[5],
              static_cast<long>(v[6])},
          seqj(v));
      // ... and concat of 4 and 5 tuples
      using ta = fcppt::tuple::object<int, long>;
      using tb = fcppt::tuple::object<E3>;
      using tc = fcppt::tuple::object<unsigned, int, int>;
      using te = fcppt::tuple::object<>;
      ta const a{v[0], static_cast<long>(v[1])};
      tb const b{static_cast<E3>(v[2])};
      tc const c{static_cast<unsigned>(v[3]), v[4], v[5]};
      std::string const aj = tuple_json(a), bj = tuple_json(b), cj = tuple_json(c);
      {
        Rec r("tuple_concat");
        r.ki("arity", 4).k("ts", "[" + bj + "," + aj + "," + cj + "," + bj + "]").begin();
        auto const res(fcppt::tuple::concat(tb(b), ta(a), tc(c), tb(b)));
        r.k("r", tuple_json(res)).end();
      }
      {
        Rec r("tuple_concat");
        r.ki("arity", 5).k("ts", "[" + aj + ",[]," + cj + "," + aj + "," + bj + "]").begin();
        auto const res(fcppt::tuple::concat(ta(a), te{}, tc(c), ta(a), tb(b)));
        r.k("r", tuple_json(res)).end();
      }
#ifdef C16_CONCAT_LVALUE
      {
        Rec r("tuple_concat");
        r.ks("cat", "lvalue").ki("arity", 4).k("ts", "[" + cj + "," + aj + "," + bj + "," + cj + "]").begin();
        auto const res(fcppt::tuple::concat(c, a, b, c));
        r.k("r", tuple_json(res)).end();
      }
#endif
    }
  }
  // concat of 0..3 tuples
  {
    Rec r("tuple_concat");
    r.k("ts", "[]").begin();
    auto const res(fcppt::tuple::concat());
    r.k("r", tuple_json(res)).end();
  }
  // tuple::concat only accepts non-const rvalue tuples (its enable_if tests is_object<Tuples> without
  // remove_cvref, so lvalue arguments do not compile): every argument is a moved copy
  each_seq(6, 3, [&](ivec const &v) {
    using ta = fcppt::tuple::object<int, long>;
    using tb = fcppt::tuple::object<E3>;
    using tc = fcppt::tuple::object<unsigned, int, int>;
    using te = fcppt::tuple::object<>;
    ta const a{v[0], static_cast<long>(v[1])};
    tb const b{static_cast<E3>(v[2])};
    tc const c{static_cast<unsigned>(v[3]), v[4], v[5]};
    std::string const aj = tuple_json(a), bj = tuple_json(b), cj = tuple_json(c);
    {
      Rec r("tuple_concat");
      r.k("ts", "[" + aj + "," + bj + "," + cj + "]").begin();
      auto const res(fcppt::tuple::concat(ta(a), tb(b), tc(c)));
      r.k("r", tuple_json(res)).end();
    }
    {
      Rec r("tuple_concat");
      r.k("ts", "[" + cj + ",[]," + aj + "]").begin();
      auto const res(fcppt::tuple::concat(tc(c), te{}, ta(a)));
      r.k("r", tuple_json(res)).end();
    }
#ifdef C16_CONCAT_LVALUE
    {
      tc c2(c);
      Rec r("tuple_concat");
      r.ks("cat", "lvalue").k("ts", "[" + aj + "," + cj + "," + bj + "]").begin();
      auto const res(fcppt::tuple::concat(a, c2, b));
      r.k("r", tuple_json(res)).end();
    }
#endif
    if (v[3] == 0 && v[4] == 0 && v[5] == 0)
    {
      {
        Rec r("tuple_concat");
        r.k("ts", "[" + bj + "," + aj + "]").begin();
        auto const res(fcppt::tuple::concat(tb(b), ta(a)));
        r.k("r", tuple_json(res)).end();
      }
      {
        Rec r("tuple_concat");
        r.k("ts", "[" + aj + "]").begin();
        auto const res(fcppt::tuple::concat(ta(a)));
        r.k("r", tuple_json(res)).end();
      }
    }
  });
}

#endif // C16_SECTION_TUPLES

}
}

#ifdef C16_SECTION_CONTAINERS
extern "C" void c16_part_containers(unsigned long long, int const thorough_flag)
{
  using namespace c16;
  bool const thorough = thorough_flag != 0;
  join_algos(thorough);
  join_many_algos(thorough);
  join_maps_many();
  {
    // key_set / map_values on maps of 4..10 entries (keys 0..11)
    vj::Rng rng(808U);
    for (unsigned k = 0; k < 16U; ++k)
    {
      pvec ps;
      for (int key = 0; key < 12; ++key)
        if (rng.below(3) != 0) ps.emplace_back(key, static_cast<int>(rng.below(3)));
      ordered_map_algos(ps);
    }
  }
  each_seq_upto(5, 3, [&](ivec const &v) {
    do_at_optional<std::vector<int>>("vector", v);
    do_at_optional<std::deque<int>>("deque", v);
  });
  // maps with keys and mapped values in {0,1,2}
  for (unsigned mask = 0; mask < 8; ++mask)
  {
    ivec keys;
    for (int i = 0; i < 3; ++i)
      if (mask & (1U << i)) keys.push_back(i);
    each_seq(static_cast<unsigned>(keys.size()), 3, [&](ivec const &vals) {
      pvec ps;
      for (std::size_t i = 0; i < keys.size(); ++i) ps.emplace_back(keys[i], vals[i]);
      map_algos<std::map<int, int>>("map", ps);
      map_algos<std::unordered_map<int, int>>("unordered_map", ps);
      ordered_map_algos(ps);
    });
  }
  set_algos(thorough ? 5 : 4);
}
#endif

#ifdef C16_SECTION_ARRAYS
extern "C" void c16_part_arrays(unsigned long long, int)
{
  using namespace c16;
  array_unary<0>();
  array_unary<1>();
  array_unary<2>();
  array_unary<3>();
  array_unary<4>();
  array_binary<0, 0>();
  array_binary<0, 2>();
  array_binary<1, 0>();
  array_binary<1, 1>();
  array_binary<2, 1>();
  array_binary<2, 3>();
  array_binary<3, 2>();
  array_binary<3, 3>();
  array_ternary<0, 0, 0>();
  array_ternary<1, 2, 0>();
  array_ternary<2, 1, 3>();
  array_ternary<0, 3, 1>();
  array_ternary<2, 2, 2>();
  array_ternary<1, 0, 2>();
  from_range_algos<0>();
  from_range_algos<1>();
  from_range_algos<2>();
  from_range_algos<3>();
  // (round 3 audit) sizes and arities beyond the exhaustive bound, seeded
  vj::Rng rng(2024U);
  array_unary_sampled<5>(rng, 6);
  array_unary_sampled<6>(rng, 6);
  array_unary_sampled<9>(rng, 4);
  array_join_sampled<0>(rng, 1);
  array_join_sampled<2>(rng, 5);
  array_join_sampled<4>(rng, 5);
  array_join_sampled<1, 2>(rng, 6);
  array_join_sampled<3, 0>(rng, 4);
  array_join_sampled<4, 4>(rng, 8);
  array_join_sampled<1, 0, 2, 1>(rng, 10);
  array_join_sampled<2, 2, 1, 3>(rng, 10);
  array_join_sampled<1, 1, 1, 1, 1>(rng, 10);
  array_join_sampled<2, 0, 3, 1, 2, 1>(rng, 10);
  from_range_sampled<4>(rng, 8);
  from_range_sampled<5>(rng, 8);
  from_range_sampled<8>(rng, 6);
}
#endif

#ifdef C16_SECTION_TUPLES
extern "C" void c16_part_tuples(unsigned long long, int) { c16::tuple_algos(); }
#endif
