// C16 conformance harness (part 2: fcppt.container helpers, fcppt::array, fcppt::tuple).
// Drives and records only; spec/AlgorithmsJudge.tla (TLC) is the judge.
#include "c16_common.hpp"

#include <fcppt/make_ref.hpp>
#include <fcppt/reference.hpp>
#include <fcppt/array/append.hpp>
#include <fcppt/array/from_range.hpp>
#include <fcppt/array/init.hpp>
#include <fcppt/array/join.hpp>
#include <fcppt/array/map.hpp>
#include <fcppt/array/object.hpp>
#include <fcppt/array/push_back.hpp>
#include <fcppt/container/at_optional.hpp>
#include <fcppt/container/find_opt_mapped.hpp>
#include <fcppt/container/get_or_insert.hpp>
#include <fcppt/container/get_or_insert_result.hpp>
#include <fcppt/container/get_or_insert_with_result.hpp>
#include <fcppt/container/join.hpp>
#include <fcppt/container/key_set.hpp>
#include <fcppt/container/map_values_copy.hpp>
#include <fcppt/container/map_values_ref.hpp>
#include <fcppt/container/set_difference.hpp>
#include <fcppt/container/set_intersection.hpp>
#include <fcppt/container/set_union.hpp>
#include <fcppt/optional/object.hpp>
#include <fcppt/optional/reference.hpp>
#include <fcppt/tuple/concat.hpp>
#include <fcppt/tuple/get.hpp>
#include <fcppt/tuple/map.hpp>
#include <fcppt/tuple/object.hpp>
#include <fcppt/tuple/push_back.hpp>

#include <deque>
#include <list>
#include <map>
#include <set>
#include <string>
#include <tuple>
#include <unordered_map>
#include <vector>

namespace c16
{
namespace
{
using ivec = std::vector<int>;
using pvec = std::vector<std::pair<int, int>>;

// ---------------------------------------------------------------- container::join
template <typename Cont, typename Seq>
Cont mk(Seq const &v)
{
  return Cont(v.begin(), v.end());
}

template <typename Cont, typename Seq>
void do_join(char const *kind, char const *sn, std::vector<Seq> const &parts)
{
  std::string cs = "[";
  for (std::size_t i = 0; i < parts.size(); ++i)
  {
    if (i) cs += ',';
    cs += seqj(parts[i]);
  }
  cs += ']';
  for (int cat = 0; cat < 2; ++cat)
  {
    Cont a(mk<Cont>(parts[0]));
    Cont const b(parts.size() > 1 ? mk<Cont>(parts[1]) : Cont());
    Cont c(parts.size() > 2 ? mk<Cont>(parts[2]) : Cont());
    Rec r("join");
    r.ks("kind", kind).ks("src", sn).ks("cat", cat == 0 ? "lvalue" : "rvalue").k("cs", cs).begin();
    Cont res;
    switch (parts.size())
    {
    case 1: res = cat == 0 ? fcppt::container::join(a) : fcppt::container::join(std::move(a)); break;
    case 2: res = cat == 0 ? fcppt::container::join(a, b) : fcppt::container::join(std::move(a), b); break;
    default:
      res = cat == 0 ? fcppt::container::join(a, b, c) : fcppt::container::join(std::move(a), b, std::move(c));
    }
    r.k("r", seqj(res)).end();
  }
}

// join(a, a) and join(a, b, a): the first container is also one of the inserted ones (lvalues)
template <typename Cont, typename Seq>
void do_join_same(char const *kind, char const *sn, Seq const &pa, Seq const &pb)
{
  {
    Cont a(mk<Cont>(pa));
    Rec r("join");
    r.ks("kind", kind).ks("src", sn).ks("cat", "same").k("cs", "[" + seqj(pa) + "," + seqj(pa) + "]").begin();
    Cont const res(fcppt::container::join(a, a));
    r.k("r", seqj(res)).end();
  }
  {
    Cont a(mk<Cont>(pa));
    Cont const b(mk<Cont>(pb));
    Rec r("join");
    r.ks("kind", kind).ks("src", sn).ks("cat", "same").k("cs", "[" + seqj(pa) + "," + seqj(pb) + "," + seqj(pa) + "]").begin();
    Cont const res(fcppt::container::join(a, b, a));
    r.k("r", seqj(res)).end();
  }
}

void join_algos(bool thorough)
{
  std::vector<ivec> pool;
  each_seq_upto(thorough ? 3U : 2U, 3, [&](ivec const &v) { pool.push_back(v); });
  unsigned const n = static_cast<unsigned>(pool.size());
  each_seq_upto(3, n, [&](ivec const &idx) {
    if (idx.empty()) return;
    if (idx.size() == 3 && !thorough && (idx[0] + 2 * idx[1] + 3 * idx[2]) % 5 != 0) return;
    std::vector<ivec> parts;
    for (int i : idx) parts.push_back(pool[static_cast<std::size_t>(i)]);
    do_join<std::vector<int>>("seq", "vector", parts);
    if (idx.size() == 2)
    {
      do_join_same<std::vector<int>>("seq", "vector", parts[0], parts[1]);
      do_join_same<std::deque<int>>("seq", "deque", parts[0], parts[1]);
      do_join_same<std::list<int>>("seq", "list", parts[0], parts[1]);
    }
    if (idx.size() <= 2 || thorough)
    {
      do_join<std::list<int>>("seq", "list", parts);
      do_join<std::deque<int>>("seq", "deque", parts);
    }
    bool all_sets = true;
    for (ivec const &p : parts)
      for (std::size_t i = 1; i < p.size(); ++i)
        if (p[i - 1] >= p[i]) all_sets = false;
    if (all_sets) do_join<std::set<int>>("set", "set", parts);
  });
  // maps: keys {0,1,2}, values {0,1,2}
  std::vector<pvec> maps;
  for (unsigned mask = 0; mask < 8; ++mask)
  {
    ivec keys;
    for (int i = 0; i < 3; ++i)
      if (mask & (1U << i)) keys.push_back(i);
    each_seq(static_cast<unsigned>(keys.size()), 3, [&](ivec const &vals) {
      pvec ps;
      for (std::size_t i = 0; i < keys.size(); ++i) ps.emplace_back(keys[i], vals[i]);
      maps.push_back(ps);
    });
  }
  for (pvec const &a : maps)
    for (pvec const &b : maps)
    {
      std::vector<pvec> const parts{a, b};
      do_join<std::map<int, int>>("map", "map", parts);
    }
}

// ---------------------------------------------------------------- at_optional
template <typename Cont>
void do_at_optional(char const *sn, ivec const &v)
{
  Cont c(v.begin(), v.end());
  std::string const xs = seqj(v);
  std::vector<std::size_t> idxs;
  for (std::size_t i = 0; i <= v.size() + 2; ++i) idxs.push_back(i);
  idxs.push_back(2147483647U);
  for (std::size_t const i : idxs)
  {
    {
      // the result is a reference into the container: add `bump` through it and log the contents
      Cont c2(v.begin(), v.end());
      Rec r("at_optional_mut");
      r.ks("src", sn).k("xs", xs).ki("i", static_cast<long long>(i)).ki("bump", 7).begin();
      auto const res(fcppt::container::at_optional(c2, i));
      r.k("r", res.has_value() ? "[" + ej(res.get_unsafe().get()) + "]" : std::string("[]"));
      if (res.has_value()) res.get_unsafe().get() += 7;
      r.k("st", seqj(c2)).end();
    }
    {
      Cont const &cc(c);
      Rec r("at_optional");
      r.ks("src", sn).ks("cat", "const").k("xs", xs).ki("i", static_cast<long long>(i)).begin();
      auto const res(fcppt::container::at_optional(cc, i));
      r.k("r", res.has_value() ? "[" + ej(res.get_unsafe().get()) + "]" : std::string("[]")).end();
    }
  }
}

// ---------------------------------------------------------------- maps
template <typename Map>
std::string map_state(Map const &m)
{
  // presentation of the final state in key order (also for unordered maps)
  std::string s = "[";
  bool first = true;
  for (int k = -2; k <= 5; ++k)
  {
    auto const it(m.find(k));
    if (it == m.end()) continue;
    if (!first) s += ',';
    first = false;
    s += ej(*it);
  }
  return s + "]";
}

// create function of get_or_insert: a table, logs the key it is called with and whether that key
// is already in the map at that moment
template <typename Map>
struct CreateF
{
  UF f;
  Map const *m;
  std::string *present;
  int operator()(int const key) const
  {
    if (!present->empty()) *present += ',';
    *present += m->find(key) != m->end() ? "true" : "false";
    return f(key);
  }
};

template <typename Map>
void map_algos(char const *sn, pvec const &ps)
{
  std::string const mj = seqj(ps);
  Map const base(ps.begin(), ps.end());
  for (int k = -1; k <= 3; ++k)
  {
    {
      Map m(base);
      Rec r("find_opt_mapped_mut");
      r.ks("src", sn).k("m", mj).ki("k", k).ki("bump", 5).begin();
      auto const res(fcppt::container::find_opt_mapped(m, k));
      r.k("r", res.has_value() ? "[" + ej(res.get_unsafe().get()) + "]" : std::string("[]"));
      if (res.has_value()) res.get_unsafe().get() += 5;
      r.k("st", map_state(m)).end();
    }
    {
      Rec r("find_opt_mapped");
      r.ks("src", sn).ks("cat", "const").k("m", mj).ki("k", k).begin();
      auto const res(fcppt::container::find_opt_mapped(base, k));
      r.k("r", res.has_value() ? "[" + ej(res.get_unsafe().get()) + "]" : std::string("[]")).end();
    }
  }
  for (int k = 0; k <= 2; ++k)
    for (int idx = 0; idx < 27; idx += (k == 1 ? 1 : 4))
    {
      int const bump = 3 + idx % 2;
      {
        Map m(base);
        std::string present;
        CreateF<Map> const f{UF(idx), &m, &present};
        Rec r("get_or_insert_with_result");
        r.ks("src", sn).k("m", mj).ki("k", k).k("ft", f.f.json()).ki("bump", bump).begin();
        auto const res(fcppt::container::get_or_insert_with_result(m, k, f));
        r.ki("elem", res.element()).kb("inserted", res.inserted());
        res.element() += bump; // the result must refer to the element inside the container
        r.k("present", "[" + present + "]").k("st", map_state(m)).end_log();
      }
      {
        Map m(base);
        std::string present;
        CreateF<Map> const f{UF(idx), &m, &present};
        Rec r("get_or_insert");
        r.ks("src", sn).k("m", mj).ki("k", k).k("ft", f.f.json()).ki("bump", bump).begin();
        int &res(fcppt::container::get_or_insert(m, k, f));
        r.ki("elem", res);
        res += bump;
        r.k("present", "[" + present + "]").k("st", map_state(m)).end_log();
      }
    }
}

void ordered_map_algos(pvec const &ps)
{
  std::string const mj = seqj(ps);
  std::map<int, int> m(ps.begin(), ps.end());
  {
    Rec r("key_set");
    r.ks("tgt", "set").k("m", mj).begin();
    auto const res(fcppt::container::key_set<std::set<int>>(m));
    r.k("r", seqj(res)).end();
  }
  {
    Rec r("map_values_copy");
    r.ks("tgt", "vector").k("m", mj).begin();
    auto const res(fcppt::container::map_values_copy<std::vector<int>>(m));
    r.k("r", seqj(res)).end();
  }
  {
    Rec r("map_values_copy");
    r.ks("tgt", "list").k("m", mj).begin();
    auto const res(fcppt::container::map_values_copy<std::list<int>>(m));
    r.k("r", seqj(res)).end();
  }
  {
    // references to the mapped objects: add 10 (i + 1) through the i-th one and log the map
    std::map<int, int> m2(m);
    Rec r("map_values_ref_mut");
    r.ks("tgt", "vector").k("m", mj).begin();
    auto const res(fcppt::container::map_values_ref<std::vector<fcppt::reference<int>>>(m2));
    std::string s = "[";
    for (std::size_t i = 0; i < res.size(); ++i)
    {
      if (i) s += ',';
      s += ej(res[i].get());
    }
    for (std::size_t i = 0; i < res.size(); ++i) res[i].get() += 10 * static_cast<int>(i + 1);
    r.k("r", s + "]").k("st", seqj(m2)).end();
  }
  {
    std::map<int, int> const &cm(m);
    Rec r("map_values_ref");
    r.ks("tgt", "vector_const").k("m", mj).begin();
    auto const res(fcppt::container::map_values_ref<std::vector<fcppt::reference<int const>>>(cm));
    std::string s = "[";
    for (std::size_t i = 0; i < res.size(); ++i)
    {
      if (i) s += ',';
      s += ej(res[i].get());
    }
    r.k("r", s + "]").end();
  }
}

// ---------------------------------------------------------------- set algebra
void set_algos(int universe)
{
  unsigned const n = 1U << universe;
  for (unsigned ma = 0; ma < n; ++ma)
    for (unsigned mb = 0; mb < n; ++mb)
    {
      ivec va, vb;
      for (int i = 0; i < universe; ++i)
      {
        if (ma & (1U << i)) va.push_back(i);
        if (mb & (1U << i)) vb.push_back(i);
      }
      std::set<int> const a(va.begin(), va.end());
      std::set<int> const b(vb.begin(), vb.end());
      std::string const aj = seqj(va), bj = seqj(vb);
      {
        Rec r("set_union");
        r.k("a", aj).k("b", bj).begin();
        auto const res(fcppt::container::set_union(a, b));
        r.k("r", seqj(res)).end();
      }
      {
        Rec r("set_intersection");
        r.k("a", aj).k("b", bj).begin();
        auto const res(fcppt::container::set_intersection(a, b));
        r.k("r", seqj(res)).end();
      }
      {
        Rec r("set_difference");
        r.k("a", aj).k("b", bj).begin();
        auto const res(fcppt::container::set_difference(a, b));
        r.k("r", seqj(res)).end();
      }
    }
}

// ---------------------------------------------------------------- arrays
template <std::size_t N, std::size_t... Is>
fcppt::array::object<int, N> mk_array(ivec const &v, std::size_t const off, std::index_sequence<Is...>)
{
  return fcppt::array::object<int, N>{v[off + Is]...};
}
template <std::size_t N>
fcppt::array::object<int, N> mk_array(ivec const &v, std::size_t const off = 0)
{
  return mk_array<N>(v, off, std::make_index_sequence<N>{});
}

struct IdxF // array::init function: static index -> table value, logs the index
{
  std::array<int, 3> t;
  explicit IdxF(int idx) : t{idx % 3, (idx / 3) % 3, (idx / 9) % 3} {}
  template <std::size_t I>
  int operator()(std::integral_constant<std::size_t, I>) const
  {
    lg(std::to_string(I));
    return t[I % 3];
  }
  std::string json() const { return seqj(t); }
};

template <std::size_t N>
void array_unary()
{
  for (int idx = 0; idx < 27; ++idx)
  {
    IdxF const f(idx);
    Rec r("array_init");
    r.ki("n", static_cast<long long>(N)).k("ft", f.json()).begin();
    auto const res(fcppt::array::init<fcppt::array::object<int, N>>(f));
    r.k("r", seqj(res)).end_log();
  }
  each_seq(N, 3, [&](ivec const &v) {
    std::string const xs = seqj(v);
    for (int idx = 0; idx < 27; ++idx)
    {
      {
        auto const a(mk_array<N>(v));
        UF const f(idx);
        Rec r("array_map");
        r.ks("cat", "lvalue").k("xs", xs).k("ft", f.json()).begin();
        auto const res(fcppt::array::map(a, f));
        r.k("r", seqj(res)).end_log();
      }
      if (idx % 3 == 0)
      {
        auto a(mk_array<N>(v));
        UF const f(idx);
        Rec r("array_map");
        r.ks("cat", "rvalue").k("xs", xs).k("ft", f.json()).begin();
        auto const res(fcppt::array::map(std::move(a), f));
        r.k("r", seqj(res)).end_log();
      }
    }
    for (int x = 0; x <= 2; ++x)
    {
#ifdef C16_APPEND_LVALUE
      {
        auto const a(mk_array<N>(v));
        Rec r("array_push_back");
        r.ks("cat", "lvalue").k("a", xs).ki("x", x).begin();
        auto const res(fcppt::array::push_back(a, x));
        r.k("r", seqj(res)).end();
      }
#endif
      {
        auto a(mk_array<N>(v));
        Rec r("array_push_back");
        r.ks("cat", "rvalue").k("a", xs).ki("x", x).begin();
        auto const res(fcppt::array::push_back(std::move(a), int{x}));
        r.k("r", seqj(res)).end();
      }
    }
  });
}

template <std::size_t N, std::size_t M>
void array_binary()
{
  each_seq(N + M, 3, [&](ivec const &v) {
    ivec const va(v.begin(), v.begin() + static_cast<std::ptrdiff_t>(N));
    ivec const vb(v.begin() + static_cast<std::ptrdiff_t>(N), v.end());
#ifdef C16_APPEND_LVALUE
    {
      auto const a(mk_array<N>(v));
      auto const b(mk_array<M>(v, N));
      Rec r("array_append");
      r.ks("cat", "lvalue").k("a", seqj(va)).k("b", seqj(vb)).begin();
      auto const res(fcppt::array::append(a, b));
      r.k("r", seqj(res)).end();
    }
#endif
    {
      auto a(mk_array<N>(v));
      auto b(mk_array<M>(v, N));
      Rec r("array_append");
      r.ks("cat", "rvalue").k("a", seqj(va)).k("b", seqj(vb)).begin();
      auto const res(fcppt::array::append(std::move(a), std::move(b)));
      r.k("r", seqj(res)).end();
    }
  });
}

template <std::size_t A, std::size_t B, std::size_t C>
void array_ternary()
{
  each_seq(A + B + C, 3, [&](ivec const &v) {
    ivec const va(v.begin(), v.begin() + static_cast<std::ptrdiff_t>(A));
    ivec const vb(v.begin() + static_cast<std::ptrdiff_t>(A), v.begin() + static_cast<std::ptrdiff_t>(A + B));
    ivec const vc(v.begin() + static_cast<std::ptrdiff_t>(A + B), v.end());
    std::string const as = "[" + seqj(va) + "," + seqj(vb) + "," + seqj(vc) + "]";
#ifdef C16_APPEND_LVALUE
    {
      auto const a(mk_array<A>(v));
      auto const b(mk_array<B>(v, A));
      auto const c(mk_array<C>(v, A + B));
      Rec r("array_join");
      r.ks("cat", "lvalue").k("as", as).begin();
      auto const res(fcppt::array::join(a, b, c));
      r.k("r", seqj(res)).end();
    }
    {
      auto a(mk_array<A>(v));
      auto const b(mk_array<B>(v, A));
      auto c(mk_array<C>(v, A + B));
      Rec r("array_join");
      r.ks("cat", "mixed").k("as", as).begin();
      auto const res(fcppt::array::join(std::move(a), b, std::move(c)));
      r.k("r", seqj(res)).end();
    }
#endif
    {
      auto a(mk_array<A>(v));
      auto b(mk_array<B>(v, A));
      auto c(mk_array<C>(v, A + B));
      Rec r("array_join");
      r.ks("cat", "rvalue").k("as", as).begin();
      auto const res(fcppt::array::join(std::move(a), std::move(b), std::move(c)));
      r.k("r", seqj(res)).end();
    }
  });
}

template <std::size_t N, typename Cont>
void do_from_range(char const *sn, ivec const &v)
{
  {
    Cont const c(v.begin(), v.end());
    Rec r("array_from_range");
    r.ks("src", sn).ks("cat", "lvalue").ki("n", static_cast<long long>(N)).k("xs", seqj(v)).begin();
    auto const res(fcppt::array::from_range<N>(c));
    r.k("r", res.has_value() ? "[" + seqj(res.get_unsafe()) + "]" : std::string("[]")).end();
  }
  {
    Cont c(v.begin(), v.end());
    Rec r("array_from_range");
    r.ks("src", sn).ks("cat", "rvalue").ki("n", static_cast<long long>(N)).k("xs", seqj(v)).begin();
    auto const res(fcppt::array::from_range<N>(std::move(c)));
    r.k("r", res.has_value() ? "[" + seqj(res.get_unsafe()) + "]" : std::string("[]")).end();
  }
}

template <std::size_t N>
void from_range_algos()
{
  each_seq_upto(N + 2, 3, [&](ivec const &v) {
    do_from_range<N, std::vector<int>>("vector", v);
    do_from_range<N, std::deque<int>>("deque", v);
  });
}

// ---------------------------------------------------------------- tuples
template <typename Tuple, std::size_t... Is>
std::string tuple_json(Tuple const &t, std::index_sequence<Is...>)
{
  std::string s = "[";
  bool first = true;
  (void)first;
  ((s += (first ? "" : ","), s += ej(fcppt::tuple::get<Is>(t)), first = false), ...);
  return s + "]";
}
template <typename... Ts>
std::string tuple_json(fcppt::tuple::object<Ts...> const &t)
{
  return tuple_json(t, std::index_sequence_for<Ts...>{});
}

template <typename Tuple>
void do_tuple_unary(Tuple const &t, std::string const &xs)
{
  for (int idx = 0; idx < 27; ++idx)
  {
    {
      UF const f(idx);
      Rec r("tuple_map");
      r.ks("cat", "lvalue").k("xs", xs).k("ft", f.json()).begin();
      auto const res(fcppt::tuple::map(t, f));
      r.k("r", tuple_json(res)).end_log();
    }
    if (idx % 3 == 1)
    {
      Tuple copy(t);
      UF const f(idx);
      Rec r("tuple_map");
      r.ks("cat", "rvalue").k("xs", xs).k("ft", f.json()).begin();
      auto const res(fcppt::tuple::map(std::move(copy), f));
      r.k("r", tuple_json(res)).end_log();
    }
  }
  for (int x = 0; x <= 2; ++x)
  {
    {
      Rec r("tuple_push_back");
      r.ks("cat", "lvalue").k("a", xs).ki("x", x).begin();
      auto const res(fcppt::tuple::push_back(t, x));
      r.k("r", tuple_json(res)).end();
    }
    {
      Tuple copy(t);
      Rec r("tuple_push_back");
      r.ks("cat", "rvalue").k("a", xs).ki("x", x).begin();
      auto const res(fcppt::tuple::push_back(std::move(copy), static_cast<long>(x)));
      r.k("r", tuple_json(res)).end();
    }
  }
}

void tuple_algos()
{
  do_tuple_unary(fcppt::tuple::object<>{}, "[]");
  each_seq(1, 3, [&](ivec const &v) { do_tuple_unary(fcppt::tuple::object<long>{static_cast<long>(v[0])}, seqj(v)); });
  each_seq(2, 3, [&](ivec const &v) {
    do_tuple_unary(fcppt::tuple::object<int, unsigned>{v[0], static_cast<unsigned>(v[1])}, seqj(v));
  });
  each_seq(3, 3, [&](ivec const &v) {
    do_tuple_unary(fcppt::tuple::object<int, long, E3>{v[0], static_cast<long>(v[1]), static_cast<E3>(v[2])}, seqj(v));
  });
  each_seq(4, 3, [&](ivec const &v) {
    do_tuple_unary(
        fcppt::tuple::object<unsigned, int, int, long>{static_cast<unsigned>(v[0]), v[1], v[2], static_cast<long>(v[3])},
        seqj(v));
  });
  // concat of 0..3 tuples
  {
    Rec r("tuple_concat");
    r.k("ts", "[]").begin();
    auto const res(fcppt::tuple::concat());
    r.k("r", tuple_json(res)).end();
  }
  // tuple::concat only accepts non-const rvalue tuples (its enable_if tests is_object<Tuples> without
  // remove_cvref, so lvalue arguments do not compile): every argument is a moved copy
  each_seq(6, 3, [&](ivec const &v) {
    using ta = fcppt::tuple::object<int, long>;
    using tb = fcppt::tuple::object<E3>;
    using tc = fcppt::tuple::object<unsigned, int, int>;
    using te = fcppt::tuple::object<>;
    ta const a{v[0], static_cast<long>(v[1])};
    tb const b{static_cast<E3>(v[2])};
    tc const c{static_cast<unsigned>(v[3]), v[4], v[5]};
    std::string const aj = tuple_json(a), bj = tuple_json(b), cj = tuple_json(c);
    {
      Rec r("tuple_concat");
      r.k("ts", "[" + aj + "," + bj + "," + cj + "]").begin();
      auto const res(fcppt::tuple::concat(ta(a), tb(b), tc(c)));
      r.k("r", tuple_json(res)).end();
    }
    {
      Rec r("tuple_concat");
      r.k("ts", "[" + cj + ",[]," + aj + "]").begin();
      auto const res(fcppt::tuple::concat(tc(c), te{}, ta(a)));
      r.k("r", tuple_json(res)).end();
    }
#ifdef C16_CONCAT_LVALUE
    {
      tc c2(c);
      Rec r("tuple_concat");
      r.ks("cat", "lvalue").k("ts", "[" + aj + "," + cj + "," + bj + "]").begin();
      auto const res(fcppt::tuple::concat(a, c2, b));
      r.k("r", tuple_json(res)).end();
    }
#endif
    if (v[3] == 0 && v[4] == 0 && v[5] == 0)
    {
      {
        Rec r("tuple_concat");
        r.k("ts", "[" + bj + "," + aj + "]").begin();
        auto const res(fcppt::tuple::concat(tb(b), ta(a)));
        r.k("r", tuple_json(res)).end();
      }
      {
        Rec r("tuple_concat");
        r.k("ts", "[" + aj + "]").begin();
        auto const res(fcppt::tuple::concat(ta(a)));
        r.k("r", tuple_json(res)).end();
      }
    }
  });
}

}

void run_containers(Sel &, bool const thorough)
{
  join_algos(thorough);
  each_seq_upto(5, 3, [&](ivec const &v) {
    do_at_optional<std::vector<int>>("vector", v);
    do_at_optional<std::deque<int>>("deque", v);
  });
  // maps with keys and mapped values in {0,1,2}
  for (unsigned mask = 0; mask < 8; ++mask)
  {
    ivec keys;
    for (int i = 0; i < 3; ++i)
      if (mask & (1U << i)) keys.push_back(i);
    each_seq(static_cast<unsigned>(keys.size()), 3, [&](ivec const &vals) {
      pvec ps;
      for (std::size_t i = 0; i < keys.size(); ++i) ps.emplace_back(keys[i], vals[i]);
      map_algos<std::map<int, int>>("map", ps);
      map_algos<std::unordered_map<int, int>>("unordered_map", ps);
      ordered_map_algos(ps);
    });
  }
  set_algos(thorough ? 5 : 4);
  array_unary<0>();
  array_unary<1>();
  array_unary<2>();
  array_unary<3>();
  array_unary<4>();
  array_binary<0, 0>();
  array_binary<0, 2>();
  array_binary<1, 0>();
  array_binary<1, 1>();
  array_binary<2, 1>();
  array_binary<2, 3>();
  array_binary<3, 2>();
  array_binary<3, 3>();
  array_ternary<0, 0, 0>();
  array_ternary<1, 2, 0>();
  array_ternary<2, 1, 3>();
  array_ternary<0, 3, 1>();
  array_ternary<2, 2, 2>();
  array_ternary<1, 0, 2>();
  from_range_algos<0>();
  from_range_algos<1>();
  from_range_algos<2>();
  from_range_algos<3>();
  tuple_algos();
}
}
