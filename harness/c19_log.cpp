// C19 conformance harness: drives fcppt::log::context / fcppt::log::object and records what
// they did.  It contains no expected values: spec/LogTrace.tla (TLC) is the judge.
//
//   c19_log record  OUT seed histories maxlen          sequential random histories
//   c19_log replay  SCRIPTS.ndjson OUT                 sequential TLC-generated scripts
//   c19_log threads OUT seed runs windows maxcalls     threaded driver (2-6 threads on one context)
//
// Sequential events: after every call the harness reads back context::get for every location of
// the universe (depth <= 3, three names) and object::level of every object slot, so that the
// judge compares full projected states.
// Threaded events: every call is logged as a begin event (sequence number taken immediately
// before the call) and an end event (taken immediately after it returned) from one global
// std::atomic counter; threads rendez-vous every <= maxcalls calls and the quiescent state is
// read back.  Built with -DC19_TSAN the counter is relaxed (so that the harness adds no
// happens-before edges between calls) and only ThreadSanitizer's verdict is used.
#include <common/vjson.hpp>

#include <fcppt/make_ref.hpp>
#include <fcppt/string.hpp>
#include <fcppt/enum/array_init.hpp>
#include <fcppt/log/context.hpp>
#include <fcppt/log/debug.hpp>
#include <fcppt/log/error.hpp>
#include <fcppt/log/fatal.hpp>
#include <fcppt/log/info.hpp>
#include <fcppt/log/level.hpp>
#include <fcppt/log/level_stream.hpp>
#include <fcppt/log/level_stream_array.hpp>
#include <fcppt/log/location.hpp>
#include <fcppt/log/name.hpp>
#include <fcppt/log/object.hpp>
#include <fcppt/log/optional_level.hpp>
#include <fcppt/log/out.hpp>
#include <fcppt/log/parameters.hpp>
#include <fcppt/log/verbose.hpp>
#include <fcppt/log/warning.hpp>
#include <fcppt/log/format/default_level.hpp>
#include <fcppt/log/format/function.hpp>
#include <fcppt/log/format/inserter.hpp>
#include <fcppt/log/format/optional_function.hpp>
#include <fcppt/log/format/prefix_string.hpp>
#include <fcppt/log/format/suffix_string.hpp>
#include <fcppt/optional/maybe.hpp>

#include <algorithm>
#include <array>
#include <atomic>
#include <condition_variable>
#include <memory>
#include <mutex>
#include <sstream>
#include <string>
#include <thread>
#include <vector>

namespace
{
namespace fl = fcppt::log;
using path = std::vector<std::string>;

// ---------------------------------------------------------------- conversions (no semantics)
int level_to_int(fl::optional_level const &l)
{
  return fcppt::optional::maybe(
      l, [] { return 6; }, [](fl::level v) { return static_cast<int>(v); });
}
fl::optional_level int_to_level(int v)
{
  return v >= 6 ? fl::optional_level{} : fl::optional_level{static_cast<fl::level>(v)};
}
fl::location to_location(path const &p)
{
  fl::location loc;
  for (auto const &n : p) loc /= fl::name{n};
  return loc;
}
std::string path_json(path const &p)
{
  std::string s = "[";
  for (std::size_t i = 0; i < p.size(); ++i)
  {
    if (i) s += ',';
    s += vj::cps(p[i]);
  }
  return s + "]";
}
std::string cps_to_string(vj::V const &v)
{
  std::string s;
  for (auto const &c : v.a) s += static_cast<char>(c->n);
  return s;
}
path path_from(vj::V const &v)
{
  path p;
  for (auto const &n : v.a) p.push_back(cps_to_string(*n));
  return p;
}

std::vector<path> make_universe(std::vector<std::string> const &names, unsigned depth)
{
  std::vector<path> all{path{}};
  std::size_t first = 0;
  for (unsigned d = 0; d < depth; ++d)
  {
    std::size_t const last = all.size();
    for (std::size_t i = first; i < last; ++i)
      for (auto const &n : names)
      {
        path q = all[i];
        q.push_back(n);
        all.push_back(q);
      }
    first = last;
  }
  return all;
}

// ---------------------------------------------------------------- level stream formatter kinds
struct lfmt
{
  int k = 1; // 0 none, 1 format::default_level, 2 format::inserter(pre, suf)
  std::string pre, suf;
};

struct sinks
{
  std::array<std::ostringstream, 6> s;
};

fl::level_stream_array make_streams(sinks &sk, std::array<lfmt, 6> const &lf)
{
  return fcppt::enum_::array_init<fl::level_stream_array>([&sk, &lf](fl::level const lv) {
    auto const i = static_cast<std::size_t>(lv);
    lfmt const &f = lf[i];
    fl::format::optional_function fn{};
    if (f.k == 1) fn = fl::format::optional_function{fl::format::default_level(lv)};
    if (f.k == 2)
      fn = fl::format::optional_function{fl::format::inserter(
          fl::format::prefix_string{f.pre}, fl::format::suffix_string{f.suf})};
    return fl::level_stream(sk.s[i], std::move(fn));
  });
}

fl::format::optional_function object_formatter(std::string const &prefix)
{
  if (prefix.empty()) return fl::format::optional_function{};
  return fl::format::optional_function{fl::format::function{
      [prefix](fcppt::string const &text) -> fcppt::string { return prefix + text; }}};
}

// ---------------------------------------------------------------- sequential driver
struct Op
{
  std::string op;
  path loc;
  int l = 0;
  int o = 0;
  std::string kind;
  int par = 0;
  std::string name;
  std::string fmt;
  std::string msg;
};

constexpr int NO = 4; // object slots

struct Seq
{
  std::vector<std::string> names{"a", "b", "cc"};
  std::vector<path> univ = make_universe(names, 3);
  sinks sk;
  std::unique_ptr<fl::context> ctx;
  std::array<std::unique_ptr<fl::object>, NO + 1> objs;

  void reset(long h, int root, std::array<lfmt, 6> const &lf)
  {
    for (auto &o : objs) o.reset();
    ctx.reset();
    for (auto &s : sk.s) s.str(std::string());
    ctx = std::make_unique<fl::context>(int_to_level(root), make_streams(sk, lf));
    vj::J j;
    j.kv("e", "reset").kv("h", h).kv("root", root);
    std::string lfs = "[";
    for (std::size_t i = 0; i < 6; ++i)
    {
      if (i) lfs += ',';
      lfs += vj::J().kv("k", lf[i].k).raw("pre", vj::cps(lf[i].pre)).raw("suf", vj::cps(lf[i].suf)).str();
    }
    j.raw("lf", lfs + "]");
    std::string u = "[";
    for (std::size_t i = 0; i < univ.size(); ++i)
    {
      if (i) u += ',';
      u += path_json(univ[i]);
    }
    j.raw("univ", u + "]");
    j.kv("no", NO);
    vj::line(j);
  }

  std::string readback()
  {
    std::vector<int> lv;
    for (auto const &p : univ) lv.push_back(level_to_int(ctx->get(to_location(p))));
    std::vector<int> ol;
    for (int i = 1; i <= NO; ++i) ol.push_back(objs[static_cast<std::size_t>(i)] ? level_to_int(objs[static_cast<std::size_t>(i)]->level()) : -1);
    return ",\"lv\":" + vj::arr(lv) + ",\"ol\":" + vj::arr(ol);
  }

  void exec(Op const &a)
  {
    vj::J pre;
    pre.kv("e", "op").kv("op", a.op).raw("loc", path_json(a.loc)).kv("l", a.l).kv("o", a.o)
        .kv("kind", a.kind).kv("par", a.par).raw("name", vj::cps(a.name)).raw("fmt", vj::cps(a.fmt))
        .raw("msg", vj::cps(a.msg));
    vj::begin_call(pre.s);
    int ret = -1;
    bool rb = false;
    auto const oi = static_cast<std::size_t>(a.o);
    if (a.op == "set")
      ctx->set(to_location(a.loc), int_to_level(a.l));
    else if (a.op == "get")
      ret = level_to_int(ctx->get(to_location(a.loc)));
    else if (a.op == "create")
    {
      objs[oi].reset();
      fl::parameters params{fl::name{a.name}, object_formatter(a.fmt)};
      if (a.kind == "ctx")
        objs[oi] = std::make_unique<fl::object>(fcppt::make_ref(*ctx), params);
      else if (a.kind == "loc")
        objs[oi] = std::make_unique<fl::object>(fcppt::make_ref(*ctx), to_location(a.loc), params);
      else
        objs[oi] = std::make_unique<fl::object>(*objs[static_cast<std::size_t>(a.par)], params);
    }
    else if (a.op == "level")
      ret = level_to_int(objs[oi]->level());
    else if (a.op == "enabled")
      rb = objs[oi]->enabled(static_cast<fl::level>(a.l));
    else if (a.op == "log")
      objs[oi]->log(static_cast<fl::level>(a.l), fl::out << a.msg);
    else if (a.op == "logm")
    {
      fl::object &ob = *objs[oi];
      switch (a.l)
      {
      case 0: FCPPT_LOG_VERBOSE(ob, fl::out << a.msg) break;
      case 1: FCPPT_LOG_DEBUG(ob, fl::out << a.msg) break;
      case 2: FCPPT_LOG_INFO(ob, fl::out << a.msg) break;
      case 3: FCPPT_LOG_WARNING(ob, fl::out << a.msg) break;
      case 4: FCPPT_LOG_ERROR(ob, fl::out << a.msg) break;
      default: FCPPT_LOG_FATAL(ob, fl::out << a.msg) break;
      }
    }
    else
    {
      std::fprintf(stderr, "unknown op %s\n", a.op.c_str());
      std::exit(3);
    }
    std::string rest = ",\"ret\":" + std::to_string(ret) + ",\"rb\":" + (rb ? "true" : "false") + ",\"out\":[";
    for (std::size_t i = 0; i < 6; ++i)
    {
      if (i) rest += ',';
      rest += vj::cps(sk.s[i].str());
      sk.s[i].str(std::string());
    }
    rest += "]";
    rest += readback();
    rest += "}";
    vj::end_call(rest);
  }

  // length of the path an object slot refers to is tracked only to keep the generated
  // locations inside the universe (a generator bound, not an expected value)
  std::array<std::size_t, NO + 1> depth{};

  bool gen(vj::Rng &r, Op &a)
  {
    auto rnd_path = [&](std::size_t maxd) {
      path p;
      std::size_t const d = static_cast<std::size_t>(r.below(maxd + 1));
      for (std::size_t i = 0; i < d; ++i) p.push_back(names[static_cast<std::size_t>(r.below(names.size()))]);
      return p;
    };
    std::vector<int> bound;
    for (int i = 1; i <= NO; ++i) if (objs[static_cast<std::size_t>(i)]) bound.push_back(i);
    auto const w = r.below(100);
    a = Op{};
    if (w < 30 || (bound.empty() && w >= 65))
    {
      a.op = "set";
      a.loc = rnd_path(3);
      a.l = static_cast<int>(r.below(7));
      return true;
    }
    if (w < 45)
    {
      a.op = "get";
      a.loc = rnd_path(3);
      return true;
    }
    if (w < 65)
    {
      a.op = "create";
      a.o = 1 + static_cast<int>(r.below(NO));
      a.name = names[static_cast<std::size_t>(r.below(names.size()))];
      if (r.below(3) == 0) a.fmt = std::string("O") + static_cast<char>('0' + a.o) + "| ";
      auto const k = r.below(3);
      std::vector<int> parents;
      for (int b : bound) if (depth[static_cast<std::size_t>(b)] < 3 && b != a.o) parents.push_back(b);
      if (k == 0 && !parents.empty())
      {
        a.kind = "parent";
        a.par = parents[static_cast<std::size_t>(r.below(parents.size()))];
        depth[static_cast<std::size_t>(a.o)] = depth[static_cast<std::size_t>(a.par)] + 1;
      }
      else if (k == 1)
      {
        a.kind = "ctx";
        depth[static_cast<std::size_t>(a.o)] = 1;
      }
      else
      {
        a.kind = "loc";
        a.loc = rnd_path(2);
        depth[static_cast<std::size_t>(a.o)] = a.loc.size() + 1;
      }
      return true;
    }
    a.o = bound[static_cast<std::size_t>(r.below(bound.size()))];
    if (w < 70)
    {
      a.op = "level";
      return true;
    }
    a.l = static_cast<int>(r.below(6));
    if (w < 80)
    {
      a.op = "enabled";
      return true;
    }
    a.op = w < 94 ? "log" : "logm";
    std::size_t const n = static_cast<std::size_t>(r.below(4));
    for (std::size_t i = 0; i < n; ++i) a.msg += static_cast<char>('m' + r.below(3));
    return true;
  }
};

Op op_from_json(vj::V const &e)
{
  Op a;
  a.op = e.str("op");
  a.loc = path_from(e.at("loc"));
  a.l = static_cast<int>(e.num("l"));
  a.o = static_cast<int>(e.num("o"));
  a.kind = e.str("kind");
  a.par = static_cast<int>(e.num("par"));
  a.name = cps_to_string(e.at("name"));
  a.fmt = cps_to_string(e.at("fmt"));
  a.msg = cps_to_string(e.at("msg"));
  return a;
}

std::array<lfmt, 6> default_lf()
{
  std::array<lfmt, 6> lf;
  return lf;
}

// ---------------------------------------------------------------- threaded driver
#if defined(C19_TSAN)
constexpr std::memory_order seq_order = std::memory_order_relaxed;
#else
constexpr std::memory_order seq_order = std::memory_order_seq_cst;
#endif

std::atomic<long> global_seq{0};
// start line: after the blocking barrier the threads additionally spin until all of them have
// arrived, so that the calls of a window really overlap (a condition variable wakes the threads
// up tens of microseconds apart, longer than a whole window takes)
std::atomic<long> start_line{0};

struct Barrier
{
  std::mutex m;
  std::condition_variable cv;
  int n;
  int waiting = 0;
  long gen = 0;
  explicit Barrier(int n_) : n(n_) {}
  void wait()
  {
    std::unique_lock<std::mutex> lk(m);
    long const g = gen;
    if (++waiting == n)
    {
      waiting = 0;
      ++gen;
      cv.notify_all();
    }
    else
      cv.wait(lk, [&] { return gen != g; });
  }
};

struct Call
{
  long sb = 0, se = 0;
  int t = 0;
  Op a;
  int ret = -1;
  bool rb = false;
};

constexpr int OPT = 2; // object slots per thread

struct Shared
{
  std::vector<std::string> names{"a", "b"};
  std::vector<path> univ = make_universe(names, 3);
  sinks sk;
  std::unique_ptr<fl::context> ctx;
  int nt = 0;
  std::vector<std::array<std::unique_ptr<fl::object>, OPT>> objs; // [thread][slot]
  std::vector<std::array<std::size_t, OPT>> depth;
  std::vector<std::vector<Call>> calls; // per thread, current window
};

void spin(vj::Rng &r)
{
  auto const k = r.below(8);
  if (k == 0) std::this_thread::yield();
  else if (k == 1)
  {
    volatile unsigned x = 0;
    auto const n = r.below(400);
    for (std::uint64_t i = 0; i < n; ++i) x = x + 1U;
  }
}

void thread_window(Shared &sh, int t, vj::Rng &r, int ncalls)
{
  auto &mine = sh.objs[static_cast<std::size_t>(t)];
  auto &dep = sh.depth[static_cast<std::size_t>(t)];
  // shallow locations are favoured (minimum of two draws): calls on prefixes of each other are
  // the ones that conflict
  auto rnd_path = [&](std::size_t maxd) {
    path p;
    std::size_t const d = static_cast<std::size_t>(std::min(r.below(maxd + 1), r.below(maxd + 2)));
    for (std::size_t i = 0; i < d; ++i) p.push_back(sh.names[static_cast<std::size_t>(r.below(sh.names.size()))]);
    return p;
  };
  for (int c = 0; c < ncalls; ++c)
  {
    Call call;
    call.t = t;
    Op &a = call.a;
    std::vector<int> bound;
    for (int i = 0; i < OPT; ++i) if (mine[static_cast<std::size_t>(i)]) bound.push_back(i);
    auto w = r.below(100);
    if (bound.empty() && w >= 75) w = r.below(75);
    if (w < 35)
    {
      a.op = "set";
      a.loc = rnd_path(3);
      a.l = static_cast<int>(r.below(7));
    }
    else if (w < 55)
    {
      a.op = "get";
      a.loc = rnd_path(3);
    }
    else if (w < 75)
    {
      a.op = "create";
      int const slot = static_cast<int>(r.below(OPT));
      a.o = t * OPT + slot + 1;
      a.name = sh.names[static_cast<std::size_t>(r.below(sh.names.size()))];
      auto const k = r.below(3);
      int const other = 1 - slot;
      if (k == 0 && mine[static_cast<std::size_t>(other)] && dep[static_cast<std::size_t>(other)] < 3)
      {
        a.kind = "parent";
        a.par = t * OPT + other + 1;
        dep[static_cast<std::size_t>(slot)] = dep[static_cast<std::size_t>(other)] + 1;
      }
      else if (k == 1)
      {
        a.kind = "ctx";
        dep[static_cast<std::size_t>(slot)] = 1;
      }
      else
      {
        a.kind = "loc";
        a.loc = rnd_path(2);
        dep[static_cast<std::size_t>(slot)] = a.loc.size() + 1;
      }
    }
    else
    {
      int const slot = bound[static_cast<std::size_t>(r.below(bound.size()))];
      a.o = t * OPT + slot + 1;
      if (w < 90) a.op = "level";
      else
      {
        a.op = "enabled";
        a.l = static_cast<int>(r.below(6));
      }
    }
    // arguments are prepared before the begin stamp so that the interval contains only the call
    fl::location const loc = to_location(a.loc);
    fl::optional_level const lvl = int_to_level(a.l);
    std::size_t const slot = a.o > 0 ? static_cast<std::size_t>((a.o - 1) % OPT) : 0;
    spin(r);
    if (a.op == "set")
    {
      call.sb = global_seq.fetch_add(1, seq_order);
      sh.ctx->set(loc, lvl);
      call.se = global_seq.fetch_add(1, seq_order);
    }
    else if (a.op == "get")
    {
      call.sb = global_seq.fetch_add(1, seq_order);
      fl::optional_level const res = sh.ctx->get(loc);
      call.se = global_seq.fetch_add(1, seq_order);
      call.ret = level_to_int(res);
    }
    else if (a.op == "create")
    {
      mine[slot].reset();
      fl::parameters const params{fl::name{a.name}, fl::format::optional_function{}};
      std::unique_ptr<fl::object> nw;
      if (a.kind == "ctx")
      {
        call.sb = global_seq.fetch_add(1, seq_order);
        nw = std::make_unique<fl::object>(fcppt::make_ref(*sh.ctx), params);
        call.se = global_seq.fetch_add(1, seq_order);
      }
      else if (a.kind == "loc")
      {
        call.sb = global_seq.fetch_add(1, seq_order);
        nw = std::make_unique<fl::object>(fcppt::make_ref(*sh.ctx), loc, params);
        call.se = global_seq.fetch_add(1, seq_order);
      }
      else
      {
        fl::object const &parent = *mine[static_cast<std::size_t>((a.par - 1) % OPT)];
        call.sb = global_seq.fetch_add(1, seq_order);
        nw = std::make_unique<fl::object>(parent, params);
        call.se = global_seq.fetch_add(1, seq_order);
      }
      mine[slot] = std::move(nw);
    }
    else if (a.op == "level")
    {
      fl::object const &ob = *mine[slot];
      call.sb = global_seq.fetch_add(1, seq_order);
      fl::optional_level const res = ob.level();
      call.se = global_seq.fetch_add(1, seq_order);
      call.ret = level_to_int(res);
    }
    else
    {
      fl::object const &ob = *mine[slot];
      auto const ml = static_cast<fl::level>(a.l);
      call.sb = global_seq.fetch_add(1, seq_order);
      bool const res = ob.enabled(ml);
      call.se = global_seq.fetch_add(1, seq_order);
      call.rb = res;
    }
    sh.calls[static_cast<std::size_t>(t)].push_back(std::move(call));
    spin(r);
  }
}

void write_quiescent(Shared &sh, char const *kind)
{
  std::vector<int> lv;
  for (auto const &p : sh.univ) lv.push_back(level_to_int(sh.ctx->get(to_location(p))));
  std::vector<int> ol;
  for (int t = 0; t < sh.nt; ++t)
    for (int k = 0; k < OPT; ++k)
    {
      auto const &o = sh.objs[static_cast<std::size_t>(t)][static_cast<std::size_t>(k)];
      ol.push_back(o ? level_to_int(o->level()) : -1);
    }
  vj::line(vj::J().kv("e", kind).kv("lv", lv).kv("ol", ol));
}

void flush_window(Shared &sh)
{
  struct Ev
  {
    long s;
    std::string line;
  };
  std::vector<Ev> evs;
  for (auto &cs : sh.calls)
  {
    for (auto const &c : cs)
    {
      vj::J b;
      b.kv("e", "b").kv("t", c.t + 1).kv("s", c.sb).kv("op", c.a.op).raw("loc", path_json(c.a.loc)).kv("l", c.a.l)
          .kv("o", c.a.o).kv("kind", c.a.kind).kv("par", c.a.par).raw("name", vj::cps(c.a.name))
          .raw("fmt", "[]").raw("msg", "[]").kv("r", c.ret).kv("rb", c.rb);
      evs.push_back(Ev{c.sb, b.str()});
      vj::J e;
      e.kv("e", "e").kv("t", c.t + 1).kv("s", c.se).kv("op", c.a.op);
      evs.push_back(Ev{c.se, e.str()});
    }
    cs.clear();
  }
  std::sort(evs.begin(), evs.end(), [](Ev const &x, Ev const &y) { return x.s < y.s; });
  for (auto const &e : evs) vj::line(e.line);
}

void run_threads(std::uint64_t seed, long run, int windows, int maxcalls)
{
  vj::Rng r0(seed * 7919ULL + static_cast<std::uint64_t>(run));
  Shared sh;
  sh.nt = 2 + static_cast<int>(r0.below(5));
  int const root = static_cast<int>(r0.below(7));
  sh.ctx = std::make_unique<fl::context>(int_to_level(root), make_streams(sh.sk, default_lf()));
  sh.objs.resize(static_cast<std::size_t>(sh.nt));
  sh.depth.resize(static_cast<std::size_t>(sh.nt));
  sh.calls.resize(static_cast<std::size_t>(sh.nt));
  {
    vj::J j;
    j.kv("e", "cstart").kv("run", run).kv("root", root).kv("nt", sh.nt).kv("opt", OPT);
    std::string u = "[";
    for (std::size_t i = 0; i < sh.univ.size(); ++i)
    {
      if (i) u += ',';
      u += path_json(sh.univ[i]);
    }
    j.raw("univ", u + "]");
    vj::line(j);
  }
  write_quiescent(sh, "q");
  Barrier bar(sh.nt);
  long const start_base = start_line.load();
  std::vector<std::thread> ths;
  for (int t = 0; t < sh.nt; ++t)
  {
    ths.emplace_back([&sh, &bar, t, seed, run, windows, maxcalls, start_base] {
      vj::Rng r(seed * 1000003ULL + static_cast<std::uint64_t>(run) * 64ULL + static_cast<std::uint64_t>(t) + 17ULL);
      for (int w = 0; w < windows; ++w)
      {
        bar.wait();
        {
          long const target = start_base + static_cast<long>(w + 1) * sh.nt;
          start_line.fetch_add(1, std::memory_order_relaxed);
          long spins = 0;
          while (start_line.load(std::memory_order_relaxed) < target && ++spins < 2000000) {}
        }
        thread_window(sh, t, r, 1 + static_cast<int>(r.below(static_cast<std::uint64_t>(maxcalls))));
        bar.wait();
        if (t == 0)
        {
          flush_window(sh);
          write_quiescent(sh, "q");
        }
      }
      bar.wait();
    });
  }
  for (auto &th : ths) th.join();
  // objects are destroyed before the context
  for (auto &os : sh.objs) for (auto &o : os) o.reset();
}
}

int main(int argc, char **argv)
{
  if (argc < 4)
  {
    std::fprintf(stderr, "usage: c19_log record|replay|threads ...\n");
    return 3;
  }
  std::string const mode = argv[1];
  if (mode == "record" && argc >= 6)
  {
    vj::open(argv[2]);
    std::uint64_t const seed = std::strtoull(argv[3], nullptr, 10);
    long const hist = std::strtol(argv[4], nullptr, 10);
    long const maxlen = std::strtol(argv[5], nullptr, 10);
    Seq s;
    for (long h = 0; h < hist; ++h)
    {
      vj::Rng r(seed * 1000003ULL + static_cast<std::uint64_t>(h));
      std::array<lfmt, 6> lf;
      for (std::size_t i = 0; i < 6; ++i)
      {
        auto const k = r.below(6);
        lf[i].k = k == 0 ? 0 : (k == 1 ? 2 : 1);
        if (lf[i].k == 2)
        {
          lf[i].pre = std::string("<L") + static_cast<char>('0' + i) + " ";
          lf[i].suf = ">\n";
        }
      }
      s.depth.fill(0);
      s.reset(h, static_cast<int>(r.below(7)), lf);
      long const len = 1 + static_cast<long>(r.below(static_cast<std::uint64_t>(maxlen)));
      for (long i = 0; i < len; ++i)
      {
        Op a;
        if (!s.gen(r, a)) break;
        s.exec(a);
      }
    }
    for (auto &o : s.objs) o.reset();
    vj::close();
    return 0;
  }
  if (mode == "replay")
  {
    auto lines = vj::read_lines(argv[2]);
    vj::open(argv[3]);
    Seq s;
    long h = 0;
    for (auto const &l : lines)
    {
      vj::VP script = vj::parse(l);
      bool started = false;
      for (auto const &e : script->a)
      {
        if (e->str("op") == "reset")
        {
          std::array<lfmt, 6> lf = default_lf();
          if (e->has("lf"))
          {
            std::size_t i = 0;
            for (auto const &f : e->at("lf").a)
            {
              if (i >= 6) break;
              lf[i].k = static_cast<int>(f->num("k"));
              lf[i].pre = cps_to_string(f->at("pre"));
              lf[i].suf = cps_to_string(f->at("suf"));
              ++i;
            }
          }
          s.reset(h++, static_cast<int>(e->num("l")), lf);
          started = true;
          continue;
        }
        if (!started)
        {
          s.reset(h++, 2, default_lf());
          started = true;
        }
        s.exec(op_from_json(*e));
      }
    }
    for (auto &o : s.objs) o.reset();
    vj::close();
    return 0;
  }
  if (mode == "threads" && argc >= 7)
  {
    vj::open(argv[2]);
    std::uint64_t const seed = std::strtoull(argv[3], nullptr, 10);
    long const runs = std::strtol(argv[4], nullptr, 10);
    int const windows = static_cast<int>(std::strtol(argv[5], nullptr, 10));
    int const maxcalls = static_cast<int>(std::strtol(argv[6], nullptr, 10));
    for (long run = 0; run < runs; ++run) run_threads(seed, run, windows, maxcalls);
    vj::close();
    return 0;
  }
  std::fprintf(stderr, "bad arguments\n");
  return 3;
}
