// C19 conformance harness: drives fcppt::log::context / fcppt::log::object and records what
// they did.  It contains no expected values: spec/LogTrace.tla (TLC) is the judge.
//
//   c19_log record  OUT seed histories maxlen [first [recs]]   sequential random histories
//   c19_log replay  SCRIPTS.ndjson OUT [first]                 sequential TLC-generated scripts
//   c19_log threads OUT seed runs windows maxcalls [first]     threaded driver (2-6 threads on one context)
//
// `first`: index of the first history / script / run to execute (the check restarts the harness behind a
// history in which the code under test crashed or hung); `recs` = 0: no independent call records.
// Built with -DC19_CORE_ONLY only what the statement of C19 names is compiled (context::set/get, the
// three object constructors, level, enabled, log); the observed-only parts (call records, accessors,
// FCPPT_LOG_* macros) are left out, so that a tree in which one of THOSE no longer compiles is still
// judged on the in-scope part.
// Every driven call runs under alarm(): a hang of the code under test ends the process with rc 68.
//
// Sequential events: after every call the harness reads back context::get for every location of
// the universe (depth <= 3, three names) and object::level of every object slot, so that the
// judge compares full projected states.
// Threaded events: every call is logged as a begin event (sequence number taken immediately
// before the call) and an end event (taken immediately after it returned) from one global
// std::atomic counter; threads rendez-vous every <= maxcalls calls and the quiescent state is
// read back.  Built with -DC19_TSAN the counter is relaxed (so that the harness adds no
// happens-before edges between calls) and only ThreadSanitizer's verdict is used.
#include <common/vjson.hpp>

#include <fcppt/make_ref.hpp>
#include <fcppt/string.hpp>
#include <fcppt/enum/array_init.hpp>
#include <fcppt/log/context.hpp>
#include <fcppt/log/level.hpp>
#include <fcppt/log/level_stream.hpp>
#include <fcppt/log/level_stream_array.hpp>
#include <fcppt/log/location.hpp>
#include <fcppt/log/name.hpp>
#include <fcppt/log/object.hpp>
#include <fcppt/log/optional_level.hpp>
#include <fcppt/log/out.hpp>
#include <fcppt/log/parameters.hpp>
#if !defined(C19_CORE_ONLY)
#include <fcppt/log/debug.hpp>
#include <fcppt/log/error.hpp>
#include <fcppt/log/fatal.hpp>
#include <fcppt/log/info.hpp>
#include <fcppt/log/verbose.hpp>
#include <fcppt/log/warning.hpp>
#include <fcppt/log/default_level_streams.hpp>
#include <fcppt/log/default_stream.hpp>
#include <fcppt/log/level_from_string.hpp>
#include <fcppt/log/level_input.hpp>
#include <fcppt/log/level_output.hpp>
#include <fcppt/log/level_to_string.hpp>
#include <fcppt/log/parameters_no_function.hpp>
#include <fcppt/log/format/chain.hpp>
#include <fcppt/log/format/prefix.hpp>
#include <fcppt/log/format/time_stamp.hpp>
#include <fcppt/io/cerr.hpp>
#include <fcppt/io/clog.hpp>
#endif
#include <fcppt/log/format/default_level.hpp>
#include <fcppt/log/format/function.hpp>
#include <fcppt/log/format/inserter.hpp>
#include <fcppt/log/format/optional_function.hpp>
#include <fcppt/log/format/prefix_string.hpp>
#include <fcppt/log/format/suffix_string.hpp>
#include <fcppt/optional/maybe.hpp>

#include <algorithm>
#include <array>
#include <atomic>
#include <condition_variable>
#include <iostream>
#include <memory>
#include <mutex>
#include <sstream>
#include <string>
#include <thread>
#include <vector>

namespace
{
namespace fl = fcppt::log;
using path = std::vector<std::string>;

// ---------------------------------------------------------------- conversions (no semantics)
// an EMPTY optional_level is logged as 6; a present level as its enumerator value 0..5.  A present value
// that is no enumerator (garbage, or the integer the library uses internally for "none" leaking out as a
// level) is logged as 100 + value (clamped), so that it can never be mistaken for "none"
int level_to_int(fl::optional_level const &l)
{
  return fcppt::optional::maybe(
      l, [] { return 6; }, [](fl::level v) {
        long long const i = static_cast<long long>(v);
        return i >= 0 && i <= 5 ? static_cast<int>(i) : 100 + static_cast<int>(std::min(std::max(i, 0LL), 1000000LL));
      });
}
fl::optional_level int_to_level(int v)
{
  return v >= 6 ? fl::optional_level{} : fl::optional_level{static_cast<fl::level>(v)};
}
fl::location to_location(path const &p)
{
  fl::location loc;
  for (auto const &n : p) loc /= fl::name{n};
  return loc;
}
std::string path_json(path const &p)
{
  std::string s = "[";
  for (std::size_t i = 0; i < p.size(); ++i)
  {
    if (i) s += ',';
    s += vj::cps(p[i]);
  }
  return s + "]";
}
std::string cps_to_string(vj::V const &v)
{
  std::string s;
  for (auto const &c : v.a) s += static_cast<char>(c->n);
  return s;
}
path path_from(vj::V const &v)
{
  path p;
  for (auto const &n : v.a) p.push_back(cps_to_string(*n));
  return p;
}

std::vector<path> make_universe(std::vector<std::string> const &names, unsigned depth)
{
  std::vector<path> all{path{}};
  std::size_t first = 0;
  for (unsigned d = 0; d < depth; ++d)
  {
    std::size_t const last = all.size();
    for (std::size_t i = first; i < last; ++i)
      for (auto const &n : names)
      {
        path q = all[i];
        q.push_back(n);
        all.push_back(q);
      }
    first = last;
  }
  return all;
}

// ---------------------------------------------------------------- level stream formatter kinds
struct lfmt
{
  int k = 1; // 0 none, 1 format::default_level, 2 format::inserter(pre, suf)
  std::string pre, suf;
};

struct sinks
{
  std::array<std::ostringstream, 6> s;
};

fl::level_stream_array make_streams(sinks &sk, std::array<lfmt, 6> const &lf)
{
  return fcppt::enum_::array_init<fl::level_stream_array>([&sk, &lf](fl::level const lv) {
    auto const i = static_cast<std::size_t>(lv);
    lfmt const &f = lf[i];
    fl::format::optional_function fn{};
    if (f.k == 1) fn = fl::format::optional_function{fl::format::default_level(lv)};
    if (f.k == 2)
      fn = fl::format::optional_function{fl::format::inserter(
          fl::format::prefix_string{f.pre}, fl::format::suffix_string{f.suf})};
    return fl::level_stream(sk.s[i], std::move(fn));
  });
}

fl::format::optional_function object_formatter(std::string const &prefix)
{
  if (prefix.empty()) return fl::format::optional_function{};
  return fl::format::optional_function{fl::format::function{
      [prefix](fcppt::string const &text) -> fcppt::string { return prefix + text; }}};
}

// the message expression of a log call has a side effect, so that the documented laziness of the
// FCPPT_LOG_* macros ("the construction of the log message is avoided altogether when debug is
// not enabled") becomes observable
int g_evals = 0;
unsigned call_alarm_s = 30; // watchdog per driven call incl. the read-back (the box may be heavily loaded)
std::string const &counted(std::string const &m)
{
  ++g_evals;
  return m;
}

// ---------------------------------------------------------------- sequential driver
struct Op
{
  std::string op;
  path loc;
  int l = 0;
  int o = 0;
  std::string kind;
  int par = 0;
  std::string name;
  std::string fmt;
  std::string msg;
};

constexpr int NO = 4; // object slots

struct Seq
{
  // "a" / "ab" share a prefix and the first character, "ab" / "b" the last one, "a" / "b" the length:
  // a name comparison that looks at less than the whole name confuses two of them
  std::vector<std::string> names{"a", "ab", "b"};
  std::vector<path> univ = make_universe(names, 3);
  sinks sk;
  std::unique_ptr<fl::context> ctx;
  std::array<std::unique_ptr<fl::object>, NO + 1> objs;

  void reset(long h, int root, std::array<lfmt, 6> const &lf)
  {
    for (auto &o : objs) o.reset();
    ctx.reset();
    for (auto &s : sk.s) s.str(std::string());
    ctx = std::make_unique<fl::context>(int_to_level(root), make_streams(sk, lf));
    vj::J j;
    j.kv("e", "reset").kv("h", h).kv("root", root);
    std::string lfs = "[";
    for (std::size_t i = 0; i < 6; ++i)
    {
      if (i) lfs += ',';
      lfs += vj::J().kv("k", lf[i].k).raw("pre", vj::cps(lf[i].pre)).raw("suf", vj::cps(lf[i].suf)).str();
    }
    j.raw("lf", lfs + "]");
    std::string u = "[";
    for (std::size_t i = 0; i < univ.size(); ++i)
    {
      if (i) u += ',';
      u += path_json(univ[i]);
    }
    j.raw("univ", u + "]");
    j.kv("no", NO);
    vj::line(j);
  }

  std::string readback()
  {
    std::vector<int> lv;
    for (auto const &p : univ) lv.push_back(level_to_int(ctx->get(to_location(p))));
    std::vector<int> ol;
    for (int i = 1; i <= NO; ++i) ol.push_back(objs[static_cast<std::size_t>(i)] ? level_to_int(objs[static_cast<std::size_t>(i)]->level()) : -1);
    return ",\"lv\":" + vj::arr(lv) + ",\"ol\":" + vj::arr(ol);
  }

  // false: the call (or the read-back after it) threw - the event is logged with "exc" instead of
  // results and the caller abandons the history (the check rejects the event, C19:<op>:exception)
  bool exec(Op const &a)
  {
#if defined(C19_CORE_ONLY)
    if (a.op == "logm" || a.op == "acc") return true; // observed-only operations are not compiled in
#endif
    vj::J pre;
    pre.kv("e", "op").kv("op", a.op).raw("loc", path_json(a.loc)).kv("l", a.l).kv("o", a.o)
        .kv("kind", a.kind).kv("par", a.par).raw("name", vj::cps(a.name)).raw("fmt", vj::cps(a.fmt))
        .raw("msg", vj::cps(a.msg));
    vj::begin_call(pre.s);
    int ret = -1;
    bool rb = false;
    bool acc_has = false, acc_same = false;
    int acc_idx = -1;
    std::string acc_text;
    g_evals = 0;
    auto const oi = static_cast<std::size_t>(a.o);
    std::string rest;
    ::alarm(call_alarm_s);
    try
    {
    if (a.op == "set")
      ctx->set(to_location(a.loc), int_to_level(a.l));
    else if (a.op == "get")
      ret = level_to_int(ctx->get(to_location(a.loc)));
    else if (a.op == "create")
    {
      objs[oi].reset();
      // parameters.hpp / parameters_no_function.hpp: the two ways to make parameters
#if defined(C19_CORE_ONLY)
      fl::parameters params{fl::name{a.name}, object_formatter(a.fmt)};
#else
      fl::parameters params = a.fmt.empty() && (a.o % 2 == 1)
                                  ? fl::parameters_no_function(fl::name{a.name})
                                  : fl::parameters{fl::name{a.name}, object_formatter(a.fmt)};
#endif
      if (a.kind == "ctx")
        objs[oi] = std::make_unique<fl::object>(fcppt::make_ref(*ctx), params);
      else if (a.kind == "loc")
        objs[oi] = std::make_unique<fl::object>(fcppt::make_ref(*ctx), to_location(a.loc), params);
      else
        objs[oi] = std::make_unique<fl::object>(*objs[static_cast<std::size_t>(a.par)], params);
    }
    else if (a.op == "level")
      ret = level_to_int(objs[oi]->level());
    else if (a.op == "enabled")
      rb = objs[oi]->enabled(static_cast<fl::level>(a.l));
    else if (a.op == "log")
    {
      // messages of >= 2 characters are inserted in two / three pieces (out << x << y << z): both
      // operator<< overloads of temporary_output are driven; the recorded message is the whole text
      if (a.msg.size() >= 3)
        objs[oi]->log(static_cast<fl::level>(a.l), fl::out << counted(a.msg).substr(0, 1) << a.msg[1] << a.msg.substr(2));
      else if (a.msg.size() == 2)
        objs[oi]->log(static_cast<fl::level>(a.l), fl::out << counted(a.msg).substr(0, 1) << a.msg.substr(1));
      else
        objs[oi]->log(static_cast<fl::level>(a.l), fl::out << counted(a.msg));
    }
#if !defined(C19_CORE_ONLY)
    else if (a.op == "logm")
    {
      fl::object &ob = *objs[oi];
      switch (a.l)
      {
      case 0: FCPPT_LOG_VERBOSE(ob, fl::out << counted(a.msg)) break;
      case 1: FCPPT_LOG_DEBUG(ob, fl::out << counted(a.msg)) break;
      case 2: FCPPT_LOG_INFO(ob, fl::out << counted(a.msg)) break;
      case 3: FCPPT_LOG_WARNING(ob, fl::out << counted(a.msg)) break;
      case 4: FCPPT_LOG_ERROR(ob, fl::out << counted(a.msg)) break;
      default: FCPPT_LOG_FATAL(ob, fl::out << counted(a.msg)) break;
      }
    }
    else if (a.op == "acc")
    {
      // accessors of fcppt::log::object: formatter(), level_streams(), level_sink()
      fl::object const &ob = *objs[oi];
      fl::format::optional_function const &f = ob.formatter();
      acc_has = f.has_value();
      if (acc_has) acc_text = f.get_unsafe()(a.msg);
      fl::level_stream_array const &ls = ob.level_streams();
      acc_same = &ls == &ctx->level_streams().get();
      fl::level_stream const &sk_ = ob.level_sink(static_cast<fl::level>(a.l));
      acc_idx = -1;
      for (int i = 0; i < 6; ++i)
        if (&ls[static_cast<fl::level>(i)] == &sk_) acc_idx = i;
    }
#endif
    else
    {
      std::fprintf(stderr, "unknown op %s\n", a.op.c_str());
      std::exit(3);
    }
    rest = ",\"ret\":" + std::to_string(ret) + ",\"rb\":" + (rb ? "true" : "false") + ",\"ev\":" +
                       std::to_string(g_evals) + ",\"hasf\":" + (acc_has ? "true" : "false") + ",\"ft\":" + vj::cps(acc_text) +
                       ",\"lss\":" + (acc_same ? "true" : "false") + ",\"si\":" + std::to_string(acc_idx) + ",\"out\":[";
    for (std::size_t i = 0; i < 6; ++i)
    {
      if (i) rest += ',';
      rest += vj::cps(sk.s[i].str());
      sk.s[i].str(std::string());
    }
    rest += "]";
    rest += readback();
    rest += "}";
    }
    catch (std::exception const &ex)
    {
      ::alarm(0);
      vj::end_call(",\"exc\":\"" + vj::esc((std::string(typeid(ex).name()) + ": " + ex.what()).substr(0, 200)) + "\"}");
      for (auto &s_ : sk.s) s_.str(std::string());
      return false;
    }
    catch (...)
    {
      ::alarm(0);
      vj::end_call(",\"exc\":\"unknown exception type\"}");
      for (auto &s_ : sk.s) s_.str(std::string());
      return false;
    }
    ::alarm(0);
    vj::end_call(rest);
    return true;
  }

  // length of the path an object slot refers to is tracked only to keep the generated
  // locations inside the universe (a generator bound, not an expected value)
  std::array<std::size_t, NO + 1> depth{};

  bool gen(vj::Rng &r, Op &a)
  {
    auto rnd_path = [&](std::size_t maxd) {
      path p;
      std::size_t const d = static_cast<std::size_t>(r.below(maxd + 1));
      for (std::size_t i = 0; i < d; ++i) p.push_back(names[static_cast<std::size_t>(r.below(names.size()))]);
      return p;
    };
    std::vector<int> bound;
    for (int i = 1; i <= NO; ++i) if (objs[static_cast<std::size_t>(i)]) bound.push_back(i);
    auto const w = r.below(100);
    a = Op{};
    if (w < 30 || (bound.empty() && w >= 65))
    {
      a.op = "set";
      a.loc = rnd_path(3);
      a.l = static_cast<int>(r.below(7));
      return true;
    }
    if (w < 45)
    {
      a.op = "get";
      a.loc = rnd_path(3);
      return true;
    }
    if (w < 65)
    {
      a.op = "create";
      a.o = 1 + static_cast<int>(r.below(NO));
      a.name = names[static_cast<std::size_t>(r.below(names.size()))];
      if (r.below(3) == 0) a.fmt = std::string("O") + static_cast<char>('0' + a.o) + "| ";
      auto const k = r.below(3);
      std::vector<int> parents;
      for (int b : bound) if (depth[static_cast<std::size_t>(b)] < 3 && b != a.o) parents.push_back(b);
      if (k == 0 && !parents.empty())
      {
        a.kind = "parent";
        a.par = parents[static_cast<std::size_t>(r.below(parents.size()))];
        depth[static_cast<std::size_t>(a.o)] = depth[static_cast<std::size_t>(a.par)] + 1;
      }
      else if (k == 1)
      {
        a.kind = "ctx";
        depth[static_cast<std::size_t>(a.o)] = 1;
      }
      else
      {
        a.kind = "loc";
        a.loc = rnd_path(2);
        depth[static_cast<std::size_t>(a.o)] = a.loc.size() + 1;
      }
      return true;
    }
    a.o = bound[static_cast<std::size_t>(r.below(bound.size()))];
    if (w < 70)
    {
      a.op = "level";
      return true;
    }
    a.l = static_cast<int>(r.below(6));
    if (w < 80)
    {
      a.op = "enabled";
      return true;
    }
    a.op = w < 87 ? "log" : (w < 96 ? "logm" : "acc");
    std::size_t const n = static_cast<std::size_t>(r.below(4));
    for (std::size_t i = 0; i < n; ++i) a.msg += static_cast<char>('m' + r.below(3));
    return true;
  }
};

#if !defined(C19_CORE_ONLY)
// ---------------------------------------------------------------- independent call records
// ("e":"rec"): the rest of fcppt.log behind the property - level names, default streams, formatter
// functions and their composition, level_stream as a sink machine, parameters.  Judged by
// LogTrace!TRec against LogFormat.tla.
struct FmtSpec
{
  int k = 0; // 0 none, 1 default_level(l), 2 inserter(pre,suf), 3 caller function pre+text, 4 prefix(pre)
  int l = 0;
  std::string pre, suf;
};

fl::format::optional_function make_fmt(FmtSpec const &f)
{
  switch (f.k)
  {
  case 1: return fl::format::optional_function{fl::format::default_level(static_cast<fl::level>(f.l))};
  case 2:
    return fl::format::optional_function{
        fl::format::inserter(fl::format::prefix_string{f.pre}, fl::format::suffix_string{f.suf})};
  case 3: return object_formatter(f.pre);
  case 4: return fl::format::optional_function{fl::format::prefix(fl::format::prefix_string{f.pre})};
  default: return fl::format::optional_function{};
  }
}

std::string fmt_json(FmtSpec const &f)
{
  return vj::J().kv("k", f.k).kv("l", f.l).raw("pre", vj::cps(f.pre)).raw("suf", vj::cps(f.suf)).str();
}

FmtSpec rnd_fmt(vj::Rng &r)
{
  FmtSpec f;
  f.k = static_cast<int>(r.below(5));
  f.l = static_cast<int>(r.below(6));
  if (f.k == 3 && r.below(4) == 0) f.k = 0; // an empty caller prefix would be indistinguishable from none
  static char const *const pres[] = {"A", "Bb", "<", "x y", "#"};
  static char const *const sufs[] = {"", ">", "\n", "!!"};
  if (f.k >= 2) f.pre = pres[r.below(5)];
  if (f.k == 2) f.suf = sufs[r.below(4)];
  return f;
}

int which_std_stream(fcppt::io::ostream const &s)
{
  return &s == &fcppt::io::clog() ? 0 : (&s == &fcppt::io::cerr() ? 1 : 2);
}

void rec_level_strings(std::string const &str)
{
  {
    vj::J j;
    j.kv("e", "rec").kv("f", "from_string").raw("s", vj::cps(str));
    vj::begin_call(j.s);
    int const r = level_to_int(fl::level_from_string(str));
    vj::end_call(",\"r\":" + std::to_string(r) + "}");
  }
  if (!str.empty() && str.find_first_of(" \t\n") == std::string::npos)
  {
    vj::J j;
    j.kv("e", "rec").kv("f", "input").raw("s", vj::cps(str));
    vj::begin_call(j.s);
    std::istringstream in(str);
    fl::level lv = fl::level::verbose;
    in >> lv;
    bool const ok = !in.fail();
    vj::end_call(std::string(",\"ok\":") + (ok ? "true" : "false") + ",\"r\":" + std::to_string(static_cast<int>(lv)) + "}");
  }
}

void rec_level(int l)
{
  auto const lv = static_cast<fl::level>(l);
  {
    vj::J j;
    j.kv("e", "rec").kv("f", "to_string").kv("l", l);
    vj::begin_call(j.s);
    std::string const r{fl::level_to_string(lv)};
    vj::end_call(",\"s\":" + vj::cps(r) + "}");
  }
  {
    vj::J j;
    j.kv("e", "rec").kv("f", "output").kv("l", l);
    vj::begin_call(j.s);
    std::ostringstream o;
    o << lv;
    vj::end_call(",\"s\":" + vj::cps(o.str()) + "}");
  }
  {
    vj::J j;
    j.kv("e", "rec").kv("f", "default_stream").kv("l", l);
    vj::begin_call(j.s);
    int const w = which_std_stream(fl::default_stream(lv));
    vj::end_call(",\"which\":" + std::to_string(w) + "}");
  }
}

void rec_default_level_streams(int l, std::string const &msg)
{
  vj::J j;
  j.kv("e", "rec").kv("f", "dls").kv("l", l).raw("msg", vj::cps(msg));
  vj::begin_call(j.s);
  fl::level_stream_array arr{fl::default_level_streams()};
  fl::level_stream &ls = arr[static_cast<fl::level>(l)];
  int const w = which_std_stream(ls.get());
  bool const has = ls.formatter().has_value();
  std::string const text = has ? ls.formatter().get_unsafe()(msg) : std::string();
  vj::end_call(",\"which\":" + std::to_string(w) + ",\"has\":" + (has ? "true" : "false") + ",\"text\":" + vj::cps(text) + "}");
}

// a context with the default level streams; std::clog / std::cerr are redirected for the call
void rec_default_log(int root, std::string const &name, int l, std::string const &msg)
{
  vj::J j;
  j.kv("e", "rec").kv("f", "dlog").kv("root", root).raw("name", vj::cps(name)).kv("l", l).raw("msg", vj::cps(msg));
  vj::begin_call(j.s);
  std::ostringstream cl, ce;
  std::streambuf *const old_clog = std::clog.rdbuf(cl.rdbuf());
  std::streambuf *const old_cerr = std::cerr.rdbuf(ce.rdbuf());
  {
    fl::context c{int_to_level(root), fl::default_level_streams()};
    fl::object o{fcppt::make_ref(c), fl::parameters_no_function(fl::name{name})};
    o.log(static_cast<fl::level>(l), fl::out << msg);
  }
  std::clog.rdbuf(old_clog);
  std::cerr.rdbuf(old_cerr);
  vj::end_call(",\"clog\":" + vj::cps(cl.str()) + ",\"cerr\":" + vj::cps(ce.str()) + "}");
}

void rec_chain(FmtSpec const &p_, FmtSpec const &c, std::string const &t)
{
  vj::J j;
  j.kv("e", "rec").kv("f", "chain").raw("p", fmt_json(p_)).raw("c", fmt_json(c)).raw("t", vj::cps(t));
  vj::begin_call(j.s);
  fl::format::optional_function const r = fl::format::chain(make_fmt(p_), make_fmt(c));
  bool const has = r.has_value();
  std::string const text = has ? r.get_unsafe()(t) : std::string();
  vj::end_call(std::string(",\"has\":") + (has ? "true" : "false") + ",\"r\":" + vj::cps(text) + "}");
}

void rec_fmt(FmtSpec const &g, std::string const &t)
{
  vj::J j;
  j.kv("e", "rec").kv("f", "fmt").raw("g", fmt_json(g)).raw("t", vj::cps(t));
  vj::begin_call(j.s);
  fl::format::optional_function const f = make_fmt(g);
  std::string const text = f.has_value() ? f.get_unsafe()(t) : t;
  vj::end_call(",\"r\":" + vj::cps(text) + "}");
}

void rec_time_stamp(std::string const &t)
{
  vj::J j;
  j.kv("e", "rec").kv("f", "time_stamp").raw("t", vj::cps(t));
  vj::begin_call(j.s);
  std::string const text = fl::format::time_stamp()(t);
  vj::end_call(",\"r\":" + vj::cps(text) + "}");
}

void rec_params(std::string const &name, FmtSpec const &g, bool nofn, std::string const &t)
{
  vj::J j;
  j.kv("e", "rec").kv("f", "params").raw("name", vj::cps(name)).raw("g", fmt_json(g)).kv("nofn", nofn).raw("t", vj::cps(t));
  vj::begin_call(j.s);
  fl::parameters const prm = nofn ? fl::parameters_no_function(fl::name{name}) : fl::parameters{fl::name{name}, make_fmt(g)};
  bool const has = prm.formatter().has_value();
  std::string const text = has ? prm.formatter().get_unsafe()(t) : std::string();
  vj::end_call(",\"rname\":" + vj::cps(prm.name().get()) + ",\"has\":" + (has ? "true" : "false") + ",\"r\":" + vj::cps(text) + "}");
}

// level_stream as a machine: constructor(sink 1, own formatter), then log / sink / get steps
void rec_level_stream(vj::Rng &r)
{
  FmtSpec const own = rnd_fmt(r);
  struct Step
  {
    int s; // 0 log, 1 sink, 2 get
    FmtSpec add;
    std::string msg;
    int k;
  };
  std::vector<Step> steps;
  std::size_t const n = 1 + static_cast<std::size_t>(r.below(5));
  for (std::size_t i = 0; i < n; ++i)
  {
    Step st{static_cast<int>(r.below(3)), rnd_fmt(r), std::string(1, static_cast<char>('p' + r.below(3))), 1 + static_cast<int>(r.below(2))};
    steps.push_back(st);
  }
  std::string sj = "[";
  for (std::size_t i = 0; i < steps.size(); ++i)
  {
    if (i) sj += ',';
    Step const &st = steps[i];
    if (st.s == 0) sj += vj::J().kv("s", "log").raw("add", fmt_json(st.add)).raw("msg", vj::cps(st.msg)).str();
    else if (st.s == 1) sj += vj::J().kv("s", "sink").kv("k", st.k).str();
    else sj += vj::J().kv("s", "get").str();
  }
  sj += "]";
  vj::J j;
  j.kv("e", "rec").kv("f", "level_stream").raw("own", fmt_json(own)).raw("steps", sj);
  vj::begin_call(j.s);
  std::ostringstream s1, s2;
  fl::level_stream ls{s1, make_fmt(own)};
  std::string res = "[";
  for (std::size_t i = 0; i < steps.size(); ++i)
  {
    if (i) res += ',';
    Step const &st = steps[i];
    int k = 0;
    std::string text;
    if (st.s == 0)
    {
      ls.log(fl::out << st.msg, make_fmt(st.add));
      if (!s1.str().empty()) { k += 1; text = s1.str(); }
      if (!s2.str().empty()) { k += 2; text = s2.str(); }
      s1.str(std::string());
      s2.str(std::string());
    }
    else if (st.s == 1)
      ls.sink(st.k == 1 ? s1 : s2);
    else
      k = &ls.get() == &s1 ? 1 : (&ls.get() == &s2 ? 2 : 3);
    res += vj::J().kv("k", k).raw("text", vj::cps(text)).str();
  }
  res += "]";
  vj::end_call(",\"res\":" + res + "}");
}

void emit_exhaustive_recs()
{
  char const *const names[] = {"verbose", "debug", "info", "warning", "error", "fatal"};
  for (int l = 0; l < 6; ++l) rec_level(l);
  for (auto const *n : names)
  {
    std::string const s{n};
    rec_level_strings(s);
    for (std::size_t n = 1; n < s.size(); ++n) rec_level_strings(s.substr(0, n));
    rec_level_strings(s + "s");
    rec_level_strings(s + " ");
    rec_level_strings(" " + s);
    std::string up = s;
    up[0] = static_cast<char>(up[0] - 32);
    rec_level_strings(up);
  }
  for (auto const *n : {"", "fcppt_maximum", "size", "none", "0", "5", "disabled", "level::debug"}) rec_level_strings(n);
  for (int l = 0; l < 6; ++l) rec_default_level_streams(l, "m");
  for (int root = 0; root <= 6; ++root)
    for (int l = 0; l < 6; ++l) rec_default_log(root, "nm", l, "hi");
  rec_time_stamp("");
  rec_time_stamp("tick");
}

void emit_random_recs(vj::Rng &r)
{
  static char const *const texts[] = {"", "t", "two words", "x\n"};
  std::string const t = texts[r.below(4)];
  switch (r.below(6))
  {
  case 0: rec_chain(rnd_fmt(r), rnd_fmt(r), t); break;
  case 1: rec_fmt(rnd_fmt(r), t); break;
  case 2: rec_params(std::string(1, static_cast<char>('a' + r.below(3))), rnd_fmt(r), r.below(3) == 0, t); break;
  case 3: rec_level_stream(r); break;
  case 4: rec_default_level_streams(static_cast<int>(r.below(6)), t); break;
  default:
  {
    std::string w;
    std::size_t const n = static_cast<std::size_t>(r.below(8));
    for (std::size_t i = 0; i < n; ++i) w += "debuginfowarnerrfatlvs"[r.below(22)];
    rec_level_strings(w);
  }
  }
}

#endif // !C19_CORE_ONLY

std::vector<Op> directed_none(long const h)
{
  std::vector<Op> ops;
  path const full{"a", "ab", "b"};
  path const loc(full.begin(), full.begin() + static_cast<long>((h / 2) % 4)); // depth 0..3
  path const where(loc.begin(), loc.begin() + static_cast<long>(std::min<std::size_t>(loc.size(), 2)));
  auto mk = [](char const *op) { Op a; a.op = op; return a; };
  if (h % 2 == 1)
  {
    Op a = mk("set");
    a.loc = loc;
    a.l = 6;
    ops.push_back(a);
  }
  {
    Op a = mk("create"); a.o = 1; a.kind = "ctx"; a.name = where.empty() ? "a" : where[0]; ops.push_back(a);
    Op b = mk("create"); b.o = 2; b.kind = "loc"; b.loc = where; b.name = "b"; b.fmt = "O2| "; ops.push_back(b);
    Op c = mk("create"); c.o = 3; c.kind = "parent"; c.par = 1; c.name = where.size() >= 2 ? where[1] : "ab"; ops.push_back(c);
  }
  for (int o = 1; o <= 3; ++o)
  {
    Op lv = mk("level"); lv.o = o; ops.push_back(lv);
    for (int l = 0; l < 6; ++l)
    {
      Op e = mk("enabled"); e.o = o; e.l = l; ops.push_back(e);
      Op g = mk("log"); g.o = o; g.l = l; g.msg = "mno"; ops.push_back(g);
      Op m = mk("logm"); m.o = o; m.l = l; m.msg = "n"; ops.push_back(m);
    }
  }
  {
    Op g = mk("get"); g.loc = loc; ops.push_back(g);
    Op g2 = mk("get"); g2.loc = where; g2.loc.push_back("b"); ops.push_back(g2);
  }
  return ops;
}

Op op_from_json(vj::V const &e)
{
  Op a;
  a.op = e.str("op");
  a.loc = path_from(e.at("loc"));
  a.l = static_cast<int>(e.num("l"));
  a.o = static_cast<int>(e.num("o"));
  a.kind = e.str("kind");
  a.par = static_cast<int>(e.num("par"));
  a.name = cps_to_string(e.at("name"));
  a.fmt = cps_to_string(e.at("fmt"));
  a.msg = cps_to_string(e.at("msg"));
  return a;
}

std::array<lfmt, 6> default_lf()
{
  std::array<lfmt, 6> lf;
  return lf;
}

// ---------------------------------------------------------------- threaded driver
#if defined(C19_TSAN)
constexpr std::memory_order seq_order = std::memory_order_relaxed;
#else
constexpr std::memory_order seq_order = std::memory_order_seq_cst;
#endif

std::atomic<long> global_seq{0};

struct Barrier
{
  std::mutex m;
  std::condition_variable cv;
  int n;
  int waiting = 0;
  long gen = 0;
  explicit Barrier(int n_) : n(n_) {}
  void wait()
  {
    std::unique_lock<std::mutex> lk(m);
    long const g = gen;
    if (++waiting == n)
    {
      waiting = 0;
      ++gen;
      cv.notify_all();
    }
    else
      cv.wait(lk, [&] { return gen != g; });
  }
};

struct Call
{
  long sb = 0, se = 0;
  int t = 0;
  Op a;
  int ret = -1;
  bool rb = false;
};

constexpr int OPT = 2; // object slots per thread

struct Shared
{
  std::vector<std::string> names{"a", "ab", "b"};
  std::vector<path> univ = make_universe(names, 3);
  sinks sk;
  std::unique_ptr<fl::context> ctx;
  int nt = 0;
  std::vector<std::array<std::unique_ptr<fl::object>, OPT>> objs; // [thread][slot]
  std::vector<std::array<std::size_t, OPT>> depth;
  std::vector<std::vector<Call>> calls; // per thread, current window
};

// which public call every thread is inside (0 = none), for the report of a crash / hang: written
// before the begin stamp and cleared after the end stamp (relaxed: no happens-before edge is added)
std::array<std::atomic<int>, 8> in_call{};
unsigned run_alarm_s = 60;
char const *const call_names[] = {"", "set", "get", "create", "level", "enabled"};
int call_code(std::string const &op)
{
  for (int i = 1; i <= 5; ++i) if (op == call_names[i]) return i;
  return 0;
}
void report_pending()
{
  char buf[200];
  int n = std::snprintf(buf, sizeof buf, "\nC19-PENDING-CALLS");
  for (auto const &c : in_call)
  {
    int const k = c.load(std::memory_order_relaxed);
    if (k > 0 && k <= 5 && n < 180) n += std::snprintf(buf + n, sizeof buf - static_cast<std::size_t>(n), " %s", call_names[k]);
  }
  if (n < 198) buf[n++] = '\n';
  ssize_t const w = ::write(2, buf, static_cast<std::size_t>(n));
  (void)w;
}
void pending_on_signal(int sig)
{
  report_pending();
  vj::on_signal(sig);
}
void pending_on_terminate()
{
  report_pending();
  vj::on_terminate();
}
void install_pending_reporter()
{
  std::set_terminate(pending_on_terminate);
  std::signal(SIGALRM, pending_on_signal);
  std::signal(SIGABRT, pending_on_signal);
#if !defined(C19_TSAN)
  std::signal(SIGSEGV, pending_on_signal);
#endif
}

bool no_focus = false;       // experiment switch (env C19_NOFOCUS=1)
long jitter_max = 400;       // experiment switch (env C19_JITTER=n): longest random spin between calls

void spin(vj::Rng &r)
{
  auto const k = r.below(8);
  if (k == 0) std::this_thread::yield();
  else if (k == 1)
  {
    volatile unsigned x = 0;
    auto const n = r.below(static_cast<std::uint64_t>(jitter_max));
    for (std::uint64_t i = 0; i < n; ++i) x = x + 1U;
  }
}

// call line: before EVERY call all threads of the run spin until each of them has arrived, so that the
// k-th calls of all threads are issued at (nearly) the same instant (relaxed: no happens-before
// edge is added, also not for ThreadSanitizer)
std::atomic<long> call_line{0};
std::atomic<long> call_line_timeouts{0};
bool per_call_line = false; // experiment switch (env C19_CALL_LINE=1): align every call, not only the first of a window

// focus: empty = free window (random locations); otherwise a path P of depth 3 and every call of
// the window works on the chain of prefixes of P: set on shallow prefixes races with get / enabled
// on deep descendants and with object creation below an ancestor (the find_location /
// find_child two-step window)
void thread_window(Shared &sh, int t, vj::Rng &r, int ncalls, path const &focus, long call_base)
{
  auto &mine = sh.objs[static_cast<std::size_t>(t)];
  auto &dep = sh.depth[static_cast<std::size_t>(t)];
  // shallow locations are favoured (minimum of two draws): calls on prefixes of each other are
  // the ones that conflict
  auto rnd_path = [&](std::size_t maxd) {
    path p;
    std::size_t const d = static_cast<std::size_t>(std::min(r.below(maxd + 1), r.below(maxd + 2)));
    for (std::size_t i = 0; i < d; ++i) p.push_back(sh.names[static_cast<std::size_t>(r.below(sh.names.size()))]);
    return p;
  };
  for (int c = 0; c < ncalls; ++c)
  {
    Call call;
    call.t = t;
    Op &a = call.a;
    std::vector<int> bound;
    for (int i = 0; i < OPT; ++i) if (mine[static_cast<std::size_t>(i)]) bound.push_back(i);
    auto w = r.below(100);
    if (bound.empty() && w >= 75) w = r.below(75);
    auto prefix_of_focus = [&](std::size_t d) { return path(focus.begin(), focus.begin() + static_cast<long>(d)); };
    if (!focus.empty() && w < 75)
    {
      if (w < 35)
      {
        a.op = "set";
        a.loc = prefix_of_focus(static_cast<std::size_t>(std::min(r.below(3), r.below(3))));
        a.l = static_cast<int>(r.below(7));
      }
      else if (w < 55)
      {
        a.op = "get";
        a.loc = prefix_of_focus(3 - static_cast<std::size_t>(std::min(r.below(3), r.below(3))));
      }
      else
      {
        a.op = "create";
        int const slot = static_cast<int>(r.below(OPT));
        a.o = t * OPT + slot + 1;
        std::size_t const d = static_cast<std::size_t>(r.below(3));
        a.name = focus[d];
        if (d == 0 && r.coin())
          a.kind = "ctx";
        else
        {
          a.kind = "loc";
          a.loc = prefix_of_focus(d);
        }
        dep[static_cast<std::size_t>(slot)] = d + 1;
      }
    }
    else if (w < 35)
    {
      a.op = "set";
      a.loc = rnd_path(3);
      a.l = static_cast<int>(r.below(7));
    }
    else if (w < 55)
    {
      a.op = "get";
      a.loc = rnd_path(3);
    }
    else if (w < 75)
    {
      a.op = "create";
      int const slot = static_cast<int>(r.below(OPT));
      a.o = t * OPT + slot + 1;
      a.name = sh.names[static_cast<std::size_t>(r.below(sh.names.size()))];
      auto const k = r.below(3);
      int const other = 1 - slot;
      if (k == 0 && mine[static_cast<std::size_t>(other)] && dep[static_cast<std::size_t>(other)] < 3)
      {
        a.kind = "parent";
        a.par = t * OPT + other + 1;
        dep[static_cast<std::size_t>(slot)] = dep[static_cast<std::size_t>(other)] + 1;
      }
      else if (k == 1)
      {
        a.kind = "ctx";
        dep[static_cast<std::size_t>(slot)] = 1;
      }
      else
      {
        a.kind = "loc";
        a.loc = rnd_path(2);
        dep[static_cast<std::size_t>(slot)] = a.loc.size() + 1;
      }
    }
    else
    {
      int const slot = bound[static_cast<std::size_t>(r.below(bound.size()))];
      a.o = t * OPT + slot + 1;
      if (w < 90) a.op = "level";
      else
      {
        a.op = "enabled";
        a.l = static_cast<int>(r.below(6));
      }
    }
    // arguments are prepared before the begin stamp so that the interval contains only the call
    fl::location const loc = to_location(a.loc);
    fl::optional_level const lvl = int_to_level(a.l);
    std::size_t const slot = a.o > 0 ? static_cast<std::size_t>((a.o - 1) % OPT) : 0;
    std::atomic<int> &mark = in_call[static_cast<std::size_t>(t) % in_call.size()];
    int const code = call_code(a.op);
    if (c == 0 || per_call_line)
    {
      long const target = call_base + static_cast<long>((per_call_line ? c : 0) + 1) * sh.nt;
      call_line.fetch_add(1, std::memory_order_relaxed);
      long spins = 0;
      while (call_line.load(std::memory_order_relaxed) < target && ++spins < 400000) {}
      if (spins >= 400000) call_line_timeouts.fetch_add(1, std::memory_order_relaxed);
    }
    spin(r);
    mark.store(code, std::memory_order_relaxed);
    if (a.op == "set")
    {
      call.sb = global_seq.fetch_add(1, seq_order);
      sh.ctx->set(loc, lvl);
      call.se = global_seq.fetch_add(1, seq_order);
    }
    else if (a.op == "get")
    {
      call.sb = global_seq.fetch_add(1, seq_order);
      fl::optional_level const res = sh.ctx->get(loc);
      call.se = global_seq.fetch_add(1, seq_order);
      call.ret = level_to_int(res);
    }
    else if (a.op == "create")
    {
      mine[slot].reset();
      fl::parameters const params{fl::name{a.name}, fl::format::optional_function{}};
      std::unique_ptr<fl::object> nw;
      if (a.kind == "ctx")
      {
        call.sb = global_seq.fetch_add(1, seq_order);
        nw = std::make_unique<fl::object>(fcppt::make_ref(*sh.ctx), params);
        call.se = global_seq.fetch_add(1, seq_order);
      }
      else if (a.kind == "loc")
      {
        call.sb = global_seq.fetch_add(1, seq_order);
        nw = std::make_unique<fl::object>(fcppt::make_ref(*sh.ctx), loc, params);
        call.se = global_seq.fetch_add(1, seq_order);
      }
      else
      {
        fl::object const &parent = *mine[static_cast<std::size_t>((a.par - 1) % OPT)];
        call.sb = global_seq.fetch_add(1, seq_order);
        nw = std::make_unique<fl::object>(parent, params);
        call.se = global_seq.fetch_add(1, seq_order);
      }
      mine[slot] = std::move(nw);
    }
    else if (a.op == "level")
    {
      fl::object const &ob = *mine[slot];
      call.sb = global_seq.fetch_add(1, seq_order);
      fl::optional_level const res = ob.level();
      call.se = global_seq.fetch_add(1, seq_order);
      call.ret = level_to_int(res);
    }
    else
    {
      fl::object const &ob = *mine[slot];
      auto const ml = static_cast<fl::level>(a.l);
      call.sb = global_seq.fetch_add(1, seq_order);
      bool const res = ob.enabled(ml);
      call.se = global_seq.fetch_add(1, seq_order);
      call.rb = res;
    }
    mark.store(0, std::memory_order_relaxed);
    sh.calls[static_cast<std::size_t>(t)].push_back(std::move(call));
    spin(r);
  }
}

void write_quiescent(Shared &sh, char const *kind)
{
  std::vector<int> lv;
  for (auto const &p : sh.univ) lv.push_back(level_to_int(sh.ctx->get(to_location(p))));
  std::vector<int> ol;
  for (int t = 0; t < sh.nt; ++t)
    for (int k = 0; k < OPT; ++k)
    {
      auto const &o = sh.objs[static_cast<std::size_t>(t)][static_cast<std::size_t>(k)];
      ol.push_back(o ? level_to_int(o->level()) : -1);
    }
  vj::line(vj::J().kv("e", kind).kv("lv", lv).kv("ol", ol));
}

void flush_window(Shared &sh)
{
  struct Ev
  {
    long s;
    std::string line;
  };
  std::vector<Ev> evs;
  for (auto &cs : sh.calls)
  {
    for (auto const &c : cs)
    {
      vj::J b;
      b.kv("e", "b").kv("t", c.t + 1).kv("s", c.sb).kv("op", c.a.op).raw("loc", path_json(c.a.loc)).kv("l", c.a.l)
          .kv("o", c.a.o).kv("kind", c.a.kind).kv("par", c.a.par).raw("name", vj::cps(c.a.name))
          .raw("fmt", "[]").raw("msg", "[]").kv("r", c.ret).kv("rb", c.rb);
      evs.push_back(Ev{c.sb, b.str()});
      vj::J e;
      e.kv("e", "e").kv("t", c.t + 1).kv("s", c.se).kv("op", c.a.op);
      evs.push_back(Ev{c.se, e.str()});
    }
    cs.clear();
  }
  std::sort(evs.begin(), evs.end(), [](Ev const &x, Ev const &y) { return x.s < y.s; });
  for (auto const &e : evs) vj::line(e.line);
}

void run_threads(std::uint64_t seed, long run, int windows, int maxcalls)
{
  vj::Rng r0(seed * 7919ULL + static_cast<std::uint64_t>(run));
  Shared sh;
  sh.nt = 2 + static_cast<int>(r0.below(5));
  int const root = static_cast<int>(r0.below(7));
  sh.ctx = std::make_unique<fl::context>(int_to_level(root), make_streams(sh.sk, default_lf()));
  sh.objs.resize(static_cast<std::size_t>(sh.nt));
  sh.depth.resize(static_cast<std::size_t>(sh.nt));
  sh.calls.resize(static_cast<std::size_t>(sh.nt));
  {
    vj::J j;
    j.kv("e", "cstart").kv("run", run).kv("root", root).kv("nt", sh.nt).kv("opt", OPT);
    std::string u = "[";
    for (std::size_t i = 0; i < sh.univ.size(); ++i)
    {
      if (i) u += ',';
      u += path_json(sh.univ[i]);
    }
    j.raw("univ", u + "]");
    vj::line(j);
  }
  write_quiescent(sh, "q");
  Barrier bar(sh.nt);
  long const call_start = call_line.load();
  std::vector<std::thread> ths;
  for (int t = 0; t < sh.nt; ++t)
  {
    ths.emplace_back([&sh, &bar, t, seed, run, windows, maxcalls, call_start] {
      vj::Rng r(seed * 1000003ULL + static_cast<std::uint64_t>(run) * 64ULL + static_cast<std::uint64_t>(t) + 17ULL);
      long call_base = call_start;
      for (int w = 0; w < windows; ++w)
      {
        // the shape of the window is a function of (seed, run, window), identical in all threads
        vj::Rng wr(seed * 31ULL + static_cast<std::uint64_t>(run) * 1009ULL + static_cast<std::uint64_t>(w) * 7ULL + 3ULL);
        int const ncalls = 1 + static_cast<int>(wr.below(static_cast<std::uint64_t>(maxcalls)));
        path focus;
        if (wr.below(3) != 0 && !no_focus)
          for (int i = 0; i < 3; ++i) focus.push_back(sh.names[static_cast<std::size_t>(wr.below(sh.names.size()))]);
        bar.wait();
        thread_window(sh, t, r, ncalls, focus, call_base);
        call_base += static_cast<long>(per_call_line ? ncalls : 1) * sh.nt;
        bar.wait();
        if (t == 0)
        {
          flush_window(sh);
          write_quiescent(sh, "q");
        }
      }
      bar.wait();
    });
  }
  for (auto &th : ths) th.join();
  // objects are destroyed before the context
  for (auto &os : sh.objs) for (auto &o : os) o.reset();
}
}

int main(int argc, char **argv)
{
  if (argc < 4)
  {
    std::fprintf(stderr, "usage: c19_log record|replay|threads ...\n");
    return 3;
  }
  std::string const mode = argv[1];
  if (mode == "record" && argc >= 6)
  {
    vj::open(argv[2]);
    std::uint64_t const seed = std::strtoull(argv[3], nullptr, 10);
    long const hist = std::strtol(argv[4], nullptr, 10);
    long const maxlen = std::strtol(argv[5], nullptr, 10);
    long const first = argc >= 7 ? std::strtol(argv[6], nullptr, 10) : 0;
    bool recs = argc >= 8 ? std::strtol(argv[7], nullptr, 10) != 0 : true;
#if defined(C19_CORE_ONLY)
    recs = false;
#endif
    Seq s;
#if !defined(C19_CORE_ONLY)
    if (recs && first == 0)
    {
      ::alarm(120);
      emit_exhaustive_recs();
      ::alarm(0);
    }
#endif
    for (long h = first; h < hist; ++h)
    {
      vj::Rng r(seed * 1000003ULL + static_cast<std::uint64_t>(h));
      std::array<lfmt, 6> lf;
      for (std::size_t i = 0; i < 6; ++i)
      {
        auto const k = r.below(6);
        lf[i].k = k == 0 ? 0 : (k == 1 ? 2 : 1);
        if (lf[i].k == 2)
        {
          lf[i].pre = std::string("<L") + static_cast<char>('0' + i) + " ";
          lf[i].suf = ">\n";
        }
      }
      s.depth.fill(0);
      int const drawn_root = static_cast<int>(r.below(7));
      s.reset(h, h < 8 && h % 2 == 0 ? 6 : drawn_root, lf);
      if (h < 8)
      {
        // directed histories around the optional level "none" (no expected values, only a fixed sequence
        // of calls): even h - the context is constructed disabled; odd h - set(none) on a location of
        // depth 0..3; then one object through each constructor and, on each of them, level(), enabled(l),
        // log(l) and the macro for EVERY level l, and get of the location.  The random histories reach
        // these combinations only by luck.
        for (Op const &a : directed_none(h))
          if (!s.exec(a)) break;
      }
      else
      {
      long const len = 1 + static_cast<long>(r.below(static_cast<std::uint64_t>(maxlen)));
      for (long i = 0; i < len; ++i)
      {
        Op a;
        if (!s.gen(r, a)) break;
        if (!s.exec(a)) break;
      }
      }
#if !defined(C19_CORE_ONLY)
      if (recs)
      {
        ::alarm(call_alarm_s);
        for (int i = 0; i < 4; ++i) emit_random_recs(r);
        ::alarm(0);
      }
#endif
    }
    for (auto &o : s.objs) o.reset();
    vj::close();
    return 0;
  }
  if (mode == "replay")
  {
    auto lines = vj::read_lines(argv[2]);
    vj::open(argv[3]);
    Seq s;
    long h = 0;
    long const first = argc >= 5 ? std::strtol(argv[4], nullptr, 10) : 0;
    long idx = -1;
    for (auto const &l : lines)
    {
      if (++idx < first) continue;
      vj::VP script = vj::parse(l);
      bool started = false;
      for (auto const &e : script->a)
      {
        if (e->str("op") == "reset")
        {
          std::array<lfmt, 6> lf = default_lf();
          if (e->has("lf"))
          {
            std::size_t i = 0;
            for (auto const &f : e->at("lf").a)
            {
              if (i >= 6) break;
              lf[i].k = static_cast<int>(f->num("k"));
              lf[i].pre = cps_to_string(f->at("pre"));
              lf[i].suf = cps_to_string(f->at("suf"));
              ++i;
            }
          }
          s.reset(idx, static_cast<int>(e->num("l")), lf);
          ++h;
          started = true;
          continue;
        }
        if (!started)
        {
          s.reset(idx, 2, default_lf());
          ++h;
          started = true;
        }
        if (!s.exec(op_from_json(*e))) break;
      }
    }
    for (auto &o : s.objs) o.reset();
    vj::close();
    return 0;
  }
  if (mode == "threads" && argc >= 7)
  {
    vj::open(argv[2]);
    std::uint64_t const seed = std::strtoull(argv[3], nullptr, 10);
    long const runs = std::strtol(argv[4], nullptr, 10);
    int const windows = static_cast<int>(std::strtol(argv[5], nullptr, 10));
    int const maxcalls = static_cast<int>(std::strtol(argv[6], nullptr, 10));
    per_call_line = std::getenv("C19_CALL_LINE") != nullptr;
    no_focus = std::getenv("C19_NOFOCUS") != nullptr;
    if (char const *j = std::getenv("C19_JITTER")) jitter_max = std::strtol(j, nullptr, 10);
    long const first = argc >= 8 ? std::strtol(argv[7], nullptr, 10) : 0;
    install_pending_reporter();
    for (long run = first; run < runs; ++run)
    {
      ::alarm(run_alarm_s); // watchdog: a run is 10 windows of a few calls per thread (milliseconds)
      run_threads(seed, run, windows, maxcalls);
      ::alarm(0);
    }
    std::fprintf(stderr, "call-line timeouts: %ld of %ld arrivals\n", call_line_timeouts.load(), call_line.load());
    vj::close();
    return 0;
  }
  std::fprintf(stderr, "bad arguments\n");
  return 3;
}
