// C05 harness: stand-in for a unit (a group of driven operations) that does not compile against the
// tree under test.  checks/c05.py compiles this file with -DC05_STUB_FN=drive_<unit> in its place, so that
// the remaining units are still linked, run and judged; the broken unit is reported by the check.
#include <cstdio>

#ifndef C05_STUB_FN
#error "C05_STUB_FN must be defined"
#endif
#define C05_STR2(x) #x
#define C05_STR(x) C05_STR2(x)

namespace c05
{
void C05_STUB_FN() { std::fprintf(stderr, "UNIT-NOT-BUILT %s\n", C05_STR(C05_STUB_FN)); }
}
