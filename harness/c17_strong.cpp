// C17 conformance harness, part 2: the strong_typedef operators and the transparent wrappers.
// It applies every operator the strong_typedef headers offer to strong_typedef<int> (all operand
// pairs in [-128,127]^2) and strong_typedef<unsigned> (all pairs of wrap-around boundary values) and
// logs operands and results; for reference / recursive / unique_ptr / shared_ptr / type_iso it logs
// what went into the wrapper and what its accessors give back.  No expected values here:
// spec/OrderJudge.tla + spec/StrongTypedef.tla (TLC) are the judge.
//
// Compiled once per SECTION (two harness units, see c17_common.hpp / c17_main.cpp):
//   -DC17_SECTION_stops  part "stops": the strong_typedef operator records (st_int, st_u32)
//   -DC17_SECTION_wrap   part "wrap":  the transparent wrappers
#include "c17_common.hpp"

#include <cstdint>
#include <string>
#include <vector>

#ifdef C17_SECTION_stops
#include <fcppt/make_strong_typedef.hpp>
#include <fcppt/strong_typedef.hpp>
#include <fcppt/strong_typedef_arithmetic.hpp>
#include <fcppt/strong_typedef_assignment.hpp>
#include <fcppt/strong_typedef_bitwise.hpp>
#include <fcppt/strong_typedef_comparison.hpp>

namespace
{
FCPPT_MAKE_STRONG_TYPEDEF(int, st_int);
FCPPT_MAKE_STRONG_TYPEDEF(unsigned, st_uint);

// (results are clamped to [-2^30, 2^30]: honest results of operands in [-128,127] are tiny)
std::string num(int const v) { return std::to_string(c17::cl(v)); }
// unsigned values as four base-256 limbs, least significant first (TLC integers are 32-bit)
std::string num(unsigned const v)
{
  return "[" + std::to_string(v & 0xFFU) + "," + std::to_string((v >> 8U) & 0xFFU) + "," +
         std::to_string((v >> 16U) & 0xFFU) + "," + std::to_string((v >> 24U) & 0xFFU) + "]";
}

template <typename ST, typename U>
void st_record(char const *f, U const ua, U const ub)
{
  if (!c17::take()) return;
  vj::begin_call(std::string("{\"f\":\"") + f + "\",\"k\":" + std::to_string(c17::K()) + ",\"a\":" + num(ua) + ",\"b\":" + num(ub));
  ST const a(ua);
  ST const b(ub);
  std::string r;
  auto const val = [](ST const &s) { return num(s.get()); };
  r += ",\"add\":" + val(a + b);
  r += ",\"sub\":" + val(a - b);
  r += ",\"mul\":" + val(a * b);
  r += ",\"neg\":" + val(-a);
  r += ",\"and\":" + val(a & b);
  r += ",\"or\":" + val(a | b);
  r += ",\"xor\":" + val(a ^ b);
  r += ",\"not\":" + val(~a);
  {
    ST x(a);
    ST &ref = ++x;
    r += ",\"preinc\":[" + val(x) + "," + val(ref) + "]";
  }
  {
    ST x(a);
    ST &ref = --x;
    r += ",\"predec\":[" + val(x) + "," + val(ref) + "]";
  }
  {
    ST x(a);
    ST const old(x++);
    r += ",\"postinc\":[" + val(x) + "," + val(old) + "]";
  }
  {
    ST x(a);
    ST const old(x--);
    r += ",\"postdec\":[" + val(x) + "," + val(old) + "]";
  }
#define VERIF_ASSIGN(NAME, OP)                                               \
  {                                                                          \
    ST x(a);                                                                 \
    ST y(b);                                                                 \
    ST &ref = (x OP y);                                                      \
    r += std::string(",\"") + NAME + "\":[" + val(x) + "," + val(ref) + "," + val(y) + "]"; \
  }
  VERIF_ASSIGN("adda", +=)
  VERIF_ASSIGN("suba", -=)
  VERIF_ASSIGN("mula", *=)
  VERIF_ASSIGN("anda", &=)
  VERIF_ASSIGN("ora", |=)
  VERIF_ASSIGN("xora", ^=)
#undef VERIF_ASSIGN
  // the assigning forms with the same object on both sides
  r += ",\"selfa\":[";
  { ST x(a); x += x; r += val(x) + ","; }
  { ST x(a); x -= x; r += val(x) + ","; }
  { ST x(a); x *= x; r += val(x) + ","; }
  { ST x(a); x &= x; r += val(x) + ","; }
  { ST x(a); x |= x; r += val(x) + ","; }
  { ST x(a); x ^= x; r += val(x) + "]"; }
  r += ",\"cmp\":[";
  r += (a < b) ? "1," : "0,";
  r += (a <= b) ? "1," : "0,";
  r += (a > b) ? "1," : "0,";
  r += (a >= b) ? "1," : "0,";
  r += (a == b) ? "1," : "0,";
  r += (a != b) ? "1]" : "0]";
  r += ",\"get\":[" + val(a) + "," + val(b) + "]}";
  vj::end_call(r);
}
}

C17_PART(stops)
{
  (void)extra;
  int const lo = -128;
  int const hi = 127;
  // right operands: all of [-128,127] in the thorough tier; boundaries plus seeded picks otherwise
  std::vector<int> bs;
  if (thorough != 0)
    for (int b = lo; b <= hi; ++b) bs.push_back(b);
  else
  {
    bs = {-128, -127, -65, -64, -3, -2, -1, 0, 1, 2, 3, 63, 64, 126, 127};
    vj::Rng g(seed);
    while (bs.size() < 32) bs.push_back(static_cast<int>(g.range(lo, hi)));
  }
  for (int a = lo; a <= hi; ++a)
    for (int b : bs) st_record<st_int, int>("st_int", a, b);
  std::vector<unsigned> const bv = {0U, 1U, 2U, 3U, 255U, 256U, 65535U, 65536U, 65537U, 16777215U, 16777216U,
                                    0x7FFFFFFFU, 0x80000000U, 0x80000001U, 0xFFFF0000U, 0xFFFEFFFFU, 0xAAAAAAAAU,
                                    0x55555555U, 0xFFFFFFFDU, 0xFFFFFFFEU, 0xFFFFFFFFU, 46341U, 92682U, 0x10001U * 3U};
  for (unsigned a : bv)
    for (unsigned b : bv) st_record<st_uint, unsigned>("st_u32", a, b);
}
#endif

#ifdef C17_SECTION_wrap
#include <fcppt/const_pointer_cast.hpp>
#include <fcppt/make_recursive.hpp>
#include <fcppt/make_ref.hpp>
#include <fcppt/make_shared_ptr.hpp>
#include <fcppt/make_strong_typedef.hpp>
#include <fcppt/make_unique_ptr.hpp>
#include <fcppt/recursive.hpp>
#include <fcppt/reference.hpp>
#include <fcppt/shared_ptr.hpp>
#include <fcppt/static_pointer_cast.hpp>
#include <fcppt/strong_typedef.hpp>
#include <fcppt/unique_ptr.hpp>
#include <fcppt/type_iso/decorate.hpp>
#include <memory>
#include <utility>
#include <fcppt/type_iso/enum.hpp>
#include <fcppt/type_iso/strong_typedef.hpp>
#include <fcppt/type_iso/undecorate.hpp>

namespace
{
FCPPT_MAKE_STRONG_TYPEDEF(int, st_int);
// the other type_iso specialisation (enums) and the nested ones
enum class color : int { red, green, blue };
FCPPT_MAKE_STRONG_TYPEDEF(color, st_color);
FCPPT_MAKE_STRONG_TYPEDEF(st_int, st_st_int);

// the kind of the observation being made is flushed BEFORE the wrapper is driven, so that a crash
// inside an accessor leaves a truncated line that names the wrapper
void wrap_begin(char const *kind, int in)
{
  vj::J j;
  j.kv("f", "wrap").kv("k", static_cast<long long>(c17::K())).kv("kind", kind).kv("in", in);
  vj::begin_call(j.s);
}
void wrap_end(int out, int same, int written, int after)
{
  vj::end_call(",\"out\":" + std::to_string(c17::cl(out)) + ",\"same\":" + std::to_string(same) + ",\"written\":" +
               std::to_string(written) + ",\"after\":" + std::to_string(c17::cl(after)) + "}");
}

struct boxed
{
  int field;
};

// one take per wrapper observation: W(kind, in) flushes the record prefix, the block drives the wrapper
// and ends the record with wrap_end(out, same, written, after)
#define W(KIND, IN) \
  if (c17::take() && (wrap_begin(KIND, IN), true))

void wrappers()
{
  for (int v : {0, 1, 2, -7})
  {
    int const w = v + 40; // the value stored through the accessor
    W("reference", v)
    {
      int obj = v;
      fcppt::reference<int> const r(fcppt::make_ref(obj));
      int const out = r.get();
      int const same = (&r.get() == &obj) ? 1 : 0;
      r.get() = w;
      wrap_end(out, same, w, obj);
    }
    W("reference<const>", v)
    {
      int const obj = v;
      fcppt::reference<int const> const r(obj);
      wrap_end(r.get(), (&r.get() == &obj) ? 1 : 0, 0, 0);
    }
    W("reference-copy", v)
    {
      // a copy of a reference and a reseated reference refer to the very same object
      int obj = v;
      int other = v + 1;
      fcppt::reference<int> const r(obj);
      fcppt::reference<int> c(other);
      c = r;
      int const out = c.get();
      int const same = (&c.get() == &obj) ? 1 : 0;
      c.get() = w;
      wrap_end(out, same, w, obj);
    }
    W("reference<struct>", v)
    {
      boxed obj{v};
      fcppt::reference<boxed> const r(obj);
      int const out = r.get().field;
      int const same = (&r.get() == &obj) ? 1 : 0;
      r->field = w;
      wrap_end(out, same, w, obj.field);
    }
    W("recursive", v)
    {
      fcppt::recursive<int> r(v);
      int const out = r.get();
      r.get() = w;
      wrap_end(out, -1, w, r.get());
    }
    W("recursive-const", v)
    {
      fcppt::recursive<int> const r(v);
      wrap_end(r.get(), -1, 0, 0);
    }
    W("recursive-copy", w)
    {
      fcppt::recursive<int> r(v);
      r.get() = w;
      fcppt::recursive<int> const copy(r);
      wrap_end(copy.get(), -1, 0, 0);
    }
    // the assignment operators of recursive: afterwards the wrapper exposes (a copy of) the assigned object,
    // also when the target had been moved from before ("exposes exactly the wrapped object")
    W("recursive-copy-assign", v)
    {
      fcppt::recursive<int> const src(v);
      fcppt::recursive<int> r(v + 5);
      r = src;
      int const out = r.get();
      r.get() = w;
      wrap_end(out, -1, w, r.get());
    }
    W("recursive-copy-assign-into-moved-from", v)
    {
      fcppt::recursive<int> const src(v);
      fcppt::recursive<int> r(v + 5);
      fcppt::recursive<int> const taken(std::move(r));
      r = src;
      int const out = r.get();
      r.get() = w;
      wrap_end(out, -1, w, r.get());
    }
    W("recursive-move-assign", v)
    {
      fcppt::recursive<int> src(v);
      fcppt::recursive<int> r(v + 5);
      r = std::move(src);
      int const out = r.get();
      r.get() = w;
      wrap_end(out, -1, w, r.get());
    }
    W("recursive-move-assign-into-moved-from", v)
    {
      fcppt::recursive<int> src(v);
      fcppt::recursive<int> r(v + 5);
      fcppt::recursive<int> const taken(std::move(r));
      r = std::move(src);
      int const out = r.get();
      r.get() = w;
      wrap_end(out, -1, w, r.get());
    }
    W("recursive-move-ctor", v)
    {
      fcppt::recursive<int> src(v);
      fcppt::recursive<int> r(std::move(src));
      int const out = r.get();
      r.get() = w;
      wrap_end(out, -1, w, r.get());
    }
    W("make_recursive", v)
    {
      auto r(fcppt::make_recursive(v));
      int const out = r.get();
      r.get() = w;
      wrap_end(out, -1, w, r.get());
    }
    W("unique_ptr", v)
    {
      fcppt::unique_ptr<int> p(fcppt::make_unique_ptr<int>(v));
      int const out = *p;
      int const same = (p.get_pointer() == &*p) ? 1 : 0;
      *p = w;
      wrap_end(out, same, w, *p.get_pointer());
    }
    W("unique_ptr-moved", w)
    {
      fcppt::unique_ptr<int> p(fcppt::make_unique_ptr<int>(w));
      int *const before = p.get_pointer();
      fcppt::unique_ptr<int> q(std::move(p));
      wrap_end(*q, (q.get_pointer() == before) ? 1 : 0, 0, 0);
    }
    W("unique_ptr-move-assigned", v)
    {
      fcppt::unique_ptr<int> p(fcppt::make_unique_ptr<int>(v));
      int *const before = p.get_pointer();
      fcppt::unique_ptr<int> q(fcppt::make_unique_ptr<int>(v + 1));
      q = std::move(p);
      int const out = *q;
      *q = w;
      wrap_end(out, (q.get_pointer() == before) ? 1 : 0, w, *before);
    }
    W("unique_ptr<struct>", v)
    {
      fcppt::unique_ptr<boxed> p(fcppt::make_unique_ptr<boxed>(boxed{v}));
      int const out = p->field;
      int const same = (&p->field == &(*p).field && p.get_pointer() == &*p) ? 1 : 0;
      p->field = w;
      wrap_end(out, same, w, (*p).field);
    }
    W("unique_ptr-released", v)
    {
      fcppt::unique_ptr<int> p(fcppt::make_unique_ptr<int>(v));
      int *const before = p.get_pointer();
      std::unique_ptr<int> const owner(p.release_ownership());
      wrap_end(*owner, (owner.get() == before) ? 1 : 0, 0, 0);
    }
    W("shared_ptr", v)
    {
      fcppt::shared_ptr<int> const p(fcppt::make_shared_ptr<int>(v));
      int const out = *p;
      int const same = (p.get_pointer() == &*p) ? 1 : 0;
      *p = w;
      wrap_end(out, same, w, *p.get_pointer());
    }
    W("shared_ptr-copy", w)
    {
      fcppt::shared_ptr<int> const p(fcppt::make_shared_ptr<int>(w));
      fcppt::shared_ptr<int> const q(p);
      wrap_end(*q, (q.get_pointer() == p.get_pointer()) ? 1 : 0, 0, 0);
    }
    W("shared_ptr<struct>", v)
    {
      fcppt::shared_ptr<boxed> const p(fcppt::make_shared_ptr<boxed>(boxed{v}));
      int const out = p->field;
      int const same = (&p->field == &(*p).field && p.get_pointer() == &*p && p.std_ptr().get() == p.get_pointer()) ? 1 : 0;
      p->field = w;
      wrap_end(out, same, w, (*p).field);
    }
    W("shared_ptr-aliasing", v)
    {
      // shared_ptr(owner, pointer) exposes exactly the pointer it was given
      fcppt::shared_ptr<boxed> const owner(fcppt::make_shared_ptr<boxed>(boxed{v}));
      fcppt::shared_ptr<int> const p(owner, &owner->field);
      int const out = *p;
      int const same = (p.get_pointer() == &owner->field && &*p == &owner->field) ? 1 : 0;
      *p = w;
      wrap_end(out, same, w, owner->field);
    }
    W("shared_ptr-aliasing-same-type", v)
    {
      // ... also when owner and pointer have the same type (an object the owner does not own)
      int other = v;
      fcppt::shared_ptr<int> const owner(fcppt::make_shared_ptr<int>(v + 1));
      fcppt::shared_ptr<int> const p(owner, &other);
      int const out = *p;
      int const same = (p.get_pointer() == &other && &*p == &other) ? 1 : 0;
      *p = w;
      wrap_end(out, same, w, other);
    }
    W("shared_ptr-static_pointer_cast", v)
    {
      fcppt::shared_ptr<boxed> const p(fcppt::make_shared_ptr<boxed>(boxed{v}));
      fcppt::shared_ptr<boxed const> const c(p);
      fcppt::shared_ptr<boxed> const back(fcppt::const_pointer_cast<boxed>(c));
      fcppt::shared_ptr<boxed> const again(fcppt::static_pointer_cast<boxed>(back));
      int const out = again->field;
      int const same = (again.get_pointer() == p.get_pointer() && c.get_pointer() == p.get_pointer()) ? 1 : 0;
      again->field = w;
      wrap_end(out, same, w, p->field);
    }
    W("shared_ptr-from-unique_ptr", v)
    {
      fcppt::unique_ptr<int> u(fcppt::make_unique_ptr<int>(v));
      int *const before = u.get_pointer();
      fcppt::shared_ptr<int> const p(std::move(u));
      int const out = *p;
      *p = w;
      wrap_end(out, (p.get_pointer() == before) ? 1 : 0, w, *before);
    }
    W("type_iso::decorate", v)
    {
      st_int const s(fcppt::type_iso::decorate<st_int>(v));
      wrap_end(s.get(), -1, 0, 0);
    }
    W("type_iso::undecorate", v) { wrap_end(fcppt::type_iso::undecorate(st_int(v)), -1, 0, 0); }
    W("type_iso::roundtrip", v) { wrap_end(fcppt::type_iso::undecorate(fcppt::type_iso::decorate<st_int>(v)), -1, 0, 0); }
    if (v >= 0 && v <= 2)
    {
      W("type_iso::decorate<enum>", v)
      {
        color const c(fcppt::type_iso::decorate<color>(v));
        wrap_end(static_cast<int>(c), -1, 0, 0);
      }
      W("type_iso::undecorate<enum>", v) { wrap_end(fcppt::type_iso::undecorate(static_cast<color>(v)), -1, 0, 0); }
      W("type_iso::decorate<strong_typedef<enum>>", v)
      {
        st_color const sc(fcppt::type_iso::decorate<st_color>(v));
        wrap_end(static_cast<int>(sc.get()), -1, 0, 0);
      }
      W("type_iso::undecorate<strong_typedef<enum>>", v)
      {
        wrap_end(fcppt::type_iso::undecorate(st_color(static_cast<color>(v))), -1, 0, 0);
      }
    }
    W("type_iso::decorate<strong_typedef<strong_typedef>>", v)
    {
      st_st_int const n(fcppt::type_iso::decorate<st_st_int>(v));
      wrap_end(n.get().get(), -1, 0, 0);
    }
    W("type_iso::undecorate<strong_typedef<strong_typedef>>", v)
    {
      wrap_end(fcppt::type_iso::undecorate(st_st_int(st_int(v))), -1, 0, 0);
    }
    W("strong_typedef", v)
    {
      st_int t(v);
      int const out = t.get();
      t.get() = w;
      wrap_end(out, -1, w, t.get());
    }
    W("strong_typedef-const", v)
    {
      st_int const t(v);
      wrap_end(t.get(), -1, 0, 0);
    }
  }
}
#undef W
}

C17_PART(wrap)
{
  (void)seed;
  (void)thorough;
  (void)extra;
  wrappers();
}
#endif
