// C17 conformance harness, part 2: the strong_typedef operators and the transparent wrappers.
// It applies every operator the strong_typedef headers offer to strong_typedef<int> (all operand
// pairs in [-128,127]^2) and strong_typedef<unsigned> (all pairs of wrap-around boundary values) and
// logs operands and results; for reference / recursive / unique_ptr / shared_ptr / type_iso it logs
// what went into the wrapper and what its accessors give back.  No expected values here:
// spec/OrderJudge.tla + spec/StrongTypedef.tla (TLC) are the judge.
#include <common/vjson.hpp>

#include <fcppt/make_recursive.hpp>
#include <fcppt/make_ref.hpp>
#include <fcppt/make_shared_ptr.hpp>
#include <fcppt/make_strong_typedef.hpp>
#include <fcppt/make_unique_ptr.hpp>
#include <fcppt/recursive.hpp>
#include <fcppt/reference.hpp>
#include <fcppt/shared_ptr.hpp>
#include <fcppt/strong_typedef.hpp>
#include <fcppt/strong_typedef_arithmetic.hpp>
#include <fcppt/strong_typedef_assignment.hpp>
#include <fcppt/strong_typedef_bitwise.hpp>
#include <fcppt/strong_typedef_comparison.hpp>
#include <fcppt/unique_ptr.hpp>
#include <fcppt/type_iso/decorate.hpp>
#include <fcppt/type_iso/enum.hpp>
#include <fcppt/type_iso/strong_typedef.hpp>
#include <fcppt/type_iso/undecorate.hpp>

#include <cstdint>
#include <string>
#include <vector>

namespace
{
FCPPT_MAKE_STRONG_TYPEDEF(int, st_int);
FCPPT_MAKE_STRONG_TYPEDEF(unsigned, st_uint);
// the other type_iso specialisation (enums) and the nested ones
enum class color : int { red, green, blue };
FCPPT_MAKE_STRONG_TYPEDEF(color, st_color);
FCPPT_MAKE_STRONG_TYPEDEF(st_int, st_st_int);

std::string num(int const v) { return std::to_string(v); }
// unsigned values as four base-256 limbs, least significant first (TLC integers are 32-bit)
std::string num(unsigned const v)
{
  return "[" + std::to_string(v & 0xFFU) + "," + std::to_string((v >> 8U) & 0xFFU) + "," +
         std::to_string((v >> 16U) & 0xFFU) + "," + std::to_string((v >> 24U) & 0xFFU) + "]";
}

template <typename ST, typename U>
void st_record(char const *f, U const ua, U const ub)
{
  vj::begin_call(std::string("{\"f\":\"") + f + "\",\"a\":" + num(ua) + ",\"b\":" + num(ub));
  ST const a(ua);
  ST const b(ub);
  std::string r;
  auto const val = [](ST const &s) { return num(s.get()); };
  r += ",\"add\":" + val(a + b);
  r += ",\"sub\":" + val(a - b);
  r += ",\"mul\":" + val(a * b);
  r += ",\"neg\":" + val(-a);
  r += ",\"and\":" + val(a & b);
  r += ",\"or\":" + val(a | b);
  r += ",\"xor\":" + val(a ^ b);
  r += ",\"not\":" + val(~a);
  {
    ST x(a);
    ST &ref = ++x;
    r += ",\"preinc\":[" + val(x) + "," + val(ref) + "]";
  }
  {
    ST x(a);
    ST &ref = --x;
    r += ",\"predec\":[" + val(x) + "," + val(ref) + "]";
  }
  {
    ST x(a);
    ST const old(x++);
    r += ",\"postinc\":[" + val(x) + "," + val(old) + "]";
  }
  {
    ST x(a);
    ST const old(x--);
    r += ",\"postdec\":[" + val(x) + "," + val(old) + "]";
  }
#define VERIF_ASSIGN(NAME, OP)                                               \
  {                                                                          \
    ST x(a);                                                                 \
    ST y(b);                                                                 \
    ST &ref = (x OP y);                                                      \
    r += std::string(",\"") + NAME + "\":[" + val(x) + "," + val(ref) + "," + val(y) + "]"; \
  }
  VERIF_ASSIGN("adda", +=)
  VERIF_ASSIGN("suba", -=)
  VERIF_ASSIGN("mula", *=)
  VERIF_ASSIGN("anda", &=)
  VERIF_ASSIGN("ora", |=)
  VERIF_ASSIGN("xora", ^=)
#undef VERIF_ASSIGN
  // the assigning forms with the same object on both sides
  r += ",\"selfa\":[";
  { ST x(a); x += x; r += val(x) + ","; }
  { ST x(a); x -= x; r += val(x) + ","; }
  { ST x(a); x *= x; r += val(x) + ","; }
  { ST x(a); x &= x; r += val(x) + ","; }
  { ST x(a); x |= x; r += val(x) + ","; }
  { ST x(a); x ^= x; r += val(x) + "]"; }
  r += ",\"cmp\":[";
  r += (a < b) ? "1," : "0,";
  r += (a <= b) ? "1," : "0,";
  r += (a > b) ? "1," : "0,";
  r += (a >= b) ? "1," : "0,";
  r += (a == b) ? "1," : "0,";
  r += (a != b) ? "1]" : "0]";
  r += ",\"get\":[" + val(a) + "," + val(b) + "]}";
  vj::end_call(r);
}

void wrap_record(char const *kind, int in, int out, int same, int written, int after)
{
  vj::J j;
  j.kv("f", "wrap").kv("kind", kind).kv("in", in).kv("out", out).kv("same", same).kv("written", written).kv("after", after);
  vj::line(j);
}

void wrappers()
{
  for (int v : {0, 1, 2, -7})
  {
    int const w = v + 40; // the value stored through the accessor
    {
      int obj = v;
      fcppt::reference<int> const r(fcppt::make_ref(obj));
      int const out = r.get();
      int const same = (&r.get() == &obj) ? 1 : 0;
      r.get() = w;
      wrap_record("reference", v, out, same, w, obj);
    }
    {
      int const obj = v;
      fcppt::reference<int const> const r(obj);
      wrap_record("reference<const>", v, r.get(), (&r.get() == &obj) ? 1 : 0, 0, 0);
    }
    {
      fcppt::recursive<int> r(v);
      int const out = r.get();
      r.get() = w;
      wrap_record("recursive", v, out, -1, w, r.get());
      fcppt::recursive<int> const copy(r);
      wrap_record("recursive-copy", w, copy.get(), -1, 0, 0);
    }
    {
      fcppt::unique_ptr<int> p(fcppt::make_unique_ptr<int>(v));
      int const out = *p;
      int const same = (p.get_pointer() == &*p) ? 1 : 0;
      *p = w;
      wrap_record("unique_ptr", v, out, same, w, *p.get_pointer());
      int *const before = p.get_pointer();
      fcppt::unique_ptr<int> q(std::move(p));
      wrap_record("unique_ptr-moved", w, *q, (q.get_pointer() == before) ? 1 : 0, 0, 0);
    }
    {
      fcppt::shared_ptr<int> const p(fcppt::make_shared_ptr<int>(v));
      int const out = *p;
      int const same = (p.get_pointer() == &*p) ? 1 : 0;
      *p = w;
      wrap_record("shared_ptr", v, out, same, w, *p.get_pointer());
      fcppt::shared_ptr<int> const q(p);
      wrap_record("shared_ptr-copy", w, *q, (q.get_pointer() == p.get_pointer()) ? 1 : 0, 0, 0);
    }
    {
      st_int const s(fcppt::type_iso::decorate<st_int>(v));
      wrap_record("type_iso::decorate", v, s.get(), -1, 0, 0);
      wrap_record("type_iso::undecorate", v, fcppt::type_iso::undecorate(st_int(v)), -1, 0, 0);
      wrap_record("type_iso::roundtrip", v, fcppt::type_iso::undecorate(fcppt::type_iso::decorate<st_int>(v)), -1, 0, 0);
      if (v >= 0 && v <= 2)
      {
        color const c(fcppt::type_iso::decorate<color>(v));
        wrap_record("type_iso::decorate<enum>", v, static_cast<int>(c), -1, 0, 0);
        wrap_record("type_iso::undecorate<enum>", v, fcppt::type_iso::undecorate(static_cast<color>(v)), -1, 0, 0);
        st_color const sc(fcppt::type_iso::decorate<st_color>(v));
        wrap_record("type_iso::decorate<strong_typedef<enum>>", v, static_cast<int>(sc.get()), -1, 0, 0);
        wrap_record("type_iso::undecorate<strong_typedef<enum>>", v, fcppt::type_iso::undecorate(st_color(static_cast<color>(v))), -1, 0, 0);
      }
      {
        st_st_int const n(fcppt::type_iso::decorate<st_st_int>(v));
        wrap_record("type_iso::decorate<strong_typedef<strong_typedef>>", v, n.get().get(), -1, 0, 0);
        wrap_record("type_iso::undecorate<strong_typedef<strong_typedef>>", v, fcppt::type_iso::undecorate(st_st_int(st_int(v))), -1, 0, 0);
      }
      st_int t(v);
      int const out = t.get();
      t.get() = w;
      wrap_record("strong_typedef", v, out, -1, w, t.get());
    }
  }
}
}

void c17_strong_records(bool const thorough, unsigned long long const seed)
{
  int const lo = -128;
  int const hi = 127;
  // right operands: all of [-128,127] in the thorough tier; boundaries plus seeded picks otherwise
  std::vector<int> bs;
  if (thorough)
    for (int b = lo; b <= hi; ++b) bs.push_back(b);
  else
  {
    bs = {-128, -127, -65, -64, -3, -2, -1, 0, 1, 2, 3, 63, 64, 126, 127};
    vj::Rng g(seed);
    while (bs.size() < 32) bs.push_back(static_cast<int>(g.range(lo, hi)));
  }
  for (int a = lo; a <= hi; ++a)
    for (int b : bs) st_record<st_int, int>("st_int", a, b);
  std::vector<unsigned> const bv = {0U, 1U, 2U, 3U, 255U, 256U, 65535U, 65536U, 65537U, 16777215U, 16777216U,
                                    0x7FFFFFFFU, 0x80000000U, 0x80000001U, 0xFFFF0000U, 0xFFFEFFFFU, 0xAAAAAAAAU,
                                    0x55555555U, 0xFFFFFFFDU, 0xFFFFFFFEU, 0xFFFFFFFFU, 46341U, 92682U, 0x10001U * 3U};
  for (unsigned a : bv)
    for (unsigned b : bv) st_record<st_uint, unsigned>("st_u32", a, b);
  wrappers();
}
