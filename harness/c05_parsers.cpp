// C05 harness, part 5: fcppt::options parser constructors / parse results and fcppt::parse
// sequence / repetition results whose element values are tracked objects.
#include "c05_common.hpp"

#include <fcppt/args_vector.hpp>
#include <fcppt/no_init.hpp>
#include <fcppt/string.hpp>
#include <fcppt/text.hpp>
#include <fcppt/options/active_value.hpp>
#include <fcppt/options/apply.hpp>
#include <fcppt/options/default_value.hpp>
#include <fcppt/options/exception.hpp>
#include <fcppt/options/flag.hpp>
#include <fcppt/options/inactive_value.hpp>
#include <fcppt/options/long_name.hpp>
#include <fcppt/options/make_active_value.hpp>
#include <fcppt/options/make_default_value.hpp>
#include <fcppt/options/make_inactive_value.hpp>
#include <fcppt/options/make_many.hpp>
#include <fcppt/options/make_sum.hpp>
#include <fcppt/options/option.hpp>
#include <fcppt/options/optional_help_text.hpp>
#include <fcppt/options/optional_short_name.hpp>
#include <fcppt/options/parse.hpp>
#include <fcppt/options/short_name.hpp>
#include <fcppt/parse/char.hpp>
#include <fcppt/parse/make_convert.hpp>
#include <fcppt/parse/parse_string.hpp>
#include <fcppt/parse/operators/alternative.hpp>
#include <fcppt/parse/operators/optional.hpp>
#include <fcppt/parse/literal.hpp>
#include <fcppt/parse/operators/repetition.hpp>
#include <fcppt/parse/operators/repetition_plus.hpp>
#include <fcppt/parse/operators/sequence.hpp>
#include <fcppt/record/make_label.hpp>

#include <istream>
#include <ostream>
#include <string>
#include <utility>

namespace c05v
{
// value type of the options parsers: a tracked object that can additionally be extracted from
// a stream (token = the integer read) and printed, as fcppt::options requires
struct val
{
  c05::T t;
  explicit val(int tok) : t(tok) {}
  explicit val(fcppt::no_init const &) : t(0) {}
  friend bool operator==(val const &a, val const &b) { return a.t == b.t; }
  friend bool operator!=(val const &a, val const &b) { return a.t != b.t; }
};
template <typename Ch, typename Tr>
std::basic_istream<Ch, Tr> &operator>>(std::basic_istream<Ch, Tr> &s, val &v)
{
  int tok = 0;
  if (s >> tok) v.t = c05::T(tok);
  return s;
}
template <typename Ch, typename Tr>
std::basic_ostream<Ch, Tr> &operator<<(std::basic_ostream<Ch, Tr> &s, val const &v)
{
  return s << v.t.value();
}
template <typename F>
void c05_walk(val const &v, F const &f) { f(v.t); }
}

namespace
{
using namespace c05;
using c05v::val;

FCPPT_RECORD_MAKE_LABEL(flag_label);
FCPPT_RECORD_MAKE_LABEL(opt_label);
FCPPT_RECORD_MAKE_LABEL(opt2_label);
FCPPT_RECORD_MAKE_LABEL(sum_label);
using option2_type = fcppt::options::option<opt2_label, val>;
using flag_type = fcppt::options::flag<flag_label, val>;
using option_type = fcppt::options::option<opt_label, val>;

fcppt::options::optional_short_name short_f() { return fcppt::options::optional_short_name{fcppt::options::short_name{FCPPT_TEXT("f")}}; }
fcppt::options::long_name long_f() { return fcppt::options::long_name{FCPPT_TEXT("flag")}; }

void options()
{
  // flag constructor: both values are passed as rvalues (the signature takes rvalue references)
  for (bool equal : {false, true})
    run2<'r', 'r'>("options::flag::flag", false, equal ? "equal values" : "different values",
        [] { return val(next_tok()); }, [equal] { return equal ? val(1) : val(next_tok()); }, [](auto &&a, auto &&b)
    {
      try
      {
        flag_type const f{short_f(), long_f(), fcppt::options::make_active_value(C05_FWD(a)),
                          fcppt::options::make_inactive_value(C05_FWD(b)), fcppt::options::optional_help_text{}};
        (void)f;
      }
      catch (fcppt::options::exception const &)
      {
      }
      return nothing{};
    });
  // flag parse: the result is a copy of the active / inactive member
  for (int variant = 0; variant < 3; ++variant)
  {
    if (!wanted("options::flag::parse")) break;
    reset("options::flag::parse", variant == 0 ? "absent" : variant == 1 ? "--flag" : "-f", "");
    {
      flag_type const f{short_f(), long_f(), fcppt::options::make_active_value(val(next_tok())),
                        fcppt::options::make_inactive_value(val(next_tok())), fcppt::options::optional_help_text{}};
      fcppt::args_vector const args{variant == 0 ? fcppt::args_vector{} : fcppt::args_vector{variant == 1 ? FCPPT_TEXT("--flag") : FCPPT_TEXT("-f")}};
      begin("options::flag::parse", false, {});
      auto const r = fcppt::options::parse(f, args);
      end(r, {});
    }
  }
  // option constructor with a default value (rvalue) and parse
  for_cats<'r'>([&](auto)
  {
    run1<'r'>("options::option::option", false, "default", [] { return fcppt::optional::object<val>{val(next_tok())}; }, [](auto &&a)
    {
      option_type const o{fcppt::options::optional_short_name{}, fcppt::options::long_name{FCPPT_TEXT("opt")},
                          fcppt::options::make_default_value(C05_FWD(a)), fcppt::options::optional_help_text{}};
      (void)o;
      return nothing{};
    });
  });
  for (int variant = 0; variant < 2; ++variant)
  {
    if (!wanted("options::option::parse")) break;
    reset("options::option::parse", variant == 0 ? "default" : "--opt 5", "");
    {
      option_type const o{fcppt::options::optional_short_name{}, fcppt::options::long_name{FCPPT_TEXT("opt")},
                          fcppt::options::make_default_value(fcppt::optional::object<val>{val(next_tok())}),
                          fcppt::options::optional_help_text{}};
      fcppt::args_vector const args{variant == 0 ? fcppt::args_vector{} : fcppt::args_vector{FCPPT_TEXT("--opt"), FCPPT_TEXT("5")}};
      begin("options::option::parse", false, {});
      auto const r = fcppt::options::parse(o, args);
      end(r, {});
    }
  }
  // many(option): every parsed value ends up in the result vector
  for (int n = 0; n <= 3; ++n)
  {
    if (!wanted("options::many::parse")) break;
    reset("options::many::parse", "occurrences:" + std::to_string(n), "");
    {
      auto const m{fcppt::options::make_many(option_type{fcppt::options::optional_short_name{},
          fcppt::options::long_name{FCPPT_TEXT("opt")}, option_type::optional_default_value{fcppt::optional::object<val>{}},
          fcppt::options::optional_help_text{}})};
      fcppt::args_vector args;
      for (int i = 0; i < n; ++i)
      {
        args.push_back(FCPPT_TEXT("--opt"));
        args.push_back(std::to_string(10 + i));
      }
      begin("options::many::parse", false, {});
      auto const r = fcppt::options::parse(m, args);
      end(r, {});
    }
  }
  // product of a flag and an option
  for (int variant = 0; variant < 2; ++variant)
  {
    if (!wanted("options::apply::parse")) break;
    reset("options::apply::parse", variant == 0 ? "defaults" : "--flag --opt 5", "");
    {
      auto const p{fcppt::options::apply(
          flag_type{short_f(), long_f(), fcppt::options::make_active_value(val(next_tok())),
                    fcppt::options::make_inactive_value(val(next_tok())), fcppt::options::optional_help_text{}},
          option_type{fcppt::options::optional_short_name{}, fcppt::options::long_name{FCPPT_TEXT("opt")},
                      fcppt::options::make_default_value(fcppt::optional::object<val>{val(next_tok())}),
                      fcppt::options::optional_help_text{}})};
      fcppt::args_vector const args{variant == 0 ? fcppt::args_vector{}
                                                 : fcppt::args_vector{FCPPT_TEXT("--flag"), FCPPT_TEXT("--opt"), FCPPT_TEXT("5")}};
      begin("options::apply::parse", false, {});
      auto const r = fcppt::options::parse(p, args);
      end(r, {});
    }
  }
}

void sums()
{
  // sum of two options: the value of whichever alternative matched ends up in the result variant
  for (int variant = 0; variant < 3; ++variant)
  {
    if (!wanted("options::sum::parse")) break;
    reset("options::sum::parse", variant == 0 ? "--a 5" : variant == 1 ? "--b 6" : "neither", "");
    {
      auto const no_default = [] { return fcppt::optional::object<val>{}; };
      auto const p{fcppt::options::make_sum<sum_label>(
          option_type{fcppt::options::optional_short_name{}, fcppt::options::long_name{FCPPT_TEXT("a")},
                      option_type::optional_default_value{no_default()}, fcppt::options::optional_help_text{}},
          option2_type{fcppt::options::optional_short_name{}, fcppt::options::long_name{FCPPT_TEXT("b")},
                       option2_type::optional_default_value{no_default()}, fcppt::options::optional_help_text{}})};
      fcppt::args_vector const args{variant == 0   ? fcppt::args_vector{FCPPT_TEXT("--a"), FCPPT_TEXT("5")}
                                    : variant == 1 ? fcppt::args_vector{FCPPT_TEXT("--b"), FCPPT_TEXT("6")}
                                                   : fcppt::args_vector{}};
      begin("options::sum::parse", false, {});
      auto const r = fcppt::options::parse(p, args);
      end(r, {});
    }
  }
}

void parsers()
{
  // an element parser whose value is a tracked object made by the convert continuation
  auto const elem = []
  {
    return fcppt::parse::make_convert(fcppt::parse::char_{}, [](char const ch)
    {
      cb_scope const g{""};
      return T(static_cast<int>(ch));
    });
  };
  auto const run = [](char const *op, auto const &parser, std::string const &input)
  {
    if (!wanted(op)) return;
    reset(op, "input:" + std::to_string(input.size()), "");
    {
      begin(op, false, {});
      auto const r = fcppt::parse::parse_string(parser, std::string{input});
      end(r, {});
    }
  };
  for (std::string const &in : {std::string{}, std::string{"a"}, std::string{"ab"}, std::string{"abc"}, std::string{"abcdefgh"}})
  {
    run("parse::repetition", *elem(), in);
    run("parse::repetition_plus", +elem(), in);
    run("parse::sequence", elem() >> elem(), in);
    run("parse::sequence3", elem() >> elem() >> elem(), in);
    run("parse::sequence+repetition", elem() >> *elem(), in);
    run("parse::optional", -elem(), in);
    // alternative of two parsers with the same (tracked) result type; the first one requires 'a'
    run("parse::alternative", (fcppt::parse::literal{'a'} >> elem()) | elem(), in);
  }
}
}

namespace c05
{
void drive_parsers()
{
  options();
  sums();
  parsers();
}
}
