// C05 harness, part 5: fcppt::options parser constructors / parse results and fcppt::parse
// sequence / repetition results whose element values are tracked objects.
#include "c05_common.hpp"

#include <fcppt/args_vector.hpp>
#include <fcppt/no_init.hpp>
#include <fcppt/string.hpp>
#include <fcppt/text.hpp>
#include <fcppt/options/active_value.hpp>
#include <fcppt/options/apply.hpp>
#include <fcppt/options/default_value.hpp>
#include <fcppt/options/exception.hpp>
#include <fcppt/options/flag.hpp>
#include <fcppt/options/inactive_value.hpp>
#include <fcppt/options/long_name.hpp>
#include <fcppt/options/make_active_value.hpp>
#include <fcppt/options/make_default_value.hpp>
#include <fcppt/options/make_inactive_value.hpp>
#include <fcppt/options/make_commands.hpp>
#include <fcppt/options/make_many.hpp>
#include <fcppt/options/make_sub_command.hpp>
#include <fcppt/options/make_optional.hpp>
#include <fcppt/options/make_sum.hpp>
#include <fcppt/options/option.hpp>
#include <fcppt/options/optional_help_text.hpp>
#include <fcppt/options/optional_short_name.hpp>
#include <fcppt/options/parse.hpp>
#include <fcppt/options/short_name.hpp>
#include <fcppt/parse/char.hpp>
#include <fcppt/parse/convert_const.hpp>
#include <fcppt/parse/make_fatal.hpp>
#include <fcppt/parse/make_ignore.hpp>
#include <fcppt/parse/make_lexeme.hpp>
#include <fcppt/parse/separator.hpp>
#include <fcppt/parse/make_convert.hpp>
#include <fcppt/parse/parse_string.hpp>
#include <fcppt/parse/operators/alternative.hpp>
#include <fcppt/parse/operators/optional.hpp>
#include <fcppt/parse/list.hpp>
#include <fcppt/parse/literal.hpp>
#include <fcppt/parse/named.hpp>
#include <fcppt/parse/operators/repetition.hpp>
#include <fcppt/parse/operators/repetition_plus.hpp>
#include <fcppt/parse/operators/sequence.hpp>
#include <fcppt/record/make_label.hpp>

#include <istream>
#include <ostream>
#include <string>
#include <utility>
#include <vector>

namespace c05v
{
// value type of the options parsers: a tracked object that can additionally be extracted from
// a stream (token = the integer read) and printed, as fcppt::options requires
struct val
{
  c05::T t;
  explicit val(int tok) : t(tok) {}
  explicit val(fcppt::no_init const &) : t(0) {}
  friend bool operator==(val const &a, val const &b) { return a.t == b.t; }
  friend bool operator!=(val const &a, val const &b) { return a.t != b.t; }
};
template <typename Ch, typename Tr>
std::basic_istream<Ch, Tr> &operator>>(std::basic_istream<Ch, Tr> &s, val &v)
{
  int tok = 0;
  if (s >> tok) v.t = c05::T(tok);
  return s;
}
template <typename Ch, typename Tr>
std::basic_ostream<Ch, Tr> &operator<<(std::basic_ostream<Ch, Tr> &s, val const &v)
{
  return s << v.t.value();
}
template <typename F>
void c05_walk(val const &v, F const &f) { f(v.t); }
}

namespace
{
using namespace c05;
using c05v::val;

FCPPT_RECORD_MAKE_LABEL(flag_label);
FCPPT_RECORD_MAKE_LABEL(opt_label);
FCPPT_RECORD_MAKE_LABEL(opt2_label);
FCPPT_RECORD_MAKE_LABEL(sum_label);
FCPPT_RECORD_MAKE_LABEL(cmd1_label);
FCPPT_RECORD_MAKE_LABEL(cmd2_label);
using option2_type = fcppt::options::option<opt2_label, val>;
using flag_type = fcppt::options::flag<flag_label, val>;
using option_type = fcppt::options::option<opt_label, val>;

fcppt::options::optional_short_name short_f() { return fcppt::options::optional_short_name{fcppt::options::short_name{FCPPT_TEXT("f")}}; }
fcppt::options::long_name long_f() { return fcppt::options::long_name{FCPPT_TEXT("flag")}; }

// one traced call whose argument(s) are OPAQUE rvalue parser objects: mk(toks) builds the parser and reports the
// tokens of the tracked values it holds; the result (another parser) cannot be walked either
template <typename Make, typename Call>
[[maybe_unused]] void run_opaque1(char const *op, std::string const &shape, Make const &mk, Call const &call)
{
  if (!wanted(op) || !reset(op, shape, "r")) return;
  guarded([&]
  {
    std::vector<long> toks;
    auto p = mk(toks);
    begin(op, false, {opaque('r', toks)});
    {
      auto const r = call(std::move(p));
      (void)r;
      end(nothing{}, {{}});
    }
  });
}
template <typename Make1, typename Make2, typename Call>
[[maybe_unused]] void run_opaque2(char const *op, std::string const &shape, Make1 const &mk1, Make2 const &mk2, Call const &call)
{
  if (!wanted(op) || !reset(op, shape, "rr")) return;
  guarded([&]
  {
    std::vector<long> toks1;
    std::vector<long> toks2;
    auto p = mk1(toks1);
    auto q = mk2(toks2);
    begin(op, false, {opaque('r', toks1), opaque('r', toks2)});
    {
      auto const r = call(std::move(p), std::move(q));
      (void)r;
      end(nothing{}, {{}, {}});
    }
  });
}

#ifdef C05_UNIT_OPTIONS_CTOR
void options_ctor()
{
  // flag constructor: both values are passed as rvalues (the signature takes rvalue references)
  for (bool equal : {false, true})
    run2<'r', 'r'>("options::flag::flag", false, equal ? "equal values" : "different values",
        [] { return val(next_tok()); }, [equal] { return equal ? val(1) : val(next_tok()); }, [](auto &&a, auto &&b)
    {
      try
      {
        flag_type const f{short_f(), long_f(), fcppt::options::make_active_value(C05_FWD(a)),
                          fcppt::options::make_inactive_value(C05_FWD(b)), fcppt::options::optional_help_text{}};
        (void)f;
      }
      catch (fcppt::options::exception const &)
      {
      }
      return nothing{};
    });
  // option constructor with a default value (rvalue) and parse
  for_cats<'r'>([&](auto)
  {
    run1<'r'>("options::option::option", false, "default", [] { return fcppt::optional::object<val>{val(next_tok())}; }, [](auto &&a)
    {
      option_type const o{fcppt::options::optional_short_name{}, fcppt::options::long_name{FCPPT_TEXT("opt")},
                          fcppt::options::make_default_value(C05_FWD(a)), fcppt::options::optional_help_text{}};
      (void)o;
      return nothing{};
    });
  });
  // Constructors of the combining parsers take their sub-parsers as rvalues ("many(Parser &&)", "sum(Left &&, Right &&)",
  // ...).  The sub-parsers hold tracked values (the default value of an option, the two values of a flag) that cannot
  // be walked from outside: the arguments are OPAQUE, only the tokens they hold are known (xtoks).  A copy of a
  // sub-parser where a move is due copies those values: copy-of-rvalue-element.
  auto const mk_opt_parser = [](std::vector<long> &toks)
  {
    int const tok = next_tok();
    toks.push_back(tok);
    return option_type{fcppt::options::optional_short_name{}, fcppt::options::long_name{FCPPT_TEXT("opt")},
                       fcppt::options::make_default_value(fcppt::optional::object<val>{val(tok)}), fcppt::options::optional_help_text{}};
  };
  auto const mk_opt2_parser = [](std::vector<long> &toks)
  {
    int const tok = next_tok();
    toks.push_back(tok);
    return option2_type{fcppt::options::optional_short_name{}, fcppt::options::long_name{FCPPT_TEXT("opt2")},
                        fcppt::options::make_default_value(fcppt::optional::object<val>{val(tok)}), fcppt::options::optional_help_text{}};
  };
  auto const mk_flag_parser = [](std::vector<long> &toks)
  {
    int const t1 = next_tok();
    int const t2 = next_tok();
    toks.push_back(t1);
    toks.push_back(t2);
    return flag_type{short_f(), long_f(), fcppt::options::make_active_value(val(t1)), fcppt::options::make_inactive_value(val(t2)),
                     fcppt::options::optional_help_text{}};
  };
  run_opaque1("options::many::many", "many(option)", mk_opt_parser, [](auto &&p) { return fcppt::options::make_many(C05_FWD(p)); });
  run_opaque1("options::many::many", "many(flag)", mk_flag_parser, [](auto &&p) { return fcppt::options::make_many(C05_FWD(p)); });
  run_opaque1("options::optional::optional", "optional(option)", mk_opt_parser, [](auto &&p) { return fcppt::options::make_optional(C05_FWD(p)); });
  run_opaque2("options::sum::sum", "sum(option,option2)", mk_opt_parser, mk_opt2_parser,
              [](auto &&p, auto &&q) { return fcppt::options::make_sum<sum_label>(C05_FWD(p), C05_FWD(q)); });
  run_opaque2("options::product::product", "apply(flag,option)", mk_flag_parser, mk_opt_parser,
              [](auto &&p, auto &&q) { return fcppt::options::apply(C05_FWD(p), C05_FWD(q)); });
  run_opaque2("options::product::product", "apply(option,flag)", mk_opt_parser, mk_flag_parser,
              [](auto &&p, auto &&q) { return fcppt::options::apply(C05_FWD(p), C05_FWD(q)); });
  // nested: a product inside many, a sum of a product and an option
  run_opaque2("options::many::many", "many(apply(flag,option))", mk_flag_parser, mk_opt_parser,
              [](auto &&p, auto &&q) { return fcppt::options::make_many(fcppt::options::apply(C05_FWD(p), C05_FWD(q))); });
  // sub_command(name, parser, help) and commands(options parser, sub commands...): the variadic positions as well
  run_opaque1("options::sub_command::sub_command", "sub_command(option)", mk_opt_parser, [](auto &&p)
  { return fcppt::options::make_sub_command<cmd1_label>(fcppt::string{FCPPT_TEXT("one")}, C05_FWD(p), fcppt::options::optional_help_text{}); });
  if (wanted("options::commands::commands") && reset("options::commands::commands", "commands(flag, sub(option), sub(option2))", "rrr"))
    guarded([&]
    {
      std::vector<long> t0;
      std::vector<long> t1;
      std::vector<long> t2;
      auto p0 = mk_flag_parser(t0);
      auto s1 = fcppt::options::make_sub_command<cmd1_label>(fcppt::string{FCPPT_TEXT("one")}, mk_opt_parser(t1), fcppt::options::optional_help_text{});
      auto s2 = fcppt::options::make_sub_command<cmd2_label>(fcppt::string{FCPPT_TEXT("two")}, mk_opt2_parser(t2), fcppt::options::optional_help_text{});
      begin("options::commands::commands", false, {opaque('r', t0), opaque('r', t1), opaque('r', t2)});
      {
        auto const r = fcppt::options::make_commands(std::move(p0), std::move(s1), std::move(s2));
        (void)r;
        end(nothing{}, {{}, {}, {}});
      }
    });
  // values handed to the helper constructors of the flag / option arguments
  for_cats<'r', 'c'>([&](auto c)
  {
    constexpr char C = decltype(c)::value;
    run1<C>("options::make_active_value", false, "value", [] { return val(next_tok()); },
            [](auto &&a) { (void)fcppt::options::make_active_value(C05_FWD(a)); return nothing{}; });
    run1<C>("options::make_inactive_value", false, "value", [] { return val(next_tok()); },
            [](auto &&a) { (void)fcppt::options::make_inactive_value(C05_FWD(a)); return nothing{}; });
    run1<C>("options::make_default_value", false, "optional value", [] { return fcppt::optional::object<val>{val(next_tok())}; },
            [](auto &&a) { (void)fcppt::options::make_default_value(C05_FWD(a)); return nothing{}; });
  });
}
#endif

#ifdef C05_UNIT_OPTIONS_PARSE
void options_parse()
{
  // flag parse: the result is a copy of the active / inactive member
  for (int variant = 0; variant < 3; ++variant)
  {
    if (!wanted("options::flag::parse")) break;
    if (!reset("options::flag::parse", variant == 0 ? "absent" : variant == 1 ? "--flag" : "-f", "")) continue;
    guarded([&]
    {
      flag_type const f{short_f(), long_f(), fcppt::options::make_active_value(val(next_tok())),
                        fcppt::options::make_inactive_value(val(next_tok())), fcppt::options::optional_help_text{}};
      fcppt::args_vector const args{variant == 0 ? fcppt::args_vector{} : fcppt::args_vector{variant == 1 ? FCPPT_TEXT("--flag") : FCPPT_TEXT("-f")}};
      begin("options::flag::parse", false, {});
      auto const r = fcppt::options::parse(f, args);
      end(r, {});
    });
  }
  for (int variant = 0; variant < 2; ++variant)
  {
    if (!wanted("options::option::parse")) break;
    if (!reset("options::option::parse", variant == 0 ? "default" : "--opt 5", "")) continue;
    guarded([&]
    {
      option_type const o{fcppt::options::optional_short_name{}, fcppt::options::long_name{FCPPT_TEXT("opt")},
                          fcppt::options::make_default_value(fcppt::optional::object<val>{val(next_tok())}),
                          fcppt::options::optional_help_text{}};
      fcppt::args_vector const args{variant == 0 ? fcppt::args_vector{} : fcppt::args_vector{FCPPT_TEXT("--opt"), FCPPT_TEXT("5")}};
      begin("options::option::parse", false, {});
      auto const r = fcppt::options::parse(o, args);
      end(r, {});
    });
  }
  // many(option): every parsed value ends up in the result vector
  for (int n = 0; n <= 3; ++n)
  {
    if (!wanted("options::many::parse")) break;
    if (!reset("options::many::parse", "occurrences:" + std::to_string(n), "")) continue;
    guarded([&]
    {
      auto const m{fcppt::options::make_many(option_type{fcppt::options::optional_short_name{},
          fcppt::options::long_name{FCPPT_TEXT("opt")}, option_type::optional_default_value{fcppt::optional::object<val>{}},
          fcppt::options::optional_help_text{}})};
      fcppt::args_vector args;
      for (int i = 0; i < n; ++i)
      {
        args.push_back(FCPPT_TEXT("--opt"));
        args.push_back(std::to_string(10 + i));
      }
      begin("options::many::parse", false, {});
      auto const r = fcppt::options::parse(m, args);
      end(r, {});
    });
  }
  // product of a flag and an option
  for (int variant = 0; variant < 2; ++variant)
  {
    if (!wanted("options::apply::parse")) break;
    if (!reset("options::apply::parse", variant == 0 ? "defaults" : "--flag --opt 5", "")) continue;
    guarded([&]
    {
      auto const p{fcppt::options::apply(
          flag_type{short_f(), long_f(), fcppt::options::make_active_value(val(next_tok())),
                    fcppt::options::make_inactive_value(val(next_tok())), fcppt::options::optional_help_text{}},
          option_type{fcppt::options::optional_short_name{}, fcppt::options::long_name{FCPPT_TEXT("opt")},
                      fcppt::options::make_default_value(fcppt::optional::object<val>{val(next_tok())}),
                      fcppt::options::optional_help_text{}})};
      fcppt::args_vector const args{variant == 0 ? fcppt::args_vector{}
                                                 : fcppt::args_vector{FCPPT_TEXT("--flag"), FCPPT_TEXT("--opt"), FCPPT_TEXT("5")}};
      begin("options::apply::parse", false, {});
      auto const r = fcppt::options::parse(p, args);
      end(r, {});
    });
  }
}

void sums()
{
  // sum of two options: the value of whichever alternative matched ends up in the result variant
  for (int variant = 0; variant < 3; ++variant)
  {
    if (!wanted("options::sum::parse")) break;
    if (!reset("options::sum::parse", variant == 0 ? "--a 5" : variant == 1 ? "--b 6" : "neither", "")) continue;
    guarded([&]
    {
      auto const no_default = [] { return fcppt::optional::object<val>{}; };
      auto const p{fcppt::options::make_sum<sum_label>(
          option_type{fcppt::options::optional_short_name{}, fcppt::options::long_name{FCPPT_TEXT("a")},
                      option_type::optional_default_value{no_default()}, fcppt::options::optional_help_text{}},
          option2_type{fcppt::options::optional_short_name{}, fcppt::options::long_name{FCPPT_TEXT("b")},
                       option2_type::optional_default_value{no_default()}, fcppt::options::optional_help_text{}})};
      fcppt::args_vector const args{variant == 0   ? fcppt::args_vector{FCPPT_TEXT("--a"), FCPPT_TEXT("5")}
                                    : variant == 1 ? fcppt::args_vector{FCPPT_TEXT("--b"), FCPPT_TEXT("6")}
                                                   : fcppt::args_vector{}};
      begin("options::sum::parse", false, {});
      auto const r = fcppt::options::parse(p, args);
      end(r, {});
    });
  }
}
#endif

#ifdef C05_UNIT_PARSE_CTOR
void parse_ctor()
{
  // convert_const(parser, value): the constant is moved into the parser
  for_cats<'r'>([&](auto)
  {
    run1<'r'>("parse::convert_const::convert_const", false, "value", [] { return T(next_tok()); },
              [](auto &&a) { (void)fcppt::parse::convert_const(fcppt::parse::literal{'a'}, C05_FWD(a)); return nothing{}; });
  });
  // The combining parsers take their sub-parsers as rvalues ("sequence(Left &&, Right &&)", "repetition(Parser &&)", ...);
  // a convert_const sub-parser holds a tracked value that cannot be walked from outside: opaque arguments (xtoks)
  auto const mk_p = [](std::vector<long> &toks)
  {
    int const tok = next_tok();
    toks.push_back(tok);
    return fcppt::parse::convert_const(fcppt::parse::literal{'a'}, T(tok));
  };
  run_opaque1("parse::repetition::repetition", "*p", mk_p, [](auto &&p) { return *C05_FWD(p); });
  run_opaque1("parse::repetition_plus::repetition_plus", "+p", mk_p, [](auto &&p) { return +C05_FWD(p); });
  run_opaque1("parse::optional::optional", "-p", mk_p, [](auto &&p) { return -C05_FWD(p); });
  run_opaque1("parse::fatal::fatal", "fatal(p)", mk_p, [](auto &&p) { return fcppt::parse::make_fatal(C05_FWD(p)); });
  run_opaque1("parse::lexeme::lexeme", "lexeme(p)", mk_p, [](auto &&p) { return fcppt::parse::make_lexeme(C05_FWD(p)); });
  run_opaque1("parse::ignore::ignore", "ignore(p)", mk_p, [](auto &&p) { return fcppt::parse::make_ignore(C05_FWD(p)); });
  run_opaque2("parse::sequence::sequence", "p >> q", mk_p, mk_p, [](auto &&p, auto &&q) { return C05_FWD(p) >> C05_FWD(q); });
  run_opaque2("parse::alternative::alternative", "p | q", mk_p, mk_p, [](auto &&p, auto &&q) { return C05_FWD(p) | C05_FWD(q); });
  run_opaque1("parse::separator::separator", "separator(p, ',')", mk_p,
              [](auto &&p) { return fcppt::parse::separator{C05_FWD(p), fcppt::parse::literal{','}}; });
  run_opaque1("parse::convert::convert", "make_convert(p, f)", mk_p,
              [](auto &&p) { return fcppt::parse::make_convert(C05_FWD(p), [](T &&x) { return T(std::move(x)); }); });
  run_opaque1("parse::named::named", "named(p, name)", mk_p, [](auto &&p) { return fcppt::parse::named{C05_FWD(p), std::string{"p"}}; });
  run_opaque1("parse::list::list", "list('[', p, ',', ']')", mk_p, [](auto &&p)
  { return fcppt::parse::list{fcppt::parse::literal{'['}, C05_FWD(p), fcppt::parse::literal{','}, fcppt::parse::literal{']'}}; });
  // nested combinations: the sub-parser sits one level further inside
  run_opaque2("parse::repetition::repetition", "*(p >> q)", mk_p, mk_p, [](auto &&p, auto &&q) { return *(C05_FWD(p) >> C05_FWD(q)); });
  run_opaque2("parse::sequence::sequence", "p >> *q", mk_p, mk_p, [](auto &&p, auto &&q) { return C05_FWD(p) >> *C05_FWD(q); });
  run_opaque2("parse::alternative::alternative", "-p | +q", mk_p, mk_p, [](auto &&p, auto &&q) { return -C05_FWD(p) | -(+C05_FWD(q)); });
}
#endif

#ifdef C05_UNIT_PARSE_RESULTS
void parsers()
{
  // an element parser whose value is a tracked object made by the convert continuation
  auto const elem = []
  {
    return fcppt::parse::make_convert(fcppt::parse::char_{}, [](char const ch)
    {
      cb_scope const g{""};
      return T(static_cast<int>(ch));
    });
  };
  auto const run = [](char const *op, auto const &parser, std::string const &input)
  {
    if (!wanted(op) || !reset(op, "input:" + std::to_string(input.size()), "")) return;
    guarded([&]
    {
      begin(op, false, {});
      auto const r = fcppt::parse::parse_string(parser, std::string{input});
      end(r, {});
    });
  };
  for (std::string const &in : {std::string{}, std::string{"a"}, std::string{"ab"}, std::string{"abc"}, std::string{"abcdefgh"}})
  {
    run("parse::repetition", *elem(), in);
    run("parse::repetition_plus", +elem(), in);
    run("parse::sequence", elem() >> elem(), in);
    run("parse::sequence3", elem() >> elem() >> elem(), in);
    run("parse::sequence+repetition", elem() >> *elem(), in);
    run("parse::optional", -elem(), in);
    // alternative of two parsers with the same (tracked) result type; the first one requires 'a'
    run("parse::alternative", (fcppt::parse::literal{'a'} >> elem()) | elem(), in);
  }
}
#endif

}

namespace c05
{
#ifdef C05_UNIT_OPTIONS_CTOR
void drive_options_ctor() { options_ctor(); }
#endif
#ifdef C05_UNIT_PARSE_CTOR
void drive_parse_ctor() { parse_ctor(); }
#endif
#ifdef C05_UNIT_OPTIONS_PARSE
void drive_options_parse()
{
  options_parse();
  sums();
}
#endif
#ifdef C05_UNIT_PARSE_RESULTS
void drive_parse_results() { parsers(); }
#endif
}
