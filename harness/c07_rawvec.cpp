// C07 conformance harness: drives fcppt::container::raw_vector::object and
// fcppt::container::buffer::object through operation histories and records, after every
// operation, the projected abstract state of every object plus the allocator events.
// It contains no expected values: spec/RawVectorTrace.tla (TLC) is the judge.
//
//   c07_rawvec record OUT seed histories maxlen
//   c07_rawvec replay SCRIPTS.ndjson OUT      (one JSON array of op records per line)
#include <common/vjson.hpp>

#include <fcppt/container/buffer/append_from.hpp>
#include <fcppt/container/buffer/append_from_opt.hpp>
#include <fcppt/container/buffer/object.hpp>
#include <fcppt/container/buffer/read_from.hpp>
#include <fcppt/container/buffer/read_from_opt.hpp>
#include <fcppt/container/buffer/to_raw_vector.hpp>
#include <fcppt/container/raw_vector/comparison.hpp>
#include <fcppt/container/raw_vector/object.hpp>
#include <fcppt/container/dynamic_array.hpp>
#include <fcppt/io/read_chars.hpp>
#include <fcppt/optional/object.hpp>
#include <fcppt/optional/maybe.hpp>

#include <istream>
#include <iterator>
#include <new>
#include <streambuf>
#include <map>
#include <optional>
#include <sstream>
#include <string>
#include <vector>

namespace
{
constexpr int poison = 0x5A5A5A5A;

struct block
{
  long id;
  std::size_t n;     // elements requested
  std::size_t bytes; // bytes allocated
};

std::map<char *, block> &blocks()
{
  static std::map<char *, block> b;
  return b;
}
long next_block_id = 0;
std::string heap_events; // JSON array elements since the last record
bool heap_first = true;

void heap_event(std::string const &e)
{
  if (!heap_first) heap_events += ',';
  heap_first = false;
  heap_events += e;
}

std::string take_heap_events()
{
  std::string r = "[" + heap_events + "]";
  heap_events.clear();
  heap_first = true;
  return r;
}

// Allocator seam (public template parameter of raw_vector/buffer): exact-size allocations so
// that ASan sees every out-of-allocation access, poison fill so that uninitialised cells that
// become part of the contents are visible to the judge.
template <typename T>
struct talloc
{
  using value_type = T;
  talloc() = default;
  template <typename U>
  talloc(talloc<U> const &) {}
  T *allocate(std::size_t n)
  {
    std::size_t const bytes = n * sizeof(T);
    char *p = static_cast<char *>(::operator new(bytes == 0 ? 1 : bytes));
    T *t = reinterpret_cast<T *>(p);
    for (std::size_t i = 0; i < n; ++i) t[i] = static_cast<T>(poison);
    long const id = ++next_block_id;
    blocks()[p] = block{id, n, bytes};
    heap_event(vj::J().kv("a", "alloc").kv("id", id).kv("n", n).str());
    return t;
  }
  void deallocate(T *t, std::size_t n)
  {
    char *p = reinterpret_cast<char *>(t);
    auto it = blocks().find(p);
    if (it == blocks().end())
    {
      heap_event(vj::J().kv("a", "free").kv("id", 0).kv("n", n).kv("nalloc", -1).str());
      return; // not freed: the judge rejects the event
    }
    heap_event(vj::J().kv("a", "free").kv("id", it->second.id).kv("n", n).kv("nalloc", it->second.n).str());
    blocks().erase(it);
    ::operator delete(p);
  }
  bool operator==(talloc const &) const { return true; }
  bool operator!=(talloc const &) const { return false; }
};

// (block id, element offset) of a pointer; id 0 = null, -1 = not inside any live block
template <typename T>
std::pair<long, long> locate(T const *t)
{
  if (t == nullptr) return {0, 0};
  char *p = const_cast<char *>(reinterpret_cast<char const *>(t));
  auto it = blocks().upper_bound(p);
  if (it == blocks().begin()) return {-1, 0};
  --it;
  if (p >= it->first && p <= it->first + it->second.bytes)
    return {it->second.id, static_cast<long>((p - it->first) / static_cast<long>(sizeof(T)))};
  return {-1, 0};
}

using rv = fcppt::container::raw_vector::object<int, talloc<int>>;
using buf = fcppt::container::buffer::object<int, talloc<int>>;
using dyn = fcppt::container::dynamic_array<int, talloc<int>>;

constexpr int NV = 3;
constexpr int NB = 2;
std::optional<rv> vs[NV + 1];
std::optional<buf> bs[NB + 1];
std::optional<dyn> da; // one dynamic_array slot

// input-iterator seam (single pass)
struct input_it
{
  using iterator_category = std::input_iterator_tag;
  using value_type = int;
  using difference_type = std::ptrdiff_t;
  using pointer = int const *;
  using reference = int const &;
  std::vector<int> const *v;
  std::size_t i;
  reference operator*() const { return (*v)[i]; }
  input_it &operator++() { ++i; return *this; }
  input_it operator++(int) { input_it r(*this); ++i; return r; }
  bool operator==(input_it const &o) const { return i == o.i; }
  bool operator!=(input_it const &o) const { return i != o.i; }
};

struct Op
{
  std::string op;
  int o = 0, o2 = 0;
  long pos = 0, pos2 = 0, n = 0, x = 0, k = 0;
  int alias = -1;
  std::vector<int> xs;
  std::string kind; // "fwd" | "input"
  bool some = true;
};

std::string state_json()
{
  vj::J vsj('[');
  for (int i = 1; i <= NV; ++i)
  {
    vj::J o;
    o.kv("o", i).kv("live", vs[i].has_value());
    if (vs[i].has_value())
    {
      rv const &v = *vs[i];
      // absurd sizes (a corrupted object) are logged as such instead of being walked
      bool const sane = v.size() <= (1U << 20) && v.data_end() >= v.data() &&
                        static_cast<std::size_t>(v.data_end() - v.data()) <= (1U << 20);
      std::vector<int> elems;
      std::vector<int> idx;
      if (sane)
      {
        elems.assign(v.begin(), v.end());
        for (std::size_t j = 0; j < v.size(); ++j) idx.push_back(v[j]);
      }
      auto loc = locate(v.data());
      auto const clampz = [](std::size_t z) { return z > (1U << 30) ? static_cast<std::size_t>(1U << 30) : z; };
      o.kv("elems", elems).kv("idx", idx).kv("size", clampz(v.size())).kv("cap", clampz(v.capacity())).kv("empty", v.empty());
      { long d = static_cast<long>(v.data_end() - v.data()); if (d > (1L << 30)) d = 1L << 30; if (d < -(1L << 30)) d = -(1L << 30); o.kv("dist", d); }
      o.kv("blk", loc.first).kv("off", loc.second);
      if (sane && !v.empty()) o.kv("front", v.front()).kv("back", v.back());
    }
    vsj.el_raw(o.str());
  }
  vj::J bsj('[');
  for (int i = 1; i <= NB; ++i)
  {
    vj::J o;
    o.kv("b", i).kv("live", bs[i].has_value());
    if (bs[i].has_value())
    {
      buf &b = *bs[i];
      bool const sane = b.read_size() <= (1U << 20);
      std::vector<int> rd;
      std::vector<int> idx;
      if (sane)
      {
        rd.assign(b.begin(), b.end());
        for (std::size_t j = 0; j < b.read_size(); ++j) idx.push_back(b[j]);
      }
      auto loc = locate(b.read_data());
      auto const clampz = [](std::size_t z) { return z > (1U << 30) ? static_cast<std::size_t>(1U << 30) : z; };
      o.kv("read", rd).kv("idx", idx).kv("rsize", clampz(b.read_size())).kv("wsize", clampz(b.write_size()));
      o.kv("rdist", static_cast<long>(b.read_data_end() - b.read_data()));
      o.kv("wdist", static_cast<long>(b.write_data_end() - b.write_data()));
      o.kv("wgap", static_cast<long>(b.write_data() - b.read_data_end()));
      o.kv("blk", loc.first).kv("off", loc.second);
    }
    bsj.el_raw(o.str());
  }
  vj::J dj;
  dj.kv("live", da.has_value());
  if (da.has_value())
  {
    auto loc = locate(da->data());
    std::vector<int> cells(da->data(), da->data_end());
    dj.kv("size", da->size()).kv("dist", static_cast<long>(da->data_end() - da->data())).kv("blk", loc.first).kv("off", loc.second).kv("cells", cells);
  }
  return "\"vs\":" + vsj.str() + ",\"bs\":" + bsj.str() + ",\"da\":" + dj.str();
}

int arg_value(Op const &op, rv &v) { return op.alias >= 0 ? 0 : static_cast<int>(op.x); }

// Executes one operation on the real objects and logs it.
void exec(Op const &op)
{
  vj::J pre;
  pre.kv("e", "op").kv("op", op.op).kv("o", op.o).kv("o2", op.o2).kv("pos", op.pos).kv("pos2", op.pos2);
  pre.kv("n", op.n).kv("x", op.x).kv("k", op.k).kv("alias", op.alias).kv("xs", op.xs).kv("kind", op.kind).kv("some", op.some);
  vj::begin_call(pre.s);
  long ret = -1;
  bool rb = false;
  std::string const &o = op.op;
  auto V = [&](int i) -> rv & { return *vs[i]; };
  auto B = [&](int i) -> buf & { return *bs[i]; };
  if (o == "ctor_default") vs[op.o].emplace();
  else if (o == "ctor_fill") vs[op.o].emplace(static_cast<std::size_t>(op.n), static_cast<int>(op.x));
  else if (o == "ctor_range")
  {
    if (op.kind == "input") vs[op.o].emplace(input_it{&op.xs, 0}, input_it{&op.xs, op.xs.size()});
    else vs[op.o].emplace(op.xs.begin(), op.xs.end());
  }
  else if (o == "ctor_init")
  {
    auto const &x = op.xs;
    switch (x.size())
    {
    case 0: vs[op.o].emplace(std::initializer_list<int>{}); break;
    case 1: vs[op.o].emplace(std::initializer_list<int>{x[0]}); break;
    case 2: vs[op.o].emplace(std::initializer_list<int>{x[0], x[1]}); break;
    case 3: vs[op.o].emplace(std::initializer_list<int>{x[0], x[1], x[2]}); break;
    default: vs[op.o].emplace(std::initializer_list<int>{x[0], x[1], x[2], x[3]}); break;
    }
  }
  else if (o == "move_ctor") vs[op.o].emplace(std::move(V(op.o2)));
  else if (o == "destroy") vs[op.o].reset();
  else if (o == "push_back")
  {
    if (op.alias >= 0) V(op.o).push_back(V(op.o)[static_cast<std::size_t>(op.alias)]);
    else V(op.o).push_back(static_cast<int>(op.x));
  }
  else if (o == "pop_back") V(op.o).pop_back();
  else if (o == "insert1")
  {
    rv &v = V(op.o);
    rv::iterator it = op.alias >= 0 ? v.insert(v.begin() + op.pos, v[static_cast<std::size_t>(op.alias)])
                                    : v.insert(v.begin() + op.pos, static_cast<int>(op.x));
    ret = static_cast<long>(it - v.begin());
  }
  else if (o == "insertn")
  {
    rv &v = V(op.o);
    if (op.alias >= 0) v.insert(v.begin() + op.pos, static_cast<std::size_t>(op.n), v[static_cast<std::size_t>(op.alias)]);
    else v.insert(v.begin() + op.pos, static_cast<std::size_t>(op.n), static_cast<int>(op.x));
  }
  else if (o == "insert_range")
  {
    rv &v = V(op.o);
    if (op.kind == "input") v.insert(v.begin() + op.pos, input_it{&op.xs, 0}, input_it{&op.xs, op.xs.size()});
    else v.insert(v.begin() + op.pos, op.xs.begin(), op.xs.end());
  }
  else if (o == "erase1")
  {
    rv &v = V(op.o);
    ret = static_cast<long>(v.erase(v.begin() + op.pos) - v.begin());
  }
  else if (o == "erase_range")
  {
    rv &v = V(op.o);
    ret = static_cast<long>(v.erase(v.begin() + op.pos, v.begin() + op.pos2) - v.begin());
  }
  else if (o == "resize") V(op.o).resize(static_cast<std::size_t>(op.n), static_cast<int>(op.x));
  else if (o == "reserve") V(op.o).reserve(static_cast<std::size_t>(op.n));
  else if (o == "shrink_to_fit") V(op.o).shrink_to_fit();
  else if (o == "clear") V(op.o).clear();
  else if (o == "swap") V(op.o).swap(V(op.o2));
  else if (o == "swap_free") { using std::swap; swap(V(op.o), V(op.o2)); }
  else if (o == "move_assign") V(op.o) = std::move(V(op.o2));
  else if (o == "set") V(op.o)[static_cast<std::size_t>(op.pos)] = static_cast<int>(op.x);
  else if (o == "eq") rb = (V(op.o) == V(op.o2));
  else if (o == "ne") rb = (V(op.o) != V(op.o2));
  else if (o == "lt") rb = (V(op.o) < V(op.o2));
  else if (o == "le") rb = (V(op.o) <= V(op.o2));
  else if (o == "gt") rb = (V(op.o) > V(op.o2));
  else if (o == "ge") rb = (V(op.o) >= V(op.o2));
  // ---- buffer
  else if (o == "bctor") bs[op.o].emplace(static_cast<std::size_t>(op.n));
  else if (o == "bdestroy") bs[op.o].reset();
  else if (o == "bresize_write") B(op.o).resize_write_area(static_cast<std::size_t>(op.n));
  else if (o == "bwrite")
  {
    // fill the first k cells of the write area, then declare them written
    buf &b = B(op.o);
    int *w = b.write_data();
    for (std::size_t i = 0; i < op.xs.size(); ++i) w[i] = op.xs[i];
    b.written(op.xs.size());
  }
  else if (o == "bappend_from")
  {
    std::vector<int> const &xs = op.xs;
    long seen = -1;
    bs[op.o].emplace(fcppt::container::buffer::append_from(
        std::move(B(op.o)), static_cast<std::size_t>(op.n), [&xs, &seen](int *p, std::size_t sz) {
          seen = static_cast<long>(sz);
          for (std::size_t i = 0; i < xs.size() && i < sz; ++i) p[i] = xs[i];
          return xs.size();
        }));
    ret = seen;
  }
  else if (o == "bappend_from_opt")
  {
    std::vector<int> const &xs = op.xs;
    bool const some = op.some;
    long seen = -1;
    auto r = fcppt::container::buffer::append_from_opt(
        std::move(B(op.o)), static_cast<std::size_t>(op.n),
        [&xs, &seen, some](int *p, std::size_t sz) -> fcppt::optional::object<std::size_t> {
          seen = static_cast<long>(sz);
          if (!some) return fcppt::optional::object<std::size_t>{};
          for (std::size_t i = 0; i < xs.size() && i < sz; ++i) p[i] = xs[i];
          return fcppt::optional::object<std::size_t>{xs.size()};
        });
    ret = seen;
    rb = r.has_value();
    // the source buffer was passed as an rvalue: on success it has been moved into the result
    if (r.has_value()) bs[op.o].emplace(std::move(r.get_unsafe()));
  }
  else if (o == "bread_from")
  {
    std::vector<int> const &xs = op.xs;
    long seen = -1;
    bs[op.o].emplace(fcppt::container::buffer::read_from<buf>(
        static_cast<std::size_t>(op.n), [&xs, &seen](int *p, std::size_t sz) {
          seen = static_cast<long>(sz);
          for (std::size_t i = 0; i < xs.size() && i < sz; ++i) p[i] = xs[i];
          return xs.size();
        }));
    ret = seen;
  }
  else if (o == "bmove_ctor") bs[op.o].emplace(std::move(B(op.o2)));
  else if (o == "bmove_assign") B(op.o) = std::move(B(op.o2));
  else if (o == "bswap") B(op.o).swap(B(op.o2));
  else if (o == "to_raw_vector")
  {
    vs[op.o2].emplace(fcppt::container::buffer::to_raw_vector(std::move(B(op.o))));
  }
  else if (o == "dctor") da.emplace(static_cast<std::size_t>(op.n));
  else if (o == "ddestroy") da.reset();
  else if (o == "dfill")
  {
    // write every cell through data(), the judge reads them back through data()..data_end()
    int *p = da->data();
    for (std::size_t i = 0; i < da->size(); ++i) p[i] = static_cast<int>(op.x + static_cast<long>(i));
  }
  else
  {
    std::fprintf(stderr, "unknown op %s\n", o.c_str());
    std::exit(3);
  }
  std::string rest = ",\"ret\":" + std::to_string(ret) + ",\"rb\":" + (rb ? "true" : "false") + "," + state_json() +
                     ",\"heap\":" + take_heap_events() + "}";
  vj::end_call(rest);
}

void reset_all()
{
  for (int i = 1; i <= NV; ++i) vs[i].reset();
  for (int i = 1; i <= NB; ++i) bs[i].reset();
  da.reset();
}

void begin_history(long h)
{
  take_heap_events();
  vj::line(vj::J().kv("e", "reset").kv("h", h));
}

void end_history()
{
  // destroy everything; the judge demands an empty heap afterwards
  vj::begin_call(vj::J().kv("e", "end").s);
  reset_all();
  vj::end_call(",\"heap\":" + take_heap_events() + ",\"live_blocks\":" + std::to_string(blocks().size()) + "}");
}

// ---------------------------------------------------------------- random driver
std::vector<int> rand_xs(vj::Rng &r, int maxn)
{
  std::vector<int> v;
  int n = static_cast<int>(r.below(static_cast<unsigned>(maxn + 1)));
  for (int i = 0; i < n; ++i) v.push_back(static_cast<int>(r.below(10)));
  return v;
}

bool gen(vj::Rng &r, Op &op)
{
  // choose among operations that are valid in the current state (API preconditions)
  for (int tries = 0; tries < 50; ++tries)
  {
    op = Op{};
    int const which = static_cast<int>(r.below(40));
    int const a = 1 + static_cast<int>(r.below(NV));
    int b = 1 + static_cast<int>(r.below(NV));
    bool const la = vs[a].has_value();
    std::size_t const sz = la ? vs[a]->size() : 0;
    op.o = a;
    op.x = static_cast<long>(r.below(10));
    switch (which)
    {
    case 0: if (la) continue; op.op = "ctor_default"; return true;
    case 1: if (la) continue; op.op = "ctor_fill"; op.n = static_cast<long>(r.below(6)); return true;
    case 2: if (la) continue; op.op = "ctor_range"; op.xs = rand_xs(r, 5); op.kind = r.coin() ? "fwd" : "input"; return true;
    case 3: if (la) continue; op.op = "ctor_init"; op.xs = rand_xs(r, 4); return true;
    case 4: if (la || b == a || !vs[b].has_value()) continue; op.op = "move_ctor"; op.o2 = b; return true;
    case 5: if (!la || r.below(4) != 0) continue; op.op = "destroy"; return true;
    case 6: case 7: case 8: if (!la) continue; op.op = "push_back"; if (sz > 0 && r.below(3) == 0) op.alias = static_cast<int>(r.below(sz)); return true;
    case 9: case 10: if (!la || sz == 0) continue; op.op = "pop_back"; return true;
    case 11: case 12: case 13: case 14:
      if (!la) continue; op.op = "insert1"; op.pos = static_cast<long>(r.below(sz + 1));
      if (sz > 0 && r.coin()) op.alias = static_cast<int>(r.below(sz));
      return true;
    case 15: case 16: case 17:
      if (!la) continue; op.op = "insertn"; op.pos = static_cast<long>(r.below(sz + 1)); op.n = static_cast<long>(r.below(5));
      if (sz > 0 && r.coin()) op.alias = static_cast<int>(r.below(sz));
      return true;
    case 18: case 19: case 20:
      if (!la) continue; op.op = "insert_range"; op.pos = static_cast<long>(r.below(sz + 1)); op.xs = rand_xs(r, 5);
      op.kind = r.coin() ? "fwd" : "input"; return true;
    case 21: case 22: if (!la || sz == 0) continue; op.op = "erase1"; op.pos = static_cast<long>(r.below(sz)); return true;
    case 23: case 24: case 25:
      if (!la) continue; op.op = "erase_range"; op.pos = static_cast<long>(r.below(sz + 1));
      op.pos2 = op.pos + static_cast<long>(r.below(sz - static_cast<std::size_t>(op.pos) + 1)); return true;
    case 26: if (!la) continue; op.op = "resize"; op.n = static_cast<long>(r.below(9)); return true;
    case 27: if (!la) continue; op.op = "reserve"; op.n = static_cast<long>(r.below(14)); return true;
    case 28: if (!la || r.below(2) != 0) continue; op.op = "shrink_to_fit"; return true;
    case 29: if (!la || r.below(3) != 0) continue; op.op = "clear"; return true;
    case 30: if (!la || b == a || !vs[b].has_value()) continue; op.op = r.coin() ? "swap" : "swap_free"; op.o2 = b; return true;
    case 31: if (!la || b == a || !vs[b].has_value()) continue; op.op = "move_assign"; op.o2 = b; return true;
    case 32:
    {
      if (!la || !vs[b].has_value()) continue;
      static char const *const cmp[] = {"eq", "ne", "lt", "le", "gt", "ge"};
      op.op = cmp[r.below(6)]; op.o2 = b; return true;
    }
    case 33: if (!la || sz == 0) continue; op.op = "set"; op.pos = static_cast<long>(r.below(sz)); return true;
    default:
    {
      // buffer operations
      int const ba = 1 + static_cast<int>(r.below(NB));
      int const bb = 1 + static_cast<int>(r.below(NB));
      bool const lb = bs[ba].has_value();
      op.o = ba;
      int const w2 = static_cast<int>(r.below(15));
      switch (w2)
      {
      case 0: if (lb) continue; op.op = "bctor"; op.n = static_cast<long>(r.below(6)); return true;
      case 1: if (lb) continue; op.op = "bread_from"; op.n = static_cast<long>(r.below(6)); op.xs = rand_xs(r, static_cast<int>(op.n)); return true;
      case 2: case 3: if (!lb) continue; op.op = "bresize_write"; op.n = static_cast<long>(r.below(8)); return true;
      case 4: case 5:
        if (!lb) continue; op.op = "bwrite"; op.xs = rand_xs(r, static_cast<int>(bs[ba]->write_size())); return true;
      case 6: if (!lb) continue; op.op = "bappend_from"; op.n = static_cast<long>(r.below(7)); op.xs = rand_xs(r, static_cast<int>(op.n)); return true;
      case 7:
        if (!lb) continue; op.op = "bappend_from_opt"; op.n = static_cast<long>(r.below(7)); op.some = r.below(4) != 0;
        if (op.some) op.xs = rand_xs(r, static_cast<int>(op.n));
        return true;
      case 8: if (lb || bb == ba || !bs[bb].has_value()) continue; op.op = "bmove_ctor"; op.o2 = bb; return true;
      case 9: if (!lb || bb == ba || !bs[bb].has_value()) continue; op.op = r.coin() ? "bmove_assign" : "bswap"; op.o2 = bb; return true;
      case 10:
        if (!lb || vs[a].has_value()) continue; op.op = "to_raw_vector"; op.o2 = a; return true;
      case 11: if (da.has_value()) continue; op.op = "dctor"; op.o = 0; op.n = static_cast<long>(r.below(7)); return true;
      case 12: if (!da.has_value()) continue; op.op = "dfill"; op.o = 0; return true;
      case 13: if (!da.has_value()) continue; op.op = "ddestroy"; op.o = 0; return true;
      default: if (!lb || r.below(3) != 0) continue; op.op = "bdestroy"; return true;
      }
    }
    }
  }
  return false;
}

Op from_json(vj::V const &v)
{
  Op op;
  op.op = v.str("op");
  op.o = static_cast<int>(v.num_or("o", 0));
  op.o2 = static_cast<int>(v.num_or("o2", 0));
  op.pos = v.num_or("pos", 0);
  op.pos2 = v.num_or("pos2", 0);
  op.n = v.num_or("n", 0);
  op.x = v.num_or("x", 0);
  op.k = v.num_or("k", 0);
  op.alias = static_cast<int>(v.num_or("alias", -1));
  if (v.has("xs")) for (long long q : v.nums("xs")) op.xs.push_back(static_cast<int>(q));
  op.kind = v.has("kind") ? v.str("kind") : "fwd";
  op.some = v.has("some") ? v.at("some").b : true;
  return op;
}

}

int main(int argc, char **argv)
{
  if (argc < 4) { std::fprintf(stderr, "usage\n"); return 3; }
  std::string const mode = argv[1];
  if (mode == "record")
  {
    vj::open(argv[2]);
    std::uint64_t const seed = std::strtoull(argv[3], nullptr, 10);
    long const hist = std::strtol(argv[4], nullptr, 10);
    long const maxlen = std::strtol(argv[5], nullptr, 10);
    long const first = argc > 6 ? std::strtol(argv[6], nullptr, 10) : 0; // resume after an aborted history
    for (long h = first; h < hist; ++h)
    {
      vj::Rng r(seed * 1000003ULL + static_cast<std::uint64_t>(h));
      begin_history(h);
      long const len = 1 + static_cast<long>(r.below(static_cast<std::uint64_t>(maxlen)));
      for (long i = 0; i < len; ++i)
      {
        Op op;
        if (!gen(r, op)) break;
        exec(op);
      }
      end_history();
    }
    // read_chars: istringstreams of all lengths x counts (io/read_chars.cpp uses buffer + to_raw_vector)
    for (int len = 0; len <= 20; ++len)
      for (int count = 0; count <= 24; ++count)
        for (int pre = 0; pre <= (len < 3 ? len : 3); ++pre)
        {
          std::string text;
          for (int i = 0; i < len; ++i) text += static_cast<char>('a' + (i * 7 + len) % 26);
          std::istringstream s(text);
          for (int i = 0; i < pre; ++i) s.get();
          vj::J pre_j;
          pre_j.kv("e", "read_chars").raw("text", vj::cps(text)).kv("skip", pre).kv("count", count);
          vj::begin_call(pre_j.s);
          auto r = fcppt::io::read_chars(s, static_cast<std::size_t>(count));
          std::string rest = ",\"some\":";
          rest += r.has_value() ? "true" : "false";
          rest += ",\"data\":";
          if (r.has_value()) rest += vj::cps(std::string(r.get_unsafe().begin(), r.get_unsafe().end()));
          else rest += "[]";
          rest += "}";
          vj::end_call(rest);
        }
    vj::close();
    return 0;
  }
  if (mode == "bigread")
  {
    // io::read_chars with counts around and beyond 2^31 / 2^32: a virtual stream (xsgetn reports the
    // characters as delivered and writes only the first and last 4 of each request, so the 4 GiB block
    // is never touched). Wide numbers are logged as limbs q * 2^20 + r (TLC integers are 32-bit).
    struct virt final : std::streambuf
    {
      unsigned long long pos = 0, avail = 0;
      static char at(unsigned long long p) { return static_cast<char>((p * 7 + 3) % 251 % 120 + 1); }
      std::streamsize xsgetn(char *d, std::streamsize n) override
      {
        if (n <= 0) return 0;
        unsigned long long m = static_cast<unsigned long long>(n);
        if (m > avail - pos) m = avail - pos;
        for (unsigned long long i = 0; i < m && i < 4; ++i) d[i] = at(pos + i);
        for (unsigned long long i = m > 4 ? m - 4 : 0; i < m; ++i) d[i] = at(pos + i);
        pos += m;
        return static_cast<std::streamsize>(m);
      }
      int_type underflow() override { return traits_type::eof(); }
    };
    vj::open(argv[2]);
    unsigned long long const two31 = 1ULL << 31, two32 = 1ULL << 32;
    unsigned long long const counts[] = {two31 - 1, two31, two31 + 5, two32 - 1, two32, two32 + 5, 3 * two31 + 7};
    auto limbs = [](vj::J &j, char const *q, char const *r, unsigned long long v) {
      j.kv(q, static_cast<long long>(v >> 20)).kv(r, static_cast<long long>(v & ((1ULL << 20) - 1)));
    };
    for (unsigned long long count : counts)
      for (int skip = 0; skip <= 3; skip += 3)
        for (long long slack = -1; slack <= 1; ++slack)
        {
          virt sb;
          sb.avail = static_cast<unsigned long long>(static_cast<long long>(count + static_cast<unsigned>(skip)) + slack);
          std::istream is(&sb);
          sb.pos = static_cast<unsigned>(skip);
          vj::J j;
          j.kv("e", "read_chars_big").kv("skip", skip);
          limbs(j, "count_q", "count_r", count);
          limbs(j, "avail_q", "avail_r", sb.avail);
          vj::begin_call(j.s);
          std::string rest;
          try
          {
            auto r = fcppt::io::read_chars(is, static_cast<std::size_t>(count));
            vj::J k;
            k.raw("oom", "false").raw("some", r.has_value() ? "true" : "false");
            unsigned long long const sz = r.has_value() ? r.get_unsafe().size() : 0;
            limbs(k, "size_q", "size_r", sz);
            std::string head, tail;
            if (r.has_value())
            {
              auto const &v = r.get_unsafe();
              for (unsigned long long i = 0; i < sz && i < 4; ++i) head += v[i];
              for (unsigned long long i = sz > 4 ? sz - 4 : 0; i < sz; ++i) tail += v[i];
            }
            k.raw("head", vj::cps(head)).raw("tail", vj::cps(tail));
            limbs(k, "pos_q", "pos_r", sb.pos);
            rest = "," + k.s.substr(1) + "}";
          }
          catch (std::bad_alloc const &)
          {
            rest = ",\"oom\":true}"; // the environment cannot provide the block: nothing to judge
          }
          vj::end_call(rest);
        }
    vj::close();
    return 0;
  }
  if (mode == "replay")
  {
    auto lines = vj::read_lines(argv[2]);
    vj::open(argv[3]);
    long h = 0;
    long const first = argc > 4 ? std::strtol(argv[4], nullptr, 10) : 0; // resume after an aborted script
    for (auto const &l : lines)
    {
      if (h < first) { ++h; continue; }
      vj::VP script = vj::parse(l);
      begin_history(h++);
      for (auto const &e : script->a) exec(from_json(*e));
      end_history();
    }
    vj::close();
    return 0;
  }
  return 3;
}
