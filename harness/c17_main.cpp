// C17 conformance harness: c17_wrappers OUT [order|strong|own|all] [quick|thorough] [seed] [OWNERSHIP_SCRIPTS]
//   order   comparison / hash matrices of the value types        (c17_order.cpp)
//   strong  strong_typedef operators and transparent wrappers    (c17_strong.cpp)
//   own     smart-pointer ownership histories, wrapper conversions (c17_own.cpp; observed only)
// The harness only drives the real fcppt code and records; TLC (spec/OrderJudge.tla) judges.
#include <common/vjson.hpp>

#include <string>

void c17_order_records();
void c17_strong_records(bool thorough, unsigned long long seed);
void c17_ownership_records(char const *scripts, bool thorough, unsigned long long seed);

int main(int argc, char **argv)
{
  if (argc < 2)
  {
    std::fprintf(stderr, "usage: c17_wrappers OUT [order|strong|own|all] [quick|thorough] [seed] [scripts]\n");
    return 3;
  }
  std::string const what = argc > 2 ? argv[2] : "all";
  bool const thorough = argc > 3 && std::string(argv[3]) == "thorough";
  unsigned long long const seed = argc > 4 ? std::strtoull(argv[4], nullptr, 10) : 1ULL;
  vj::open(argv[1]);
  if (what == "order" || what == "all") c17_order_records();
  if (what == "strong" || what == "all") c17_strong_records(thorough, seed);
  if (what == "own" || what == "all") c17_ownership_records(argc > 5 ? argv[5] : nullptr, thorough, seed);
  vj::close();
  return 0;
}
