// C17 conformance harness, entry point.
//
//   c17_wrappers record OUT part quick|thorough seed skip [OWNERSHIP_SCRIPTS]
//   c17_wrappers parts                    (lists the parts that were linked in)
//
// This translation unit includes NO fcppt header: it must compile on every tree.  Every other unit
// (the sections of c17_order.cpp, c17_strong.cpp, c17_own.cpp) is compiled separately by
// checks/c17.py and exports one entry point per part; the entry points are WEAK here, so that a
// unit that no longer compiles against a changed tree is simply left out of the link
// (checks/c17.py turns the compile failure into a VIOLATION `C17:<unit>:does-not-compile` for the
// units that drive what the statement names, into an OBSERVATION for the observed-only units) while
// all the other parts are still driven and judged.
//
//   order parts   comparison / hash matrices of the value types        (c17_order.cpp, one section per family)
//   stops, wrap   strong_typedef operators; transparent wrappers      (c17_strong.cpp)
//   own, wrapx    smart-pointer ownership histories, wrapper conversions (c17_own.cpp; observed only)
// The harness only drives the real fcppt code and records; TLC (spec/OrderJudge.tla) judges.
#include "c17_common.hpp"

#include <cstdio>
#include <cstring>
#include <string>

#define C17_WEAK(name) extern "C" void c17_part_##name(unsigned long long, int, char const *) __attribute__((weak));
#define C17_PARTS(X)                                                                                                \
  X(optional) X(either) X(variant) X(tuple) X(array) X(record) X(strong) X(vector) X(matrix) X(box) X(sphere)      \
  X(bitfield) X(enum_array) X(grid) X(tree) X(raw_vector) X(reference) X(shared_ptr) X(recursive) X(stops) X(wrap) \
  X(own) X(wrapx)
C17_PARTS(C17_WEAK)

namespace
{
struct Part
{
  char const *name;
  void (*fn)(unsigned long long, int, char const *);
};

void on_prof(int)
{
  vj::crash_line("hang", 68);
  _exit(68);
}
}

int main(int argc, char **argv)
{
#define C17_ENTRY(name) {#name, c17_part_##name},
  Part const parts[] = {C17_PARTS(C17_ENTRY)};
  if (argc == 2 && std::strcmp(argv[1], "parts") == 0)
  {
    for (Part const &p : parts)
      if (p.fn != nullptr) std::printf("%s\n", p.name);
    return 0;
  }
  if (argc < 7 || std::strcmp(argv[1], "record") != 0)
  {
    std::fprintf(stderr, "usage: c17_wrappers record OUT part quick|thorough seed skip [scripts] | c17_wrappers parts\n");
    return 3;
  }
  int const thorough = std::strcmp(argv[4], "thorough") == 0 ? 1 : 0;
  unsigned long long const seed = std::strtoull(argv[5], nullptr, 10);
  c17::SKIP() = std::strtol(argv[6], nullptr, 10);
  for (Part const &p : parts)
  {
    if (std::strcmp(p.name, argv[3]) != 0) continue;
    if (p.fn == nullptr)
    {
      std::fprintf(stderr, "part %s was not linked in\n", p.name);
      return 4;
    }
    vj::open(argv[2]);
    std::signal(SIGPROF, on_prof);
    try
    {
      p.fn(seed, thorough, argc > 7 ? argv[7] : nullptr);
    }
    catch (std::exception const &e)
    {
      // an exception the driven API does not document: reported like a crash, after the flushed
      // record prefix that names the operation
      std::fprintf(stderr, "uncaught exception: %s\n", e.what());
      vj::crash_line("exception", 0);
      _exit(67);
    }
    catch (...)
    {
      std::fprintf(stderr, "uncaught exception of unknown type\n");
      vj::crash_line("exception", 0);
      _exit(67);
    }
    c17::watchdog_disarm();
    vj::close();
    return 0;
  }
  std::fprintf(stderr, "unknown part %s\n", argv[3]);
  return 3;
}
