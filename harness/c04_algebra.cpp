// C04 conformance harness: drives the real fcppt::optional / fcppt::either / fcppt::variant
// combinators over a three-element value domain with continuations given by complete function
// tables, and records for every call {f, cat, a, tables, res, calls}.
//
// It contains NO expected values: a continuation is a table (enumerated or seeded-random); the
// C++ lambda looks its result up in the table and appends <fn, index, arguments> to a call
// log.  spec/AlgebraJudge.tla (TLC) computes the predicted result and call sequence from the
// operators of spec/Algebra.tla and judges every record.
//
//   c04_algebra record OUT seed quick|thorough [only-combinator]
#include <common/vjson.hpp>

#include <fcppt/function_impl.hpp>
#include <fcppt/unit.hpp>
#include <fcppt/either/apply.hpp>
#include <fcppt/either/bind.hpp>
#include <fcppt/either/comparison.hpp>
#include <fcppt/either/failure_opt.hpp>
#include <fcppt/either/first_success.hpp>
#include <fcppt/either/from_optional.hpp>
#include <fcppt/either/join.hpp>
#include <fcppt/either/loop.hpp>
#include <fcppt/either/map.hpp>
#include <fcppt/either/map_failure.hpp>
#include <fcppt/either/match.hpp>
#include <fcppt/either/monad.hpp>
#include <fcppt/either/object_impl.hpp>
#include <fcppt/either/sequence.hpp>
#include <fcppt/either/success_opt.hpp>
#include <fcppt/either/try_call.hpp>
#include <fcppt/monad/bind.hpp>
#include <fcppt/optional/alternative.hpp>
#include <fcppt/optional/apply.hpp>
#include <fcppt/optional/bind.hpp>
#include <fcppt/optional/cat.hpp>
#include <fcppt/optional/combine.hpp>
#include <fcppt/optional/comparison.hpp>
#include <fcppt/optional/filter.hpp>
#include <fcppt/optional/from.hpp>
#include <fcppt/optional/join.hpp>
#include <fcppt/optional/make_if.hpp>
#include <fcppt/optional/map.hpp>
#include <fcppt/optional/maybe.hpp>
#include <fcppt/optional/maybe_multi.hpp>
#include <fcppt/optional/maybe_void.hpp>
#include <fcppt/optional/monad.hpp>
#include <fcppt/optional/object_impl.hpp>
#include <fcppt/optional/sequence.hpp>
#include <fcppt/variant/apply.hpp>
#include <fcppt/variant/compare.hpp>
#include <fcppt/variant/comparison.hpp>
#include <fcppt/variant/holds_type.hpp>
#include <fcppt/variant/match.hpp>
#include <fcppt/variant/object_impl.hpp>
#include <fcppt/variant/to_optional.hpp>

#include <fcppt/make_ref.hpp>
#include <fcppt/reference_impl.hpp>
#include <fcppt/cast/dynamic_fun.hpp>
#include <fcppt/either/construct.hpp>
#include <fcppt/either/error.hpp>
#include <fcppt/either/error_from_optional.hpp>
#include <fcppt/either/make_failure.hpp>
#include <fcppt/either/make_success.hpp>
#include <fcppt/either/no_error.hpp>
#include <fcppt/either/output.hpp>
#include <fcppt/either/sequence_error.hpp>
#include <fcppt/either/to_exception.hpp>
#include <fcppt/monad/chain.hpp>
#include <fcppt/monad/do.hpp>
#include <fcppt/monad/return.hpp>
#include <fcppt/mpl/list/object.hpp>
#include <fcppt/optional/assign.hpp>
#include <fcppt/optional/copy_value.hpp>
#include <fcppt/optional/deref.hpp>
#include <fcppt/optional/from_pointer.hpp>
#include <fcppt/optional/make.hpp>
#include <fcppt/optional/nothing.hpp>
#include <fcppt/optional/output.hpp>
#include <fcppt/optional/reference.hpp>
#include <fcppt/optional/to_exception.hpp>
#include <fcppt/optional/to_pointer.hpp>
#include <fcppt/variant/dynamic_cast.hpp>
#include <fcppt/variant/output.hpp>
#include <fcppt/variant/to_optional_ref.hpp>
#include <sstream>
#include <array>
#include <cstdint>
#include <functional>
#include <string>
#include <type_traits>
#include <utility>
#include <vector>

namespace
{
constexpr int N = 3;
constexpr int moved_from = 7; // outside the model's domain 0..N-1

// Element types.  Alt<K> for K = 0..3 are distinct types over the same domain (variant
// alternatives and either's failure/success types must be distinct).  A moved-from object
// holds 7, so a value that is delivered after having been moved from is not explainable.
template <int K>
struct Alt
{
  int v;
  explicit Alt(int x) : v(x) {}
  Alt(Alt const &) = default;
  Alt(Alt &&o) noexcept : v(o.v) { o.v = moved_from; }
  Alt &operator=(Alt const &) = default;
  Alt &operator=(Alt &&o) noexcept
  {
    if (this != &o)
    {
      v = o.v;
      o.v = moved_from;
    }
    return *this;
  }
  ~Alt() = default;
  friend bool operator==(Alt const &a, Alt const &b) { return a.v == b.v; }
  friend bool operator!=(Alt const &a, Alt const &b) { return a.v != b.v; }
  friend bool operator<(Alt const &a, Alt const &b) { return a.v < b.v; }
  template <typename Ch, typename Tr>
  friend std::basic_ostream<Ch, Tr> &operator<<(std::basic_ostream<Ch, Tr> &s, Alt const &a) { return s << a.v; }
};

using Val = Alt<0>;
using Fv = Alt<1>; // failure type of eithers
using A1 = Alt<1>;
using A2 = Alt<2>;
using A3 = Alt<3>;
using OD = fcppt::optional::object<Val>;
using OOD = fcppt::optional::object<OD>;
using ED = fcppt::either::object<Fv, Val>;
using EED = fcppt::either::object<Fv, ED>;
using VD = fcppt::variant::object<A1, A2, A3>;
using A4 = Alt<4>;
using VD4 = fcppt::variant::object<A1, A2, A3, A4>;
using UE = fcppt::either::error<Fv>; // either<Fv, unit>
struct Exc
{
  int e;
};
// what the function passed to try_call does
struct Outcome
{
  bool throws;
  int v;
};

// ------------------------------------------------------------------ JSON encoding (model encoding)
std::string js(bool b) { return b ? "true" : "false"; }
std::string js(int i) { return std::to_string(i); }
std::string js(fcppt::unit) { return "0"; }
template <int K>
std::string js(Alt<K> const &a) { return std::to_string(a.v); }
template <int K>
std::string js_tagged(Alt<K> const &a)
{
  return "{\"t\":" + std::to_string(K) + ",\"v\":" + std::to_string(a.v) + "}";
}
template <typename T>
std::string js(fcppt::optional::object<T> const &o);
template <typename F, typename S>
std::string js(fcppt::either::object<F, S> const &e);
template <typename T>
std::string js(std::vector<T> const &v)
{
  std::string s = "[";
  bool first = true;
  for (auto const &x : v)
  {
    if (!first) s += ',';
    first = false;
    s += js(x);
  }
  return s + "]";
}
template <typename T>
std::string js(fcppt::optional::object<T> const &o)
{
  return o.has_value() ? "{\"t\":\"some\",\"v\":" + js(o.get_unsafe()) + "}" : std::string{"{\"t\":\"none\"}"};
}
template <typename F, typename S>
std::string js(fcppt::either::object<F, S> const &e)
{
  return e.has_success() ? "{\"t\":\"succ\",\"v\":" + js(e.get_success_unsafe()) + "}"
                         : "{\"t\":\"fail\",\"v\":" + js(e.get_failure_unsafe()) + "}";
}
std::string js(VD const &v)
{
  // index and value are read through the public accessors
  switch (v.type_index())
  {
  case 0: return js_tagged(v.get_unsafe<A1>());
  case 1: return js_tagged(v.get_unsafe<A2>());
  default: return js_tagged(v.get_unsafe<A3>());
  }
}
std::string js(VD4 const &v)
{
  switch (v.type_index())
  {
  case 0: return js_tagged(v.get_unsafe<A1>());
  case 1: return js_tagged(v.get_unsafe<A2>());
  case 2: return js_tagged(v.get_unsafe<A3>());
  default: return js_tagged(v.get_unsafe<A4>());
  }
}
std::string js(Outcome const &o)
{
  return std::string{"{\"t\":\""} + (o.throws ? "throw" : "ret") + "\",\"v\":" + std::to_string(o.v) + "}";
}

// ------------------------------------------------------------------ value codes
// every finite type used here is enumerated by a code 0..count-1
template <typename T>
struct codec;
template <int K>
struct codec<Alt<K>>
{
  static constexpr int count = N;
  static Alt<K> dec(int c) { return Alt<K>(c); }
};
template <>
struct codec<bool>
{
  static constexpr int count = 2;
  static bool dec(int c) { return c != 0; }
};
template <typename T>
struct codec<fcppt::optional::object<T>>
{
  static constexpr int count = 1 + codec<T>::count;
  static fcppt::optional::object<T> dec(int c)
  {
    return c == 0 ? fcppt::optional::object<T>{} : fcppt::optional::object<T>{codec<T>::dec(c - 1)};
  }
};
template <typename F, typename S>
struct codec<fcppt::either::object<F, S>>
{
  static constexpr int count = codec<F>::count + codec<S>::count;
  static fcppt::either::object<F, S> dec(int c)
  {
    return c < codec<F>::count ? fcppt::either::object<F, S>{codec<F>::dec(c)}
                               : fcppt::either::object<F, S>{codec<S>::dec(c - codec<F>::count)};
  }
};
template <>
struct codec<VD>
{
  static constexpr int count = 3 * N;
  static VD dec(int c)
  {
    switch (c / N)
    {
    case 0: return VD{A1(c % N)};
    case 1: return VD{A2(c % N)};
    default: return VD{A3(c % N)};
    }
  }
};
template <>
struct codec<VD4>
{
  static constexpr int count = 4 * N;
  static VD4 dec(int c)
  {
    switch (c / N)
    {
    case 0: return VD4{A1(c % N)};
    case 1: return VD4{A2(c % N)};
    case 2: return VD4{A3(c % N)};
    default: return VD4{A4(c % N)};
    }
  }
};
template <>
struct codec<fcppt::unit>
{
  static constexpr int count = 1;
  static fcppt::unit dec(int) { return fcppt::unit{}; }
};
template <>
struct codec<Outcome>
{
  static constexpr int count = 2 * N;
  static Outcome dec(int c) { return Outcome{c >= N, c % N}; }
};
template <typename T>
T dec(int c) { return codec<T>::dec(c); }
template <typename T>
constexpr int count_of = codec<T>::count;

// sequences of codes of a given length over `base` values, by index
std::vector<int> digits(long idx, int len, int base)
{
  std::vector<int> d(static_cast<std::size_t>(len));
  for (int i = len - 1; i >= 0; --i)
  {
    d[static_cast<std::size_t>(i)] = static_cast<int>(idx % base);
    idx /= base;
  }
  return d;
}
long ipow(long b, int e)
{
  long r = 1;
  for (int i = 0; i < e; ++i) r *= b;
  return r;
}
template <typename T>
std::vector<T> dec_seq(std::vector<int> const &codes)
{
  std::vector<T> r;
  r.reserve(codes.size());
  for (int c : codes) r.push_back(dec<T>(c));
  return r;
}

// ------------------------------------------------------------------ tables
// A table of a continuation with `arity` arguments from 0..N-1 and results of type R:
// codes[x1*N^(arity-1) + ... + x_arity] is the code of the result.
template <typename R>
struct Table
{
  int arity;
  std::vector<int> codes;
  R at(std::vector<int> const &xs) const
  {
    long idx = 0;
    for (int x : xs)
    {
      if (x < 0 || x >= N) return dec<R>(0); // argument outside the domain: logged by the caller, judged by TLC
      idx = idx * N + x;
    }
    return dec<R>(codes[static_cast<std::size_t>(idx)]);
  }
  std::string json_from(int depth, long &pos) const
  {
    if (depth == arity) return js(dec<R>(codes[static_cast<std::size_t>(pos++)]));
    std::string s = "[";
    for (int i = 0; i < N; ++i)
    {
      if (i != 0) s += ',';
      s += json_from(depth + 1, pos);
    }
    return s + "]";
  }
  std::string json() const
  {
    long pos = 0;
    return json_from(0, pos);
  }
};
template <typename R>
long table_count(int arity) { return ipow(count_of<R>, static_cast<int>(ipow(N, arity))); }
template <typename R>
Table<R> table_by_index(int arity, long idx)
{
  return Table<R>{arity, digits(idx, static_cast<int>(ipow(N, arity)), count_of<R>)};
}
template <typename R>
Table<R> table_random(int arity, vj::Rng &rng)
{
  Table<R> t{arity, {}};
  long const n = ipow(N, arity);
  for (long i = 0; i < n; ++i) t.codes.push_back(static_cast<int>(rng.below(static_cast<std::uint64_t>(count_of<R>))));
  return t;
}
// all tables if there are at most `limit`, else `limit` seeded-random ones
template <typename R, typename Body>
void for_tables(int arity, long limit, vj::Rng rng, Body const &body)
{
  long const total = table_count<R>(arity);
  if (total <= limit)
  {
    for (long i = 0; i < total; ++i) body(table_by_index<R>(arity, i));
  }
  else
  {
    for (long i = 0; i < limit; ++i) body(table_random<R>(arity, rng));
  }
}

// ------------------------------------------------------------------ call log and records
std::string g_calls;
void log_call(char const *fn, int i, std::string const &args)
{
  if (!g_calls.empty()) g_calls += ',';
  g_calls += "{\"fn\":\"";
  g_calls += fn;
  g_calls += "\",\"i\":" + std::to_string(i) + ",\"args\":[" + args + "]}";
}

std::string g_only;
long g_records = 0;
std::uint64_t g_seed = 1;

// every combinator draws its random tables from its own stream, so that a run restricted to
// one combinator (replay) uses the same tables as the full run
vj::Rng rng_for(char const *name)
{
  std::uint64_t h = 1469598103934665603ULL;
  for (char const *p = name; *p; ++p) h = (h ^ static_cast<unsigned char>(*p)) * 1099511628211ULL;
  return vj::Rng(g_seed * 1000003ULL + (h >> 8));
}

bool wanted(char const *f) { return g_only.empty() || g_only == f; }

// one record: prefix (flushed before the call), the call itself, result and call log
template <typename Call>
void record(char const *f, std::string const &cat, std::string const &args, std::string const &extra, Call const &call)
{
  g_calls.clear();
  std::string pre = "{\"f\":\"";
  pre += f;
  pre += "\",\"cat\":\"" + cat + "\",\"a\":[" + args + "]" + extra;
  vj::begin_call(pre);
  std::string const res = js(call());
  vj::end_call(",\"res\":" + res + ",\"calls\":[" + g_calls + "]}");
  ++g_records;
}

// run body with a fresh copy of proto as non-const lvalue, const lvalue or rvalue
template <typename T, typename Body>
decltype(auto) with_cat(char cat, T const &proto, Body const &body)
{
  T x(proto);
  switch (cat)
  {
  case 'l': return body(x);
  case 'c': return body(std::as_const(x));
  default: return body(std::move(x));
  }
}
#define FWD(x) std::forward<decltype(x)>(x)

template <typename T, typename Body>
void for_values(Body const &body)
{
  for (int c = 0; c < count_of<T>; ++c) body(dec<T>(c));
}
template <typename T, typename Body>
void for_seqs(int maxlen, Body const &body)
{
  for (int len = 0; len <= maxlen; ++len)
  {
    long const n = ipow(count_of<T>, len);
    for (long i = 0; i < n; ++i) body(dec_seq<T>(digits(i, len, count_of<T>)));
  }
}

char const *const cats3 = "lcr";

// continuation factories -------------------------------------------------------------------
// unary continuation Alt<K> -> R; takes its argument BY VALUE (moves out of an rvalue)
template <typename R, typename Arg = Val>
auto fn1(char const *name, int idx, Table<R> const &t)
{
  return [name, idx, &t](Arg x) -> R
  {
    log_call(name, idx, js(x));
    return t.at({x.v});
  };
}
// unary continuation taking Arg && and CONSUMING it (moves the argument into a local)
template <typename R, typename Arg = Val>
auto fn1c(char const *name, int idx, Table<R> const &t)
{
  return [name, idx, &t](Arg &&x) -> R
  {
    Arg const taken(std::move(x));
    log_call(name, idx, js(taken));
    return t.at({taken.v});
  };
}
template <typename R>
auto fn2(char const *name, Table<R> const &t)
{
  return [name, &t](Val x, Val y) -> R
  {
    log_call(name, 0, js(x) + "," + js(y));
    return t.at({x.v, y.v});
  };
}
template <typename R>
auto fn3(char const *name, Table<R> const &t)
{
  return [name, &t](Val x, Val y, Val z) -> R
  {
    log_call(name, 0, js(x) + "," + js(y) + "," + js(z));
    return t.at({x.v, y.v, z.v});
  };
}
// nullary continuation returning dec<R>(code)
template <typename R>
auto fn0(char const *name, int idx, int code)
{
  return [name, idx, code]() -> R
  {
    log_call(name, idx, "");
    return dec<R>(code);
  };
}
template <typename R>
std::string ex_tf(Table<R> const &t) { return ",\"tf\":" + t.json(); }
template <typename R>
std::string ex_d(int code) { return ",\"d\":" + js(dec<R>(code)); }

// ------------------------------------------------------------------ the drivers
struct Sizes
{
  int maxlen;        // containers
  long t2;           // number of binary tables (all 19683 if >=)
  long t2_eit;       // binary tables for either::apply
  long t3;           // ternary tables sampled
  long match_tables; // triples of tables for variant::match
  long vis1;         // unary visitors
  long vis2;         // binary visitors
  long cmp;          // compare predicates
  bool all_cats2;    // all four category pairs for binary combinators
};

void drive_optional(Sizes const &sz)
{
  if (wanted("opt_maybe"))
    for_tables<Val>(1, 100, rng_for("opt_maybe"), [&](Table<Val> const &t)
    {
      for (int d = 0; d < N; ++d)
        for_values<OD>([&](OD const &o)
        {
          for (char const *c = cats3; *c; ++c)
            record("opt_maybe", std::string(1, *c), js(o), ex_d<Val>(d) + ex_tf(t), [&]
            {
              return with_cat(*c, o, [&](auto &&a) { return fcppt::optional::maybe(FWD(a), fn0<Val>("d", 0, d), fn1<Val>("f", 0, t)); });
            });
        });
    });
  if (wanted("opt_maybe_void"))
    for_values<OD>([&](OD const &o)
    {
      for (char const *c = cats3; *c; ++c)
        record("opt_maybe_void", std::string(1, *c), js(o), "", [&]
        {
          with_cat(*c, o, [&](auto &&a) { fcppt::optional::maybe_void(FWD(a), [](Val x) { log_call("f", 0, js(x)); }); });
          return fcppt::unit{};
        });
    });
  if (wanted("opt_map"))
    for_tables<Val>(1, 100, rng_for("opt_map"), [&](Table<Val> const &t)
    {
      for_values<OD>([&](OD const &o)
      {
        for (char const *c = cats3; *c; ++c)
          record("opt_map", std::string(1, *c), js(o), ex_tf(t), [&]
          { return with_cat(*c, o, [&](auto &&a) { return fcppt::optional::map(FWD(a), fn1<Val>("f", 0, t)); }); });
      });
    });
  if (wanted("opt_bind") || wanted("monad_bind_opt"))
    for_tables<OD>(1, 100, rng_for("opt_bind"), [&](Table<OD> const &t)
    {
      for_values<OD>([&](OD const &o)
      {
        for (char const *c = cats3; *c; ++c)
        {
          if (wanted("opt_bind"))
            record("opt_bind", std::string(1, *c), js(o), ex_tf(t), [&]
            { return with_cat(*c, o, [&](auto &&a) { return fcppt::optional::bind(FWD(a), fn1<OD>("f", 0, t)); }); });
          if (wanted("monad_bind_opt"))
            record("monad_bind_opt", std::string(1, *c), js(o), ex_tf(t), [&]
            { return with_cat(*c, o, [&](auto &&a) { return fcppt::monad::bind(FWD(a), fn1<OD>("f", 0, t)); }); });
        }
      });
    });
  if (wanted("opt_join"))
    for_values<OOD>([&](OOD const &o)
    {
      for (char const *c = cats3; *c; ++c)
        record("opt_join", std::string(1, *c), js(o), "", [&]
        { return with_cat(*c, o, [&](auto &&a) { return fcppt::optional::join(FWD(a)); }); });
    });
  if (wanted("opt_filter"))
    for_tables<bool>(1, 100, rng_for("opt_filter"), [&](Table<bool> const &t)
    {
      for_values<OD>([&](OD const &o)
      {
        for (char const *c = cats3; *c; ++c)
          record("opt_filter", std::string(1, *c), js(o), ex_tf(t), [&]
          {
            return with_cat(*c, o, [&](auto &&a)
            {
              return fcppt::optional::filter(FWD(a), [&t](Val const &x) -> bool
              {
                log_call("p", 0, js(x));
                return t.at({x.v});
              });
            });
          });
      });
    });
  // the same with a predicate taking its parameter BY VALUE ([](T x)): for an rvalue source the held
  // value must still be intact in the result (a moved-from Val holds 7)
  if (wanted("opt_filter"))
    for_tables<bool>(1, 100, rng_for("opt_filter"), [&](Table<bool> const &t)
    {
      for_values<OD>([&](OD const &o)
      {
        for (char const *c = cats3; *c; ++c)
          record("opt_filter", std::string(1, *c), js(o), ",\"pm\":\"value\"" + ex_tf(t), [&]
          {
            return with_cat(*c, o, [&](auto &&a)
            {
              return fcppt::optional::filter(FWD(a), [&t](Val x) -> bool
              {
                log_call("p", 0, js(x));
                return t.at({x.v});
              });
            });
          });
      });
    });
  // continuations taking T && and consuming it, rvalue sources only (they do not bind to what the
  // library hands over for lvalue sources)
  for_tables<Val>(1, 100, rng_for("rref"), [&](Table<Val> const &t)
  {
    for_values<OD>([&](OD const &o)
    {
      if (wanted("opt_map"))
        record("opt_map", "r", js(o), ",\"pm\":\"rref\"" + ex_tf(t), [&] { OD a(o); return fcppt::optional::map(std::move(a), fn1c<Val>("f", 0, t)); });
      if (wanted("opt_apply"))
        record("opt_apply", "r", js(o), ",\"pm\":\"rref\"" + ex_tf(t), [&] { OD a(o); return fcppt::optional::apply(fn1c<Val>("f", 0, t), std::move(a)); });
      if (wanted("opt_maybe"))
        for (int d = 0; d < N; ++d)
          record("opt_maybe", "r", js(o), ",\"pm\":\"rref\"" + ex_d<Val>(d) + ex_tf(t), [&]
          { OD a(o); return fcppt::optional::maybe(std::move(a), fn0<Val>("d", 0, d), fn1c<Val>("f", 0, t)); });
    });
  });
  for_tables<OD>(1, 100, rng_for("rref2"), [&](Table<OD> const &t)
  {
    for_values<OD>([&](OD const &o)
    {
      if (wanted("opt_bind"))
        record("opt_bind", "r", js(o), ",\"pm\":\"rref\"" + ex_tf(t), [&] { OD a(o); return fcppt::optional::bind(std::move(a), fn1c<OD>("f", 0, t)); });
    });
  });
  if (wanted("opt_alternative"))
    for_values<OD>([&](OD const &o)
    {
      for (int d = 0; d < count_of<OD>; ++d)
        for (char const *c = cats3; *c; ++c)
          record("opt_alternative", std::string(1, *c), js(o), ex_d<OD>(d), [&]
          { return with_cat(*c, o, [&](auto &&a) { return fcppt::optional::alternative(FWD(a), fn0<OD>("g", 0, d)); }); });
    });
  if (wanted("opt_from"))
    for_values<OD>([&](OD const &o)
    {
      for (int d = 0; d < N; ++d)
        for (char const *c = cats3; *c; ++c)
          record("opt_from", std::string(1, *c), js(o), ex_d<Val>(d), [&]
          { return with_cat(*c, o, [&](auto &&a) { return fcppt::optional::from(FWD(a), fn0<Val>("d", 0, d)); }); });
    });
  if (wanted("opt_make_if"))
    for (int b = 0; b < 2; ++b)
      for (int d = 0; d < N; ++d)
        record("opt_make_if", "", js(b != 0), ex_d<Val>(d), [&] { return fcppt::optional::make_if(b != 0, fn0<Val>("g", 0, d)); });
  if (wanted("opt_apply"))
  {
    vj::Rng rng{rng_for("opt_apply3")};
    for_tables<Val>(1, 100, rng_for("opt_apply"), [&](Table<Val> const &t)
    {
      for_values<OD>([&](OD const &o)
      {
        for (char const *c = cats3; *c; ++c)
          record("opt_apply", std::string(1, *c), js(o), ex_tf(t), [&]
          { return with_cat(*c, o, [&](auto &&a) { return fcppt::optional::apply(fn1<Val>("f", 0, t), FWD(a)); }); });
      });
    });
    for_tables<Val>(2, sz.t2, rng_for("opt_apply"), [&](Table<Val> const &t)
    {
      for_values<OD>([&](OD const &o1)
      {
        for_values<OD>([&](OD const &o2)
        {
          for (char const *c1 = "lr"; *c1; ++c1)
            for (char const *c2 = "lr"; *c2; ++c2)
            {
              if (!sz.all_cats2 && *c1 != *c2) continue;
              record("opt_apply", std::string{*c1, *c2}, js(o1) + "," + js(o2), ex_tf(t), [&]
              {
                return with_cat(*c1, o1, [&](auto &&a)
                { return with_cat(*c2, o2, [&](auto &&b) { return fcppt::optional::apply(fn2<Val>("f", t), FWD(a), FWD(b)); }); });
              });
            }
        });
      });
    });
    for (long k = 0; k < sz.t3; ++k)
    {
      Table<Val> const t{table_random<Val>(3, rng)};
      for (long i = 0; i < ipow(count_of<OD>, 3); ++i)
      {
        std::vector<int> const cs{digits(i, 3, count_of<OD>)};
        OD const o1{dec<OD>(cs[0])}, o2{dec<OD>(cs[1])}, o3{dec<OD>(cs[2])};
        for (char const *c = "lr"; *c; ++c)
          record("opt_apply", std::string(3, *c), js(o1) + "," + js(o2) + "," + js(o3), ex_tf(t), [&]
          {
            return with_cat(*c, o1, [&](auto &&a)
            {
              return with_cat(*c, o2, [&](auto &&b)
              { return with_cat(*c, o3, [&](auto &&cc) { return fcppt::optional::apply(fn3<Val>("f", t), FWD(a), FWD(b), FWD(cc)); }); });
            });
          });
      }
    }
  }
  if (wanted("opt_maybe_multi"))
    for_tables<Val>(2, sz.t2 / 4, rng_for("opt_maybe_multi"), [&](Table<Val> const &t)
    {
      int const d = t.codes[0];
      for_values<OD>([&](OD const &o1)
      {
        for_values<OD>([&](OD const &o2)
        {
          for (char const *c1 = "lr"; *c1; ++c1)
            for (char const *c2 = "lr"; *c2; ++c2)
              record("opt_maybe_multi", std::string{*c1, *c2}, js(o1) + "," + js(o2), ex_d<Val>(d) + ex_tf(t), [&]
              {
                return with_cat(*c1, o1, [&](auto &&a)
                {
                  return with_cat(*c2, o2, [&](auto &&b)
                  { return fcppt::optional::maybe_multi(fn0<Val>("d", 0, d), fn2<Val>("f", t), FWD(a), FWD(b)); });
                });
              });
        });
      });
    });
  if (wanted("opt_combine"))
    for_tables<Val>(2, sz.t2, rng_for("opt_combine"), [&](Table<Val> const &t)
    {
      for_values<OD>([&](OD const &o1)
      {
        for_values<OD>([&](OD const &o2)
        {
          for (char const *c1 = "lr"; *c1; ++c1)
            for (char const *c2 = "lr"; *c2; ++c2)
            {
              if (!sz.all_cats2 && *c1 != *c2) continue;
              record("opt_combine", std::string{*c1, *c2}, js(o1) + "," + js(o2), ex_tf(t), [&]
              {
                return with_cat(*c1, o1, [&](auto &&a)
                { return with_cat(*c2, o2, [&](auto &&b) { return fcppt::optional::combine(FWD(a), FWD(b), fn2<Val>("f", t)); }); });
              });
            }
        });
      });
    });
  if (wanted("opt_cat") || wanted("opt_sequence"))
    for_seqs<OD>(sz.maxlen, [&](std::vector<OD> const &xs)
    {
      for (char const *c = cats3; *c; ++c)
      {
        if (wanted("opt_cat"))
          record("opt_cat", std::string(1, *c), js(xs), "", [&]
          { return with_cat(*c, xs, [&](auto &&a) { return fcppt::optional::cat<std::vector<Val>>(FWD(a)); }); });
        if (wanted("opt_sequence"))
          record("opt_sequence", std::string(1, *c), js(xs), "", [&]
          { return with_cat(*c, xs, [&](auto &&a) { return fcppt::optional::sequence<std::vector<Val>>(FWD(a)); }); });
      }
    });
  if (wanted("opt_eq") || wanted("opt_ne") || wanted("opt_less"))
    for_values<OD>([&](OD const &x)
    {
      for_values<OD>([&](OD const &y)
      {
        if (wanted("opt_eq")) record("opt_eq", "cc", js(x) + "," + js(y), "", [&] { return x == y; });
        if (wanted("opt_ne")) record("opt_ne", "cc", js(x) + "," + js(y), "", [&] { return x != y; });
        if (wanted("opt_less")) record("opt_less", "cc", js(x) + "," + js(y), "", [&] { return x < y; });
      });
    });
}

void drive_either(Sizes const &sz)
{
  if (wanted("eit_match"))
    for_tables<Val>(1, 100, rng_for("eit_match"), [&](Table<Val> const &tf)
    {
      for_tables<Val>(1, 100, rng_for("eit_match"), [&](Table<Val> const &tg)
      {
        for_values<ED>([&](ED const &e)
        {
          for (char const *c = cats3; *c; ++c)
            record("eit_match", std::string(1, *c), js(e), ex_tf(tf) + ",\"tg\":" + tg.json(), [&]
            {
              return with_cat(*c, e, [&](auto &&a)
              { return fcppt::either::match(FWD(a), fn1<Val, Fv>("ff", 0, tf), fn1<Val, Val>("sf", 0, tg)); });
            });
        });
      });
    });
  if (wanted("eit_map") || wanted("eit_map_failure"))
    for_tables<Val>(1, 100, rng_for("eit_map"), [&](Table<Val> const &t)
    {
      for_values<ED>([&](ED const &e)
      {
        for (char const *c = cats3; *c; ++c)
        {
          if (wanted("eit_map"))
            record("eit_map", std::string(1, *c), js(e), ex_tf(t), [&]
            { return with_cat(*c, e, [&](auto &&a) { return fcppt::either::map(FWD(a), fn1<Val>("f", 0, t)); }); });
          if (wanted("eit_map_failure"))
          {
            Table<Fv> const tfail{t.arity, t.codes}; // same codes, failure-typed results
            record("eit_map_failure", std::string(1, *c), js(e), ex_tf(tfail), [&]
            { return with_cat(*c, e, [&](auto &&a) { return fcppt::either::map_failure(FWD(a), fn1<Fv, Fv>("f", 0, tfail)); }); });
          }
        }
      });
    });
  if (wanted("eit_bind") || wanted("monad_bind_eit"))
    for_tables<ED>(1, 1000, rng_for("eit_bind"), [&](Table<ED> const &t)
    {
      for_values<ED>([&](ED const &e)
      {
        for (char const *c = cats3; *c; ++c)
        {
          if (wanted("eit_bind"))
            record("eit_bind", std::string(1, *c), js(e), ex_tf(t), [&]
            { return with_cat(*c, e, [&](auto &&a) { return fcppt::either::bind(FWD(a), fn1<ED>("f", 0, t)); }); });
          if (wanted("monad_bind_eit"))
            record("monad_bind_eit", std::string(1, *c), js(e), ex_tf(t), [&]
            { return with_cat(*c, e, [&](auto &&a) { return fcppt::monad::bind(FWD(a), fn1<ED>("f", 0, t)); }); });
        }
      });
    });
  for_tables<Val>(1, 100, rng_for("eit_rref"), [&](Table<Val> const &t)
  {
    Table<Fv> const tfail{t.arity, t.codes};
    for_values<ED>([&](ED const &e)
    {
      if (wanted("eit_map"))
        record("eit_map", "r", js(e), ",\"pm\":\"rref\"" + ex_tf(t), [&] { ED a(e); return fcppt::either::map(std::move(a), fn1c<Val>("f", 0, t)); });
      if (wanted("eit_map_failure"))
        record("eit_map_failure", "r", js(e), ",\"pm\":\"rref\"" + ex_tf(tfail), [&]
        { ED a(e); return fcppt::either::map_failure(std::move(a), fn1c<Fv, Fv>("f", 0, tfail)); });
      if (wanted("eit_match"))
        record("eit_match", "r", js(e), ",\"pm\":\"rref\"" + ex_tf(t) + ",\"tg\":" + t.json(), [&]
        { ED a(e); return fcppt::either::match(std::move(a), fn1c<Val, Fv>("ff", 0, t), fn1c<Val, Val>("sf", 0, t)); });
    });
  });
  for_tables<ED>(1, 1000, rng_for("eit_rref2"), [&](Table<ED> const &t)
  {
    for_values<ED>([&](ED const &e)
    {
      if (wanted("eit_bind"))
        record("eit_bind", "r", js(e), ",\"pm\":\"rref\"" + ex_tf(t), [&] { ED a(e); return fcppt::either::bind(std::move(a), fn1c<ED>("f", 0, t)); });
    });
  });
  if (wanted("eit_join"))
    for_values<EED>([&](EED const &e)
    {
      for (char const *c = cats3; *c; ++c)
        record("eit_join", std::string(1, *c), js(e), "", [&]
        { return with_cat(*c, e, [&](auto &&a) { return fcppt::either::join(FWD(a)); }); });
    });
  if (wanted("eit_apply"))
  {
    vj::Rng rng{rng_for("eit_apply3")};
    for_tables<Val>(1, 100, rng_for("eit_apply"), [&](Table<Val> const &t)
    {
      for_values<ED>([&](ED const &e)
      {
        for (char const *c = cats3; *c; ++c)
          record("eit_apply", std::string(1, *c), js(e), ex_tf(t), [&]
          { return with_cat(*c, e, [&](auto &&a) { return fcppt::either::apply(fn1<Val>("f", 0, t), FWD(a)); }); });
      });
    });
    for_tables<Val>(2, sz.t2_eit, rng_for("eit_apply"), [&](Table<Val> const &t)
    {
      for_values<ED>([&](ED const &e1)
      {
        for_values<ED>([&](ED const &e2)
        {
          for (char const *c1 = "lr"; *c1; ++c1)
            for (char const *c2 = "lr"; *c2; ++c2)
              record("eit_apply", std::string{*c1, *c2}, js(e1) + "," + js(e2), ex_tf(t), [&]
              {
                return with_cat(*c1, e1, [&](auto &&a)
                { return with_cat(*c2, e2, [&](auto &&b) { return fcppt::either::apply(fn2<Val>("f", t), FWD(a), FWD(b)); }); });
              });
        });
      });
    });
    for (long k = 0; k < sz.t3; ++k)
    {
      Table<Val> const t{table_random<Val>(3, rng)};
      for (long i = 0; i < ipow(count_of<ED>, 3); ++i)
      {
        std::vector<int> const cs{digits(i, 3, count_of<ED>)};
        ED const e1{dec<ED>(cs[0])}, e2{dec<ED>(cs[1])}, e3{dec<ED>(cs[2])};
        for (char const *c = "lr"; *c; ++c)
          record("eit_apply", std::string(3, *c), js(e1) + "," + js(e2) + "," + js(e3), ex_tf(t), [&]
          {
            return with_cat(*c, e1, [&](auto &&a)
            {
              return with_cat(*c, e2, [&](auto &&b)
              { return with_cat(*c, e3, [&](auto &&cc) { return fcppt::either::apply(fn3<Val>("f", t), FWD(a), FWD(b), FWD(cc)); }); });
            });
          });
      }
    }
  }
  if (wanted("eit_sequence") || wanted("eit_first_success"))
    for_seqs<ED>(sz.maxlen, [&](std::vector<ED> const &xs)
    {
      // either::sequence's requires-clause applies type_traits::value_type to Source without
      // removing the reference, so it can only be called with an rvalue source (lvalues are
      // rejected at compile time); only that category exists to be driven.
      if (wanted("eit_sequence"))
        record("eit_sequence", "r", js(xs), "", [&]
        {
          std::vector<ED> copy(xs);
          return fcppt::either::sequence<std::vector<Val>>(std::move(copy));
        });
      // lvalue categories: only if the tree under test accepts them
      if (wanted("eit_sequence"))
        [&](auto const &cxs)
        {
          if constexpr (requires { fcppt::either::sequence<std::vector<Val>>(cxs); })
          {
            record("eit_sequence", "c", js(xs), "", [&] { return fcppt::either::sequence<std::vector<Val>>(cxs); });
            record("eit_sequence", "l", js(xs), "", [&]
            {
              std::remove_cvref_t<decltype(cxs)> copy(cxs);
              return fcppt::either::sequence<std::vector<Val>>(copy);
            });
          }
        }(xs);
      if (wanted("eit_first_success"))
      {
        using function_type = fcppt::function<ED()>;
        std::vector<function_type> fns;
        for (std::size_t i = 0; i < xs.size(); ++i)
          fns.push_back(function_type{[i, &xs]() -> ED
          {
            log_call("g", static_cast<int>(i) + 1, "");
            return xs[i];
          }});
        record("eit_first_success", "c", js(xs), "", [&] { return fcppt::either::first_success(fns); });
      }
    });
  if (wanted("eit_loop"))
    // scripts: k successes followed by a failure (the precondition of loop: _next eventually fails)
    for (int k = 0; k <= sz.maxlen; ++k)
      for (long i = 0; i < ipow(N, k + 1); ++i)
      {
        std::vector<int> const ds{digits(i, k + 1, N)};
        std::vector<ED> script;
        for (int j = 0; j < k; ++j) script.push_back(ED{Val(ds[static_cast<std::size_t>(j)])});
        script.push_back(ED{Fv(ds[static_cast<std::size_t>(k)])});
        record("eit_loop", "", js(script), "", [&]
        {
          std::size_t pos = 0;
          return fcppt::either::loop(
              [&]() -> ED
              {
                log_call("n", 0, "");
                return script.at(pos++);
              },
              [](Val x) { log_call("l", 0, js(x)); });
        });
      }
  if (wanted("eit_from_optional"))
    for_values<OD>([&](OD const &o)
    {
      for (int d = 0; d < N; ++d)
        for (char const *c = cats3; *c; ++c)
          record("eit_from_optional", std::string(1, *c), js(o), ex_d<Fv>(d), [&]
          { return with_cat(*c, o, [&](auto &&a) { return fcppt::either::from_optional(FWD(a), fn0<Fv>("ff", 0, d)); }); });
    });
  if (wanted("eit_try_call"))
    for_tables<Fv>(1, 100, rng_for("eit_try_call"), [&](Table<Fv> const &t)
    {
      for_values<Outcome>([&](Outcome const &o)
      {
        record("eit_try_call", "", js(o), ex_tf(t), [&]
        {
          return fcppt::either::try_call<Exc>(
              [&o]() -> Val
              {
                log_call("g", 0, "");
                if (o.throws) throw Exc{o.v};
                return Val(o.v);
              },
              [&t](Exc const &ex) -> Fv
              {
                log_call("te", 0, std::to_string(ex.e));
                return t.at({ex.e});
              });
        });
      });
    });
  if (wanted("eit_success_opt") || wanted("eit_failure_opt"))
    for_values<ED>([&](ED const &e)
    {
      for (char const *c = cats3; *c; ++c)
      {
        if (wanted("eit_success_opt"))
          record("eit_success_opt", std::string(1, *c), js(e), "", [&]
          { return with_cat(*c, e, [&](auto &&a) { return fcppt::either::success_opt(FWD(a)); }); });
        if (wanted("eit_failure_opt"))
          record("eit_failure_opt", std::string(1, *c), js(e), "", [&]
          { return with_cat(*c, e, [&](auto &&a) { return fcppt::either::failure_opt(FWD(a)); }); });
      }
    });
  if (wanted("eit_eq") || wanted("eit_ne"))
    for_values<ED>([&](ED const &x)
    {
      for_values<ED>([&](ED const &y)
      {
        if (wanted("eit_eq")) record("eit_eq", "cc", js(x) + "," + js(y), "", [&] { return x == y; });
        if (wanted("eit_ne")) record("eit_ne", "cc", js(x) + "," + js(y), "", [&] { return x != y; });
      });
    });
}

// a visitor table for variant::apply: codes[(tag-1)*N + x] (unary) or
// codes[((t1-1)*N + x1) * 3N + (t2-1)*N + x2] (binary); JSON nested as [tag][x]([tag][x])
struct Vis
{
  int arity;
  std::vector<int> codes;
  std::string json() const
  {
    std::string s = "[";
    if (arity == 1)
    {
      for (int t = 0; t < 3; ++t)
      {
        s += t ? ",[" : "[";
        for (int x = 0; x < N; ++x) s += (x ? "," : "") + std::to_string(codes[static_cast<std::size_t>(t * N + x)]);
        s += "]";
      }
      return s + "]";
    }
    for (int t1 = 0; t1 < 3; ++t1)
    {
      s += t1 ? ",[" : "[";
      for (int x1 = 0; x1 < N; ++x1)
      {
        s += x1 ? ",[" : "[";
        for (int t2 = 0; t2 < 3; ++t2)
        {
          s += t2 ? ",[" : "[";
          for (int x2 = 0; x2 < N; ++x2)
            s += (x2 ? "," : "") + std::to_string(codes[static_cast<std::size_t>(((t1 * N + x1) * 3 + t2) * N + x2)]);
          s += "]";
        }
        s += "]";
      }
      s += "]";
    }
    return s + "]";
  }
};
int in_dom(int x) { return x >= 0 && x < N ? x : 0; }

template <typename T>
struct tag_of;
template <int K>
struct tag_of<Alt<K>>
{
  static constexpr int value = K;
};

void drive_variant(Sizes const &sz)
{
  if (wanted("var_match"))
  {
    vj::Rng rng{rng_for("var_match")};
    long const per = table_count<Val>(1); // 27
    long const total = per * per * per;
    bool const all = sz.match_tables >= total;
    long const n = all ? total : sz.match_tables;
    for (long k = 0; k < n; ++k)
    {
      long const idx = all ? k : static_cast<long>(rng.below(static_cast<std::uint64_t>(total)));
      Table<Val> const t1{table_by_index<Val>(1, idx % per)}, t2{table_by_index<Val>(1, (idx / per) % per)},
          t3{table_by_index<Val>(1, idx / per / per)};
      std::string const tabs = ",\"tf\":[" + t1.json() + "," + t2.json() + "," + t3.json() + "]";
      for_values<VD>([&](VD const &v)
      {
        for (char const *c = cats3; *c; ++c)
          record("var_match", std::string(1, *c), js(v), tabs, [&]
          {
            return with_cat(*c, v, [&](auto &&a)
            { return fcppt::variant::match(FWD(a), fn1<Val, A1>("f", 1, t1), fn1<Val, A2>("f", 2, t2), fn1<Val, A3>("f", 3, t3)); });
          });
      });
    }
  }
  if (wanted("var_match"))
  {
    vj::Rng rng{rng_for("var_match_rref")};
    for (int k = 0; k < 20; ++k)
    {
      Table<Val> const t1{table_random<Val>(1, rng)}, t2{table_random<Val>(1, rng)}, t3{table_random<Val>(1, rng)};
      std::string const tabs = ",\"pm\":\"rref\",\"tf\":[" + t1.json() + "," + t2.json() + "," + t3.json() + "]";
      for_values<VD>([&](VD const &v)
      {
        record("var_match", "r", js(v), tabs, [&]
        {
          VD a(v);
          return fcppt::variant::match(std::move(a), fn1c<Val, A1>("f", 1, t1), fn1c<Val, A2>("f", 2, t2), fn1c<Val, A3>("f", 3, t3));
        });
      });
    }
  }
  if (wanted("var_apply"))
  {
    vj::Rng rng{rng_for("var_apply")};
    for (long k = 0; k < sz.vis1; ++k)
    {
      Vis vis{1, {}};
      for (int i = 0; i < 3 * N; ++i) vis.codes.push_back(static_cast<int>(rng.below(N)));
      for_values<VD>([&](VD const &v)
      {
        for (char const *c = cats3; *c; ++c)
          record("var_apply", std::string(1, *c), js(v), ",\"tf\":" + vis.json(), [&]
          {
            return with_cat(*c, v, [&](auto &&a)
            {
              return fcppt::variant::apply(
                  [&vis](auto const &x) -> Val
                  {
                    constexpr int tag = tag_of<std::remove_cvref_t<decltype(x)>>::value;
                    log_call("f", 0, js_tagged(x));
                    return Val(vis.codes[static_cast<std::size_t>((tag - 1) * N + in_dom(x.v))]);
                  },
                  FWD(a));
            });
          });
      });
    }
    for (long k = 0; k < sz.vis2; ++k)
    {
      Vis vis{2, {}};
      for (int i = 0; i < 9 * N * N; ++i) vis.codes.push_back(static_cast<int>(rng.below(N)));
      for_values<VD>([&](VD const &v1)
      {
        for_values<VD>([&](VD const &v2)
        {
          for (char const *c = "lr"; *c; ++c)
            record("var_apply", std::string(2, *c), js(v1) + "," + js(v2), ",\"tf\":" + vis.json(), [&]
            {
              return with_cat(*c, v1, [&](auto &&a)
              {
                return with_cat(*c, v2, [&](auto &&b)
                {
                  return fcppt::variant::apply(
                      [&vis](auto const &x, auto const &y) -> Val
                      {
                        constexpr int t1 = tag_of<std::remove_cvref_t<decltype(x)>>::value;
                        constexpr int t2 = tag_of<std::remove_cvref_t<decltype(y)>>::value;
                        log_call("f", 0, js_tagged(x) + "," + js_tagged(y));
                        return Val(vis.codes[static_cast<std::size_t>((((t1 - 1) * N + in_dom(x.v)) * 3 + (t2 - 1)) * N + in_dom(y.v))]);
                      },
                      FWD(a), FWD(b));
                });
              });
            });
        });
      });
    }
  }
  if (wanted("var_to_optional") || wanted("var_holds_type"))
    for_values<VD>([&](VD const &v)
    {
      for (char const *c = cats3; *c; ++c)
      {
        if (wanted("var_to_optional"))
        {
          record("var_to_optional", std::string(1, *c), js(v), ",\"i\":1", [&]
          { return with_cat(*c, v, [&](auto &&a) { return fcppt::variant::to_optional<A1>(FWD(a)); }); });
          record("var_to_optional", std::string(1, *c), js(v), ",\"i\":2", [&]
          { return with_cat(*c, v, [&](auto &&a) { return fcppt::variant::to_optional<A2>(FWD(a)); }); });
          record("var_to_optional", std::string(1, *c), js(v), ",\"i\":3", [&]
          { return with_cat(*c, v, [&](auto &&a) { return fcppt::variant::to_optional<A3>(FWD(a)); }); });
        }
      }
      if (wanted("var_holds_type"))
      {
        record("var_holds_type", "c", js(v), ",\"i\":1", [&] { return fcppt::variant::holds_type<A1>(v); });
        record("var_holds_type", "c", js(v), ",\"i\":2", [&] { return fcppt::variant::holds_type<A2>(v); });
        record("var_holds_type", "c", js(v), ",\"i\":3", [&] { return fcppt::variant::holds_type<A3>(v); });
      }
    });
  if (wanted("var_compare"))
    for (auto [k, rng] = std::pair<long, vj::Rng>{0L, rng_for("var_compare")}; k < sz.cmp; ++k)
    {
      // predicate table c[tag][x][y]; the first four are ==, !=, true, false
      std::vector<int> codes;
      for (int t = 0; t < 3; ++t)
        for (int x = 0; x < N; ++x)
          for (int y = 0; y < N; ++y)
            codes.push_back(k == 0 ? (x == y) : k == 1 ? (x != y) : k == 2 ? 1 : k == 3 ? 0 : static_cast<int>(rng.below(2)));
      std::string tj = "[";
      for (int t = 0; t < 3; ++t)
      {
        tj += t ? ",[" : "[";
        for (int x = 0; x < N; ++x)
        {
          tj += x ? ",[" : "[";
          for (int y = 0; y < N; ++y) tj += std::string(y ? "," : "") + (codes[static_cast<std::size_t>((t * N + x) * N + y)] ? "true" : "false");
          tj += "]";
        }
        tj += "]";
      }
      tj += "]";
      for_values<VD>([&](VD const &v1)
      {
        for_values<VD>([&](VD const &v2)
        {
          record("var_compare", "cc", js(v1) + "," + js(v2), ",\"tf\":" + tj, [&]
          {
            return fcppt::variant::compare(v1, v2, [&codes](auto const &x, auto const &y) -> bool
            {
              static_assert(std::is_same_v<decltype(x), decltype(y)>);
              constexpr int tag = tag_of<std::remove_cvref_t<decltype(x)>>::value;
              log_call("c", tag, js(x) + "," + js(y));
              return codes[static_cast<std::size_t>(((tag - 1) * N + in_dom(x.v)) * N + in_dom(y.v))] != 0;
            });
          });
        });
      });
    }
  if (wanted("var_eq") || wanted("var_ne") || wanted("var_less"))
    for_values<VD>([&](VD const &x)
    {
      for_values<VD>([&](VD const &y)
      {
        if (wanted("var_eq")) record("var_eq", "cc", js(x) + "," + js(y), "", [&] { return x == y; });
        if (wanted("var_ne")) record("var_ne", "cc", js(x) + "," + js(y), "", [&] { return x != y; });
        if (wanted("var_less")) record("var_less", "cc", js(x) + "," + js(y), "", [&] { return x < y; });
      });
    });
}

// ------------------------------------------------------------------ extension round
// class lattice for variant::dynamic_cast_: ids 1, 2 are the possible target types
struct base
{
  base() = default;
  base(base const &) = delete;
  base &operator=(base const &) = delete;
  virtual ~base() = default;
};
struct d1 : virtual base {};
struct d2 : virtual base {};
struct d3 : virtual base {};
struct d1child : d1 {};
struct d12 : d1, d2 {};

template <typename S>
std::string text_of(S const &s) { return vj::cps(s); }

// outcome of a call that returns a value or throws Exc
template <typename Call>
std::string outcome_js(Call const &call)
{
  try
  {
    auto const r = call();
    return "{\"t\":\"ret\",\"v\":" + js(r) + "}";
  }
  catch (Exc const &e)
  {
    return "{\"t\":\"throw\",\"v\":" + std::to_string(e.e) + "}";
  }
}
// a record whose result is produced as JSON text by the body itself
template <typename Body>
void record_raw(char const *f, std::string const &cat, std::string const &args, std::string const &extra, Body const &body)
{
  g_calls.clear();
  std::string pre = "{\"f\":\"";
  pre += f;
  pre += "\",\"cat\":\"" + cat + "\",\"a\":[" + args + "]" + extra;
  vj::begin_call(pre);
  std::string const res = body();
  vj::end_call(",\"res\":" + res + ",\"calls\":[" + g_calls + "]}");
  ++g_records;
}
std::string store_js(std::array<Val, N> const &cells)
{
  std::string s = "[";
  for (int i = 0; i < N; ++i) s += (i ? "," : "") + js(cells[static_cast<std::size_t>(i)]);
  return s + "]";
}
using oref = fcppt::optional::reference<Val>;
std::string ref_js(oref const &o, std::array<Val, N> const &cells)
{
  if (!o.has_value()) return "{\"t\":\"none\"}";
  return "{\"t\":\"some\",\"v\":{\"ref\":" + std::to_string((&o.get_unsafe().get() - cells.data()) + 1) + "}}";
}

template <typename V>
void drive_variant_n(char const *suffix_cat)
{
  (void)suffix_cat;
}

void drive_ext(Sizes const &sz)
{
  // ---- pointers and references over a store of N cells
  for (long st = 0; st < ipow(N, N); ++st)
  {
    std::vector<int> const cs{digits(st, N, N)};
    auto const fresh = [&cs] { return std::array<Val, N>{Val(cs[0]), Val(cs[1]), Val(cs[2])}; };
    std::string const stj = ",\"st\":[" + std::to_string(cs[0]) + "," + std::to_string(cs[1]) + "," + std::to_string(cs[2]) + "]";
    for (int p = 0; p <= N; ++p)
    {
      std::array<Val, N> cells{fresh()};
      Val *const ptr = p == 0 ? nullptr : &cells[static_cast<std::size_t>(p - 1)];
      oref const o{p == 0 ? oref{} : oref{fcppt::make_ref(cells[static_cast<std::size_t>(p - 1)])}};
      std::string const oj = ref_js(o, cells);
      if (st == 0)
      {
        if (wanted("opt_from_pointer"))
          record_raw("opt_from_pointer", "", std::to_string(p), "", [&] { return ref_js(fcppt::optional::from_pointer(ptr), cells); });
        if (wanted("opt_to_pointer"))
          record_raw("opt_to_pointer", "", oj, "", [&]
          {
            Val *const r = fcppt::optional::to_pointer(o);
            return std::to_string(r == nullptr ? 0 : (r - cells.data()) + 1);
          });
        if (wanted("opt_deref"))
        {
          using optr = fcppt::optional::object<Val *>;
          optr const op{p == 0 ? optr{} : optr{ptr}};
          record_raw("opt_deref", "", p == 0 ? std::string{"{\"t\":\"none\"}"} : "{\"t\":\"some\",\"v\":" + std::to_string(p) + "}", "",
                     [&] { return ref_js(fcppt::optional::deref(op), cells); });
        }
      }
      if (wanted("opt_copy_value"))
        record("opt_copy_value", "", oj, stj, [&] { return fcppt::optional::copy_value(o); });
      if (wanted("opt_ref_write"))
        for (int y = 0; y < N; ++y)
        {
          std::array<Val, N> cells2{fresh()};
          oref const o2{p == 0 ? oref{} : oref{fcppt::make_ref(cells2[static_cast<std::size_t>(p - 1)])}};
          oref const alias{o2}; // a copy of the optional reference refers to the same cell
          record_raw("opt_ref_write", "", oj, stj + ex_d<Val>(y), [&]
          {
            fcppt::optional::maybe_void(alias, [y](fcppt::reference<Val> const r) { r.get() = Val(y); });
            return store_js(cells2);
          });
        }
    }
  }
  // ---- value semantics, assign, nothing, make, to_exception, output
  for_values<OD>([&](OD const &o)
  {
    for (int y = 0; y < N; ++y)
    {
      if (wanted("opt_value_copy_write"))
        record_raw("opt_value_copy_write", "", js(o), ex_d<Val>(y), [&]
        {
          OD copy{o};
          fcppt::optional::maybe_void(copy, [y](Val &v) { v = Val(y); });
          return "[" + js(o) + "," + js(copy) + "]";
        });
      if (wanted("opt_assign"))
        for (int x = 0; x < N; ++x)
          // assign's requires-clause compares Element with remove_cv_t<Arg> (a reference type for
          // lvalues), so only an rvalue argument is accepted
          for (char const *c = "r"; *c; ++c)
            record_raw("opt_assign", std::string(1, *c), js(o), ",\"x\":" + std::to_string(x) + ex_d<Val>(y), [&]
            {
              OD target{o};
              Val arg(x);
              Val &r = fcppt::optional::assign(target, std::move(arg));
              std::string const seen = js(r);
              r = Val(y);
              return "{\"ret\":" + seen + ",\"opt\":" + js(target) + "}";
            });
      if (wanted("opt_to_exception"))
        for (char const *c = cats3; *c; ++c)
          record_raw("opt_to_exception", std::string(1, *c), js(o), ex_d<Val>(y), [&]
          {
            return outcome_js([&]
            {
              return with_cat(*c, o, [&](auto &&a) -> Val
              {
                return fcppt::optional::to_exception(FWD(a), [y]
                {
                  log_call("mk", 0, "");
                  return Exc{y};
                });
              });
            });
          });
    }
    if (wanted("opt_output"))
    {
      record_raw("opt_output", "char", js(o), "", [&]
      {
        std::ostringstream s;
        s << o;
        return text_of(s.str());
      });
      record_raw("opt_output", "wchar_t", js(o), "", [&]
      {
        std::wostringstream s;
        s << o;
        return text_of(s.str());
      });
    }
  });
  if (wanted("optopt_output"))
    for_values<OOD>([&](OOD const &o)
    {
      record_raw("optopt_output", "char", js(o), "", [&]
      {
        std::ostringstream s;
        s << o;
        return text_of(s.str());
      });
    });
  if (wanted("opt_nothing"))
  {
    record("opt_nothing", "", "", "", [] { OD const o = fcppt::optional::nothing{}; return o; });
    record("opt_nothing", "", "", "", [] { OOD const o = fcppt::optional::nothing{}; return o; });
  }
  for (int x = 0; x < N; ++x)
  {
    for (char const *c = "cr"; *c; ++c)
    {
      Val arg(x);
      if (wanted("opt_make"))
        record("opt_make", std::string(1, *c), std::to_string(x), "", [&] { Val a(arg); return *c == 'c' ? fcppt::optional::make(std::as_const(a)) : fcppt::optional::make(std::move(a)); });
      if (wanted("eit_make_success"))
        record("eit_make_success", std::string(1, *c), std::to_string(x), "", [&] { Val a(arg); return *c == 'c' ? fcppt::either::make_success<Fv>(std::as_const(a)) : fcppt::either::make_success<Fv>(std::move(a)); });
      if (wanted("eit_make_failure"))
        record("eit_make_failure", std::string(1, *c), std::to_string(x), "", [&] { Fv a(x); return *c == 'c' ? fcppt::either::make_failure<Val>(std::as_const(a)) : fcppt::either::make_failure<Val>(std::move(a)); });
      if (wanted("monad_return_opt"))
        // monad::instance<...>::return_ constrains Value (not remove_cvref_t<Value>) to be an object
        // type, so only rvalues are accepted
        record("monad_return_opt", "r", std::to_string(x), "", [&] { Val a(arg); return fcppt::monad::return_<OD>(std::move(a)); });
      if (wanted("monad_return_eit"))
        record("monad_return_eit", "r", std::to_string(x), "", [&] { Val a(arg); return fcppt::monad::return_<ED>(std::move(a)); });
    }
    if (wanted("eit_construct"))
      for (int y = 0; y < N; ++y)
        for (int b = 0; b < 2; ++b)
          record("eit_construct", "", js(b != 0), ",\"x\":" + std::to_string(x) + ex_d<Fv>(y),
                 [&] { return fcppt::either::construct(b != 0, fn0<Val>("s", 0, x), fn0<Fv>("f", 0, y)); });
  }
  // ---- either
  if (wanted("eit_error_from_optional"))
    for_values<fcppt::optional::object<Fv>>([&](fcppt::optional::object<Fv> const &o)
    {
      for (char const *c = cats3; *c; ++c)
        record("eit_error_from_optional", std::string(1, *c), js(o), "", [&]
        { return with_cat(*c, o, [&](auto &&a) { return fcppt::either::error_from_optional(FWD(a)); }); });
    });
  for_values<ED>([&](ED const &e)
  {
    if (wanted("eit_to_exception"))
      for_tables<Val>(1, 100, rng_for("eit_to_exception"), [&](Table<Val> const &t)
      {
        for (char const *c = cats3; *c; ++c)
          record_raw("eit_to_exception", std::string(1, *c), js(e), ex_tf(t), [&]
          {
            return outcome_js([&]
            {
              return with_cat(*c, e, [&](auto &&a) -> Val
              {
                return fcppt::either::to_exception(FWD(a), [&t](Fv f)
                {
                  log_call("mk", 0, js(f));
                  return Exc{t.at({f.v}).v};
                });
              });
            });
          });
      });
    if (wanted("eit_output"))
      record_raw("eit_output", "char", js(e), "", [&]
      {
        std::ostringstream s;
        s << e;
        return text_of(s.str());
      });
  });
  if (wanted("eit_sequence_error"))
    for_tables<UE>(1, 100, rng_for("eit_sequence_error"), [&](Table<UE> const &t)
    {
      for_seqs<Val>(sz.maxlen, [&](std::vector<Val> const &xs)
      {
        for (char const *c = cats3; *c; ++c)
          record("eit_sequence_error", std::string(1, *c), js(xs), ex_tf(t), [&]
          {
            return with_cat(*c, xs, [&](auto &&a)
            { return fcppt::either::sequence_error(FWD(a), fn1<UE>("f", 0, t)); });
          });
      });
    });
  // ---- variant: assignment between alternatives, references, output, four alternatives
  auto const assign_records = [&](auto tag)
  {
    using V = typename decltype(tag)::type;
    for_values<V>([&](V const &v)
    {
      for_values<V>([&](V const &w)
      {
        if (wanted("var_assign"))
        {
          record_raw("var_assign", "copy", js(v) + "," + js(w), "", [&]
          {
            V dst{v};
            V const src{w};
            dst = src;
            return "{\"dst\":" + js(dst) + ",\"src_t\":" + std::to_string(src.is_invalid() ? 0 : src.type_index() + 1) + "}";
          });
          record_raw("var_assign", "move", js(v) + "," + js(w), "", [&]
          {
            V dst{v};
            V src{w};
            dst = std::move(src);
            return "{\"dst\":" + js(dst) + ",\"src_t\":" + std::to_string(src.is_invalid() ? 0 : src.type_index() + 1) + "}";
          });
          record_raw("var_assign", "move-construct", js(v) + "," + js(w), "", [&]
          {
            V src{w};
            V const dst{std::move(src)};
            return "{\"dst\":" + js(dst) + ",\"src_t\":" + std::to_string(src.is_invalid() ? 0 : src.type_index() + 1) + "}";
          });
        }
      });
      if (wanted("var_output"))
        record_raw("var_output", "char", js(v), "", [&]
        {
          std::ostringstream s;
          s << v;
          return text_of(s.str());
        });
    });
  };
  struct tag3 { using type = VD; };
  struct tag4 { using type = VD4; };
  assign_records(tag3{});
  assign_records(tag4{});
  for_values<VD4>([&](VD4 const &v)
  {
    if (wanted("var_holds_type"))
    {
      record("var_holds_type", "c", js(v), ",\"i\":1", [&] { return fcppt::variant::holds_type<A1>(v); });
      record("var_holds_type", "c", js(v), ",\"i\":2", [&] { return fcppt::variant::holds_type<A2>(v); });
      record("var_holds_type", "c", js(v), ",\"i\":3", [&] { return fcppt::variant::holds_type<A3>(v); });
      record("var_holds_type", "c", js(v), ",\"i\":4", [&] { return fcppt::variant::holds_type<A4>(v); });
    }
    for (char const *c = cats3; *c; ++c)
    {
      if (wanted("var_to_optional"))
      {
        record("var_to_optional", std::string(1, *c), js(v), ",\"i\":1", [&] { return with_cat(*c, v, [&](auto &&a) { return fcppt::variant::to_optional<A1>(FWD(a)); }); });
        record("var_to_optional", std::string(1, *c), js(v), ",\"i\":4", [&] { return with_cat(*c, v, [&](auto &&a) { return fcppt::variant::to_optional<A4>(FWD(a)); }); });
      }
    }
    if (wanted("var_ref_write"))
      for (int y = 0; y < N; ++y)
      {
        record_raw("var_ref_write", "", js(v), ",\"i\":2" + ex_d<Val>(y), [&]
        {
          VD4 w{v};
          fcppt::optional::maybe_void(fcppt::variant::to_optional_ref<A2>(w), [y](fcppt::reference<A2> const r) { r.get() = A2(y); });
          return js(w);
        });
        record_raw("var_ref_write", "", js(v), ",\"i\":4" + ex_d<Val>(y), [&]
        {
          VD4 w{v};
          fcppt::optional::maybe_void(fcppt::variant::to_optional_ref<A4>(w), [y](fcppt::reference<A4> const r) { r.get() = A4(y); });
          return js(w);
        });
      }
    for_values<VD4>([&](VD4 const &w)
    {
      if (wanted("var_eq")) record("var_eq", "cc", js(v) + "," + js(w), "", [&] { return v == w; });
      if (wanted("var_less")) record("var_less", "cc", js(v) + "," + js(w), "", [&] { return v < w; });
    });
  });
  if (wanted("var_match"))
  {
    vj::Rng rng{rng_for("var_match4")};
    for (long k = 0; k < sz.vis1; ++k)
    {
      Table<Val> const t1{table_random<Val>(1, rng)}, t2{table_random<Val>(1, rng)}, t3{table_random<Val>(1, rng)}, t4{table_random<Val>(1, rng)};
      std::string const tabs = ",\"tf\":[" + t1.json() + "," + t2.json() + "," + t3.json() + "," + t4.json() + "]";
      for_values<VD4>([&](VD4 const &v)
      {
        for (char const *c = cats3; *c; ++c)
          record("var_match", std::string(1, *c), js(v), tabs, [&]
          {
            return with_cat(*c, v, [&](auto &&a)
            {
              return fcppt::variant::match(FWD(a), fn1<Val, A1>("f", 1, t1), fn1<Val, A2>("f", 2, t2), fn1<Val, A3>("f", 3, t3),
                                           fn1<Val, A4>("f", 4, t4));
            });
          });
      });
    }
  }
  // ---- dynamic_cast_: every dynamic type x every order of the target types
  if (wanted("var_dynamic_cast"))
  {
    auto const run = [&](base &obj, std::string const &castable)
    {
      auto const emit = [&](std::string const &types, auto const &r)
      {
        record_raw("var_dynamic_cast", "", "", ",\"types\":" + types + ",\"castable\":" + castable, [&]
        {
          if (!r.has_value()) return std::string{"{\"t\":\"none\"}"};
          auto const &var = r.get_unsafe();
          bool const same = fcppt::variant::apply([&obj](auto const &ref) { return dynamic_cast<base const *>(&ref.get()) == &obj; }, var);
          return "{\"t\":\"some\",\"v\":{\"t\":" + std::to_string(var.type_index() + 1) + ",\"v\":" + (same ? "1" : "9") + "}}";
        });
      };
      emit("[1,2]", fcppt::variant::dynamic_cast_<fcppt::mpl::list::object<d1, d2>, fcppt::cast::dynamic_fun>(obj));
      emit("[2,1]", fcppt::variant::dynamic_cast_<fcppt::mpl::list::object<d2, d1>, fcppt::cast::dynamic_fun>(obj));
      emit("[1]", fcppt::variant::dynamic_cast_<fcppt::mpl::list::object<d1>, fcppt::cast::dynamic_fun>(obj));
      emit("[2]", fcppt::variant::dynamic_cast_<fcppt::mpl::list::object<d2>, fcppt::cast::dynamic_fun>(obj));
    };
    d1 o1;
    d2 o2;
    d3 o3;
    d1child o4;
    d12 o5;
    run(o1, "[1]");
    run(o2, "[2]");
    run(o3, "[]");
    run(o4, "[1]");
    run(o5, "[1,2]");
  }
  // ---- monad::chain / monad::do_
  if (wanted("monad_chain_opt") || wanted("monad_do_opt"))
  {
    vj::Rng rng{rng_for("monad_opt")};
    for_values<OD>([&](OD const &o)
    {
      for (char const *c = cats3; *c; ++c)
        if (wanted("monad_chain_opt"))
          record("monad_chain_opt", std::string(1, *c), js(o), ",\"tf\":[]", [&] { return with_cat(*c, o, [&](auto &&a) { return fcppt::monad::chain(FWD(a)); }); });
    });
    for_tables<OD>(1, 100, rng_for("monad_opt1"), [&](Table<OD> const &k1)
    {
      for_tables<OD>(1, sz.maxlen >= 4 ? 64 : 16, rng_for("monad_opt2"), [&](Table<OD> const &k2)
      {
        Table<OD> const k3{table_random<OD>(1, rng)};
        Table<OD> const l2{table_random<OD>(2, rng)};
        Table<OD> const l3{table_random<OD>(3, rng)};
        for_values<OD>([&](OD const &o)
        {
          for (char const *c = cats3; *c; ++c)
          {
            std::string const cat(1, *c);
            if (wanted("monad_chain_opt"))
            {
              if (&k2 == &k2 && k2.codes == k1.codes) // once per k1
                record("monad_chain_opt", cat, js(o), ",\"tf\":[" + k1.json() + "]", [&]
                { return with_cat(*c, o, [&](auto &&a) { return fcppt::monad::chain(FWD(a), fn1<OD>("f", 1, k1)); }); });
              record("monad_chain_opt", cat, js(o), ",\"tf\":[" + k1.json() + "," + k2.json() + "]", [&]
              { return with_cat(*c, o, [&](auto &&a) { return fcppt::monad::chain(FWD(a), fn1<OD>("f", 1, k1), fn1<OD>("f", 2, k2)); }); });
              record("monad_chain_opt", cat, js(o), ",\"tf\":[" + k1.json() + "," + k2.json() + "," + k3.json() + "]", [&]
              {
                return with_cat(*c, o, [&](auto &&a)
                { return fcppt::monad::chain(FWD(a), fn1<OD>("f", 1, k1), fn1<OD>("f", 2, k2), fn1<OD>("f", 3, k3)); });
              });
            }
            if (wanted("monad_do_opt"))
            {
              auto const f1 = [&k1](Val const &x) -> OD
              {
                log_call("f", 1, js(x));
                return k1.at({x.v});
              };
              auto const f2 = [&l2](Val const &x, Val const &y) -> OD
              {
                log_call("f", 2, js(x) + "," + js(y));
                return l2.at({x.v, y.v});
              };
              auto const f3 = [&l3](Val const &x, Val const &y, Val const &z) -> OD
              {
                log_call("f", 3, js(x) + "," + js(y) + "," + js(z));
                return l3.at({x.v, y.v, z.v});
              };
              record("monad_do_opt", cat, js(o), ",\"tf\":[" + k1.json() + "," + l2.json() + "]", [&]
              { return with_cat(*c, o, [&](auto &&a) { return fcppt::monad::do_(FWD(a), f1, f2); }); });
              record("monad_do_opt", cat, js(o), ",\"tf\":[" + k1.json() + "," + l2.json() + "," + l3.json() + "]", [&]
              { return with_cat(*c, o, [&](auto &&a) { return fcppt::monad::do_(FWD(a), f1, f2, f3); }); });
            }
          }
        });
      });
    });
  }
  if (wanted("monad_chain_eit") || wanted("monad_do_eit"))
  {
    vj::Rng rng{rng_for("monad_eit")};
    for_tables<ED>(1, 1000, rng_for("monad_eit1"), [&](Table<ED> const &k1)
    {
      Table<ED> const k2{table_random<ED>(1, rng)};
      Table<ED> const l2{table_random<ED>(2, rng)};
      for_values<ED>([&](ED const &e)
      {
        for (char const *c = cats3; *c; ++c)
        {
          std::string const cat(1, *c);
          if (wanted("monad_chain_eit"))
          {
            record("monad_chain_eit", cat, js(e), ",\"tf\":[" + k1.json() + "]", [&]
            { return with_cat(*c, e, [&](auto &&a) { return fcppt::monad::chain(FWD(a), fn1<ED>("f", 1, k1)); }); });
            record("monad_chain_eit", cat, js(e), ",\"tf\":[" + k1.json() + "," + k2.json() + "]", [&]
            { return with_cat(*c, e, [&](auto &&a) { return fcppt::monad::chain(FWD(a), fn1<ED>("f", 1, k1), fn1<ED>("f", 2, k2)); }); });
          }
          if (wanted("monad_do_eit"))
            record("monad_do_eit", cat, js(e), ",\"tf\":[" + k1.json() + "," + l2.json() + "]", [&]
            {
              return with_cat(*c, e, [&](auto &&a)
              {
                return fcppt::monad::do_(FWD(a),
                    [&k1](Val const &x) -> ED
                    {
                      log_call("f", 1, js(x));
                      return k1.at({x.v});
                    },
                    [&l2](Val const &x, Val const &y) -> ED
                    {
                      log_call("f", 2, js(x) + "," + js(y));
                      return l2.at({x.v, y.v});
                    });
              });
            });
        }
      });
    });
  }
}
}

int main(int argc, char **argv)
{
  if (argc < 5 || std::string(argv[1]) != "record")
  {
    std::fprintf(stderr, "usage: c04_algebra record OUT seed quick|thorough [only]\n");
    return 3;
  }
  vj::open(argv[2]);
  std::uint64_t const seed = std::strtoull(argv[3], nullptr, 10);
  bool const thorough = std::string(argv[4]) == "thorough";
  if (argc > 5) g_only = argv[5];
  Sizes const sz = thorough ? Sizes{4, 19683, 2500, 60, 19683, 1500, 60, 300, false} : Sizes{3, 480, 240, 12, 500, 200, 6, 40, true};
  g_seed = seed;
  drive_optional(sz);
  drive_either(sz);
  drive_variant(sz);
  drive_ext(sz);
  vj::close();
  std::fprintf(stderr, "c04_algebra: %ld records\n", g_records);
  return 0;
}
