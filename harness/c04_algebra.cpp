// C04 conformance harness: drives the real fcppt::optional / fcppt::either / fcppt::variant
// combinators over a three-element value domain with continuations given by complete function
// tables, and records for every call {f, cat, a, tables, res, calls}.
//
// It contains NO expected values: a continuation is a table (enumerated or seeded-random); the
// C++ lambda looks its result up in the table and appends <fn, index, arguments> to a call
// log.  spec/AlgebraJudge.tla (TLC) computes the predicted result and call sequence from the
// operators of spec/Algebra.tla and judges every record.
//
//   c04_algebra record OUT seed quick|thorough [only-combinator]
#include <common/vjson.hpp>

// Build configurations (checks/c04.py): by default every record kind is compiled in.  With
// -DC04_SELECT only the kinds named by -DC04_K_<kind>=1 are compiled (and only their headers are
// included), so that a kind whose API no longer compiles against the tree under test cannot
// block the judgement of the others.
#ifdef C04_SELECT
#define K(k) (C04_K_##k + 0)
#else
#define K(k) 1
#endif

#include <fcppt/unit.hpp>
#include <fcppt/either/object_impl.hpp>
#include <fcppt/optional/object_impl.hpp>
#include <fcppt/variant/object_impl.hpp>
#if K(opt_maybe)
#include <fcppt/optional/maybe.hpp>
#endif
#if K(opt_maybe_void) || K(opt_ref_write) || K(opt_value_copy_write) || K(var_ref_write)
#include <fcppt/optional/maybe_void.hpp>
#endif
#if K(opt_map)
#include <fcppt/optional/map.hpp>
#endif
#if K(opt_bind)
#include <fcppt/optional/bind.hpp>
#endif
#if K(monad_bind_opt) || K(monad_bind_eit)
#include <fcppt/monad/bind.hpp>
#endif
#if K(monad_bind_opt) || K(monad_chain_opt) || K(monad_do_opt) || K(monad_return_opt)
#include <fcppt/optional/monad.hpp>
#endif
#if K(monad_bind_eit) || K(monad_chain_eit) || K(monad_do_eit) || K(monad_return_eit)
#include <fcppt/either/monad.hpp>
#endif
#if K(opt_join)
#include <fcppt/optional/join.hpp>
#endif
#if K(opt_apply)
#include <fcppt/optional/apply.hpp>
#endif
#if K(opt_filter)
#include <fcppt/optional/filter.hpp>
#endif
#if K(opt_alternative)
#include <fcppt/optional/alternative.hpp>
#endif
#if K(opt_combine)
#include <fcppt/optional/combine.hpp>
#endif
#if K(opt_cat)
#include <fcppt/optional/cat.hpp>
#endif
#if K(opt_sequence)
#include <fcppt/algorithm/loop_break_tuple.hpp>
#include <fcppt/algorithm/map_tuple.hpp>
#include <fcppt/optional/sequence.hpp>
#include <fcppt/tuple/get.hpp>
#include <fcppt/tuple/object.hpp>
#endif
#if K(opt_from)
#include <fcppt/optional/from.hpp>
#endif
#if K(opt_maybe_multi)
#include <fcppt/optional/maybe_multi.hpp>
#endif
#if K(opt_make_if)
#include <fcppt/optional/make_if.hpp>
#endif
#if K(opt_eq) || K(opt_ne) || K(opt_less)
#include <fcppt/optional/comparison.hpp>
#endif
#if K(eit_match)
#include <fcppt/either/match.hpp>
#endif
#if K(eit_map)
#include <fcppt/either/map.hpp>
#endif
#if K(eit_map_failure)
#include <fcppt/either/map_failure.hpp>
#endif
#if K(eit_bind)
#include <fcppt/either/bind.hpp>
#endif
#if K(eit_join)
#include <fcppt/either/join.hpp>
#endif
#if K(eit_apply)
#include <fcppt/either/apply.hpp>
#endif
#if K(eit_sequence)
#include <fcppt/either/sequence.hpp>
#endif
#if K(eit_first_success)
#include <fcppt/function_impl.hpp>
#include <fcppt/either/first_success.hpp>
#endif
#if K(eit_loop)
#include <fcppt/either/loop.hpp>
#endif
#if K(eit_from_optional)
#include <fcppt/either/from_optional.hpp>
#endif
#if K(eit_try_call)
#include <fcppt/either/try_call.hpp>
#endif
#if K(eit_success_opt)
#include <fcppt/either/success_opt.hpp>
#endif
#if K(eit_failure_opt)
#include <fcppt/either/failure_opt.hpp>
#endif
#if K(eit_eq) || K(eit_ne)
#include <fcppt/either/comparison.hpp>
#endif
#if K(var_match)
#include <fcppt/variant/match.hpp>
#endif
#if K(var_apply) || K(var_dynamic_cast)
#include <fcppt/variant/apply.hpp>
#endif
#if K(var_to_optional)
#include <fcppt/variant/to_optional.hpp>
#endif
#if K(var_holds_type)
#include <fcppt/variant/holds_type.hpp>
#endif
#if K(var_compare)
#include <fcppt/variant/compare.hpp>
#endif
#if K(var_eq) || K(var_ne) || K(var_less)
#include <fcppt/variant/comparison.hpp>
#endif
// ---- extension round (observed-only kinds unless spec/AlgebraJudge.tla InScope says otherwise)
#if K(opt_from_pointer) || K(opt_to_pointer) || K(opt_deref) || K(opt_copy_value) || K(opt_ref_write) || K(var_ref_write)
#include <fcppt/make_ref.hpp>
#include <fcppt/reference_impl.hpp>
#include <fcppt/optional/reference.hpp>
#endif
#if K(var_dynamic_cast)
#include <fcppt/cast/dynamic_fun.hpp>
#include <fcppt/mpl/list/object.hpp>
#include <fcppt/variant/dynamic_cast.hpp>
#endif
#if K(eit_construct)
#include <fcppt/either/construct.hpp>
#endif
#if K(eit_error_from_optional) || K(eit_sequence_error)
#include <fcppt/either/error.hpp>
#include <fcppt/either/no_error.hpp>
#endif
#if K(eit_error_from_optional)
#include <fcppt/either/error_from_optional.hpp>
#endif
#if K(eit_make_failure)
#include <fcppt/either/make_failure.hpp>
#endif
#if K(eit_make_success)
#include <fcppt/either/make_success.hpp>
#endif
#if K(eit_output)
#include <fcppt/either/output.hpp>
#endif
#if K(eit_sequence_error)
#include <fcppt/either/sequence_error.hpp>
#endif
#if K(eit_to_exception)
#include <fcppt/either/to_exception.hpp>
#endif
#if K(monad_chain_opt) || K(monad_chain_eit)
#include <fcppt/monad/chain.hpp>
#endif
#if K(monad_do_opt) || K(monad_do_eit)
#include <fcppt/monad/do.hpp>
#endif
#if K(monad_return_opt) || K(monad_return_eit)
#include <fcppt/monad/return.hpp>
#endif
#if K(opt_assign)
#include <fcppt/optional/assign.hpp>
#endif
#if K(opt_copy_value)
#include <fcppt/optional/copy_value.hpp>
#endif
#if K(opt_deref)
#include <fcppt/optional/deref.hpp>
#endif
#if K(opt_from_pointer)
#include <fcppt/optional/from_pointer.hpp>
#endif
#if K(opt_make)
#include <fcppt/optional/make.hpp>
#endif
#if K(opt_nothing)
#include <fcppt/optional/nothing.hpp>
#endif
#if K(opt_output) || K(optopt_output)
#include <fcppt/optional/output.hpp>
#endif
#if K(opt_to_exception)
#include <fcppt/optional/to_exception.hpp>
#endif
#if K(opt_to_pointer)
#include <fcppt/optional/to_pointer.hpp>
#endif
#if K(var_output)
#include <fcppt/variant/output.hpp>
#endif
#if K(var_ref_write)
#include <fcppt/variant/to_optional_ref.hpp>
#endif
#if K(var_get)
#include <fcppt/variant/get_unsafe.hpp>
#endif
#include <sys/time.h>
#include <sstream>
#include <algorithm>
#include <array>
#include <cstdint>
#include <functional>
#include <string>
#include <type_traits>
#include <utility>
#include <variant>
#include <vector>

namespace
{
constexpr int N = 3;
constexpr int moved_from = 7; // outside the model's domain 0..N-1

// Element types.  Alt<K> for K = 0..3 are distinct types over the same domain (variant
// alternatives and either's failure/success types must be distinct).  A moved-from object
// holds 7, so a value that is delivered after having been moved from is not explainable.
template <int K>
struct Alt
{
  int v;
  explicit Alt(int x) : v(x) {}
  Alt(Alt const &) = default;
  Alt(Alt &&o) noexcept : v(o.v) { o.v = moved_from; }
  Alt &operator=(Alt const &) = default;
  Alt &operator=(Alt &&o) noexcept
  {
    if (this != &o)
    {
      v = o.v;
      o.v = moved_from;
    }
    return *this;
  }
  ~Alt() = default;
  friend bool operator==(Alt const &a, Alt const &b) { return a.v == b.v; }
  friend bool operator!=(Alt const &a, Alt const &b) { return a.v != b.v; }
  friend bool operator<(Alt const &a, Alt const &b) { return a.v < b.v; }
  template <typename Ch, typename Tr>
  friend std::basic_ostream<Ch, Tr> &operator<<(std::basic_ostream<Ch, Tr> &s, Alt const &a) { return s << a.v; }
};

using Val = Alt<0>;
using Fv = Alt<1>; // failure type of eithers
using A1 = Alt<1>;
using A2 = Alt<2>;
using A3 = Alt<3>;
using OD = fcppt::optional::object<Val>;
using OOD = fcppt::optional::object<OD>;
using ED = fcppt::either::object<Fv, Val>;
using EED = fcppt::either::object<Fv, ED>;
using VD = fcppt::variant::object<A1, A2, A3>;
using A4 = Alt<4>;
using VD4 = fcppt::variant::object<A1, A2, A3, A4>;
#if K(eit_sequence_error) || K(eit_error_from_optional)
using UE = fcppt::either::error<Fv>; // either<Fv, unit>
#endif
// polymorphic, so that a catch clause that looks at the dynamic type sees the derived class
struct Exc
{
  int e;
  explicit Exc(int x) : e(x) {}
  Exc(Exc const &) = default;
  Exc(Exc &&) = default;
  Exc &operator=(Exc const &) = default;
  Exc &operator=(Exc &&) = default;
  virtual ~Exc() = default;
  // the value the exception carries, read through the dynamic type: "the failure is to_exception(e) for the
  // thrown e" - a handler that is handed a sliced copy of a derived exception sees the base part's value
  virtual int code() const { return e; }
};
struct ExcDerived : Exc
{
  int d;
  explicit ExcDerived(int x) : Exc((x + 1) % 3), d(x) {}
  int code() const override { return d; }
};
// what the function passed to try_call does
struct Outcome
{
  bool throws;
  int v;
};

// ------------------------------------------------------------------ JSON encoding (model encoding)
std::string js(bool b) { return b ? "true" : "false"; }
std::string js(int i) { return std::to_string(i); }
std::string js(fcppt::unit) { return "0"; }
template <int K>
std::string js(Alt<K> const &a) { return std::to_string(a.v); }
template <int K>
std::string js_tagged(Alt<K> const &a)
{
  return "{\"t\":" + std::to_string(K) + ",\"v\":" + std::to_string(a.v) + "}";
}
template <typename T>
std::string js(fcppt::optional::object<T> const &o);
template <typename F, typename S>
std::string js(fcppt::either::object<F, S> const &e);
#if K(opt_sequence)
// the result of optional::sequence over a tuple of optionals: the values in order, like a container
using SeqTuple = fcppt::tuple::object<Alt<0>, Alt<1>, Alt<2>>;
std::string js(SeqTuple const &t)
{
  return "[" + std::to_string(fcppt::tuple::get<0>(t).v) + "," + std::to_string(fcppt::tuple::get<1>(t).v) + "," +
         std::to_string(fcppt::tuple::get<2>(t).v) + "]";
}
#endif
template <typename T>
std::string js(std::vector<T> const &v)
{
  std::string s = "[";
  bool first = true;
  for (auto const &x : v)
  {
    if (!first) s += ',';
    first = false;
    s += js(x);
  }
  return s + "]";
}
template <typename T>
std::string js(fcppt::optional::object<T> const &o)
{
  return o.has_value() ? "{\"t\":\"some\",\"v\":" + js(o.get_unsafe()) + "}" : std::string{"{\"t\":\"none\"}"};
}
template <typename F, typename S>
std::string js(fcppt::either::object<F, S> const &e)
{
  return e.has_success() ? "{\"t\":\"succ\",\"v\":" + js(e.get_success_unsafe()) + "}"
                         : "{\"t\":\"fail\",\"v\":" + js(e.get_failure_unsafe()) + "}";
}
// Variants are rendered through impl() (the wrapped std::variant): the rendering of an ARGUMENT must
// not depend on type_index() / get_unsafe(), which are themselves driven and judged (var_index,
// var_get); a lying accessor would otherwise corrupt the inputs the model is evaluated on.
std::string js(VD const &v)
{
  return std::visit([](auto const &x) { return js_tagged(x); }, v.impl());
}
std::string js(VD4 const &v)
{
  return std::visit([](auto const &x) { return js_tagged(x); }, v.impl());
}
// what type_index() reports, 1-based; absurd values are clamped (TLC integers are 32-bit)
template <typename V>
int reported_index(V const &v)
{
  auto const i = v.type_index();
  return i < 64U ? static_cast<int>(i) + 1 : 99;
}
std::string js(Outcome const &o)
{
  return std::string{"{\"t\":\""} + (o.throws ? "throw" : "ret") + "\",\"v\":" + std::to_string(o.v) + "}";
}

// ------------------------------------------------------------------ value codes
// every finite type used here is enumerated by a code 0..count-1
template <typename T>
struct codec;
template <int K>
struct codec<Alt<K>>
{
  static constexpr int count = N;
  static Alt<K> dec(int c) { return Alt<K>(c); }
};
template <>
struct codec<bool>
{
  static constexpr int count = 2;
  static bool dec(int c) { return c != 0; }
};
template <typename T>
struct codec<fcppt::optional::object<T>>
{
  static constexpr int count = 1 + codec<T>::count;
  static fcppt::optional::object<T> dec(int c)
  {
    return c == 0 ? fcppt::optional::object<T>{} : fcppt::optional::object<T>{codec<T>::dec(c - 1)};
  }
};
template <typename F, typename S>
struct codec<fcppt::either::object<F, S>>
{
  static constexpr int count = codec<F>::count + codec<S>::count;
  static fcppt::either::object<F, S> dec(int c)
  {
    return c < codec<F>::count ? fcppt::either::object<F, S>{codec<F>::dec(c)}
                               : fcppt::either::object<F, S>{codec<S>::dec(c - codec<F>::count)};
  }
};
template <>
struct codec<VD>
{
  static constexpr int count = 3 * N;
  static VD dec(int c)
  {
    switch (c / N)
    {
    case 0: return VD{A1(c % N)};
    case 1: return VD{A2(c % N)};
    default: return VD{A3(c % N)};
    }
  }
};
template <>
struct codec<VD4>
{
  static constexpr int count = 4 * N;
  static VD4 dec(int c)
  {
    switch (c / N)
    {
    case 0: return VD4{A1(c % N)};
    case 1: return VD4{A2(c % N)};
    case 2: return VD4{A3(c % N)};
    default: return VD4{A4(c % N)};
    }
  }
};
template <>
struct codec<fcppt::unit>
{
  static constexpr int count = 1;
  static fcppt::unit dec(int) { return fcppt::unit{}; }
};
template <>
struct codec<Outcome>
{
  static constexpr int count = 2 * N;
  static Outcome dec(int c) { return Outcome{c >= N, c % N}; }
};
template <typename T>
T dec(int c) { return codec<T>::dec(c); }
template <typename T>
constexpr int count_of = codec<T>::count;

// sequences of codes of a given length over `base` values, by index
std::vector<int> digits(long idx, int len, int base)
{
  std::vector<int> d(static_cast<std::size_t>(len));
  for (int i = len - 1; i >= 0; --i)
  {
    d[static_cast<std::size_t>(i)] = static_cast<int>(idx % base);
    idx /= base;
  }
  return d;
}
long ipow(long b, int e)
{
  long r = 1;
  for (int i = 0; i < e; ++i) r *= b;
  return r;
}
template <typename T>
std::vector<T> dec_seq(std::vector<int> const &codes)
{
  std::vector<T> r;
  r.reserve(codes.size());
  for (int c : codes) r.push_back(dec<T>(c));
  return r;
}

// ------------------------------------------------------------------ tables
// A table of a continuation with `arity` arguments from 0..N-1 and results of type R:
// codes[x1*N^(arity-1) + ... + x_arity] is the code of the result.
template <typename R>
struct Table
{
  int arity;
  std::vector<int> codes;
  R at(std::vector<int> const &xs) const
  {
    long idx = 0;
    for (int x : xs)
    {
      if (x < 0 || x >= N) return dec<R>(0); // argument outside the domain: logged by the caller, judged by TLC
      idx = idx * N + x;
    }
    return dec<R>(codes[static_cast<std::size_t>(idx)]);
  }
  std::string json_from(int depth, long &pos) const
  {
    if (depth == arity) return js(dec<R>(codes[static_cast<std::size_t>(pos++)]));
    std::string s = "[";
    for (int i = 0; i < N; ++i)
    {
      if (i != 0) s += ',';
      s += json_from(depth + 1, pos);
    }
    return s + "]";
  }
  std::string json() const
  {
    long pos = 0;
    return json_from(0, pos);
  }
};
template <typename R>
long table_count(int arity) { return ipow(count_of<R>, static_cast<int>(ipow(N, arity))); }
template <typename R>
Table<R> table_by_index(int arity, long idx)
{
  return Table<R>{arity, digits(idx, static_cast<int>(ipow(N, arity)), count_of<R>)};
}
template <typename R>
Table<R> table_random(int arity, vj::Rng &rng)
{
  Table<R> t{arity, {}};
  long const n = ipow(N, arity);
  for (long i = 0; i < n; ++i) t.codes.push_back(static_cast<int>(rng.below(static_cast<std::uint64_t>(count_of<R>))));
  return t;
}
// all tables if there are at most `limit`, else `limit` seeded-random ones
template <typename R, typename Body>
void for_tables(int arity, long limit, vj::Rng rng, Body const &body)
{
  long const total = table_count<R>(arity);
  if (total <= limit)
  {
    for (long i = 0; i < total; ++i) body(table_by_index<R>(arity, i));
  }
  else
  {
    for (long i = 0; i < limit; ++i) body(table_random<R>(arity, rng));
  }
}

// ------------------------------------------------------------------ call log and records
std::string g_calls;
void log_call(char const *fn, int i, std::string const &args)
{
  if (!g_calls.empty()) g_calls += ',';
  g_calls += "{\"fn\":\"";
  g_calls += fn;
  g_calls += "\",\"i\":" + std::to_string(i) + ",\"args\":[" + args + "]}";
}

std::string g_only;
long g_records = 0;
std::uint64_t g_seed = 1;

// every combinator draws its random tables from its own stream, so that a run restricted to
// one combinator (replay) uses the same tables as the full run
vj::Rng rng_for(char const *name)
{
  std::uint64_t h = 1469598103934665603ULL;
  for (char const *p = name; *p; ++p) h = (h ^ static_cast<unsigned char>(*p)) * 1099511628211ULL;
  return vj::Rng(g_seed * 1000003ULL + (h >> 8));
}

bool wanted(char const *f) { return g_only.empty() || g_only == f; }

// Watchdog: every record gets a fresh budget of CPU time (ITIMER_VIRTUAL counts only the time this
// process computes, so a loaded machine cannot trigger it); an endless loop inside a driven call ends
// in exit code 68 with the truncated record naming the combinator.
constexpr int watchdog_cpu_seconds = 10;
void arm_watchdog()
{
  itimerval tv{};
  tv.it_value.tv_sec = watchdog_cpu_seconds;
  ::setitimer(ITIMER_VIRTUAL, &tv, nullptr);
}
void on_vtalrm(int) { vj::on_signal(SIGALRM); }

// An exception that escapes from a driven call (none of the combinators documents one, the harness's
// own continuations only throw Exc where the combinator is documented to catch it) is written as a
// record with a field "exc" instead of "res": checks/c04.py turns it into a verdict for this kind
// and the run continues with the next record.
std::string exc_text(char const *what)
{
  std::string r;
  for (char const *p = what; *p != '\0' && r.size() < 80; ++p)
    r += (*p >= ' ' && *p < 127 && *p != '"' && *p != '\\') ? *p : '?';
  return r;
}
template <typename Body>
void record_guarded(char const *f, std::string const &cat, std::string const &args, std::string const &extra, Body const &body)
{
  g_calls.clear();
  std::string pre = "{\"f\":\"";
  pre += f;
  pre += "\",\"cat\":\"" + cat + "\",\"a\":[" + args + "]" + extra;
  arm_watchdog();
  vj::begin_call(pre);
  std::string res;
  std::string exc;
  bool threw = false;
  try
  {
    res = body();
  }
  catch (std::exception const &e)
  {
    threw = true;
    exc = exc_text(e.what());
  }
  catch (...)
  {
    threw = true;
    exc = "(not a std::exception)";
  }
  if (threw)
    vj::end_call(",\"exc\":\"" + exc + "\",\"calls\":[" + g_calls + "]}");
  else
    vj::end_call(",\"res\":" + res + ",\"calls\":[" + g_calls + "]}");
  ++g_records;
}
// one record: prefix (flushed before the call), the call itself, result and call log
template <typename Call>
void record(char const *f, std::string const &cat, std::string const &args, std::string const &extra, Call const &call)
{
  record_guarded(f, cat, args, extra, [&call]() -> std::string { return js(call()); });
}

// run body with a fresh copy of proto as non-const lvalue, const lvalue or rvalue
template <typename T, typename Body>
decltype(auto) with_cat(char cat, T const &proto, Body const &body)
{
  T x(proto);
  switch (cat)
  {
  case 'l': return body(x);
  case 'c': return body(std::as_const(x));
  default: return body(std::move(x));
  }
}
#define FWD(x) std::forward<decltype(x)>(x)

template <typename T, typename Body>
void for_values(Body const &body)
{
  for (int c = 0; c < count_of<T>; ++c) body(dec<T>(c));
}
template <typename T, typename Body>
void for_seqs(int maxlen, Body const &body)
{
  for (int len = 0; len <= maxlen; ++len)
  {
    long const n = ipow(count_of<T>, len);
    for (long i = 0; i < n; ++i) body(dec_seq<T>(digits(i, len, count_of<T>)));
  }
}

char const *const cats3 = "lcr";
// value categories of the three arguments of the ternary forms (all the same, and mixed)
char const *const cats_ternary[] = {"lll", "rrr", "lcr", "rlc"};

// continuation factories -------------------------------------------------------------------
// unary continuation Alt<K> -> R; takes its argument BY VALUE (moves out of an rvalue)
template <typename R, typename Arg = Val>
auto fn1(char const *name, int idx, Table<R> const &t)
{
  return [name, idx, &t](Arg x) -> R
  {
    log_call(name, idx, js(x));
    return t.at({x.v});
  };
}
// unary continuation taking Arg && and CONSUMING it (moves the argument into a local)
template <typename R, typename Arg = Val>
auto fn1c(char const *name, int idx, Table<R> const &t)
{
  return [name, idx, &t](Arg &&x) -> R
  {
    Arg const taken(std::move(x));
    log_call(name, idx, js(taken));
    return t.at({taken.v});
  };
}
template <typename R>
auto fn2(char const *name, Table<R> const &t)
{
  return [name, &t](Val x, Val y) -> R
  {
    log_call(name, 0, js(x) + "," + js(y));
    return t.at({x.v, y.v});
  };
}
template <typename R>
auto fn3(char const *name, Table<R> const &t)
{
  return [name, &t](Val x, Val y, Val z) -> R
  {
    log_call(name, 0, js(x) + "," + js(y) + "," + js(z));
    return t.at({x.v, y.v, z.v});
  };
}
// nullary continuation returning dec<R>(code)
template <typename R>
auto fn0(char const *name, int idx, int code)
{
  return [name, idx, code]() -> R
  {
    log_call(name, idx, "");
    return dec<R>(code);
  };
}
template <typename R>
std::string ex_tf(Table<R> const &t) { return ",\"tf\":" + t.json(); }
template <typename R>
std::string ex_d(int code) { return ",\"d\":" + js(dec<R>(code)); }

// ------------------------------------------------------------------ the drivers
struct Sizes
{
  int maxlen;        // containers
  long t2;           // number of binary tables (all 19683 if >=)
  long t2_eit;       // binary tables for either::apply
  long t3;           // ternary tables sampled
  long match_tables; // triples of tables for variant::match
  long vis1;         // unary visitors
  long vis2;         // binary visitors
  long cmp;          // compare predicates
  bool all_cats2;    // all four category pairs for binary combinators
};

void drive_optional(Sizes const &sz)
{
#if K(opt_maybe)
  if (wanted("opt_maybe"))
    for_tables<Val>(1, 100, rng_for("opt_maybe"), [&](Table<Val> const &t)
    {
      for (int d = 0; d < N; ++d)
        for_values<OD>([&](OD const &o)
        {
          for (char const *c = cats3; *c; ++c)
            record("opt_maybe", std::string(1, *c), js(o), ex_d<Val>(d) + ex_tf(t), [&]
            {
              return with_cat(*c, o, [&](auto &&a) { return fcppt::optional::maybe(FWD(a), fn0<Val>("d", 0, d), fn1<Val>("f", 0, t)); });
            });
        });
    });
#endif
#if K(opt_maybe_void)
  if (wanted("opt_maybe_void"))
    for_values<OD>([&](OD const &o)
    {
      for (char const *c = cats3; *c; ++c)
        record("opt_maybe_void", std::string(1, *c), js(o), "", [&]
        {
          with_cat(*c, o, [&](auto &&a) { fcppt::optional::maybe_void(FWD(a), [](Val x) { log_call("f", 0, js(x)); }); });
          return fcppt::unit{};
        });
    });
#endif
#if K(opt_map)
  if (wanted("opt_map"))
    for_tables<Val>(1, 100, rng_for("opt_map"), [&](Table<Val> const &t)
    {
      for_values<OD>([&](OD const &o)
      {
        for (char const *c = cats3; *c; ++c)
          record("opt_map", std::string(1, *c), js(o), ex_tf(t), [&]
          { return with_cat(*c, o, [&](auto &&a) { return fcppt::optional::map(FWD(a), fn1<Val>("f", 0, t)); }); });
      });
    });
#endif
#if K(opt_bind) || K(monad_bind_opt)
  if (wanted("opt_bind") || wanted("monad_bind_opt"))
    for_tables<OD>(1, 100, rng_for("opt_bind"), [&](Table<OD> const &t)
    {
      for_values<OD>([&](OD const &o)
      {
        for (char const *c = cats3; *c; ++c)
        {
#if K(opt_bind)
          if (wanted("opt_bind"))
            record("opt_bind", std::string(1, *c), js(o), ex_tf(t), [&]
            { return with_cat(*c, o, [&](auto &&a) { return fcppt::optional::bind(FWD(a), fn1<OD>("f", 0, t)); }); });
#endif
#if K(monad_bind_opt)
          if (wanted("monad_bind_opt"))
            record("monad_bind_opt", std::string(1, *c), js(o), ex_tf(t), [&]
            { return with_cat(*c, o, [&](auto &&a) { return fcppt::monad::bind(FWD(a), fn1<OD>("f", 0, t)); }); });
#endif
        }
      });
    });
#endif
#if K(opt_join)
  if (wanted("opt_join"))
    for_values<OOD>([&](OOD const &o)
    {
      for (char const *c = cats3; *c; ++c)
        record("opt_join", std::string(1, *c), js(o), "", [&]
        { return with_cat(*c, o, [&](auto &&a) { return fcppt::optional::join(FWD(a)); }); });
    });
#endif
#if K(opt_filter)
  if (wanted("opt_filter"))
    for_tables<bool>(1, 100, rng_for("opt_filter"), [&](Table<bool> const &t)
    {
      for_values<OD>([&](OD const &o)
      {
        for (char const *c = cats3; *c; ++c)
          record("opt_filter", std::string(1, *c), js(o), ex_tf(t), [&]
          {
            return with_cat(*c, o, [&](auto &&a)
            {
              return fcppt::optional::filter(FWD(a), [&t](Val const &x) -> bool
              {
                log_call("p", 0, js(x));
                return t.at({x.v});
              });
            });
          });
      });
    });
#endif
  // the same with a predicate taking its parameter BY VALUE ([](T x)): for an rvalue source the held
  // value must still be intact in the result (a moved-from Val holds 7)
#if K(opt_filter)
  if (wanted("opt_filter"))
    for_tables<bool>(1, 100, rng_for("opt_filter"), [&](Table<bool> const &t)
    {
      for_values<OD>([&](OD const &o)
      {
        for (char const *c = cats3; *c; ++c)
          record("opt_filter", std::string(1, *c), js(o), ",\"pm\":\"value\"" + ex_tf(t), [&]
          {
            return with_cat(*c, o, [&](auto &&a)
            {
              return fcppt::optional::filter(FWD(a), [&t](Val x) -> bool
              {
                log_call("p", 0, js(x));
                return t.at({x.v});
              });
            });
          });
      });
    });
#endif
  // continuations taking T && and consuming it, rvalue sources only (they do not bind to what the
  // library hands over for lvalue sources)
  for_tables<Val>(1, 100, rng_for("rref"), [&](Table<Val> const &t)
  {
    for_values<OD>([&](OD const &o)
    {
#if K(opt_map)
      if (wanted("opt_map"))
        record("opt_map", "r", js(o), ",\"pm\":\"rref\"" + ex_tf(t), [&] { OD a(o); return fcppt::optional::map(std::move(a), fn1c<Val>("f", 0, t)); });
#endif
#if K(opt_apply)
      if (wanted("opt_apply"))
        record("opt_apply", "r", js(o), ",\"pm\":\"rref\"" + ex_tf(t), [&] { OD a(o); return fcppt::optional::apply(fn1c<Val>("f", 0, t), std::move(a)); });
#endif
#if K(opt_maybe)
      if (wanted("opt_maybe"))
        for (int d = 0; d < N; ++d)
          record("opt_maybe", "r", js(o), ",\"pm\":\"rref\"" + ex_d<Val>(d) + ex_tf(t), [&]
          { OD a(o); return fcppt::optional::maybe(std::move(a), fn0<Val>("d", 0, d), fn1c<Val>("f", 0, t)); });
#endif
    });
  });
  for_tables<OD>(1, 100, rng_for("rref2"), [&](Table<OD> const &t)
  {
    for_values<OD>([&](OD const &o)
    {
#if K(opt_bind)
      if (wanted("opt_bind"))
        record("opt_bind", "r", js(o), ",\"pm\":\"rref\"" + ex_tf(t), [&] { OD a(o); return fcppt::optional::bind(std::move(a), fn1c<OD>("f", 0, t)); });
#endif
    });
  });
#if K(opt_alternative)
  if (wanted("opt_alternative"))
    for_values<OD>([&](OD const &o)
    {
      for (int d = 0; d < count_of<OD>; ++d)
        for (char const *c = cats3; *c; ++c)
          record("opt_alternative", std::string(1, *c), js(o), ex_d<OD>(d), [&]
          { return with_cat(*c, o, [&](auto &&a) { return fcppt::optional::alternative(FWD(a), fn0<OD>("g", 0, d)); }); });
    });
#endif
#if K(opt_from)
  if (wanted("opt_from"))
    for_values<OD>([&](OD const &o)
    {
      for (int d = 0; d < N; ++d)
        for (char const *c = cats3; *c; ++c)
          record("opt_from", std::string(1, *c), js(o), ex_d<Val>(d), [&]
          { return with_cat(*c, o, [&](auto &&a) { return fcppt::optional::from(FWD(a), fn0<Val>("d", 0, d)); }); });
    });
#endif
#if K(opt_make_if)
  if (wanted("opt_make_if"))
    for (int b = 0; b < 2; ++b)
      for (int d = 0; d < N; ++d)
        record("opt_make_if", "", js(b != 0), ex_d<Val>(d), [&] { return fcppt::optional::make_if(b != 0, fn0<Val>("g", 0, d)); });
#endif
#if K(opt_apply)
  if (wanted("opt_apply"))
  {
    vj::Rng rng{rng_for("opt_apply3")};
    for_tables<Val>(1, 100, rng_for("opt_apply"), [&](Table<Val> const &t)
    {
      for_values<OD>([&](OD const &o)
      {
        for (char const *c = cats3; *c; ++c)
          record("opt_apply", std::string(1, *c), js(o), ex_tf(t), [&]
          { return with_cat(*c, o, [&](auto &&a) { return fcppt::optional::apply(fn1<Val>("f", 0, t), FWD(a)); }); });
      });
    });
    for_tables<Val>(2, sz.t2, rng_for("opt_apply"), [&](Table<Val> const &t)
    {
      for_values<OD>([&](OD const &o1)
      {
        for_values<OD>([&](OD const &o2)
        {
          for (char const *c1 = "lr"; *c1; ++c1)
            for (char const *c2 = "lr"; *c2; ++c2)
            {
              if (!sz.all_cats2 && *c1 != *c2) continue;
              record("opt_apply", std::string{*c1, *c2}, js(o1) + "," + js(o2), ex_tf(t), [&]
              {
                return with_cat(*c1, o1, [&](auto &&a)
                { return with_cat(*c2, o2, [&](auto &&b) { return fcppt::optional::apply(fn2<Val>("f", t), FWD(a), FWD(b)); }); });
              });
            }
        });
      });
    });
    for (long k = 0; k < sz.t3; ++k)
    {
      Table<Val> const t{table_random<Val>(3, rng)};
      for (long i = 0; i < ipow(count_of<OD>, 3); ++i)
      {
        std::vector<int> const cs{digits(i, 3, count_of<OD>)};
        OD const o1{dec<OD>(cs[0])}, o2{dec<OD>(cs[1])}, o3{dec<OD>(cs[2])};
        for (char const *c : cats_ternary)
          record("opt_apply", c, js(o1) + "," + js(o2) + "," + js(o3), ex_tf(t), [&]
          {
            return with_cat(c[0], o1, [&](auto &&a)
            {
              return with_cat(c[1], o2, [&](auto &&b)
              { return with_cat(c[2], o3, [&](auto &&cc) { return fcppt::optional::apply(fn3<Val>("f", t), FWD(a), FWD(b), FWD(cc)); }); });
            });
          });
      }
    }
  }
#endif
#if K(opt_maybe_multi)
  if (wanted("opt_maybe_multi"))
    for_tables<Val>(2, sz.t2 / 4, rng_for("opt_maybe_multi"), [&](Table<Val> const &t)
    {
      int const d = t.codes[0];
      for_values<OD>([&](OD const &o1)
      {
        for_values<OD>([&](OD const &o2)
        {
          for (char const *c1 = "lr"; *c1; ++c1)
            for (char const *c2 = "lr"; *c2; ++c2)
              record("opt_maybe_multi", std::string{*c1, *c2}, js(o1) + "," + js(o2), ex_d<Val>(d) + ex_tf(t), [&]
              {
                return with_cat(*c1, o1, [&](auto &&a)
                {
                  return with_cat(*c2, o2, [&](auto &&b)
                  { return fcppt::optional::maybe_multi(fn0<Val>("d", 0, d), fn2<Val>("f", t), FWD(a), FWD(b)); });
                });
              });
        });
      });
    });
  // the variadic forms with one optional (all 27 tables) and with three (seeded ternary tables)
  if (wanted("opt_maybe_multi"))
  {
    for_tables<Val>(1, 100, rng_for("opt_maybe_multi1"), [&](Table<Val> const &t)
    {
      int const d = t.codes[1];
      for_values<OD>([&](OD const &o)
      {
        for (char const *c = cats3; *c; ++c)
          record("opt_maybe_multi", std::string(1, *c), js(o), ex_d<Val>(d) + ex_tf(t), [&]
          { return with_cat(*c, o, [&](auto &&a) { return fcppt::optional::maybe_multi(fn0<Val>("d", 0, d), fn1<Val>("f", 0, t), FWD(a)); }); });
      });
    });
    vj::Rng rng{rng_for("opt_maybe_multi3")};
    for (long k = 0; k < sz.t3; ++k)
    {
      Table<Val> const t{table_random<Val>(3, rng)};
      int const d = static_cast<int>(rng.below(N));
      for (long i = 0; i < ipow(count_of<OD>, 3); ++i)
      {
        std::vector<int> const cs{digits(i, 3, count_of<OD>)};
        OD const o1{dec<OD>(cs[0])}, o2{dec<OD>(cs[1])}, o3{dec<OD>(cs[2])};
        for (char const *c : cats_ternary)
          record("opt_maybe_multi", c, js(o1) + "," + js(o2) + "," + js(o3), ex_d<Val>(d) + ex_tf(t), [&]
          {
            return with_cat(c[0], o1, [&](auto &&a)
            {
              return with_cat(c[1], o2, [&](auto &&b)
              {
                return with_cat(c[2], o3, [&](auto &&cc)
                { return fcppt::optional::maybe_multi(fn0<Val>("d", 0, d), fn3<Val>("f", t), FWD(a), FWD(b), FWD(cc)); });
              });
            });
          });
      }
    }
  }
#endif
#if K(opt_combine)
  if (wanted("opt_combine"))
    for_tables<Val>(2, sz.t2, rng_for("opt_combine"), [&](Table<Val> const &t)
    {
      for_values<OD>([&](OD const &o1)
      {
        for_values<OD>([&](OD const &o2)
        {
          for (char const *c1 = "lr"; *c1; ++c1)
            for (char const *c2 = "lr"; *c2; ++c2)
            {
              if (!sz.all_cats2 && *c1 != *c2) continue;
              record("opt_combine", std::string{*c1, *c2}, js(o1) + "," + js(o2), ex_tf(t), [&]
              {
                return with_cat(*c1, o1, [&](auto &&a)
                { return with_cat(*c2, o2, [&](auto &&b) { return fcppt::optional::combine(FWD(a), FWD(b), fn2<Val>("f", t)); }); });
              });
            }
        });
      });
    });
#endif
#if K(opt_cat) || K(opt_sequence)
  if (wanted("opt_cat") || wanted("opt_sequence"))
    for_seqs<OD>(sz.maxlen, [&](std::vector<OD> const &xs)
    {
      for (char const *c = cats3; *c; ++c)
      {
#if K(opt_cat)
        if (wanted("opt_cat"))
          record("opt_cat", std::string(1, *c), js(xs), "", [&]
          { return with_cat(*c, xs, [&](auto &&a) { return fcppt::optional::cat<std::vector<Val>>(FWD(a)); }); });
#endif
#if K(opt_sequence)
        if (wanted("opt_sequence"))
          record("opt_sequence", std::string(1, *c), js(xs), "", [&]
          { return with_cat(*c, xs, [&](auto &&a) { return fcppt::optional::sequence<std::vector<Val>>(FWD(a)); }); });
#endif
      }
    });
#endif
#if K(opt_sequence)
  // sequence over a TUPLE of optionals of three different types (detail/check_sequence.hpp, test
  // "optional::sequence tuple"): nothing in any position gives nothing, else the tuple of the values
  if (wanted("opt_sequence"))
  {
    using O1 = fcppt::optional::object<A1>;
    using O2 = fcppt::optional::object<A2>;
    using Src = fcppt::tuple::object<OD, O1, O2>;
    for_values<OD>([&](OD const &o0)
    {
      for_values<O1>([&](O1 const &o1)
      {
        for_values<O2>([&](O2 const &o2)
        {
          Src const src{o0, o1, o2};
          for (char const *c = cats3; *c; ++c)
            record("opt_sequence", std::string(1, *c), "[" + js(o0) + "," + js(o1) + "," + js(o2) + "]", ",\"pm\":\"tuple\"", [&]
            { return with_cat(*c, src, [&](auto &&a) { return fcppt::optional::sequence<SeqTuple>(FWD(a)); }); });
        });
      });
    });
  }
#endif
#if K(opt_eq) || K(opt_ne) || K(opt_less)
  if (wanted("opt_eq") || wanted("opt_ne") || wanted("opt_less"))
    for_values<OD>([&](OD const &x)
    {
      for_values<OD>([&](OD const &y)
      {
#if K(opt_eq)
        if (wanted("opt_eq")) record("opt_eq", "cc", js(x) + "," + js(y), "", [&] { return x == y; });
#endif
#if K(opt_ne)
        if (wanted("opt_ne")) record("opt_ne", "cc", js(x) + "," + js(y), "", [&] { return x != y; });
#endif
#if K(opt_less)
        if (wanted("opt_less")) record("opt_less", "cc", js(x) + "," + js(y), "", [&] { return x < y; });
#endif
      });
    });
#endif
}

void drive_either(Sizes const &sz)
{
#if K(eit_match)
  if (wanted("eit_match"))
    for_tables<Val>(1, 100, rng_for("eit_match"), [&](Table<Val> const &tf)
    {
      for_tables<Val>(1, 100, rng_for("eit_match"), [&](Table<Val> const &tg)
      {
        for_values<ED>([&](ED const &e)
        {
          for (char const *c = cats3; *c; ++c)
            record("eit_match", std::string(1, *c), js(e), ex_tf(tf) + ",\"tg\":" + tg.json(), [&]
            {
              return with_cat(*c, e, [&](auto &&a)
              { return fcppt::either::match(FWD(a), fn1<Val, Fv>("ff", 0, tf), fn1<Val, Val>("sf", 0, tg)); });
            });
        });
      });
    });
#endif
#if K(eit_map) || K(eit_map_failure)
  if (wanted("eit_map") || wanted("eit_map_failure"))
    for_tables<Val>(1, 100, rng_for("eit_map"), [&](Table<Val> const &t)
    {
      for_values<ED>([&](ED const &e)
      {
        for (char const *c = cats3; *c; ++c)
        {
#if K(eit_map)
          if (wanted("eit_map"))
            record("eit_map", std::string(1, *c), js(e), ex_tf(t), [&]
            { return with_cat(*c, e, [&](auto &&a) { return fcppt::either::map(FWD(a), fn1<Val>("f", 0, t)); }); });
#endif
#if K(eit_map_failure)
          if (wanted("eit_map_failure"))
          {
            Table<Fv> const tfail{t.arity, t.codes}; // same codes, failure-typed results
            record("eit_map_failure", std::string(1, *c), js(e), ex_tf(tfail), [&]
            { return with_cat(*c, e, [&](auto &&a) { return fcppt::either::map_failure(FWD(a), fn1<Fv, Fv>("f", 0, tfail)); }); });
          }
#endif
        }
      });
    });
#endif
#if K(eit_bind) || K(monad_bind_eit)
  if (wanted("eit_bind") || wanted("monad_bind_eit"))
    for_tables<ED>(1, 1000, rng_for("eit_bind"), [&](Table<ED> const &t)
    {
      for_values<ED>([&](ED const &e)
      {
        for (char const *c = cats3; *c; ++c)
        {
#if K(eit_bind)
          if (wanted("eit_bind"))
            record("eit_bind", std::string(1, *c), js(e), ex_tf(t), [&]
            { return with_cat(*c, e, [&](auto &&a) { return fcppt::either::bind(FWD(a), fn1<ED>("f", 0, t)); }); });
#endif
#if K(monad_bind_eit)
          if (wanted("monad_bind_eit"))
            record("monad_bind_eit", std::string(1, *c), js(e), ex_tf(t), [&]
            { return with_cat(*c, e, [&](auto &&a) { return fcppt::monad::bind(FWD(a), fn1<ED>("f", 0, t)); }); });
#endif
        }
      });
    });
#endif
  for_tables<Val>(1, 100, rng_for("eit_rref"), [&](Table<Val> const &t)
  {
    Table<Fv> const tfail{t.arity, t.codes};
    for_values<ED>([&](ED const &e)
    {
#if K(eit_map)
      if (wanted("eit_map"))
        record("eit_map", "r", js(e), ",\"pm\":\"rref\"" + ex_tf(t), [&] { ED a(e); return fcppt::either::map(std::move(a), fn1c<Val>("f", 0, t)); });
#endif
#if K(eit_map_failure)
      if (wanted("eit_map_failure"))
        record("eit_map_failure", "r", js(e), ",\"pm\":\"rref\"" + ex_tf(tfail), [&]
        { ED a(e); return fcppt::either::map_failure(std::move(a), fn1c<Fv, Fv>("f", 0, tfail)); });
#endif
#if K(eit_match)
      if (wanted("eit_match"))
        record("eit_match", "r", js(e), ",\"pm\":\"rref\"" + ex_tf(t) + ",\"tg\":" + t.json(), [&]
        { ED a(e); return fcppt::either::match(std::move(a), fn1c<Val, Fv>("ff", 0, t), fn1c<Val, Val>("sf", 0, t)); });
#endif
    });
  });
  for_tables<ED>(1, 1000, rng_for("eit_rref2"), [&](Table<ED> const &t)
  {
    for_values<ED>([&](ED const &e)
    {
#if K(eit_bind)
      if (wanted("eit_bind"))
        record("eit_bind", "r", js(e), ",\"pm\":\"rref\"" + ex_tf(t), [&] { ED a(e); return fcppt::either::bind(std::move(a), fn1c<ED>("f", 0, t)); });
#endif
    });
  });
#if K(eit_join)
  if (wanted("eit_join"))
    for_values<EED>([&](EED const &e)
    {
      for (char const *c = cats3; *c; ++c)
        record("eit_join", std::string(1, *c), js(e), "", [&]
        { return with_cat(*c, e, [&](auto &&a) { return fcppt::either::join(FWD(a)); }); });
    });
#endif
#if K(eit_apply)
  if (wanted("eit_apply"))
  {
    vj::Rng rng{rng_for("eit_apply3")};
    for_tables<Val>(1, 100, rng_for("eit_apply"), [&](Table<Val> const &t)
    {
      for_values<ED>([&](ED const &e)
      {
        for (char const *c = cats3; *c; ++c)
          record("eit_apply", std::string(1, *c), js(e), ex_tf(t), [&]
          { return with_cat(*c, e, [&](auto &&a) { return fcppt::either::apply(fn1<Val>("f", 0, t), FWD(a)); }); });
      });
    });
    for_tables<Val>(2, sz.t2_eit, rng_for("eit_apply"), [&](Table<Val> const &t)
    {
      for_values<ED>([&](ED const &e1)
      {
        for_values<ED>([&](ED const &e2)
        {
          for (char const *c1 = "lr"; *c1; ++c1)
            for (char const *c2 = "lr"; *c2; ++c2)
              record("eit_apply", std::string{*c1, *c2}, js(e1) + "," + js(e2), ex_tf(t), [&]
              {
                return with_cat(*c1, e1, [&](auto &&a)
                { return with_cat(*c2, e2, [&](auto &&b) { return fcppt::either::apply(fn2<Val>("f", t), FWD(a), FWD(b)); }); });
              });
        });
      });
    });
    for (long k = 0; k < sz.t3; ++k)
    {
      Table<Val> const t{table_random<Val>(3, rng)};
      for (long i = 0; i < ipow(count_of<ED>, 3); ++i)
      {
        std::vector<int> const cs{digits(i, 3, count_of<ED>)};
        ED const e1{dec<ED>(cs[0])}, e2{dec<ED>(cs[1])}, e3{dec<ED>(cs[2])};
        for (char const *c : cats_ternary)
          record("eit_apply", c, js(e1) + "," + js(e2) + "," + js(e3), ex_tf(t), [&]
          {
            return with_cat(c[0], e1, [&](auto &&a)
            {
              return with_cat(c[1], e2, [&](auto &&b)
              { return with_cat(c[2], e3, [&](auto &&cc) { return fcppt::either::apply(fn3<Val>("f", t), FWD(a), FWD(b), FWD(cc)); }); });
            });
          });
      }
    }
  }
#endif
#if K(eit_sequence) || K(eit_first_success)
  if (wanted("eit_sequence") || wanted("eit_first_success"))
    for_seqs<ED>(sz.maxlen, [&](std::vector<ED> const &xs)
    {
      // either::sequence's requires-clause applies type_traits::value_type to Source without
      // removing the reference, so it can only be called with an rvalue source (lvalues are
      // rejected at compile time); only that category exists to be driven.
#if K(eit_sequence)
      if (wanted("eit_sequence"))
        record("eit_sequence", "r", js(xs), "", [&]
        {
          std::vector<ED> copy(xs);
          return fcppt::either::sequence<std::vector<Val>>(std::move(copy));
        });
#endif
      // lvalue categories: only if the tree under test accepts them
#if K(eit_sequence)
      if (wanted("eit_sequence"))
        [&](auto const &cxs)
        {
          if constexpr (requires { fcppt::either::sequence<std::vector<Val>>(cxs); })
          {
            record("eit_sequence", "c", js(xs), "", [&] { return fcppt::either::sequence<std::vector<Val>>(cxs); });
            record("eit_sequence", "l", js(xs), "", [&]
            {
              std::remove_cvref_t<decltype(cxs)> copy(cxs);
              return fcppt::either::sequence<std::vector<Val>>(copy);
            });
          }
        }(xs);
#endif
#if K(eit_first_success)
      if (wanted("eit_first_success"))
      {
        using function_type = fcppt::function<ED()>;
        std::vector<function_type> fns;
        for (std::size_t i = 0; i < xs.size(); ++i)
          fns.push_back(function_type{[i, &xs]() -> ED
          {
            log_call("g", static_cast<int>(i) + 1, "");
            return xs[i];
          }});
        record("eit_first_success", "c", js(xs), "", [&] { return fcppt::either::first_success(fns); });
      }
#endif
    });
#endif
#if K(eit_loop)
  if (wanted("eit_loop"))
    // scripts: k successes followed by a failure (the precondition of loop: _next eventually fails)
    for (int k = 0; k <= sz.maxlen; ++k)
      for (long i = 0; i < ipow(N, k + 1); ++i)
      {
        std::vector<int> const ds{digits(i, k + 1, N)};
        std::vector<ED> script;
        for (int j = 0; j < k; ++j) script.push_back(ED{Val(ds[static_cast<std::size_t>(j)])});
        script.push_back(ED{Fv(ds[static_cast<std::size_t>(k)])});
        record("eit_loop", "", js(script), "", [&]
        {
          std::size_t pos = 0;
          return fcppt::either::loop(
              [&]() -> ED
              {
                log_call("n", 0, "");
                return script.at(pos++);
              },
              [](Val x) { log_call("l", 0, js(x)); });
        });
      }
#endif
#if K(eit_from_optional)
  if (wanted("eit_from_optional"))
    for_values<OD>([&](OD const &o)
    {
      for (int d = 0; d < N; ++d)
        for (char const *c = cats3; *c; ++c)
          record("eit_from_optional", std::string(1, *c), js(o), ex_d<Fv>(d), [&]
          { return with_cat(*c, o, [&](auto &&a) { return fcppt::either::from_optional(FWD(a), fn0<Fv>("ff", 0, d)); }); });
    });
#endif
#if K(eit_try_call)
  if (wanted("eit_try_call"))
    for_tables<Fv>(1, 100, rng_for("eit_try_call"), [&](Table<Fv> const &t)
    {
      for_values<Outcome>([&](Outcome const &o)
      {
        record("eit_try_call", "", js(o), ex_tf(t), [&]
        {
          return fcppt::either::try_call<Exc>(
              [&o]() -> Val
              {
                log_call("g", 0, "");
                if (o.throws) throw Exc{o.v};
                return Val(o.v);
              },
              [&t](Exc const &ex) -> Fv
              {
                log_call("te", 0, std::to_string(ex.e));
                return t.at({ex.e});
              });
        });
        // "an exception e of type Exception": an object of a class derived from Exception is one
        if (o.throws)
          record("eit_try_call", "derived", js(o), ex_tf(t), [&]
          {
            return fcppt::either::try_call<Exc>(
                [&o]() -> Val
                {
                  log_call("g", 0, "");
                  throw ExcDerived{o.v};
                },
                [&t](Exc const &ex) -> Fv
                {
                  log_call("te", 0, std::to_string(ex.code()));
                  return t.at({ex.code()});
                });
          });
      });
    });
#endif
#if K(eit_success_opt) || K(eit_failure_opt)
  if (wanted("eit_success_opt") || wanted("eit_failure_opt"))
    for_values<ED>([&](ED const &e)
    {
      for (char const *c = cats3; *c; ++c)
      {
#if K(eit_success_opt)
        if (wanted("eit_success_opt"))
          record("eit_success_opt", std::string(1, *c), js(e), "", [&]
          { return with_cat(*c, e, [&](auto &&a) { return fcppt::either::success_opt(FWD(a)); }); });
#endif
#if K(eit_failure_opt)
        if (wanted("eit_failure_opt"))
          record("eit_failure_opt", std::string(1, *c), js(e), "", [&]
          { return with_cat(*c, e, [&](auto &&a) { return fcppt::either::failure_opt(FWD(a)); }); });
#endif
      }
    });
#endif
#if K(eit_eq) || K(eit_ne)
  if (wanted("eit_eq") || wanted("eit_ne"))
    for_values<ED>([&](ED const &x)
    {
      for_values<ED>([&](ED const &y)
      {
#if K(eit_eq)
        if (wanted("eit_eq")) record("eit_eq", "cc", js(x) + "," + js(y), "", [&] { return x == y; });
#endif
#if K(eit_ne)
        if (wanted("eit_ne")) record("eit_ne", "cc", js(x) + "," + js(y), "", [&] { return x != y; });
#endif
      });
    });
#endif
}

// a visitor table for variant::apply over `arity` variants with `tags` alternatives each: the entry
// for (t_1,x_1,...,t_n,x_n) (tags 0-based here) is codes[idx] with idx = fold (idx*tags + t)*N + x;
// JSON nested as [tag][x]([tag][x]...)
struct Vis
{
  int arity;
  std::vector<int> codes;
  int tags = 3;
  long size() const { return ipow(static_cast<long>(tags) * N, arity); }
  std::string json_from(int depth, long &pos) const
  {
    if (depth == 2 * arity) return std::to_string(codes[static_cast<std::size_t>(pos++)]);
    int const width = depth % 2 == 0 ? tags : N;
    std::string s = "[";
    for (int i = 0; i < width; ++i)
    {
      if (i != 0) s += ',';
      s += json_from(depth + 1, pos);
    }
    return s + "]";
  }
  std::string json() const
  {
    long pos = 0;
    return json_from(0, pos);
  }
  // tx = {t_1, x_1, ..., t_n, x_n}, tags 1-based; values outside the domain are looked up as 0 (the
  // argument itself is logged by the caller and judged by TLC)
  int at(std::vector<int> const &tx) const
  {
    long idx = 0;
    for (std::size_t i = 0; i < tx.size(); i += 2)
      idx = (idx * tags + (tx[i] - 1)) * N + (tx[i + 1] >= 0 && tx[i + 1] < N ? tx[i + 1] : 0);
    return codes[static_cast<std::size_t>(idx)];
  }
  static Vis random(int arity, int tags, vj::Rng &rng)
  {
    Vis v{arity, {}, tags};
    for (long i = 0; i < v.size(); ++i) v.codes.push_back(static_cast<int>(rng.below(N)));
    return v;
  }
};
int in_dom(int x) { return x >= 0 && x < N ? x : 0; }

template <typename T>
struct tag_of;
template <int K>
struct tag_of<Alt<K>>
{
  static constexpr int value = K;
};

void drive_variant(Sizes const &sz)
{
#if K(var_match)
  if (wanted("var_match"))
  {
    vj::Rng rng{rng_for("var_match")};
    long const per = table_count<Val>(1); // 27
    long const total = per * per * per;
    bool const all = sz.match_tables >= total;
    long const n = all ? total : sz.match_tables;
    for (long k = 0; k < n; ++k)
    {
      long const idx = all ? k : static_cast<long>(rng.below(static_cast<std::uint64_t>(total)));
      Table<Val> const t1{table_by_index<Val>(1, idx % per)}, t2{table_by_index<Val>(1, (idx / per) % per)},
          t3{table_by_index<Val>(1, idx / per / per)};
      std::string const tabs = ",\"tf\":[" + t1.json() + "," + t2.json() + "," + t3.json() + "]";
      for_values<VD>([&](VD const &v)
      {
        for (char const *c = cats3; *c; ++c)
          record("var_match", std::string(1, *c), js(v), tabs, [&]
          {
            return with_cat(*c, v, [&](auto &&a)
            { return fcppt::variant::match(FWD(a), fn1<Val, A1>("f", 1, t1), fn1<Val, A2>("f", 2, t2), fn1<Val, A3>("f", 3, t3)); });
          });
      });
    }
  }
#endif
#if K(var_match)
  if (wanted("var_match"))
  {
    vj::Rng rng{rng_for("var_match_rref")};
    for (int k = 0; k < 20; ++k)
    {
      Table<Val> const t1{table_random<Val>(1, rng)}, t2{table_random<Val>(1, rng)}, t3{table_random<Val>(1, rng)};
      std::string const tabs = ",\"pm\":\"rref\",\"tf\":[" + t1.json() + "," + t2.json() + "," + t3.json() + "]";
      for_values<VD>([&](VD const &v)
      {
        record("var_match", "r", js(v), tabs, [&]
        {
          VD a(v);
          return fcppt::variant::match(std::move(a), fn1c<Val, A1>("f", 1, t1), fn1c<Val, A2>("f", 2, t2), fn1c<Val, A3>("f", 3, t3));
        });
      });
    }
  }
#endif
#if K(var_apply)
  if (wanted("var_apply"))
  {
    vj::Rng rng{rng_for("var_apply")};
    for (long k = 0; k < sz.vis1; ++k)
    {
      Vis vis{1, {}};
      for (int i = 0; i < 3 * N; ++i) vis.codes.push_back(static_cast<int>(rng.below(N)));
      for_values<VD>([&](VD const &v)
      {
        for (char const *c = cats3; *c; ++c)
          record("var_apply", std::string(1, *c), js(v), ",\"tf\":" + vis.json(), [&]
          {
            return with_cat(*c, v, [&](auto &&a)
            {
              return fcppt::variant::apply(
                  [&vis](auto const &x) -> Val
                  {
                    constexpr int tag = tag_of<std::remove_cvref_t<decltype(x)>>::value;
                    log_call("f", 0, js_tagged(x));
                    return Val(vis.codes[static_cast<std::size_t>((tag - 1) * N + in_dom(x.v))]);
                  },
                  FWD(a));
            });
          });
      });
    }
    for (long k = 0; k < sz.vis2; ++k)
    {
      Vis vis{2, {}};
      for (int i = 0; i < 9 * N * N; ++i) vis.codes.push_back(static_cast<int>(rng.below(N)));
      for_values<VD>([&](VD const &v1)
      {
        for_values<VD>([&](VD const &v2)
        {
          for (char const *c : {"ll", "rr", "lr", "cl"})
            record("var_apply", c, js(v1) + "," + js(v2), ",\"tf\":" + vis.json(), [&]
            {
              return with_cat(c[0], v1, [&](auto &&a)
              {
                return with_cat(c[1], v2, [&](auto &&b)
                {
                  return fcppt::variant::apply(
                      [&vis](auto const &x, auto const &y) -> Val
                      {
                        constexpr int t1 = tag_of<std::remove_cvref_t<decltype(x)>>::value;
                        constexpr int t2 = tag_of<std::remove_cvref_t<decltype(y)>>::value;
                        log_call("f", 0, js_tagged(x) + "," + js_tagged(y));
                        return Val(vis.codes[static_cast<std::size_t>((((t1 - 1) * N + in_dom(x.v)) * 3 + (t2 - 1)) * N + in_dom(y.v))]);
                      },
                      FWD(a), FWD(b));
                });
              });
            });
        });
      });
    }
    // three variants (lvalues / rvalues), and one variant with four alternatives
    for (long k = 0; k < std::min<long>((sz.vis2 + 2) / 3, 4); ++k)
    {
      Vis const vis{Vis::random(3, 3, rng)};
      auto const visitor = [&vis](auto const &x, auto const &y, auto const &z) -> Val
      {
        constexpr int t1 = tag_of<std::remove_cvref_t<decltype(x)>>::value;
        constexpr int t2 = tag_of<std::remove_cvref_t<decltype(y)>>::value;
        constexpr int t3 = tag_of<std::remove_cvref_t<decltype(z)>>::value;
        log_call("f", 0, js_tagged(x) + "," + js_tagged(y) + "," + js_tagged(z));
        return Val(vis.at({t1, x.v, t2, y.v, t3, z.v}));
      };
      std::string const tj = ",\"tf\":" + vis.json();
      for (long i = 0; i < ipow(count_of<VD>, 3); ++i)
      {
        std::vector<int> const cs{digits(i, 3, count_of<VD>)};
        VD const v1{dec<VD>(cs[0])}, v2{dec<VD>(cs[1])}, v3{dec<VD>(cs[2])};
        std::string const args = js(v1) + "," + js(v2) + "," + js(v3);
        record("var_apply", "lll", args, tj, [&]
        {
          VD a(v1), b(v2), c(v3);
          return fcppt::variant::apply(visitor, a, b, c);
        });
        record("var_apply", "rrr", args, tj, [&]
        {
          VD a(v1), b(v2), c(v3);
          return fcppt::variant::apply(visitor, std::move(a), std::move(b), std::move(c));
        });
      }
    }
    for (long k = 0; k < sz.vis1 / 4; ++k)
    {
      Vis const vis{Vis::random(1, 4, rng)};
      for_values<VD4>([&](VD4 const &v)
      {
        for (char const *c = cats3; *c; ++c)
          record("var_apply", std::string(1, *c), js(v), ",\"tf\":" + vis.json(), [&]
          {
            return with_cat(*c, v, [&](auto &&a)
            {
              return fcppt::variant::apply(
                  [&vis](auto const &x) -> Val
                  {
                    constexpr int tag = tag_of<std::remove_cvref_t<decltype(x)>>::value;
                    log_call("f", 0, js_tagged(x));
                    return Val(vis.at({tag, x.v}));
                  },
                  FWD(a));
            });
          });
      });
    }
  }
#endif
#if K(var_to_optional) || K(var_holds_type)
  if (wanted("var_to_optional") || wanted("var_holds_type"))
    for_values<VD>([&](VD const &v)
    {
      for (char const *c = cats3; *c; ++c)
      {
#if K(var_to_optional)
        if (wanted("var_to_optional"))
        {
          record("var_to_optional", std::string(1, *c), js(v), ",\"i\":1", [&]
          { return with_cat(*c, v, [&](auto &&a) { return fcppt::variant::to_optional<A1>(FWD(a)); }); });
          record("var_to_optional", std::string(1, *c), js(v), ",\"i\":2", [&]
          { return with_cat(*c, v, [&](auto &&a) { return fcppt::variant::to_optional<A2>(FWD(a)); }); });
          record("var_to_optional", std::string(1, *c), js(v), ",\"i\":3", [&]
          { return with_cat(*c, v, [&](auto &&a) { return fcppt::variant::to_optional<A3>(FWD(a)); }); });
        }
#endif
      }
#if K(var_holds_type)
      if (wanted("var_holds_type"))
      {
        record("var_holds_type", "c", js(v), ",\"i\":1", [&] { return fcppt::variant::holds_type<A1>(v); });
        record("var_holds_type", "c", js(v), ",\"i\":2", [&] { return fcppt::variant::holds_type<A2>(v); });
        record("var_holds_type", "c", js(v), ",\"i\":3", [&] { return fcppt::variant::holds_type<A3>(v); });
      }
#endif
    });
#endif
#if K(var_compare)
  if (wanted("var_compare"))
  {
    auto const run = [&](auto tag, long count, char const *stream)
    {
      using V = typename decltype(tag)::type;
      constexpr int tags = count_of<V> / N;
      vj::Rng rng{rng_for(stream)};
      for (long k = 0; k < count; ++k)
      {
        // predicate table c[tag][x][y]; the first four are ==, !=, true, false
        std::vector<int> codes;
        for (int t = 0; t < tags; ++t)
          for (int x = 0; x < N; ++x)
            for (int y = 0; y < N; ++y)
              codes.push_back(k == 0 ? (x == y) : k == 1 ? (x != y) : k == 2 ? 1 : k == 3 ? 0 : static_cast<int>(rng.below(2)));
        std::string tj = "[";
        for (int t = 0; t < tags; ++t)
        {
          tj += t ? ",[" : "[";
          for (int x = 0; x < N; ++x)
          {
            tj += x ? ",[" : "[";
            for (int y = 0; y < N; ++y) tj += std::string(y ? "," : "") + (codes[static_cast<std::size_t>((t * N + x) * N + y)] ? "true" : "false");
            tj += "]";
          }
          tj += "]";
        }
        tj += "]";
        for_values<V>([&](V const &v1)
        {
          for_values<V>([&](V const &v2)
          {
            record("var_compare", "cc", js(v1) + "," + js(v2), ",\"tf\":" + tj, [&]
            {
              return fcppt::variant::compare(v1, v2, [&codes](auto const &x, auto const &y) -> bool
              {
                static_assert(std::is_same_v<decltype(x), decltype(y)>);
                constexpr int tg = tag_of<std::remove_cvref_t<decltype(x)>>::value;
                log_call("c", tg, js(x) + "," + js(y));
                return codes[static_cast<std::size_t>(((tg - 1) * N + in_dom(x.v)) * N + in_dom(y.v))] != 0;
              });
            });
          });
        });
      }
    };
    struct tag3 { using type = VD; };
    struct tag4 { using type = VD4; };
    run(tag3{}, sz.cmp, "var_compare");
    run(tag4{}, 4 + sz.cmp / 8, "var_compare4"); // four alternatives: ==, !=, true, false and a few random ones
  }
#endif
#if K(var_eq) || K(var_ne) || K(var_less)
  if (wanted("var_eq") || wanted("var_ne") || wanted("var_less"))
    for_values<VD>([&](VD const &x)
    {
      for_values<VD>([&](VD const &y)
      {
#if K(var_eq)
        if (wanted("var_eq")) record("var_eq", "cc", js(x) + "," + js(y), "", [&] { return x == y; });
#endif
#if K(var_ne)
        if (wanted("var_ne")) record("var_ne", "cc", js(x) + "," + js(y), "", [&] { return x != y; });
#endif
#if K(var_less)
        if (wanted("var_less")) record("var_less", "cc", js(x) + "," + js(y), "", [&] { return x < y; });
#endif
      });
    });
#endif
}

// the accessors of variant::object: type_index() / is_invalid() (the tag of the tagged union) and
// get_unsafe<T>() for the held type T (member, const and non-const, and the free function)
template <typename V>
void drive_accessors()
{
  for_values<V>([&](V const &v)
  {
#if K(var_index)
    if (wanted("var_index"))
      record_raw("var_index", "c", js(v), "", [&]
      { return "{\"idx\":" + std::to_string(reported_index(v)) + ",\"invalid\":" + js(v.is_invalid()) + "}"; });
#endif
#if K(var_get)
    if (wanted("var_get"))
      std::visit(
          [&](auto const &held)
          {
            using H = std::remove_cvref_t<decltype(held)>;
            record("var_get", "c", js(v), ",\"pm\":\"member\"", [&] { return v.template get_unsafe<H>(); });
            record("var_get", "l", js(v), ",\"pm\":\"member\"", [&] { V w(v); return w.template get_unsafe<H>(); });
            record("var_get", "c", js(v), ",\"pm\":\"free\"", [&] { return fcppt::variant::get_unsafe<H>(v); });
            record("var_get", "l", js(v), ",\"pm\":\"free\"", [&] { V w(v); return fcppt::variant::get_unsafe<H>(w); });
          },
          v.impl());
#endif
  });
}

// ------------------------------------------------------------------ extension round
// class lattice for variant::dynamic_cast_: ids 1, 2 are the possible target types
struct base
{
  base() = default;
  base(base const &) = delete;
  base &operator=(base const &) = delete;
  virtual ~base() = default;
};
struct d1 : virtual base {};
struct d2 : virtual base {};
struct d3 : virtual base {};
struct d1child : d1 {};
struct d12 : d1, d2 {};

// code points of an output text; anything that is not a code point is clamped (TLC integers are 32-bit)
template <typename S>
std::string text_of(S const &s)
{
  std::string r = "[";
  bool first = true;
  for (auto c : s)
  {
    if (!first) r += ',';
    first = false;
    auto const u = static_cast<unsigned long long>(static_cast<std::make_unsigned_t<decltype(c)>>(c));
    r += std::to_string(u <= 0x10FFFFULL ? u : 0x110000ULL);
  }
  return r + "]";
}

// outcome of a call that returns a value or throws Exc
template <typename Call>
std::string outcome_js(Call const &call)
{
  try
  {
    auto const r = call();
    return "{\"t\":\"ret\",\"v\":" + js(r) + "}";
  }
  catch (Exc const &e)
  {
    return "{\"t\":\"throw\",\"v\":" + std::to_string(e.e) + "}";
  }
}
// a record whose result is produced as JSON text by the body itself
template <typename Body>
void record_raw(char const *f, std::string const &cat, std::string const &args, std::string const &extra, Body const &body)
{
  record_guarded(f, cat, args, extra, [&body]() -> std::string { return body(); });
}
std::string store_js(std::array<Val, N> const &cells)
{
  std::string s = "[";
  for (int i = 0; i < N; ++i) s += (i ? "," : "") + js(cells[static_cast<std::size_t>(i)]);
  return s + "]";
}
#if K(opt_from_pointer) || K(opt_to_pointer) || K(opt_deref) || K(opt_copy_value) || K(opt_ref_write)
using oref = fcppt::optional::reference<Val>;
// 1-based index of the cell a pointer designates; anything outside the store is clamped to 99 (an
// absurd address must reach the judge as a wrong result, not as an integer TLC cannot read)
long cell_index(Val const *p, std::array<Val, N> const &cells)
{
  for (int i = 0; i < N; ++i)
    if (p == &cells[static_cast<std::size_t>(i)]) return i + 1;
  return 99;
}
std::string ref_js(oref const &o, std::array<Val, N> const &cells)
{
  if (!o.has_value()) return "{\"t\":\"none\"}";
  return "{\"t\":\"some\",\"v\":{\"ref\":" + std::to_string(cell_index(&o.get_unsafe().get(), cells)) + "}}";
}
#endif

void drive_ext(Sizes const &sz)
{
  (void)sz;
  // ---- pointers and references over a store of N cells
#if K(opt_from_pointer) || K(opt_to_pointer) || K(opt_deref) || K(opt_copy_value) || K(opt_ref_write)
  for (long st = 0; st < ipow(N, N); ++st)
  {
    std::vector<int> const cs{digits(st, N, N)};
    auto const fresh = [&cs] { return std::array<Val, N>{Val(cs[0]), Val(cs[1]), Val(cs[2])}; };
    std::string const stj = ",\"st\":[" + std::to_string(cs[0]) + "," + std::to_string(cs[1]) + "," + std::to_string(cs[2]) + "]";
    for (int p = 0; p <= N; ++p)
    {
      std::array<Val, N> cells{fresh()};
      Val *const ptr = p == 0 ? nullptr : &cells[static_cast<std::size_t>(p - 1)];
      oref const o{p == 0 ? oref{} : oref{fcppt::make_ref(cells[static_cast<std::size_t>(p - 1)])}};
      std::string const oj = ref_js(o, cells);
      if (st == 0)
      {
#if K(opt_from_pointer)
        if (wanted("opt_from_pointer"))
          record_raw("opt_from_pointer", "", std::to_string(p), "", [&] { return ref_js(fcppt::optional::from_pointer(ptr), cells); });
#endif
#if K(opt_to_pointer)
        if (wanted("opt_to_pointer"))
          record_raw("opt_to_pointer", "", oj, "", [&]
          {
            Val *const r = fcppt::optional::to_pointer(o);
            return std::to_string(r == nullptr ? 0 : cell_index(r, cells));
          });
#endif
#if K(opt_deref)
        if (wanted("opt_deref"))
        {
          using optr = fcppt::optional::object<Val *>;
          optr const op{p == 0 ? optr{} : optr{ptr}};
          record_raw("opt_deref", "", p == 0 ? std::string{"{\"t\":\"none\"}"} : "{\"t\":\"some\",\"v\":" + std::to_string(p) + "}", "",
                     [&] { return ref_js(fcppt::optional::deref(op), cells); });
        }
#endif
      }
#if K(opt_copy_value)
      if (wanted("opt_copy_value"))
        record("opt_copy_value", "", oj, stj, [&] { return fcppt::optional::copy_value(o); });
#endif
#if K(opt_ref_write)
      if (wanted("opt_ref_write"))
        for (int y = 0; y < N; ++y)
        {
          std::array<Val, N> cells2{fresh()};
          oref const o2{p == 0 ? oref{} : oref{fcppt::make_ref(cells2[static_cast<std::size_t>(p - 1)])}};
          oref const alias{o2}; // a copy of the optional reference refers to the same cell
          record_raw("opt_ref_write", "", oj, stj + ex_d<Val>(y), [&]
          {
            fcppt::optional::maybe_void(alias, [y](fcppt::reference<Val> const r) { r.get() = Val(y); });
            return store_js(cells2);
          });
        }
#endif
    }
  }
#endif
  // ---- value semantics, assign, nothing, make, to_exception, output
  for_values<OD>([&](OD const &o)
  {
    for (int y = 0; y < N; ++y)
    {
#if K(opt_value_copy_write)
      if (wanted("opt_value_copy_write"))
        record_raw("opt_value_copy_write", "", js(o), ex_d<Val>(y), [&]
        {
          OD copy{o};
          fcppt::optional::maybe_void(copy, [y](Val &v) { v = Val(y); });
          return "[" + js(o) + "," + js(copy) + "]";
        });
#endif
#if K(opt_assign)
      if (wanted("opt_assign"))
        for (int x = 0; x < N; ++x)
          // assign's requires-clause compares Element with remove_cv_t<Arg> (a reference type for
          // lvalues), so only an rvalue argument is accepted
          for (char const *c = "r"; *c; ++c)
            record_raw("opt_assign", std::string(1, *c), js(o), ",\"x\":" + std::to_string(x) + ex_d<Val>(y), [&]
            {
              OD target{o};
              Val arg(x);
              Val &r = fcppt::optional::assign(target, std::move(arg));
              std::string const seen = js(r);
              r = Val(y);
              return "{\"ret\":" + seen + ",\"opt\":" + js(target) + "}";
            });
#endif
#if K(opt_to_exception)
      if (wanted("opt_to_exception"))
        for (char const *c = cats3; *c; ++c)
          record_raw("opt_to_exception", std::string(1, *c), js(o), ex_d<Val>(y), [&]
          {
            return outcome_js([&]
            {
              return with_cat(*c, o, [&](auto &&a) -> Val
              {
                return fcppt::optional::to_exception(FWD(a), [y]
                {
                  log_call("mk", 0, "");
                  return Exc{y};
                });
              });
            });
          });
#endif
    }
#if K(opt_output)
    if (wanted("opt_output"))
    {
      record_raw("opt_output", "char", js(o), "", [&]
      {
        std::ostringstream s;
        s << o;
        return text_of(s.str());
      });
      record_raw("opt_output", "wchar_t", js(o), "", [&]
      {
        std::wostringstream s;
        s << o;
        return text_of(s.str());
      });
    }
#endif
  });
#if K(optopt_output)
  if (wanted("optopt_output"))
    for_values<OOD>([&](OOD const &o)
    {
      record_raw("optopt_output", "char", js(o), "", [&]
      {
        std::ostringstream s;
        s << o;
        return text_of(s.str());
      });
    });
#endif
#if K(opt_nothing)
  if (wanted("opt_nothing"))
  {
    record("opt_nothing", "", "", "", [] { OD const o = fcppt::optional::nothing{}; return o; });
    record("opt_nothing", "", "", "", [] { OOD const o = fcppt::optional::nothing{}; return o; });
  }
#endif
  for (int x = 0; x < N; ++x)
  {
    for (char const *c = "cr"; *c; ++c)
    {
      Val arg(x);
#if K(opt_make)
      if (wanted("opt_make"))
        record("opt_make", std::string(1, *c), std::to_string(x), "", [&] { Val a(arg); return *c == 'c' ? fcppt::optional::make(std::as_const(a)) : fcppt::optional::make(std::move(a)); });
#endif
#if K(eit_make_success)
      if (wanted("eit_make_success"))
        record("eit_make_success", std::string(1, *c), std::to_string(x), "", [&] { Val a(arg); return *c == 'c' ? fcppt::either::make_success<Fv>(std::as_const(a)) : fcppt::either::make_success<Fv>(std::move(a)); });
#endif
#if K(eit_make_failure)
      if (wanted("eit_make_failure"))
        record("eit_make_failure", std::string(1, *c), std::to_string(x), "", [&] { Fv a(x); return *c == 'c' ? fcppt::either::make_failure<Val>(std::as_const(a)) : fcppt::either::make_failure<Val>(std::move(a)); });
#endif
#if K(monad_return_opt)
      if (wanted("monad_return_opt"))
        // monad::instance<...>::return_ constrains Value (not remove_cvref_t<Value>) to be an object
        // type, so only rvalues are accepted
        record("monad_return_opt", "r", std::to_string(x), "", [&] { Val a(arg); return fcppt::monad::return_<OD>(std::move(a)); });
#endif
#if K(monad_return_eit)
      if (wanted("monad_return_eit"))
        record("monad_return_eit", "r", std::to_string(x), "", [&] { Val a(arg); return fcppt::monad::return_<ED>(std::move(a)); });
#endif
    }
#if K(eit_construct)
    if (wanted("eit_construct"))
      for (int y = 0; y < N; ++y)
        for (int b = 0; b < 2; ++b)
          record("eit_construct", "", js(b != 0), ",\"x\":" + std::to_string(x) + ex_d<Fv>(y),
                 [&] { return fcppt::either::construct(b != 0, fn0<Val>("s", 0, x), fn0<Fv>("f", 0, y)); });
#endif
  }
  // ---- either
#if K(eit_error_from_optional)
  if (wanted("eit_error_from_optional"))
    for_values<fcppt::optional::object<Fv>>([&](fcppt::optional::object<Fv> const &o)
    {
      for (char const *c = cats3; *c; ++c)
        record("eit_error_from_optional", std::string(1, *c), js(o), "", [&]
        { return with_cat(*c, o, [&](auto &&a) { return fcppt::either::error_from_optional(FWD(a)); }); });
    });
#endif
  for_values<ED>([&](ED const &e)
  {
#if K(eit_to_exception)
    if (wanted("eit_to_exception"))
      for_tables<Val>(1, 100, rng_for("eit_to_exception"), [&](Table<Val> const &t)
      {
        for (char const *c = cats3; *c; ++c)
          record_raw("eit_to_exception", std::string(1, *c), js(e), ex_tf(t), [&]
          {
            return outcome_js([&]
            {
              return with_cat(*c, e, [&](auto &&a) -> Val
              {
                return fcppt::either::to_exception(FWD(a), [&t](Fv f)
                {
                  log_call("mk", 0, js(f));
                  return Exc{t.at({f.v}).v};
                });
              });
            });
          });
      });
#endif
#if K(eit_output)
    if (wanted("eit_output"))
      record_raw("eit_output", "char", js(e), "", [&]
      {
        std::ostringstream s;
        s << e;
        return text_of(s.str());
      });
#endif
  });
#if K(eit_sequence_error)
  if (wanted("eit_sequence_error"))
    for_tables<UE>(1, 100, rng_for("eit_sequence_error"), [&](Table<UE> const &t)
    {
      for_seqs<Val>(sz.maxlen, [&](std::vector<Val> const &xs)
      {
        for (char const *c = cats3; *c; ++c)
          record("eit_sequence_error", std::string(1, *c), js(xs), ex_tf(t), [&]
          {
            return with_cat(*c, xs, [&](auto &&a)
            { return fcppt::either::sequence_error(FWD(a), fn1<UE>("f", 0, t)); });
          });
      });
    });
#endif
  // ---- variant: assignment between alternatives, references, output, four alternatives
  auto const assign_records = [&](auto tag)
  {
    using V = typename decltype(tag)::type;
    for_values<V>([&](V const &v)
    {
      for_values<V>([&](V const &w)
      {
#if K(var_assign) || K(var_assign_src)
        // every assignment is recorded twice: the target afterwards (var_assign) and the index the
        // source reports afterwards (var_assign_src; 0 = invalid)
        {
          auto const both = [&](char const *cat, auto const &run)
          {
#if K(var_assign)
            if (wanted("var_assign"))
              record_raw("var_assign", cat, js(v) + "," + js(w), "", [&] { return run(true); });
#endif
#if K(var_assign_src)
            if (wanted("var_assign_src"))
              record_raw("var_assign_src", cat, js(v) + "," + js(w), "", [&] { return run(false); });
#endif
          };
          auto const src_index = [](V const &src) { return std::to_string(src.is_invalid() ? 0 : reported_index(src)); };
          both("copy", [&](bool const want_dst)
          {
            V dst{v};
            V const src{w};
            dst = src;
            return want_dst ? js(dst) : src_index(src);
          });
          both("move", [&](bool const want_dst)
          {
            V dst{v};
            V src{w};
            dst = std::move(src);
            return want_dst ? js(dst) : src_index(src);
          });
          both("move-construct", [&](bool const want_dst)
          {
            V src{w};
            V const dst{std::move(src)};
            return want_dst ? js(dst) : src_index(src);
          });
        }
#endif
      });
#if K(var_output)
      if (wanted("var_output"))
        record_raw("var_output", "char", js(v), "", [&]
        {
          std::ostringstream s;
          s << v;
          return text_of(s.str());
        });
#endif
    });
  };
  struct tag3 { using type = VD; };
  struct tag4 { using type = VD4; };
  assign_records(tag3{});
  assign_records(tag4{});
  for_values<VD4>([&](VD4 const &v)
  {
#if K(var_holds_type)
    if (wanted("var_holds_type"))
    {
      record("var_holds_type", "c", js(v), ",\"i\":1", [&] { return fcppt::variant::holds_type<A1>(v); });
      record("var_holds_type", "c", js(v), ",\"i\":2", [&] { return fcppt::variant::holds_type<A2>(v); });
      record("var_holds_type", "c", js(v), ",\"i\":3", [&] { return fcppt::variant::holds_type<A3>(v); });
      record("var_holds_type", "c", js(v), ",\"i\":4", [&] { return fcppt::variant::holds_type<A4>(v); });
    }
#endif
    for (char const *c = cats3; *c; ++c)
    {
#if K(var_to_optional)
      if (wanted("var_to_optional"))
      {
        record("var_to_optional", std::string(1, *c), js(v), ",\"i\":1", [&] { return with_cat(*c, v, [&](auto &&a) { return fcppt::variant::to_optional<A1>(FWD(a)); }); });
        record("var_to_optional", std::string(1, *c), js(v), ",\"i\":2", [&] { return with_cat(*c, v, [&](auto &&a) { return fcppt::variant::to_optional<A2>(FWD(a)); }); });
        record("var_to_optional", std::string(1, *c), js(v), ",\"i\":3", [&] { return with_cat(*c, v, [&](auto &&a) { return fcppt::variant::to_optional<A3>(FWD(a)); }); });
        record("var_to_optional", std::string(1, *c), js(v), ",\"i\":4", [&] { return with_cat(*c, v, [&](auto &&a) { return fcppt::variant::to_optional<A4>(FWD(a)); }); });
      }
#endif
    }
#if K(var_ref_write)
    if (wanted("var_ref_write"))
      for (int y = 0; y < N; ++y)
      {
        record_raw("var_ref_write", "", js(v), ",\"i\":2" + ex_d<Val>(y), [&]
        {
          VD4 w{v};
          fcppt::optional::maybe_void(fcppt::variant::to_optional_ref<A2>(w), [y](fcppt::reference<A2> const r) { r.get() = A2(y); });
          return js(w);
        });
        record_raw("var_ref_write", "", js(v), ",\"i\":4" + ex_d<Val>(y), [&]
        {
          VD4 w{v};
          fcppt::optional::maybe_void(fcppt::variant::to_optional_ref<A4>(w), [y](fcppt::reference<A4> const r) { r.get() = A4(y); });
          return js(w);
        });
      }
#endif
    for_values<VD4>([&](VD4 const &w)
    {
#if K(var_eq)
      if (wanted("var_eq")) record("var_eq", "cc", js(v) + "," + js(w), "", [&] { return v == w; });
#endif
#if K(var_ne)
      if (wanted("var_ne")) record("var_ne", "cc", js(v) + "," + js(w), "", [&] { return v != w; });
#endif
#if K(var_less)
      if (wanted("var_less")) record("var_less", "cc", js(v) + "," + js(w), "", [&] { return v < w; });
#endif
    });
  });
#if K(var_match)
  if (wanted("var_match"))
  {
    vj::Rng rng{rng_for("var_match4")};
    for (long k = 0; k < sz.vis1; ++k)
    {
      Table<Val> const t1{table_random<Val>(1, rng)}, t2{table_random<Val>(1, rng)}, t3{table_random<Val>(1, rng)}, t4{table_random<Val>(1, rng)};
      std::string const tabs = ",\"tf\":[" + t1.json() + "," + t2.json() + "," + t3.json() + "," + t4.json() + "]";
      for_values<VD4>([&](VD4 const &v)
      {
        for (char const *c = cats3; *c; ++c)
          record("var_match", std::string(1, *c), js(v), tabs, [&]
          {
            return with_cat(*c, v, [&](auto &&a)
            {
              return fcppt::variant::match(FWD(a), fn1<Val, A1>("f", 1, t1), fn1<Val, A2>("f", 2, t2), fn1<Val, A3>("f", 3, t3),
                                           fn1<Val, A4>("f", 4, t4));
            });
          });
      });
    }
  }
#endif
  // ---- dynamic_cast_: every dynamic type x every order of the target types
#if K(var_dynamic_cast)
  if (wanted("var_dynamic_cast"))
  {
    auto const run = [&](base &obj, std::string const &castable)
    {
      auto const emit = [&](std::string const &types, auto const &r)
      {
        record_raw("var_dynamic_cast", "", "", ",\"types\":" + types + ",\"castable\":" + castable, [&]
        {
          if (!r.has_value()) return std::string{"{\"t\":\"none\"}"};
          auto const &var = r.get_unsafe();
          bool const same = fcppt::variant::apply([&obj](auto const &ref) { return dynamic_cast<base const *>(&ref.get()) == &obj; }, var);
          return "{\"t\":\"some\",\"v\":{\"t\":" + std::to_string(reported_index(var)) + ",\"v\":" + (same ? "1" : "9") + "}}";
        });
      };
      emit("[1,2]", fcppt::variant::dynamic_cast_<fcppt::mpl::list::object<d1, d2>, fcppt::cast::dynamic_fun>(obj));
      emit("[2,1]", fcppt::variant::dynamic_cast_<fcppt::mpl::list::object<d2, d1>, fcppt::cast::dynamic_fun>(obj));
      emit("[1]", fcppt::variant::dynamic_cast_<fcppt::mpl::list::object<d1>, fcppt::cast::dynamic_fun>(obj));
      emit("[2]", fcppt::variant::dynamic_cast_<fcppt::mpl::list::object<d2>, fcppt::cast::dynamic_fun>(obj));
    };
    d1 o1;
    d2 o2;
    d3 o3;
    d1child o4;
    d12 o5;
    run(o1, "[1]");
    run(o2, "[2]");
    run(o3, "[]");
    run(o4, "[1]");
    run(o5, "[1,2]");
  }
#endif
  // ---- monad::chain / monad::do_
#if K(monad_chain_opt) || K(monad_do_opt)
  if (wanted("monad_chain_opt") || wanted("monad_do_opt"))
  {
    vj::Rng rng{rng_for("monad_opt")};
    for_values<OD>([&](OD const &o)
    {
      (void)o;
#if K(monad_chain_opt)
      for (char const *c = cats3; *c; ++c)
        if (wanted("monad_chain_opt"))
          record("monad_chain_opt", std::string(1, *c), js(o), ",\"tf\":[]", [&] { return with_cat(*c, o, [&](auto &&a) { return fcppt::monad::chain(FWD(a)); }); });
#endif
    });
    for_tables<OD>(1, 100, rng_for("monad_opt1"), [&](Table<OD> const &k1)
    {
      for_tables<OD>(1, sz.maxlen >= 4 ? 64 : 16, rng_for("monad_opt2"), [&](Table<OD> const &k2)
      {
        Table<OD> const k3{table_random<OD>(1, rng)};
        Table<OD> const l2{table_random<OD>(2, rng)};
        Table<OD> const l3{table_random<OD>(3, rng)};
        for_values<OD>([&](OD const &o)
        {
          for (char const *c = cats3; *c; ++c)
          {
            std::string const cat(1, *c);
#if K(monad_chain_opt)
            if (wanted("monad_chain_opt"))
            {
              if (&k2 == &k2 && k2.codes == k1.codes) // once per k1
                record("monad_chain_opt", cat, js(o), ",\"tf\":[" + k1.json() + "]", [&]
                { return with_cat(*c, o, [&](auto &&a) { return fcppt::monad::chain(FWD(a), fn1<OD>("f", 1, k1)); }); });
              record("monad_chain_opt", cat, js(o), ",\"tf\":[" + k1.json() + "," + k2.json() + "]", [&]
              { return with_cat(*c, o, [&](auto &&a) { return fcppt::monad::chain(FWD(a), fn1<OD>("f", 1, k1), fn1<OD>("f", 2, k2)); }); });
              record("monad_chain_opt", cat, js(o), ",\"tf\":[" + k1.json() + "," + k2.json() + "," + k3.json() + "]", [&]
              {
                return with_cat(*c, o, [&](auto &&a)
                { return fcppt::monad::chain(FWD(a), fn1<OD>("f", 1, k1), fn1<OD>("f", 2, k2), fn1<OD>("f", 3, k3)); });
              });
            }
#endif
#if K(monad_do_opt)
            if (wanted("monad_do_opt"))
            {
              auto const f1 = [&k1](Val const &x) -> OD
              {
                log_call("f", 1, js(x));
                return k1.at({x.v});
              };
              auto const f2 = [&l2](Val const &x, Val const &y) -> OD
              {
                log_call("f", 2, js(x) + "," + js(y));
                return l2.at({x.v, y.v});
              };
              auto const f3 = [&l3](Val const &x, Val const &y, Val const &z) -> OD
              {
                log_call("f", 3, js(x) + "," + js(y) + "," + js(z));
                return l3.at({x.v, y.v, z.v});
              };
              record("monad_do_opt", cat, js(o), ",\"tf\":[" + k1.json() + "," + l2.json() + "]", [&]
              { return with_cat(*c, o, [&](auto &&a) { return fcppt::monad::do_(FWD(a), f1, f2); }); });
              record("monad_do_opt", cat, js(o), ",\"tf\":[" + k1.json() + "," + l2.json() + "," + l3.json() + "]", [&]
              { return with_cat(*c, o, [&](auto &&a) { return fcppt::monad::do_(FWD(a), f1, f2, f3); }); });
            }
#endif
          }
        });
      });
    });
  }
#endif
#if K(monad_chain_eit) || K(monad_do_eit)
  if (wanted("monad_chain_eit") || wanted("monad_do_eit"))
  {
    vj::Rng rng{rng_for("monad_eit")};
    for_tables<ED>(1, 1000, rng_for("monad_eit1"), [&](Table<ED> const &k1)
    {
      Table<ED> const k2{table_random<ED>(1, rng)};
      Table<ED> const l2{table_random<ED>(2, rng)};
      for_values<ED>([&](ED const &e)
      {
        for (char const *c = cats3; *c; ++c)
        {
          std::string const cat(1, *c);
#if K(monad_chain_eit)
          if (wanted("monad_chain_eit"))
          {
            record("monad_chain_eit", cat, js(e), ",\"tf\":[" + k1.json() + "]", [&]
            { return with_cat(*c, e, [&](auto &&a) { return fcppt::monad::chain(FWD(a), fn1<ED>("f", 1, k1)); }); });
            record("monad_chain_eit", cat, js(e), ",\"tf\":[" + k1.json() + "," + k2.json() + "]", [&]
            { return with_cat(*c, e, [&](auto &&a) { return fcppt::monad::chain(FWD(a), fn1<ED>("f", 1, k1), fn1<ED>("f", 2, k2)); }); });
          }
#endif
#if K(monad_do_eit)
          if (wanted("monad_do_eit"))
            record("monad_do_eit", cat, js(e), ",\"tf\":[" + k1.json() + "," + l2.json() + "]", [&]
            {
              return with_cat(*c, e, [&](auto &&a)
              {
                return fcppt::monad::do_(FWD(a),
                    [&k1](Val const &x) -> ED
                    {
                      log_call("f", 1, js(x));
                      return k1.at({x.v});
                    },
                    [&l2](Val const &x, Val const &y) -> ED
                    {
                      log_call("f", 2, js(x) + "," + js(y));
                      return l2.at({x.v, y.v});
                    });
              });
            });
#endif
        }
      });
    });
  }
#endif
}
}

int main(int argc, char **argv)
{
  if (argc < 5 || std::string(argv[1]) != "record")
  {
    std::fprintf(stderr, "usage: c04_algebra record OUT seed quick|thorough [only]\n");
    return 3;
  }
  vj::open(argv[2]);
  std::signal(SIGVTALRM, on_vtalrm);
  std::uint64_t const seed = std::strtoull(argv[3], nullptr, 10);
  bool const thorough = std::string(argv[4]) == "thorough";
  if (argc > 5) g_only = argv[5];
  Sizes const sz = thorough ? Sizes{4, 19683, 2500, 60, 19683, 1500, 60, 300, false} : Sizes{3, 480, 240, 12, 500, 200, 6, 40, true};
  g_seed = seed;
  drive_optional(sz);
  drive_either(sz);
  drive_variant(sz);
  drive_accessors<VD>();
  drive_accessors<VD4>();
  drive_ext(sz);
  vj::close();
  std::fprintf(stderr, "c04_algebra: %ld records\n", g_records);
  return 0;
}
