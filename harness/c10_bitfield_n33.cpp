// C10 harness: the executable for the enum with 33 enumerators  (underlying type unsigned char), stored in 8/16/32/64-bit
// words (driver and main: c10_bitfield.hpp; compiled a second time, with C10_OBSERVED, by
// c10_bitfield_x33.cpp for the record kinds outside the statement)
#include "c10_bitfield.hpp"

namespace
{
enum class e33 : std::uint8_t
{
  v0, v1, v2, v3, v4, v5, v6, v7, v8, v9, v10, v11,
  v12, v13, v14, v15, v16, v17, v18, v19, v20, v21, v22, v23,
  v24, v25, v26, v27, v28, v29, v30, v31, v32,
  fcppt_maximum = v32
};
}

C10_MAIN(e33)
