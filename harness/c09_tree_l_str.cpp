// C09 harness, label type std::string (see c09_tree.cpp)
#include "c09_run.hpp"
int c09_run_str(std::string const &mode, int argc, char **argv) { return c09::run<std::string>(mode, argc, argv); }
