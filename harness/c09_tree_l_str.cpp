// C09 secondary harness binary, label type std::string (see c09_tree.cpp / c09_forest.hpp)
#include "c09_run.hpp"

int main(int argc, char **argv) { return c09::main_for<std::string>(argc, argv); }
