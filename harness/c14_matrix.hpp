// C14 harness: matrix operations on static matrices (used by the units c14_pairs and c14_matrices).
#ifndef VERIF_C14_MATRIX_HPP
#define VERIF_C14_MATRIX_HPP

#include <c14_common.hpp>

#include <fcppt/cast/size_fun.hpp>
#include <fcppt/math/matrix/adjugate.hpp>
#include <fcppt/math/matrix/arithmetic.hpp>
#include <fcppt/math/matrix/at_r.hpp>
#include <fcppt/math/matrix/at_r_c.hpp>
#include <fcppt/math/matrix/comparison.hpp>
#include <fcppt/math/matrix/delete_row_and_column.hpp>
#include <fcppt/math/matrix/determinant.hpp>
#include <fcppt/math/matrix/identity.hpp>
#include <fcppt/math/matrix/index.hpp>
#include <fcppt/math/matrix/init.hpp>
#include <fcppt/math/matrix/row.hpp>
#include <fcppt/math/matrix/scaling.hpp>
#include <fcppt/math/matrix/structure_cast.hpp>
#include <fcppt/math/matrix/translation.hpp>
#include <fcppt/math/matrix/transpose.hpp>
#include <fcppt/math/matrix/vector.hpp>
#include <fcppt/math/vector/at.hpp>

namespace c14
{
// the member accessor mIJ() of a matrix (const or not)
template <sz I, sz J, typename M>
decltype(auto) m_acc(M &m)
{
  if constexpr (I == 0 && J == 0) return m.m00();
  else if constexpr (I == 0 && J == 1) return m.m01();
  else if constexpr (I == 0 && J == 2) return m.m02();
  else if constexpr (I == 0 && J == 3) return m.m03();
  else if constexpr (I == 1 && J == 0) return m.m10();
  else if constexpr (I == 1 && J == 1) return m.m11();
  else if constexpr (I == 1 && J == 2) return m.m12();
  else if constexpr (I == 1 && J == 3) return m.m13();
  else if constexpr (I == 2 && J == 0) return m.m20();
  else if constexpr (I == 2 && J == 1) return m.m21();
  else if constexpr (I == 2 && J == 2) return m.m22();
  else if constexpr (I == 2 && J == 3) return m.m23();
  else if constexpr (I == 3 && J == 0) return m.m30();
  else if constexpr (I == 3 && J == 1) return m.m31();
  else if constexpr (I == 3 && J == 2) return m.m32();
  else return m.m33();
}

// a + b, a - b for operands of any storage kinds
template <typename A, typename B>
void matrix_sum_of(char const *grp, char const *st, std::string const &aj, std::string const &bj, A const &a, B const &b)
{
  {
    Rec r("madd");
    r.ks("g", grp).ks("st", st).k("a", aj).k("b", bj).begin();
    auto const res(a + b);
    r.k("r", mj_(res)).end();
  }
  {
    Rec r("msub");
    r.ks("g", grp).ks("st", st).k("a", aj).k("b", bj).begin();
    auto const res(a - b);
    r.k("r", mj_(res)).end();
  }
}
template <typename A, typename B>
void matrix_compare_of(char const *grp, char const *st, std::string const &aj, std::string const &bj, A const &a, B const &b)
{
  {
    Rec r("meq");
    r.ks("g", grp).ks("st", st).k("a", aj).k("b", bj).begin();
    bool const res = a == b;
    r.kb("r", res).end();
  }
  {
    Rec r("mne");
    r.ks("g", grp).ks("st", st).k("a", aj).k("b", bj).begin();
    bool const res = a != b;
    r.kb("r", res).end();
  }
}
template <typename A, typename B>
void matrix_product_of(char const *grp, char const *st, std::string const &aj, std::string const &bj, A const &a, B const &b)
{
  Rec r("mmul");
  r.ks("g", grp).ks("st", st).k("a", aj).k("b", bj).begin();
  auto const res(a * b);
  r.k("r", mj_(res)).end();
}

template <sz R, sz C>
void matrix_sum(char const *grp, ivec const &v)
{
  matrix_sum_of(grp, "static,static", vals_mat(v, 0, R, C), vals_mat(v, R * C, R, C), mk_mat<R, C>(v, 0), mk_mat<R, C>(v, R * C));
}

template <sz R, sz C>
void matrix_compare(char const *grp, ivec const &v)
{
  matrix_compare_of(grp, "static,static", vals_mat(v, 0, R, C), vals_mat(v, R * C, R, C), mk_mat<R, C>(v, 0), mk_mat<R, C>(v, R * C));
}

template <sz R, sz C>
void matrix_same_shape(char const *grp, ivec const &v)
{
  matrix_sum<R, C>(grp, v);
  matrix_compare<R, C>(grp, v);
}

template <sz R, sz C>
void matrix_same_shape_more(char const *grp, ivec const &v)
{
  auto const a(mk_mat<R, C>(v, 0));
  auto const b(mk_mat<R, C>(v, R * C));
  std::string const aj = vals_mat(v, 0, R, C), bj = vals_mat(v, R * C, R, C);
  {
    auto x(a);
    Rec r("madd_assign");
    r.ks("g", grp).k("a", aj).k("b", bj).begin();
    x += b;
    r.k("r", mj_(x)).end();
  }
  {
    auto x(a);
    Rec r("msub_assign");
    r.ks("g", grp).k("a", aj).k("b", bj).begin();
    x -= b;
    r.k("r", mj_(x)).end();
  }
  {
    auto x(a);
    Rec r("madd_assign");
    r.ks("g", grp).ks("st", "self").k("a", aj).k("b", aj).begin();
    x += x;
    r.k("r", mj_(x)).end();
  }
  {
    auto x(a);
    Rec r("msub_assign");
    r.ks("g", grp).ks("st", "self").k("a", aj).k("b", aj).begin();
    x -= x;
    r.k("r", mj_(x)).end();
  }
  {
    Rec r("mne");
    r.ks("g", grp).k("a", aj).k("b", bj).begin();
    bool const res = a != b;
    r.kb("r", res).end();
  }
  {
    Rec r("meq");
    r.ks("g", grp).k("a", aj).k("b", aj).begin();
    auto const a2(mk_mat<R, C>(v, 0));
    bool const res = a == a2;
    r.kb("r", res).end();
  }
  {
    // equal up to the LAST cell: a comparison that stops early says "equal"
    ivec w(v.begin(), v.begin() + static_cast<std::ptrdiff_t>(R * C));
    w.back() += 1;
    auto const a3(mk_mat<R, C>(w, 0));
    matrix_compare_of(grp, "static,static(last cell differs)", aj, vals_mat(w, 0, R, C), a, a3);
  }
}

template <sz M1, sz N, sz M2>
void matrix_product(char const *grp, ivec const &v)
{
  matrix_product_of(grp, "static,static", vals_mat(v, 0, M1, N), vals_mat(v, M1 * N, N, M2), mk_mat<M1, N>(v, 0), mk_mat<N, M2>(v, M1 * N));
}

// scalar operations and matrix * vector of a matrix of any storage kind (a is not modified)
template <typename A, typename V>
void matrix_unary_of(char const *grp, char const *st, std::string const &aj, std::string const &vecj, A const &a, V const &vec, int const k)
{
  {
    Rec r("mscale");
    r.ks("g", grp).ks("st", st).k("a", aj).ki("k", k).begin();
    auto const res(a * k);
    r.k("r", mj_(res)).end();
  }
  {
    Rec r("mscale_left");
    r.ks("g", grp).ks("st", st).k("a", aj).ki("k", k).begin();
    auto const res(k * a);
    r.k("r", mj_(res)).end();
  }
  {
    Rec r("mvec");
    r.ks("g", grp).ks("st", st).k("a", aj).k("v", vecj).begin();
    auto const res(a * vec);
    r.k("r", vj_(res)).end();
  }
}

template <sz R, sz C>
void matrix_unary(char const *grp, ivec const &v, int const k)
{
  // values: the matrix (R*C), then a vector of dimension C
  auto const a(mk_mat<R, C>(v, 0));
  std::string const aj = vals_mat(v, 0, R, C), vecj = vals_vec(v, R * C, C);
  matrix_unary_of(grp, "static;static", aj, vecj, a, mk_vec<C>(v, R * C), k);
  {
    auto x(a);
    Rec r("mscale_assign");
    r.ks("g", grp).k("a", aj).ki("k", k).begin();
    x *= k;
    r.k("r", mj_(x)).end();
  }
  {
    // the vector operand as a view: row 0 of another matrix
    auto const other(mk_mat<1, C>(v, R * C));
    Rec r("mvec");
    r.ks("g", grp).ks("st", "static;constview").k("a", aj).k("v", vecj).begin();
    auto const res(a * other.get_unsafe(0));
    r.k("r", vj_(res)).end();
  }
}

// transpose, structure_cast, rows and elements read from a const matrix of any storage kind
template <typename A>
void matrix_read_of(char const *grp, char const *st, std::string const &aj, A const &a, bool const all_access = true)
{
  constexpr sz R = A::static_rows::value, C = A::static_columns::value;
  {
    Rec r("transpose");
    r.ks("g", grp).ks("st", st).k("a", aj).begin();
    auto const res(fm::matrix::transpose(a));
    r.k("r", mj_(res)).end();
  }
  {
    Rec r("mstructure_cast");
    r.ks("g", grp).ks("st", st).ks("to", "long").k("a", aj).begin();
    auto const res(fm::matrix::structure_cast<fm::matrix::static_<long, R, C>, fcppt::cast::size_fun>(a));
    r.k("r", mj_(res)).end();
  }
  static_for<R>([&](auto ri) {
    constexpr sz I = decltype(ri)::value;
    {
      Rec r("row");
      r.ks("g", grp).ks("st", st).ks("via", "at_r").k("a", aj).ki("i", I).begin();
      auto const res(fm::matrix::at_r<I>(a));
      r.k("r", vj_(res)).end();
    }
    {
      Rec r("row");
      r.ks("g", grp).ks("st", st).ks("via", "get_unsafe").k("a", aj).ki("i", I).begin();
      auto const res(a.get_unsafe(I));
      r.k("r", vj_(res)).end();
    }
    static_for<C>([&](auto ci) {
      constexpr sz J = decltype(ci)::value;
      {
        Rec r("mat_at");
        r.ks("g", grp).ks("st", st).ks("via", "at_r_c").k("a", aj).ki("i", I).ki("j", J).begin();
        int const res = fm::matrix::at_r_c<I, J>(a);
        r.ki("r", res).end();
      }
      if (all_access)
      {
        Rec r("mat_at");
        r.ks("g", grp).ks("st", st).ks("via", "mIJ()").k("a", aj).ki("i", I).ki("j", J).begin();
        int const res = m_acc<I, J>(a);
        r.ki("r", res).end();
      }
      if constexpr (R >= 2 && C >= 2)
      {
        Rec r("delete_row_and_column");
        r.ks("g", grp).ks("st", st).k("a", aj).ki("i", I).ki("j", J).begin();
        auto const res(fm::matrix::delete_row_and_column<I, J>(a));
        r.k("r", mj_(res)).end();
      }
    });
  });
}

// rows and elements read and written through a NON-const matrix x (a copy or a view whose cells the
// caller owns); x holds the values of aj before every call (it is restored after every write)
template <typename X>
void matrix_write_of(char const *grp, char const *st, std::string const &aj, X &x, int const val)
{
  constexpr sz R = X::static_rows::value, C = X::static_columns::value;
  // every cell is restored after a write (a wrong write may have landed anywhere)
  std::vector<int> orig;
  for (sz i = 0; i < R; ++i)
    for (sz j = 0; j < C; ++j) orig.push_back(x.get_unsafe(i).get_unsafe(j));
  auto const restore = [&x, &orig]() {
    for (sz i = 0; i < R; ++i)
      for (sz j = 0; j < C; ++j) x.get_unsafe(i).get_unsafe(j) = orig[i * C + j];
  };
  static_for<R>([&](auto ri) {
    constexpr sz I = decltype(ri)::value;
    {
      Rec r("row");
      r.ks("g", grp).ks("st", st).ks("via", "at_r(non-const)").k("a", aj).ki("i", I).begin();
      auto const res(fm::matrix::at_r<I>(x));
      r.k("r", vj_(res)).end();
    }
    static_for<C>([&](auto ci) {
      constexpr sz J = decltype(ci)::value;
      {
        Rec r("mat_at");
        r.ks("g", grp).ks("st", st).ks("via", "at_r_c(non-const)").k("a", aj).ki("i", I).ki("j", J).begin();
        int const res = fm::matrix::at_r_c<I, J>(x);
        r.ki("r", res).end();
      }
      {
        Rec r("mat_at_set");
        r.ks("g", grp).ks("st", st).ks("via", "at_r_c").k("a", aj).ki("i", I).ki("j", J).ki("x", val).begin();
        fm::matrix::at_r_c<I, J>(x) = val;
        r.k("r", mj_(x)).end();
        restore();
      }
      {
        Rec r("mat_at_set");
        r.ks("g", grp).ks("st", st).ks("via", "mIJ()").k("a", aj).ki("i", I).ki("j", J).ki("x", val).begin();
        m_acc<I, J>(x) = val;
        r.k("r", mj_(x)).end();
        restore();
      }
      {
        Rec r("mat_at_set");
        r.ks("g", grp).ks("st", st).ks("via", "at<J>(at_r<I>)").k("a", aj).ki("i", I).ki("j", J).ki("x", val).begin();
        auto row(fm::matrix::at_r<I>(x));
        fm::vector::at<J>(row) = val;
        r.k("r", mj_(x)).end();
        restore();
      }
    });
  });
}

template <sz R, sz C>
void matrix_access(char const *grp, ivec const &v, bool const writes = true)
{
  auto const a(mk_mat<R, C>(v, 0));
  std::string const aj = vals_mat(v, 0, R, C);
  matrix_read_of(grp, "static", aj, a, writes);
  if (writes)
  {
    auto x(a);
    matrix_write_of(grp, "static", aj, x, v[0] + v[R * C - 1] + 1);
  }
  static_for<R>([&](auto ri) {
    constexpr sz I = decltype(ri)::value;
    static_for<C>([&](auto ci) {
      constexpr sz J = decltype(ci)::value;
      // M *= (an element of M itself): the scalar aliases a component that is overwritten
      // (every element on the rounds with writes, otherwise one element chosen by the values)
      if (!writes && (I * C + J) != static_cast<sz>((((v[0] + v[1 % (R * C)]) % static_cast<int>(R * C)) + static_cast<int>(R * C)) % static_cast<int>(R * C))) return;
      auto x(a);
      Rec r("mscale_assign");
      r.ks("g", grp).ks("st", "alias").k("a", aj).ki("k", v[I * C + J]).ki("i", I).ki("j", J).begin();
      x *= x.get_unsafe(I).get_unsafe(J);
      r.k("r", mj_(x)).end();
    });
  });
}

template <typename A>
void matrix_square_of(char const *grp, char const *st, std::string const &aj, A const &a)
{
  {
    Rec r("determinant");
    r.ks("g", grp).ks("st", st).k("a", aj).begin();
    int const res = fm::matrix::determinant(a);
    r.ki("r", res).end();
  }
  if constexpr (A::static_rows::value >= 2)
  {
    Rec r("adjugate");
    r.ks("g", grp).ks("st", st).k("a", aj).begin();
    auto const res(fm::matrix::adjugate(a));
    r.k("r", mj_(res)).end();
  }
}

template <sz N>
void matrix_square(char const *grp, ivec const &v)
{
  matrix_square_of(grp, "static", vals_mat(v, 0, N, N), mk_mat<N, N>(v, 0));
}

// whole matrices assigned; whole rows replaced through views, one after the other
template <sz R, sz C>
void matrix_assign(char const *grp, ivec const &v)
{
  auto const a(mk_mat<R, C>(v, 0));
  auto const b(mk_mat<R, C>(v, R * C));
  std::string const aj = vals_mat(v, 0, R, C), bj = vals_mat(v, R * C, R, C);
  {
    auto x(a);
    Rec r("massign");
    r.ks("g", grp).ks("st", "static=static").k("a", aj).k("b", bj).begin();
    x = b;
    r.k("r", mj_(x)).end();
  }
  {
    auto x(a);
    static_for<R>([&](auto ri) {
      constexpr sz I = decltype(ri)::value;
      std::string const before = mj_(x);
      auto row(fm::matrix::at_r<I>(x));
      Rec r("row_assign");
      r.ks("g", grp).ks("st", "at_r view=constview(other matrix)").k("a", before).ki("i", I).k("v", vals_vec(v, R * C + I * C, C)).begin();
      row = b.get_unsafe(I);
      r.k("r", mj_(x)).end();
    });
  }
  {
    auto x(a);
    static_for<R>([&](auto ri) {
      constexpr sz I = decltype(ri)::value;
      std::string const before = mj_(x);
      auto row(x.get_unsafe(I));
      Rec r("row_assign");
      r.ks("g", grp).ks("st", "view=static vector").k("a", before).ki("i", I).k("v", vals_vec(v, R * C + I * C, C)).begin();
      row = mk_vec<C>(v, R * C + I * C);
      r.k("r", mj_(x)).end();
    });
  }
}

// matrix::init called directly: the element function gets matrix::index<Row, Column>
template <sz R, sz C>
void matrix_init_case(int const c0, int const c1, int const c2)
{
  Rec r("minit");
  r.ki("rows", R).ki("cols", C).ki("c0", c0).ki("c1", c1).ki("c2", c2).begin();
  auto const res(fm::matrix::init<fm::matrix::static_<int, R, C>>([c0, c1, c2](auto const idx) {
    return c0 + c1 * static_cast<int>(decltype(idx)::row()) + c2 * static_cast<int>(decltype(idx)::column());
  }));
  r.k("r", mj_(res)).end();
}

// large entries: sums, products, scalars, matrix * vector, copies (|entries| <= 16000: 4 * 16000^2 < 2^30)
template <sz R, sz C>
void matrix_wide(char const *grp, ivec const &v, int const k)
{
  matrix_same_shape<R, C>(grp, v);
  matrix_unary<R, C>(grp, v, k);
  matrix_access<R, C>(grp, v, false);
  matrix_assign<R, C>(grp, v);
  if constexpr (R == C) matrix_product<R, R, R>(grp, v);
}

template <typename M>
void identity_case(char const *st)
{
  Rec r("identity");
  r.ks("st", st).ki("n", M::static_rows::value).begin();
  auto const res(fm::matrix::identity<M>());
  r.k("r", mj_(res)).end();
}

// translation / scaling from a 3-vector of any storage kind
template <typename V>
void builders_from_vector(char const *st, ivec const &v, V const &vec)
{
  {
    Rec r("translation");
    r.ks("via", st).ki("x", v[0]).ki("y", v[1]).ki("z", v[2]).begin();
    auto const res(fm::matrix::translation(vec));
    r.k("r", mj_(res)).end();
  }
  {
    Rec r("scaling");
    r.ks("via", st).ki("x", v[0]).ki("y", v[1]).ki("z", v[2]).begin();
    auto const res(fm::matrix::scaling(vec));
    r.k("r", mj_(res)).end();
  }
}

inline void builders_4x4(ivec const &v)
{
  // v: x, y, z
  {
    Rec r("translation");
    r.ks("via", "scalars").ki("x", v[0]).ki("y", v[1]).ki("z", v[2]).begin();
    auto const res(fm::matrix::translation(v[0], v[1], v[2]));
    r.k("r", mj_(res)).end();
  }
  {
    Rec r("scaling");
    r.ks("via", "scalars").ki("x", v[0]).ki("y", v[1]).ki("z", v[2]).begin();
    auto const res(fm::matrix::scaling(v[0], v[1], v[2]));
    r.k("r", mj_(res)).end();
  }
  builders_from_vector("static vector", v, mk_vec<3>(v, 0));
  {
    auto const m(mk_mat<1, 3>(v, 0));
    builders_from_vector("constview", v, m.get_unsafe(0));
  }
  {
    auto m(mk_mat<2, 3>(ivec{0, 0, 0, v[0], v[1], v[2]}, 0));
    builders_from_vector("view (row 1)", v, m.get_unsafe(1));
  }
}
}

#endif
