// Driver for fcppt's checked conversions and integer helpers (properties C06 and C01).
// It only CALLS the real fcppt functions and RECORDS arguments and results as ndjson; it has no
// expected values.  The judge is TLC (spec/IntMathJudge.tla, spec/TotalityJudge.tla).
//
// Record formats: see spec/IntMathJudge.tla.
//   narrow rows  {"f","w":0,"S","D","n","a","b","c","x0","xs":[..],"rs":[..],"ex":[..]}
//   wide records {"f","w":1,"S","D","n","e","a":Z,"b":Z,"c":Z,"r":[]|[Z]|true|false,"ex":0|1,"exn":".."}
//   Z = {"s":-1|0|1,"m":[limbs base 2^15, least significant first]}
//
// Generator preconditions (inputs on which C++ leaves the behaviour of the *documented* operation
// undefined and whose exact result is not representable, so that the property demands nothing):
//   signed division min / -1; signed diff / interval_distance whose difference overflows the
//   promoted type; power_of_2 / shifted_mask with an exponent >= the width of the promoted result
//   type; log2(0) (documented).  They are skipped, not judged.
#ifndef VERIF_C06_DRIVE_HPP
#define VERIF_C06_DRIVE_HPP

#include <common/vjson.hpp>

// Section groups.  C06_GROUP = 0 (default): everything.  C06_GROUP = n > 0: only the drivers and the fcppt includes
// of group n (checks/c06.py GROUPS) - used when this header does not compile as a whole against the tree under test,
// so that the groups that still compile are built, run and judged on their own.  C06_GROUP < 0: none (C01's own units).
#ifndef C06_GROUP
#define C06_GROUP 0
#endif
#define C06_ON(n) (C06_GROUP == 0 || C06_GROUP == (n))
#define C06_G_TC 1
#define C06_G_FROM_INT 2
#define C06_G_LOG2 3
#define C06_G_IS_POW2 4
#define C06_G_NEXT_POW2 5
#define C06_G_DIV 6
#define C06_G_MOD 7
#define C06_G_DIFF 8
#define C06_G_BIT_TEST 9
#define C06_G_CEIL_DIV 10
#define C06_G_CEIL_DIV_SIGNED 11
#define C06_G_CLAMP 12
#define C06_G_POW2 13
#define C06_G_INTERVAL 14
#define C06_G_CONV 15
#define C06_G_ENUM_CASTS 16
#define C06_G_MASK_C 17
#define C06_G_UINT_PTR 18

#if C06_ON(C06_G_BIT_TEST) || C06_ON(C06_G_POW2) || C06_ON(C06_G_MASK_C)
#include <fcppt/bit/mask.hpp>
#include <fcppt/bit/mask_impl.hpp>
#endif
#if C06_ON(C06_G_POW2)
#include <fcppt/bit/shift_count.hpp>
#include <fcppt/bit/shifted_mask.hpp>
#include <fcppt/math/power_of_2.hpp>
#endif
#if C06_ON(C06_G_BIT_TEST)
#include <fcppt/bit/test.hpp>
#endif
#if C06_ON(C06_G_MASK_C)
#include <fcppt/bit/mask_c.hpp>
#endif
#if C06_ON(C06_G_CONV)
#include <fcppt/literal.hpp>
#include <fcppt/cast/promote_int.hpp>
#include <fcppt/cast/safe_numeric.hpp>
#include <fcppt/cast/size.hpp>
#include <fcppt/cast/to_signed.hpp>
#include <fcppt/cast/to_unsigned.hpp>
#endif
#if C06_ON(C06_G_ENUM_CASTS)
#include <fcppt/cast/enum_to_int.hpp>
#include <fcppt/cast/enum_to_underlying.hpp>
#include <fcppt/cast/int_to_enum.hpp>
#endif
#if C06_ON(C06_G_UINT_PTR)
#include <fcppt/cast/to_uint_ptr.hpp>
#endif
#if C06_ON(C06_G_TC)
#include <fcppt/cast/truncation_check.hpp>
#endif
#if C06_ON(C06_G_FROM_INT)
#include <fcppt/enum/from_int.hpp>
#endif
#if C06_ON(C06_G_CEIL_DIV)
#include <fcppt/math/ceil_div.hpp>
#endif
#if C06_ON(C06_G_CEIL_DIV_SIGNED)
#include <fcppt/math/ceil_div_signed.hpp>
#endif
#if C06_ON(C06_G_CLAMP)
#include <fcppt/math/clamp.hpp>
#endif
#if C06_ON(C06_G_DIFF)
#include <fcppt/math/diff.hpp>
#endif
#if C06_ON(C06_G_DIV)
#include <fcppt/math/div.hpp>
#endif
#if C06_ON(C06_G_INTERVAL)
#include <fcppt/math/interval_distance.hpp>
#include <fcppt/tuple/make.hpp>
#include <fcppt/tuple/object_impl.hpp>
#endif
#if C06_ON(C06_G_IS_POW2)
#include <fcppt/math/is_power_of_2.hpp>
#endif
#if C06_ON(C06_G_LOG2)
#include <fcppt/math/log2.hpp>
#endif
#if C06_ON(C06_G_MOD)
#include <fcppt/math/mod.hpp>
#endif
#if C06_ON(C06_G_NEXT_POW2)
#include <fcppt/math/next_power_of_2.hpp>
#endif
#include <fcppt/optional/object_impl.hpp>

#include <cstdint>
#include <cxxabi.h>
#include <limits>
#include <set>
#include <string>
#include <type_traits>
#include <vector>

namespace c06
{
constexpr long long none_code = 1000000;
constexpr long long exc_code = 1000001;
constexpr long long big_code = 1000002;

using i8 = std::int8_t;
using u8 = std::uint8_t;
using i16 = std::int16_t;
using u16 = std::uint16_t;
using i32 = std::int32_t;
using u32 = std::uint32_t;
using i64 = std::int64_t;
using u64 = std::uint64_t;

template <typename T> constexpr char const *tname()
{
  if constexpr (std::is_same_v<T, i8>) return "i8";
  else if constexpr (std::is_same_v<T, u8>) return "u8";
  else if constexpr (std::is_same_v<T, i16>) return "i16";
  else if constexpr (std::is_same_v<T, u16>) return "u16";
  else if constexpr (std::is_same_v<T, i32>) return "i32";
  else if constexpr (std::is_same_v<T, u32>) return "u32";
  else if constexpr (std::is_same_v<T, i64> || std::is_same_v<T, long long>) return "i64";
  else if constexpr (std::is_same_v<T, u64> || std::is_same_v<T, unsigned long long>) return "u64";
  else return "?";
}
template <typename T> constexpr bool narrow = sizeof(T) <= 2;
template <typename T> constexpr long long lo() { return static_cast<long long>(std::numeric_limits<T>::min()); }
template <typename T> constexpr long long hi() { return static_cast<long long>(std::numeric_limits<T>::max()); }

// ---------------------------------------------------------------- current call (for abort reports)
struct current_call
{
  char const *f = "";
  char const *S = "";
  char const *D = "";
  long long a = 0, b = 0, c = 0, x = 0;
  unsigned long long ua = 0, ub = 0;
};
inline current_call &cur()
{
  static current_call c;
  return c;
}
inline long &watchdog_seconds()
{
  static long s = 60;
  return s;
}
// called by the sanitizer runtime before it kills the process, and by the signal handlers
inline void death_note()
{
  char buf[400];
  current_call const &c = cur();
  int const n = std::snprintf(
      buf, sizeof buf,
      "\n{\"e\":\"abort\",\"f\":\"%s\",\"S\":\"%s\",\"D\":\"%s\",\"a\":%lld,\"b\":%lld,\"c\":%lld,\"x\":%lld,\"ua\":\"%llu\",\"ub\":\"%llu\"}\n",
      c.f, c.S, c.D, c.a, c.b, c.c, c.x, c.ua, c.ub);
  if (vj::out_file() != nullptr) std::fflush(vj::out_file());
  if (n > 0)
  {
    ssize_t r = ::write(vj::out_fd(), buf, static_cast<size_t>(n));
    (void)r;
  }
}
extern "C" void __sanitizer_set_death_callback(void (*)(void));
inline void on_sig(int sig)
{
  death_note();
  _exit(sig == SIGALRM ? 68 : 67);
}
inline void install()
{
  __sanitizer_set_death_callback(death_note);
  std::signal(SIGALRM, on_sig);
  std::signal(SIGFPE, on_sig);
  std::signal(SIGSEGV, on_sig);
  std::signal(SIGABRT, on_sig);
  std::signal(SIGILL, on_sig);
  std::signal(SIGBUS, on_sig);
}

inline std::string exception_name()
{
  std::type_info const *t = abi::__cxa_current_exception_type();
  if (t == nullptr) return "unknown";
  int st = 0;
  char *d = abi::__cxa_demangle(t->name(), nullptr, nullptr, &st);
  std::string r = (st == 0 && d != nullptr) ? d : t->name();
  std::free(d);
  // libstdc++'s inline ABI namespace is not part of the documented name
  for (std::string::size_type p; (p = r.find("__cxx11::")) != std::string::npos;) r.erase(p, 9);
  return r;
}

// ---------------------------------------------------------------- big numbers
struct Z
{
  bool neg;
  unsigned long long mag;
};
template <typename T> Z to_z(T const v)
{
  if constexpr (std::is_signed_v<T>)
  {
    bool const neg = v < 0;
    unsigned long long const u = static_cast<unsigned long long>(static_cast<long long>(v));
    return Z{neg, neg ? 0ULL - u : u};
  }
  else
  {
    return Z{false, static_cast<unsigned long long>(v)};
  }
}
inline std::string zjson(Z const z)
{
  std::string s = "{\"s\":";
  s += z.mag == 0 ? "0" : (z.neg ? "-1" : "1");
  s += ",\"m\":[";
  unsigned long long m = z.mag;
  bool first = true;
  while (m != 0)
  {
    if (!first) s += ',';
    first = false;
    s += std::to_string(m & 0x7FFFULL);
    m >>= 15U;
  }
  return s + "]}";
}
inline char const *zero_json() { return "{\"s\":0,\"m\":[]}"; }

inline long long small(long long const v)
{
  return (v > 40000000LL || v < -40000000LL || v == none_code || v == exc_code || v == big_code) ? big_code : v;
}
inline long long small_u(unsigned long long const v) { return v > 40000000ULL ? big_code : small(static_cast<long long>(v)); }

template <typename R> long long enc_value(R const v)
{
  if constexpr (std::is_same_v<R, bool>) return v ? 1 : 0;
  else if constexpr (std::is_enum_v<R>) return small(static_cast<long long>(static_cast<std::underlying_type_t<R>>(v)));
  else if constexpr (std::is_signed_v<R>) return small(static_cast<long long>(v));
  else return small_u(static_cast<unsigned long long>(v));
}

// ---------------------------------------------------------------- narrow rows
struct row
{
  std::set<std::string> exn;
  bool first = true;
  void begin(char const *f, char const *S, char const *D, long long n, long long a, long long b, long long c,
             long long x0, std::vector<long long> const *xs)
  {
    current_call &cc = cur();
    cc.f = f; cc.S = S; cc.D = D; cc.a = a; cc.b = b; cc.c = c; cc.x = x0; cc.ua = 0; cc.ub = 0;
    std::string p = "{\"f\":\"";
    p += f; p += "\",\"w\":0,\"S\":\""; p += S; p += "\",\"D\":\""; p += D;
    p += "\",\"n\":" + std::to_string(n) + ",\"a\":" + std::to_string(a) + ",\"b\":" + std::to_string(b) +
         ",\"c\":" + std::to_string(c) + ",\"x0\":" + std::to_string(x0) + ",\"xs\":";
    p += xs == nullptr ? std::string("[]") : vj::arr(*xs);
    p += ",\"rs\":[";
    vj::begin_call(p);
    first = true;
    exn.clear();
    ::alarm(static_cast<unsigned>(watchdog_seconds()));
  }
  void put(long long const v)
  {
    char buf[32];
    int const n = std::snprintf(buf, sizeof buf, first ? "%lld" : ",%lld", v);
    first = false;
    std::fwrite(buf, 1, static_cast<size_t>(n), vj::out_file());
  }
  // call fn (returning an fcppt optional, a bool or an integer) for operand x and record the result
  template <typename Fn> void call(long long const x, Fn const &fn)
  {
    cur().x = x;
    long long v;
    try
    {
      auto const r = fn();
      using R = std::remove_cv_t<decltype(r)>;
      if constexpr (std::is_arithmetic_v<R> || std::is_enum_v<R>)
        v = enc_value(r);
      else
        v = r.has_value() ? enc_value(r.get_unsafe()) : none_code;
    }
    catch (...)
    {
      exn.insert(exception_name());
      v = exc_code;
    }
    put(v);
  }
  void end()
  {
    ::alarm(0);
    std::string s = "],\"ex\":[";
    bool f = true;
    for (auto const &e : exn)
    {
      if (!f) s += ',';
      f = false;
      s += '"' + vj::esc(e) + '"';
    }
    s += "]}";
    vj::end_call(s);
  }
};

// ---------------------------------------------------------------- wide records
struct wide
{
  template <typename Fn>
  static void rec(char const *f, char const *S, char const *D, long long n, long long e, Z a, Z b, Z c, Fn const &fn)
  {
    current_call &cc = cur();
    cc.f = f; cc.S = S; cc.D = D; cc.a = n; cc.b = e; cc.c = 0; cc.x = 0;
    cc.ua = a.mag; cc.ub = b.mag;
    std::string p = "{\"f\":\"";
    p += f; p += "\",\"w\":1,\"S\":\""; p += S; p += "\",\"D\":\""; p += D;
    p += "\",\"n\":" + std::to_string(n) + ",\"e\":" + std::to_string(e) + ",\"a\":" + zjson(a) + ",\"b\":" + zjson(b) +
         ",\"c\":" + zjson(c);
    vj::begin_call(p);
    ::alarm(static_cast<unsigned>(watchdog_seconds()));
    std::string rest;
    try
    {
      auto const r = fn();
      using R = std::remove_cv_t<decltype(r)>;
      if constexpr (std::is_same_v<R, bool>)
        rest = std::string(",\"r\":") + (r ? "true" : "false");
      else if constexpr (std::is_enum_v<R>)
        rest = ",\"r\":[" + zjson(to_z(static_cast<std::underlying_type_t<R>>(r))) + "]";
      else if constexpr (std::is_arithmetic_v<R>)
        rest = ",\"r\":[" + zjson(to_z(r)) + "]";
      else if (r.has_value())
      {
        auto const v = r.get_unsafe();
        using V = std::remove_cv_t<decltype(v)>;
        if constexpr (std::is_enum_v<V>)
          rest = ",\"r\":[" + zjson(to_z(static_cast<std::underlying_type_t<V>>(v))) + "]";
        else
          rest = ",\"r\":[" + zjson(to_z(v)) + "]";
      }
      else
        rest = ",\"r\":[]";
      rest += ",\"ex\":0,\"exn\":\"\"}";
    }
    catch (...)
    {
      rest = ",\"r\":[],\"ex\":1,\"exn\":\"" + vj::esc(exception_name()) + "\"}";
    }
    ::alarm(0);
    vj::end_call(rest);
  }
};

// ---------------------------------------------------------------- operand sets
// boundary lattice of a type: 0, +-1, +-2, 2^k, 2^k +- 1, -(2^k), -(2^k) +- 1, min, max, min+1, max-1
template <typename T> std::vector<T> lattice(bool const full)
{
  // computed on the bit patterns (unsigned, modular) and reinterpreted as T: 2^k + d and its negation
  std::set<T> s;
  using U = std::make_unsigned_t<T>;
  int const bits = static_cast<int>(sizeof(T) * 8);
  s.insert(static_cast<T>(0));
  s.insert(std::numeric_limits<T>::min());
  s.insert(std::numeric_limits<T>::max());
  s.insert(static_cast<T>(std::numeric_limits<T>::min() + 1));
  s.insert(static_cast<T>(std::numeric_limits<T>::max() - 1));
  for (int k = 0; k < bits; ++k)
  {
    if (!full && !(k <= 2 || k == 7 || k == 8 || k == 15 || k == 16 || k >= bits - 2 || (k >= 30 && k <= 33)))
      continue;
    U const p = static_cast<U>(static_cast<U>(1) << k);
    for (int d = -1; d <= 1; ++d)
    {
      U const v = static_cast<U>(p + static_cast<U>(d));
      s.insert(static_cast<T>(v));
      if constexpr (std::is_signed_v<T>) s.insert(static_cast<T>(static_cast<U>(0) - v));
    }
  }
  return std::vector<T>(s.begin(), s.end());
}
template <typename T> T random_value(vj::Rng &rng)
{
  // random magnitude class first (so that small and large values both occur), then random bits
  unsigned const bits = static_cast<unsigned>(rng.below(sizeof(T) * 8)) + 1U;
  std::uint64_t v = rng.next();
  if (bits < 64U) v &= ((1ULL << bits) - 1ULL);
  return static_cast<T>(static_cast<std::make_unsigned_t<T>>(v));
}
template <typename T> std::vector<T> operands(vj::Rng &rng, bool const full, unsigned const nrandom)
{
  std::vector<T> v = lattice<T>(full);
  for (unsigned i = 0; i < nrandom; ++i) v.push_back(random_value<T>(rng));
  return v;
}

// ---------------------------------------------------------------- preconditions of the generators
template <typename T> bool quotient_overflows(T const a, T const b)
{
  if constexpr (std::is_signed_v<T>) return a == std::numeric_limits<T>::min() && b == static_cast<T>(-1);
  else return false;
}
template <typename T> bool difference_overflows(T const a, T const b)
{
  // a - b evaluated in the promoted type, then abs()
  if constexpr (std::is_signed_v<T> && sizeof(T) >= sizeof(int))
  {
    T d;
    return __builtin_sub_overflow(a, b, &d) || d == std::numeric_limits<T>::min();
  }
  else return false;
}
template <typename T> constexpr unsigned promoted_bits() { return static_cast<unsigned>(sizeof(decltype(+T{})) * 8); }

// ---------------------------------------------------------------- enums for from_int
#define C06_ENUMS(U, P) \
  enum class P##_1 : U { e0, fcppt_maximum = e0 }; \
  enum class P##_3 : U { e0, e1, e2, fcppt_maximum = e2 }; \
  enum class P##_9 : U { e0, e1, e2, e3, e4, e5, e6, e7, e8, fcppt_maximum = e8 };
C06_ENUMS(std::uint8_t, eu8)
C06_ENUMS(std::int8_t, ei8)
C06_ENUMS(std::uint16_t, eu16)
C06_ENUMS(std::uint32_t, eu32)
#undef C06_ENUMS
// round 3: sizes at the limit of the underlying type (a size of 2^N does not fit fcppt::enum_::size_type) and around
// the sign bit of the underlying type
enum class eu8_255 : std::uint8_t { e0, fcppt_maximum = 254 };
enum class eu8_128 : std::uint8_t { e0, fcppt_maximum = 127 };
enum class eu8_129 : std::uint8_t { e0, fcppt_maximum = 128 };
enum class ei8_128 : std::int8_t { e0, fcppt_maximum = 127 };
enum class ei16_32768 : std::int16_t { e0, fcppt_maximum = 32767 };
enum class eu16_65535 : std::uint16_t { e0, fcppt_maximum = 65534 };

// ================================================================= drivers
// tier: 0 = quick, 1 = thorough
struct config
{
  int tier = 0;
  std::uint64_t seed = 1;
};

constexpr long long row_len = 4096;

// ---- unary functions over all values of a narrow type, in rows of <= 4096 operands
template <typename T, typename Fn>
void unary_rows(char const *f, char const *S, char const *D, long long n, long long from, long long to, Fn const &fn)
{
  for (long long x0 = from; x0 <= to; x0 += row_len)
  {
    row r;
    r.begin(f, S, D, n, 0, 0, 0, x0, nullptr);
    long long const end = x0 + row_len - 1 < to ? x0 + row_len - 1 : to;
    for (long long x = x0; x <= end; ++x) r.call(x, [&fn, x] { return fn(static_cast<T>(x)); });
    r.end();
  }
}

// ---- truncation_check
#if C06_ON(C06_G_TC)
template <typename D, typename S> void tc_pair(config const &cfg, vj::Rng &rng)
{
  if constexpr (narrow<S>)
  {
    unary_rows<S>("truncation_check", tname<S>(), tname<D>(), 0, lo<S>(), hi<S>(),
                  [](S const v) { return fcppt::cast::truncation_check<D>(v); });
  }
  else
  {
    // the full lattice of S contains the boundaries (min - 1, min, max, max + 1) of every narrower type
    std::vector<S> const vs = operands<S>(rng, true, cfg.tier == 0 ? 64U : 2000U);
    for (S const v : vs)
      wide::rec("truncation_check", tname<S>(), tname<D>(), 0, 0, to_z(v), Z{false, 0}, Z{false, 0},
                [v] { return fcppt::cast::truncation_check<D>(v); });
  }
}
template <typename S> void tc_source(config const &cfg, vj::Rng &rng)
{
  tc_pair<i8, S>(cfg, rng); tc_pair<u8, S>(cfg, rng); tc_pair<i16, S>(cfg, rng); tc_pair<u16, S>(cfg, rng);
  tc_pair<i32, S>(cfg, rng); tc_pair<u32, S>(cfg, rng); tc_pair<i64, S>(cfg, rng); tc_pair<u64, S>(cfg, rng);
}
#endif

// ---- enum_::from_int
#if C06_ON(C06_G_FROM_INT)
template <typename E, typename V> void from_int_one(config const &cfg, vj::Rng &rng)
{
  using U = std::underlying_type_t<E>;
  long long const n = static_cast<long long>(static_cast<U>(E::fcppt_maximum)) + 1;
  if constexpr (narrow<V>)
  {
    unary_rows<V>("from_int", tname<V>(), tname<U>(), n, lo<V>(), hi<V>(),
                  [](V const v) { return fcppt::enum_::from_int<E>(v); });
  }
  else
  {
    for (V const v : operands<V>(rng, true, cfg.tier == 0 ? 32U : 1000U))
      wide::rec("from_int", tname<V>(), tname<U>(), n, 0, to_z(v), Z{false, 0}, Z{false, 0},
                [v] { return fcppt::enum_::from_int<E>(v); });
  }
}
template <typename E> void from_int_enum(config const &cfg, vj::Rng &rng)
{
  from_int_one<E, u8>(cfg, rng); from_int_one<E, u16>(cfg, rng); from_int_one<E, u32>(cfg, rng); from_int_one<E, u64>(cfg, rng);
}
#endif

// ---- unary helpers: log2, is_power_of_2, next_power_of_2
template <typename T> void unary_helpers(config const &cfg, vj::Rng &rng, std::string const &only)
{
  if constexpr (narrow<T>)
  {
#if C06_ON(C06_G_LOG2)
    if (only == "log2") unary_rows<T>("log2", tname<T>(), tname<T>(), 0, 1, hi<T>(), [](T const v) { return fcppt::math::log2(v); });
#endif
#if C06_ON(C06_G_IS_POW2)
    if (only == "is_power_of_2") unary_rows<T>("is_power_of_2", tname<T>(), tname<T>(), 0, 0, hi<T>(), [](T const v) { return fcppt::math::is_power_of_2(v); });
#endif
#if C06_ON(C06_G_NEXT_POW2)
    if (only == "next_power_of_2") unary_rows<T>("next_power_of_2", tname<T>(), tname<T>(), 0, 0, hi<T>(), [](T const v) { return fcppt::math::next_power_of_2(v); });
#endif
    (void)only;
  }
  else
  {
    // round 3: besides the lattice and random values every value with exactly two bits set (2^a + 2^b) and every run of
    // ones (2^a - 2^b): the values whose lower half is zero without being a power of two, which an intermediate result
    // computed in a narrower unsigned type gets wrong
    std::vector<T> vs = operands<T>(rng, true, cfg.tier == 0 ? 200U : 5000U);
    for (unsigned hi_bit = 1; hi_bit < sizeof(T) * 8; ++hi_bit)
      for (unsigned lo_bit = 0; lo_bit < hi_bit; ++lo_bit)
      {
        vs.push_back(static_cast<T>((static_cast<T>(1) << hi_bit) + (static_cast<T>(1) << lo_bit)));
        vs.push_back(static_cast<T>((static_cast<T>(1) << hi_bit) - (static_cast<T>(1) << lo_bit)));
      }
    for (T const v : vs)
    {
      Z const z{false, 0};
      (void)z; (void)v;
#if C06_ON(C06_G_LOG2)
      if (only == "log2" && v != 0) wide::rec("log2", tname<T>(), tname<T>(), 0, 0, to_z(v), z, z, [v] { return fcppt::math::log2(v); });
#endif
#if C06_ON(C06_G_IS_POW2)
      if (only == "is_power_of_2") wide::rec("is_power_of_2", tname<T>(), tname<T>(), 0, 0, to_z(v), z, z, [v] { return fcppt::math::is_power_of_2(v); });
#endif
#if C06_ON(C06_G_NEXT_POW2)
      if (only == "next_power_of_2") wide::rec("next_power_of_2", tname<T>(), tname<T>(), 0, 0, to_z(v), z, z, [v] { return fcppt::math::next_power_of_2(v); });
#endif
    }
  }
}

// ---- binary functions
enum class bin { div, mod, diff, bit_test, ceil_div, ceil_div_signed };
template <bin F> constexpr char const *bname()
{
  switch (F)
  {
  case bin::div: return "div";
  case bin::mod: return "mod";
  case bin::diff: return "diff";
  case bin::bit_test: return "bit_test";
  case bin::ceil_div: return "ceil_div";
  case bin::ceil_div_signed: return "ceil_div_signed";
  }
  return "?";
}
template <bin F, typename T> auto bcall(T const a, T const b)
{
#if C06_ON(C06_G_DIV)
  if constexpr (F == bin::div) return fcppt::math::div(a, b);
#endif
#if C06_ON(C06_G_MOD)
  if constexpr (F == bin::mod) return fcppt::math::mod(a, b);
#endif
#if C06_ON(C06_G_DIFF)
  if constexpr (F == bin::diff) return fcppt::math::diff(a, b);
#endif
#if C06_ON(C06_G_BIT_TEST)
  if constexpr (F == bin::bit_test) return fcppt::bit::test(a, fcppt::bit::mask<T>(b));
#endif
#if C06_ON(C06_G_CEIL_DIV)
  if constexpr (F == bin::ceil_div) return fcppt::math::ceil_div(a, b);
#endif
#if C06_ON(C06_G_CEIL_DIV_SIGNED)
  if constexpr (F == bin::ceil_div_signed) return fcppt::math::ceil_div_signed(a, b);
#endif
}
template <bin F, typename T> bool bskip(T const a, T const b)
{
  if constexpr (F == bin::div || F == bin::ceil_div_signed) return b != 0 && quotient_overflows(a, b);
  else if constexpr (F == bin::diff) return difference_overflows(a, b);
  else return false;
}
template <bin F, typename T> constexpr char const *bresult()
{
  if constexpr (F == bin::div) return tname<decltype(std::declval<T>() / std::declval<T>())>();
  else return tname<T>();
}
// all pairs left x right of plain-integer operands; contiguous right operands as x0, others as xs
template <bin F, typename T>
void binary_rows(long long const a_from, long long const a_to, long long const b_from, long long const b_to)
{
  for (long long a = a_from; a <= a_to; ++a)
  {
    row r;
    r.begin(bname<F>(), tname<T>(), bresult<F, T>(), 0, a, 0, 0, b_from, nullptr);
    for (long long b = b_from; b <= b_to; ++b)
    {
      T const ta = static_cast<T>(a);
      T const tb = static_cast<T>(b);
      r.call(b, [ta, tb] { return bcall<F>(ta, tb); });
    }
    r.end();
  }
}
template <bin F, typename T> void binary_rows_xs(std::vector<long long> const &as, std::vector<long long> const &bs)
{
  for (long long const a : as)
  {
    row r;
    r.begin(bname<F>(), tname<T>(), bresult<F, T>(), 0, a, 0, 0, 0, &bs);
    for (long long const b : bs)
    {
      T const ta = static_cast<T>(a);
      T const tb = static_cast<T>(b);
      r.call(b, [ta, tb] { return bcall<F>(ta, tb); });
    }
    r.end();
  }
}
template <typename T> std::vector<long long> as_ll(std::vector<T> const &v)
{
  std::vector<long long> r;
  for (T const x : v) r.push_back(static_cast<long long>(x));
  return r;
}
template <bin F, typename T> void binary_wide(config const &cfg, vj::Rng &rng)
{
  std::vector<T> const ls = operands<T>(rng, cfg.tier != 0, cfg.tier == 0 ? 16U : 64U);
  for (T const a : ls)
    for (T const b : ls)
    {
      if (bskip<F>(a, b)) continue;
      wide::rec(bname<F>(), tname<T>(), bresult<F, T>(), 0, 0, to_z(a), to_z(b), Z{false, 0}, [a, b] { return bcall<F>(a, b); });
    }
  unsigned const nr = cfg.tier == 0 ? 1500U : 60000U;
  for (unsigned i = 0; i < nr; ++i)
  {
    T const a = random_value<T>(rng);
    T const b = random_value<T>(rng);
    if (bskip<F>(a, b)) continue;
    wide::rec(bname<F>(), tname<T>(), bresult<F, T>(), 0, 0, to_z(a), to_z(b), Z{false, 0}, [a, b] { return bcall<F>(a, b); });
  }
}
template <bin F, typename T> void binary(config const &cfg, vj::Rng &rng)
{
  if constexpr (sizeof(T) == 1)
    binary_rows<F, T>(lo<T>(), hi<T>(), lo<T>(), hi<T>());
  else if constexpr (sizeof(T) == 2)
  {
    // 16-bit (4.3e9 pairs per function are beyond what TLC can judge):
    //   quick:    (lattice + 256 random) x (lattice + 64 random)
    //   thorough: (lattice + every 251st left operand) x every right operand; every left operand x a window of 64 consecutive right
    //             operands whose start rotates through the whole range; every left operand x a core
    //             set of right operands (0, +-1, +-2, +-3, min, min+1, max, max-1, +-255, +-256, +-257)
    std::vector<long long> const lat = as_ll(lattice<T>(true));
    if (cfg.tier == 0)
    {
      std::vector<long long> bs = lat;
      for (int i = 0; i < 64; ++i) bs.push_back(static_cast<long long>(random_value<T>(rng)));
      std::vector<long long> as = lat;
      for (int i = 0; i < 256; ++i) as.push_back(static_cast<long long>(random_value<T>(rng)));
      binary_rows_xs<F, T>(as, bs);
    }
    else
    {
      // full rows (every right operand): the lattice and every 251st left operand (offset by the seed).
      // Measured: TLC judges ~0.2 M results per CPU-second (5 us per result incl. JSON), so all 4.3e9 pairs of one
      // function x type would need ~6 CPU-hours and 9 GB of records - see docs/notes_C06.md.
      std::set<long long> full(lat.begin(), lat.end());
      for (long long a = lo<T>() + static_cast<long long>(cfg.seed % 251U); a <= hi<T>(); a += 251) full.insert(a);
      for (long long const a : full)
        for (long long b0 = lo<T>(); b0 <= hi<T>(); b0 += row_len)
          binary_rows<F, T>(a, a, b0, b0 + row_len - 1);
      std::set<long long> core_set{0, lo<T>(), lo<T>() + 1, hi<T>(), hi<T>() - 1};
      for (long long const v : {1LL, 2LL, 3LL, 255LL, 256LL, 257LL})
      {
        if (v <= hi<T>()) core_set.insert(v);
        if (-v >= lo<T>()) core_set.insert(-v);
      }
      std::vector<long long> const core(core_set.begin(), core_set.end());
      long long const range = hi<T>() - lo<T>() + 1;
      for (long long a = lo<T>(); a <= hi<T>(); ++a)
      {
        long long const start = lo<T>() + ((a - lo<T>()) * 67LL) % (range - 63);
        binary_rows<F, T>(a, a, start, start + 63);
        binary_rows_xs<F, T>(std::vector<long long>{a}, core);
      }
    }
  }
  else
    binary_wide<F, T>(cfg, rng);
}

// ---- the 32-bit grids of ceil_div / ceil_div_signed (plain integers)
inline void ceil_grids(std::string const &only)
{
#if C06_ON(C06_G_CEIL_DIV)
  if (only == "ceil_div") binary_rows<bin::ceil_div, u32>(0, 2047, 0, 2047);
#endif
#if C06_ON(C06_G_CEIL_DIV_SIGNED)
  if (only == "ceil_div_signed") binary_rows<bin::ceil_div_signed, i32>(-1024, 1023, -1024, 1023);
#endif
  (void)only;
}

// ---- clamp
#if C06_ON(C06_G_CLAMP)
template <typename T> void clamp_all(config const &cfg, vj::Rng &rng)
{
  auto const f = [](T const v, T const l, T const h) { return fcppt::math::clamp(v, l, h); };
  if constexpr (narrow<T>)
  {
    std::vector<long long> vs, bounds;
    if (sizeof(T) == 1 && cfg.tier != 0)
    {
      for (long long v = lo<T>(); v <= hi<T>(); ++v) { vs.push_back(v); bounds.push_back(v); }
    }
    else
    {
      std::set<long long> s;
      for (T const x : lattice<T>(true)) s.insert(static_cast<long long>(x));
      if (sizeof(T) == 1) for (long long v = lo<T>(); v <= hi<T>(); v += 16) s.insert(v);
      for (int i = 0; i < 8; ++i) s.insert(static_cast<long long>(random_value<T>(rng)));
      bounds.assign(s.begin(), s.end());
      if (sizeof(T) == 1) for (long long v = lo<T>(); v <= hi<T>(); ++v) vs.push_back(v);
      else { vs = bounds; for (int i = 0; i < 60; ++i) vs.push_back(static_cast<long long>(random_value<T>(rng))); }
    }
    for (long long const v : vs)
      for (long long const l : bounds)
      {
        row r;
        r.begin("clamp", tname<T>(), tname<T>(), 0, v, l, 0, 0, &bounds);
        for (long long const h : bounds)
          r.call(h, [&f, v, l, h] { return f(static_cast<T>(v), static_cast<T>(l), static_cast<T>(h)); });
        r.end();
      }
  }
  else
  {
    // a small boundary set cubed, then random triples
    std::vector<T> ls{static_cast<T>(0), static_cast<T>(1), static_cast<T>(2), std::numeric_limits<T>::min(),
                      static_cast<T>(std::numeric_limits<T>::min() + 1), std::numeric_limits<T>::max(),
                      static_cast<T>(std::numeric_limits<T>::max() - 1), static_cast<T>(std::numeric_limits<T>::max() / 2),
                      static_cast<T>(std::numeric_limits<T>::max() / 2 + 1)};
    if constexpr (std::is_signed_v<T>) { ls.push_back(static_cast<T>(-1)); ls.push_back(static_cast<T>(-2)); }
    for (int i = 0; i < (cfg.tier == 0 ? 3 : 12); ++i) ls.push_back(random_value<T>(rng));
    for (T const v : ls)
      for (T const l : ls)
        for (T const h : ls)
          wide::rec("clamp", tname<T>(), tname<T>(), 0, 0, to_z(v), to_z(l), to_z(h), [&f, v, l, h] { return f(v, l, h); });
    unsigned const nr = cfg.tier == 0 ? 500U : 20000U;
    for (unsigned i = 0; i < nr; ++i)
    {
      T const v = random_value<T>(rng), l = random_value<T>(rng), h = random_value<T>(rng);
      wide::rec("clamp", tname<T>(), tname<T>(), 0, 0, to_z(v), to_z(l), to_z(h), [&f, v, l, h] { return f(v, l, h); });
    }
  }
}

#endif

// ---- power_of_2 / shifted_mask
#if C06_ON(C06_G_POW2)
template <typename R> void pow2_all()
{
  unsigned const pb = promoted_bits<R>();
  if constexpr (narrow<R>)
  {
    row r;
    r.begin("power_of_2", tname<R>(), tname<R>(), 0, 0, 0, 0, 0, nullptr);
    for (unsigned e = 0; e < pb && e <= 30U; ++e) r.call(e, [e] { return fcppt::math::power_of_2<R>(e); });
    r.end();
    if constexpr (std::is_unsigned_v<R>)
    {
      row m;
      m.begin("shifted_mask", tname<R>(), tname<R>(), 0, 0, 0, 0, 0, nullptr);
      for (unsigned e = 0; e < pb && e <= 30U; ++e) m.call(e, [e] { return fcppt::bit::shifted_mask<R>(e).get(); });
      m.end();
    }
  }
  else
  {
    Z const z{false, 0};
    for (unsigned e = 0; e < pb; ++e)
    {
      wide::rec("power_of_2", tname<R>(), tname<R>(), 0, e, z, z, z, [e] { return fcppt::math::power_of_2<R>(e); });
      // a second exponent type
      wide::rec("power_of_2", tname<R>(), tname<R>(), 0, e, z, z, z, [e] { return fcppt::math::power_of_2<R>(static_cast<std::uint8_t>(e)); });
      if constexpr (std::is_unsigned_v<R>)
        wide::rec("shifted_mask", tname<R>(), tname<R>(), 0, e, z, z, z, [e] { return fcppt::bit::shifted_mask<R>(e).get(); });
    }
  }
}

#endif

// ---- interval_distance on int with small endpoints
#if C06_ON(C06_G_INTERVAL)
inline void interval_all()
{
  for (int a1 = -5; a1 <= 5; ++a1)
    for (int b1 = a1; b1 <= 5; ++b1)
      for (int a2 = -5; a2 <= 5; ++a2)
      {
        row r;
        r.begin("interval_distance", "i32", "i32", 0, a1, b1, a2, a2, nullptr);
        for (int b2 = a2; b2 <= 5; ++b2)
          r.call(b2, [a1, b1, a2, b2] {
            return fcppt::math::interval_distance(fcppt::tuple::make(a1, b1), fcppt::tuple::make(a2, b2));
          });
        r.end();
      }
}

#endif

#if C06_ON(C06_G_CONV)
// ---- value preserving conversions: cast::size, to_signed, to_unsigned, promote_int, safe_numeric, fcppt::literal
// (extension round).  Rows for 8/16-bit sources (every value), wide records for 32/64-bit sources (lattice + random).
template <typename S, typename Fn> void conv_one(char const *f, char const *D, config const &cfg, vj::Rng &rng, Fn const &fn)
{
  if constexpr (narrow<S>)
    unary_rows<S>(f, tname<S>(), D, 0, lo<S>(), hi<S>(), fn);
  else
    for (S const v : operands<S>(rng, true, cfg.tier == 0 ? 48U : 1500U))
      wide::rec(f, tname<S>(), D, 0, 0, to_z(v), Z{false, 0}, Z{false, 0}, [&fn, v] { return fn(v); });
}
template <typename D, typename S> void conv_pair(config const &cfg, vj::Rng &rng)
{
  if constexpr (std::is_signed_v<D> == std::is_signed_v<S>)
  {
    conv_one<S>("cast_size", tname<D>(), cfg, rng, [](S const v) { return fcppt::cast::size<D>(v); });
    if constexpr (sizeof(D) >= sizeof(S))
      conv_one<S>("safe_numeric", tname<D>(), cfg, rng, [](S const v) { return fcppt::cast::safe_numeric<D>(v); });
  }
  conv_one<S>("literal", tname<D>(), cfg, rng, [](S const v) { return fcppt::literal<D>(S{v}); });
}
template <typename S> void conv_source(config const &cfg, vj::Rng &rng)
{
  conv_pair<i8, S>(cfg, rng); conv_pair<u8, S>(cfg, rng); conv_pair<i16, S>(cfg, rng); conv_pair<u16, S>(cfg, rng);
  conv_pair<i32, S>(cfg, rng); conv_pair<u32, S>(cfg, rng); conv_pair<i64, S>(cfg, rng); conv_pair<u64, S>(cfg, rng);
  if constexpr (std::is_unsigned_v<S>)
    conv_one<S>("to_signed", tname<std::make_signed_t<S>>(), cfg, rng, [](S const v) { return fcppt::cast::to_signed(v); });
  else
    conv_one<S>("to_unsigned", tname<std::make_unsigned_t<S>>(), cfg, rng, [](S const v) { return fcppt::cast::to_unsigned(v); });
  conv_one<S>("promote_int", tname<fcppt::cast::promote_int_type<S>>(), cfg, rng, [](S const v) { return fcppt::cast::promote_int(v); });
}

#endif

#if C06_ON(C06_G_ENUM_CASTS)
// ---- enum casts: enums with a fixed underlying type can hold every value of that type
enum class ce_i8 : std::int8_t { zero, fcppt_maximum = zero };
enum class ce_u8 : std::uint8_t { zero, fcppt_maximum = zero };
enum class ce_i16 : std::int16_t { zero, fcppt_maximum = zero };
enum class ce_u16 : std::uint16_t { zero, fcppt_maximum = zero };
template <typename E, typename D> void enum_to_int_pair()
{
  using U = std::underlying_type_t<E>;
  unary_rows<U>("enum_to_int", tname<U>(), tname<D>(), 0, lo<U>(), hi<U>(), [](U const v) { return fcppt::cast::enum_to_int<D>(static_cast<E>(v)); });
}
template <typename E, typename S> void int_to_enum_pair()
{
  using U = std::underlying_type_t<E>;
  // the enum is observed through cast::enum_to_underlying ("This cast is safe")
  unary_rows<S>("int_to_enum", tname<S>(), tname<U>(), 0, lo<S>(), hi<S>(),
                [](S const v) { return fcppt::cast::enum_to_underlying(fcppt::cast::int_to_enum<E>(v)); });
}
template <typename E> void enum_casts()
{
  using U = std::underlying_type_t<E>;
  unary_rows<U>("enum_to_underlying", tname<U>(), tname<U>(), 0, lo<U>(), hi<U>(), [](U const v) { return fcppt::cast::enum_to_underlying(static_cast<E>(v)); });
  enum_to_int_pair<E, i8>(); enum_to_int_pair<E, u8>(); enum_to_int_pair<E, i16>(); enum_to_int_pair<E, u16>();
  enum_to_int_pair<E, i32>(); enum_to_int_pair<E, u32>(); enum_to_int_pair<E, i64>(); enum_to_int_pair<E, u64>();
  int_to_enum_pair<E, i8>(); int_to_enum_pair<E, u8>(); int_to_enum_pair<E, i16>(); int_to_enum_pair<E, u16>();
}

#endif

// ---- bit::mask_c (a constant mask holds its constant) and cast::to_uint_ptr (equal exactly for the same object)
#if C06_ON(C06_G_MASK_C)
template <typename T, T M> void mask_c_one()
{
  if constexpr (narrow<T>)
  {
    std::vector<long long> const xs{static_cast<long long>(M)};
    row r;
    r.begin("mask_c", tname<T>(), tname<T>(), 0, 0, 0, 0, 0, &xs);
    r.call(static_cast<long long>(M), [] { return fcppt::bit::mask_c<T, M>().get(); });
    r.end();
  }
  else
    wide::rec("mask_c", tname<T>(), tname<T>(), 0, 0, to_z(M), Z{false, 0}, Z{false, 0}, [] { return fcppt::bit::mask_c<T, M>().get(); });
}
inline void mask_c_all()
{
  mask_c_one<u8, 0>(); mask_c_one<u8, 1>(); mask_c_one<u8, 0x81>(); mask_c_one<u8, 255>();
  mask_c_one<i8, -128>(); mask_c_one<i8, -1>(); mask_c_one<i8, 127>();
  mask_c_one<u16, 0x8001>(); mask_c_one<u16, 65535>(); mask_c_one<i16, -32768>(); mask_c_one<i16, 32767>();
  // round 3: constants that need the upper half of a 32/64-bit type
  mask_c_one<u32, 0x80000000U>(); mask_c_one<u32, 0xFFFFFFFFU>(); mask_c_one<u32, 0x10000U>(); mask_c_one<u32, 0>();
  mask_c_one<i32, std::numeric_limits<i32>::min()>(); mask_c_one<i32, -1>(); mask_c_one<i32, std::numeric_limits<i32>::max()>();
  mask_c_one<u64, 0x8000000000000000ULL>(); mask_c_one<u64, 0xFFFFFFFFFFFFFFFFULL>(); mask_c_one<u64, 0x100000000ULL>();
  mask_c_one<u64, 0x80000000ULL>(); mask_c_one<u64, 0xFFFFFFFF00000001ULL>();
  mask_c_one<i64, std::numeric_limits<i64>::min()>(); mask_c_one<i64, -1>(); mask_c_one<i64, std::numeric_limits<i64>::max()>();
  mask_c_one<i64, -0x100000000LL>(); mask_c_one<i64, 0x100000000LL>();
}
#endif
#if C06_ON(C06_G_UINT_PTR)
inline void misc_all()
{
  static int cells[6] = {0, 0, 0, 0, 0, 0};
  for (int i = 0; i < 6; ++i)
  {
    row r;
    r.begin("to_uint_ptr", "i32", "u64", 0, i, 0, 0, 0, nullptr);
    for (int j = 0; j < 6; ++j)
      r.call(j, [i, j] { return fcppt::cast::to_uint_ptr(&cells[i]) == fcppt::cast::to_uint_ptr(&cells[j]); });
    r.end();
  }
}
#endif

// ---------------------------------------------------------------- sections
// one entry per section; only the groups that are compiled in are listed / can be run
struct section_entry
{
  char const *name;
  void (*run)(std::string const &, config const &, vj::Rng &);
};
#define C06_SEC(name, ...) section_entry{name, [](std::string const &s, config const &cfg, vj::Rng &rng) { (void)s; (void)cfg; (void)rng; __VA_ARGS__ }},
inline std::vector<section_entry> const &section_table()
{
  static std::vector<section_entry> const t{
#if C06_ON(C06_G_TC)
      C06_SEC("tc_i8", tc_source<i8>(cfg, rng);) C06_SEC("tc_u8", tc_source<u8>(cfg, rng);)
      C06_SEC("tc_i16", tc_source<i16>(cfg, rng);) C06_SEC("tc_u16", tc_source<u16>(cfg, rng);)
      C06_SEC("tc_i32", tc_source<i32>(cfg, rng);) C06_SEC("tc_u32", tc_source<u32>(cfg, rng);)
      C06_SEC("tc_i64", tc_source<i64>(cfg, rng);) C06_SEC("tc_u64", tc_source<u64>(cfg, rng);)
#endif
#if C06_ON(C06_G_FROM_INT)
      C06_SEC("from_int_u8", from_int_enum<eu8_1>(cfg, rng); from_int_enum<eu8_3>(cfg, rng); from_int_enum<eu8_9>(cfg, rng);)
      C06_SEC("from_int_i8", from_int_enum<ei8_1>(cfg, rng); from_int_enum<ei8_3>(cfg, rng); from_int_enum<ei8_9>(cfg, rng);)
      C06_SEC("from_int_u16", from_int_enum<eu16_1>(cfg, rng); from_int_enum<eu16_3>(cfg, rng); from_int_enum<eu16_9>(cfg, rng);)
      C06_SEC("from_int_u32", from_int_enum<eu32_1>(cfg, rng); from_int_enum<eu32_3>(cfg, rng); from_int_enum<eu32_9>(cfg, rng);)
      // round 3: enum sizes at the limit of the underlying type / of the size type
      C06_SEC("from_int_limits", from_int_enum<eu8_255>(cfg, rng); from_int_enum<ei8_128>(cfg, rng); from_int_enum<ei16_32768>(cfg, rng);
              from_int_enum<eu16_65535>(cfg, rng); from_int_enum<eu8_128>(cfg, rng); from_int_enum<eu8_129>(cfg, rng);)
#endif
#if C06_ON(C06_G_LOG2)
      C06_SEC("log2_narrow", unary_helpers<u8>(cfg, rng, "log2"); unary_helpers<u16>(cfg, rng, "log2");)
      C06_SEC("log2_u32", unary_helpers<u32>(cfg, rng, "log2");) C06_SEC("log2_u64", unary_helpers<u64>(cfg, rng, "log2");)
#endif
#if C06_ON(C06_G_IS_POW2)
      C06_SEC("is_power_of_2", unary_helpers<u8>(cfg, rng, s); unary_helpers<u16>(cfg, rng, s); unary_helpers<u32>(cfg, rng, s); unary_helpers<u64>(cfg, rng, s);)
#endif
#if C06_ON(C06_G_NEXT_POW2)
      C06_SEC("next_power_of_2", unary_helpers<u8>(cfg, rng, s); unary_helpers<u16>(cfg, rng, s); unary_helpers<u32>(cfg, rng, s); unary_helpers<u64>(cfg, rng, s);)
#endif
#if C06_ON(C06_G_DIV)
      C06_SEC("div_8", binary<bin::div, i8>(cfg, rng); binary<bin::div, u8>(cfg, rng);)
      C06_SEC("div_16", binary<bin::div, i16>(cfg, rng); binary<bin::div, u16>(cfg, rng);)
      C06_SEC("div_32", binary<bin::div, i32>(cfg, rng); binary<bin::div, u32>(cfg, rng);)
      C06_SEC("div_64", binary<bin::div, i64>(cfg, rng); binary<bin::div, u64>(cfg, rng);)
#endif
#if C06_ON(C06_G_MOD)
      C06_SEC("mod", binary<bin::mod, u8>(cfg, rng); binary<bin::mod, u16>(cfg, rng); binary<bin::mod, u32>(cfg, rng); binary<bin::mod, u64>(cfg, rng);)
#endif
#if C06_ON(C06_G_DIFF)
      C06_SEC("diff_8", binary<bin::diff, i8>(cfg, rng); binary<bin::diff, u8>(cfg, rng);)
      C06_SEC("diff_16", binary<bin::diff, i16>(cfg, rng); binary<bin::diff, u16>(cfg, rng);)
      C06_SEC("diff_wide", binary<bin::diff, i32>(cfg, rng); binary<bin::diff, u32>(cfg, rng); binary<bin::diff, i64>(cfg, rng); binary<bin::diff, u64>(cfg, rng);)
#endif
#if C06_ON(C06_G_BIT_TEST)
      C06_SEC("bit_test", binary<bin::bit_test, u8>(cfg, rng); binary<bin::bit_test, u16>(cfg, rng); binary<bin::bit_test, u32>(cfg, rng); binary<bin::bit_test, u64>(cfg, rng);)
      C06_SEC("bit_test_signed", binary<bin::bit_test, i8>(cfg, rng); binary<bin::bit_test, i16>(cfg, rng);)
#endif
#if C06_ON(C06_G_CEIL_DIV)
      C06_SEC("ceil_div", binary<bin::ceil_div, u32>(cfg, rng); binary<bin::ceil_div, u64>(cfg, rng);)
      C06_SEC("ceil_div_grid", ceil_grids("ceil_div");)
#endif
#if C06_ON(C06_G_CEIL_DIV_SIGNED)
      C06_SEC("ceil_div_signed", binary<bin::ceil_div_signed, i32>(cfg, rng); binary<bin::ceil_div_signed, i64>(cfg, rng);)
      C06_SEC("ceil_div_signed_grid", ceil_grids("ceil_div_signed");)
#endif
#if C06_ON(C06_G_CLAMP)
      C06_SEC("clamp_8", clamp_all<i8>(cfg, rng); clamp_all<u8>(cfg, rng);)
      C06_SEC("clamp_16", clamp_all<i16>(cfg, rng); clamp_all<u16>(cfg, rng);)
      C06_SEC("clamp_wide", clamp_all<i32>(cfg, rng); clamp_all<u32>(cfg, rng); clamp_all<i64>(cfg, rng); clamp_all<u64>(cfg, rng);)
#endif
#if C06_ON(C06_G_POW2)
      C06_SEC("power_of_2", pow2_all<i8>(); pow2_all<u8>(); pow2_all<i16>(); pow2_all<u16>(); pow2_all<i32>(); pow2_all<u32>(); pow2_all<i64>(); pow2_all<u64>();)
#endif
#if C06_ON(C06_G_INTERVAL)
      C06_SEC("interval_distance", interval_all();)
#endif
#if C06_ON(C06_G_CONV)
      C06_SEC("conv_8", conv_source<i8>(cfg, rng); conv_source<u8>(cfg, rng);)
      C06_SEC("conv_16", conv_source<i16>(cfg, rng); conv_source<u16>(cfg, rng);)
      C06_SEC("conv_32", conv_source<i32>(cfg, rng); conv_source<u32>(cfg, rng);)
      C06_SEC("conv_64", conv_source<i64>(cfg, rng); conv_source<u64>(cfg, rng);)
#endif
#if C06_ON(C06_G_ENUM_CASTS)
      C06_SEC("enum_casts", enum_casts<ce_i8>(); enum_casts<ce_u8>(); enum_casts<ce_i16>(); enum_casts<ce_u16>();)
#endif
#if C06_ON(C06_G_MASK_C)
      C06_SEC("mask_c", mask_c_all();)
#endif
#if C06_ON(C06_G_UINT_PTR)
      C06_SEC("misc", misc_all();)
#endif
  };
  return t;
}
#undef C06_SEC

inline std::vector<std::string> sections()
{
  std::vector<std::string> r;
  for (section_entry const &e : section_table()) r.emplace_back(e.name);
  return r;
}

inline bool run_section(std::string const &s, config const &cfg)
{
  vj::Rng rng(cfg.seed * 1000003ULL + std::hash<std::string>{}(s) % 1000003ULL);
  for (section_entry const &e : section_table())
    if (s == e.name)
    {
      e.run(s, cfg, rng);
      return true;
    }
  return false;
}
}

#endif
