// C14 harness: vector / dim operations on operands of any storage kind (used by the units
// c14_vectors, c14_storage_vec, c14_storage_mat and c14_order_mixed).
#ifndef VERIF_C14_VEC_HPP
#define VERIF_C14_VEC_HPP

#include <c14_common.hpp>

#include <fcppt/cast/size_fun.hpp>
#include <fcppt/math/dim/arithmetic.hpp>
#include <fcppt/math/dim/at.hpp>
#include <fcppt/math/dim/comparison.hpp>
#include <fcppt/math/dim/fill.hpp>
#include <fcppt/math/dim/init.hpp>
#include <fcppt/math/dim/narrow_cast.hpp>
#include <fcppt/math/dim/null.hpp>
#include <fcppt/math/dim/push_back.hpp>
#include <fcppt/math/dim/structure_cast.hpp>
#include <fcppt/math/vector/arithmetic.hpp>
#include <fcppt/math/vector/at.hpp>
#include <fcppt/math/vector/comparison.hpp>
#include <fcppt/math/vector/cross.hpp>
#include <fcppt/math/vector/dim.hpp>
#include <fcppt/math/vector/dot.hpp>
#include <fcppt/math/vector/fill.hpp>
#include <fcppt/math/vector/init.hpp>
#include <fcppt/math/vector/length_square.hpp>
#include <fcppt/math/vector/narrow_cast.hpp>
#include <fcppt/math/vector/null.hpp>
#include <fcppt/math/vector/push_back.hpp>
#include <fcppt/math/vector/structure_cast.hpp>

namespace c14
{
template <typename X>
struct is_vec : std::false_type
{
};
template <typename T, sz N, typename S>
struct is_vec<fm::vector::object<T, N, S>> : std::true_type
{
};

inline std::string st2(char const *a, char const *b) { return std::string(a) + "," + b; }

// a (op) b and a ==/!= b with operands of any storage kinds (vectors or dims)
template <typename A, typename B>
void vec_binary(char const *kind, std::string const &st, std::string const &aj, std::string const &bj, A const &a, B const &b)
{
  {
    Rec r("add");
    r.ks("k", kind).ks("st", st).k("a", aj).k("b", bj).begin();
    auto const res(a + b);
    r.k("r", vj_(res)).end();
  }
  {
    Rec r("sub");
    r.ks("k", kind).ks("st", st).k("a", aj).k("b", bj).begin();
    auto const res(a - b);
    r.k("r", vj_(res)).end();
  }
  {
    Rec r("mul");
    r.ks("k", kind).ks("st", st).k("a", aj).k("b", bj).begin();
    auto const res(a * b);
    r.k("r", vj_(res)).end();
  }
}
template <typename A, typename B>
void vec_equal(char const *kind, std::string const &st, std::string const &aj, std::string const &bj, A const &a, B const &b)
{
  {
    Rec r("eq");
    r.ks("k", kind).ks("st", st).k("a", aj).k("b", bj).begin();
    bool const res = a == b;
    r.kb("r", res).end();
  }
  {
    Rec r("ne");
    r.ks("k", kind).ks("st", st).k("a", aj).k("b", bj).begin();
    bool const res = a != b;
    r.kb("r", res).end();
  }
}

template <typename A, typename B>
void vec_only_binary(std::string const &st, std::string const &aj, std::string const &bj, A const &a, B const &b)
{
  {
    Rec r("dot");
    r.ks("k", "vector").ks("st", st).k("a", aj).k("b", bj).begin();
    int const res = fm::vector::dot(a, b);
    r.ki("r", res).end();
  }
  if constexpr (A::static_size::value == 3)
  {
    Rec r("cross");
    r.ks("k", "vector").ks("st", st).k("a", aj).k("b", bj).begin();
    auto const res(fm::vector::cross(a, b));
    r.k("r", vj_(res)).end();
  }
}

// all four ordering operators; on the unchanged tree both operands must have the same type
// (detail::array_less takes one template type), the unit c14_order_mixed passes different ones
template <typename A, typename B>
void vec_order(char const *kind, std::string const &st, std::string const &aj, std::string const &bj, A const &a, B const &b)
{
  {
    Rec r("lt");
    r.ks("k", kind).ks("st", st).k("a", aj).k("b", bj).begin();
    bool const res = a < b;
    r.kb("r", res).end();
  }
  {
    Rec r("gt");
    r.ks("k", kind).ks("st", st).k("a", aj).k("b", bj).begin();
    bool const res = a > b;
    r.kb("r", res).end();
  }
  {
    Rec r("le");
    r.ks("k", kind).ks("st", st).k("a", aj).k("b", bj).begin();
    bool const res = a <= b;
    r.kb("r", res).end();
  }
  {
    Rec r("ge");
    r.ks("k", kind).ks("st", st).k("a", aj).k("b", bj).begin();
    bool const res = a >= b;
    r.kb("r", res).end();
  }
}

// operand pairs for the comparisons derived from u (N values): equal; differing in exactly one
// position (every position, both directions: the prefix before it is equal, the rest is equal);
// differing in two positions in opposite directions (the first difference decides, a later one
// points the other way).  f(v) gets v = a ++ b.
template <sz N, typename F>
void order_pairs(ivec const &u, F const &f)
{
  auto const emit = [&](ivec const &b) {
    ivec v(u.begin(), u.begin() + static_cast<std::ptrdiff_t>(N));
    v.insert(v.end(), b.begin(), b.end());
    f(v);
  };
  ivec const base(u.begin(), u.begin() + static_cast<std::ptrdiff_t>(N));
  emit(base);
  for (std::size_t p = 0; p < N; ++p)
    for (int d : {-1, 1})
    {
      ivec b(base);
      b[p] += d;
      emit(b);
      for (std::size_t q = p + 1; q < N; ++q)
      {
        ivec b2(b);
        b2[q] -= 2 * d;
        emit(b2);
      }
    }
}

template <sz I, typename T, sz N, typename S>
decltype(auto) at_(fm::vector::object<T, N, S> const &v)
{
  return fm::vector::at<I>(v);
}
template <sz I, typename T, sz N, typename S>
decltype(auto) at_(fm::dim::object<T, N, S> const &v)
{
  return fm::dim::at<I>(v);
}
template <sz I, typename T, sz N, typename S>
decltype(auto) at_(fm::vector::object<T, N, S> &v)
{
  return fm::vector::at<I>(v);
}
template <sz I, typename T, sz N, typename S>
decltype(auto) at_(fm::dim::object<T, N, S> &v)
{
  return fm::dim::at<I>(v);
}
// the named member accessor of component I: x y z w of a vector, w h d of a dim
template <sz I, typename V>
decltype(auto) named_(V &v)
{
  if constexpr (is_vec<std::remove_cv_t<V>>::value)
  {
    if constexpr (I == 0) return v.x();
    else if constexpr (I == 1) return v.y();
    else if constexpr (I == 2) return v.z();
    else return v.w();
  }
  else
  {
    if constexpr (I == 0) return v.w();
    else if constexpr (I == 1) return v.h();
    else return v.d();
  }
}
template <sz I, typename V>
constexpr bool has_named()
{
  return is_vec<std::remove_cv_t<V>>::value ? I < 4 : I < 3;
}

template <typename A>
void vec_unary(char const *kind, char const *st, std::string const &aj, A const &a, int const k, bool const all_access = true)
{
  constexpr sz N = A::static_size::value;
  {
    Rec r("neg");
    r.ks("k", kind).ks("st", st).k("a", aj).begin();
    auto const res(-a);
    r.k("r", vj_(res)).end();
  }
  {
    Rec r("scale");
    r.ks("k", kind).ks("st", st).k("a", aj).ki("k", k).begin();
    auto const res(a * k);
    r.k("r", vj_(res)).end();
  }
  {
    Rec r("scale_left");
    r.ks("k", kind).ks("st", st).k("a", aj).ki("k", k).begin();
    auto const res(k * a);
    r.k("r", vj_(res)).end();
  }
  static_for<N>([&](auto idx) {
    constexpr sz I = decltype(idx)::value;
    {
      Rec r("at");
      r.ks("k", kind).ks("st", st).ks("via", "at").k("a", aj).ki("i", I).begin();
      int const res = at_<I>(a);
      r.ki("r", res).end();
    }
    if (all_access)
    {
      Rec r("at");
      r.ks("k", kind).ks("st", st).ks("via", "get_unsafe").k("a", aj).ki("i", I).begin();
      int const res = a.get_unsafe(I);
      r.ki("r", res).end();
    }
    if constexpr (has_named<I, A>())
    {
      if (!all_access) return;
      Rec r("at");
      r.ks("k", kind).ks("st", st).ks("via", "named").k("a", aj).ki("i", I).begin();
      int const res = named_<I>(a);
      r.ki("r", res).end();
    }
  });
}

// components read and written through a NON-const object x (the caller owns its cells; x holds the
// values of aj before every call, it is restored after every write)
template <typename X>
void vec_write(char const *kind, char const *st, std::string const &aj, X &x, int const val)
{
  constexpr sz N = X::static_size::value;
  // every component is restored after a write (a wrong write may have landed anywhere)
  std::vector<int> orig;
  for (sz i = 0; i < N; ++i) orig.push_back(x.get_unsafe(i));
  auto const restore = [&x, &orig]() {
    for (sz i = 0; i < N; ++i) x.get_unsafe(i) = orig[i];
  };
  static_for<N>([&](auto idx) {
    constexpr sz I = decltype(idx)::value;
    {
      Rec r("at");
      r.ks("k", kind).ks("st", st).ks("via", "at(non-const)").k("a", aj).ki("i", I).begin();
      int const res = at_<I>(x);
      r.ki("r", res).end();
    }
    {
      Rec r("at_set");
      r.ks("k", kind).ks("st", st).ks("via", "at").k("a", aj).ki("i", I).ki("x", val).begin();
      at_<I>(x) = val;
      r.k("r", vj_(x)).end();
      restore();
    }
    if constexpr (has_named<I, X>())
    {
      Rec r("at_set");
      r.ks("k", kind).ks("st", st).ks("via", "named").k("a", aj).ki("i", I).ki("x", val).begin();
      named_<I>(x) = val;
      r.k("r", vj_(x)).end();
      restore();
    }
  });
}

template <typename A>
void vec_length_square(char const *st, std::string const &aj, A const &a)
{
  Rec r("length_square");
  r.ks("k", "vector").ks("st", st).k("a", aj).begin();
  int const res = fm::vector::length_square(a);
  r.ki("r", res).end();
}

// push_back, narrow_cast to every smaller dimension, structure_cast (to long) of a vector or dim
template <typename A>
void vec_conversions(char const *kind, char const *st, std::string const &aj, A const &a, int const k)
{
  constexpr sz N = A::static_size::value;
  constexpr bool V = is_vec<A>::value;
  {
    Rec r("push_back");
    r.ks("k", kind).ks("st", st).k("a", aj).ki("x", k).begin();
    if constexpr (V)
    {
      auto const res(fm::vector::push_back(a, k));
      r.k("r", vj_(res)).end();
    }
    else
    {
      auto const res(fm::dim::push_back(a, k));
      r.k("r", vj_(res)).end();
    }
  }
  if constexpr (N >= 2)
  {
    static_for<N - 1>([&](auto idx) {
      constexpr sz M = decltype(idx)::value + 1U;
      Rec r("narrow_cast");
      r.ks("k", kind).ks("st", st).k("a", aj).ki("n", M).begin();
      if constexpr (V)
      {
        auto const res(fm::vector::narrow_cast<fm::vector::static_<int, M>>(a));
        r.k("r", vj_(res)).end();
      }
      else
      {
        auto const res(fm::dim::narrow_cast<fm::dim::static_<int, M>>(a));
        r.k("r", vj_(res)).end();
      }
    });
  }
  {
    Rec r("structure_cast");
    r.ks("k", kind).ks("st", st).ks("to", "long").k("a", aj).begin();
    if constexpr (V)
    {
      auto const res(fm::vector::structure_cast<fm::vector::static_<long, N>, fcppt::cast::size_fun>(a));
      r.k("r", vj_(res)).end();
    }
    else
    {
      auto const res(fm::dim::structure_cast<fm::dim::static_<long, N>, fcppt::cast::size_fun>(a));
      r.k("r", vj_(res)).end();
    }
  }
}

// a static object constructed from an object with another storage type
template <typename A>
void vec_construct(char const *kind, char const *st, std::string const &aj, A const &a)
{
  constexpr sz N = A::static_size::value;
  Rec r("copy");
  r.ks("k", kind).ks("st", st).k("a", aj).begin();
  if constexpr (is_vec<A>::value)
  {
    fm::vector::static_<int, N> const res(a);
    r.k("r", vj_(res)).end();
  }
  else
  {
    fm::dim::static_<int, N> const res(a);
    r.k("r", vj_(res)).end();
  }
}

// x (op)= b for a non-const left operand x (holding the values of aj); op in + - *
template <typename X, typename B>
void vec_compound(char const *kind, std::string const &st, char const op, std::string const &aj, std::string const &bj, X &x, B const &b)
{
  Rec r(op == '+' ? "add_assign" : (op == '-' ? "sub_assign" : "mul_assign"));
  r.ks("k", kind).ks("st", st).k("a", aj).k("b", bj).begin();
  if (op == '+') x += b;
  else if (op == '-') x -= b;
  else x *= b;
  r.k("r", vj_(x)).end();
}
template <typename X>
void vec_scale_assign(char const *kind, char const *st, std::string const &aj, X &x, int const k)
{
  Rec r("scale_assign");
  r.ks("k", kind).ks("st", st).k("a", aj).ki("k", k).begin();
  x *= k;
  r.k("r", vj_(x)).end();
}
// x = b (different storage types: the template operator= of fcppt, math/detail/assign.hpp)
template <typename X, typename B>
void vec_assign(char const *kind, std::string const &st, std::string const &aj, std::string const &bj, X &x, B const &b)
{
  static_assert(!std::is_same_v<X, B>, "same types: the implicit copy assignment, not fcppt code");
  Rec r("assign");
  r.ks("k", kind).ks("st", st).k("a", aj).k("b", bj).begin();
  x = b;
  r.k("r", vj_(x)).end();
}
}

#endif
