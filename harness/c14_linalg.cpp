// C14 conformance harness: drives fcppt::math vector / dim / matrix operations over integer
// scalars and records operands and results as nested arrays (ndjson, one record per call).
// It contains no expected values: spec/LinAlgJudge.tla (TLC) is the judge.
//
//   c14_linalg record OUT seed tier(quick|thorough) part(pairs|matrices|vectors|extension|all)
//
// Inputs: all pairs of 2x2 matrices over {-1,0,1,2}; random 3x3 / 4x4 / rectangular matrices and
// vectors / dims of dimension 1-4 with entries in [-9,9] (smaller where products of products are
// formed, so that every intermediate stays below 2^31); static storage and view storage (rows of
// a matrix are vectors whose storage is a view into the matrix).
#include <common/vjson.hpp>

#include <fcppt/no_init.hpp>
#include <fcppt/cast/size_fun.hpp>
#include <fcppt/cast/to_signed_fun.hpp>
#include <fcppt/cast/to_unsigned_fun.hpp>
#include <fcppt/math/size_type.hpp>
#include <fcppt/math/dim/arithmetic.hpp>
#include <fcppt/math/dim/at.hpp>
#include <fcppt/math/dim/comparison.hpp>
#include <fcppt/math/dim/contents.hpp>
#include <fcppt/math/dim/fill.hpp>
#include <fcppt/math/dim/init.hpp>
#include <fcppt/math/dim/narrow_cast.hpp>
#include <fcppt/math/dim/null.hpp>
#include <fcppt/math/dim/push_back.hpp>
#include <fcppt/math/dim/static.hpp>
#include <fcppt/math/dim/structure_cast.hpp>
#include <fcppt/math/dim/to_vector.hpp>
#include <fcppt/math/matrix/adjugate.hpp>
#include <fcppt/math/matrix/arithmetic.hpp>
#include <fcppt/math/matrix/at_r.hpp>
#include <fcppt/math/matrix/at_r_c.hpp>
#include <fcppt/math/matrix/comparison.hpp>
#include <fcppt/math/matrix/delete_row_and_column.hpp>
#include <fcppt/math/matrix/determinant.hpp>
#include <fcppt/math/matrix/identity.hpp>
#include <fcppt/math/matrix/row.hpp>
#include <fcppt/math/matrix/scaling.hpp>
#include <fcppt/math/matrix/static.hpp>
#include <fcppt/math/matrix/structure_cast.hpp>
#include <fcppt/math/matrix/transform_direction.hpp>
#include <fcppt/math/matrix/transform_point.hpp>
#include <fcppt/math/matrix/translation.hpp>
#include <fcppt/math/matrix/transpose.hpp>
#include <fcppt/math/matrix/vector.hpp>
#include <fcppt/math/vector/arithmetic.hpp>
#include <fcppt/math/vector/at.hpp>
#include <fcppt/math/vector/bit_strings.hpp>
#include <fcppt/math/vector/comparison.hpp>
#include <fcppt/math/vector/cross.hpp>
#include <fcppt/math/vector/dim.hpp>
#include <fcppt/math/vector/dot.hpp>
#include <fcppt/math/vector/fill.hpp>
#include <fcppt/math/vector/init.hpp>
#include <fcppt/math/vector/length_square.hpp>
#include <fcppt/math/vector/narrow_cast.hpp>
#include <fcppt/math/vector/null.hpp>
#include <fcppt/math/vector/push_back.hpp>
#include <fcppt/math/vector/static.hpp>
#include <fcppt/math/vector/structure_cast.hpp>
#include <fcppt/math/vector/to_dim.hpp>
#include <fcppt/math/vector/to_signed.hpp>
#include <fcppt/math/vector/to_unsigned.hpp>
#include <fcppt/math/interval_distance.hpp>
#include <fcppt/math/dim/is_quadratic.hpp>
#include <fcppt/math/dim/to_signed.hpp>
#include <fcppt/math/dim/to_unsigned.hpp>
#include <fcppt/math/matrix/infinity_norm.hpp>
#include <fcppt/math/sphere/comparison.hpp>
#include <fcppt/math/sphere/object.hpp>
#include <fcppt/math/vector/ceil_div_signed.hpp>
#include <fcppt/math/vector/mod.hpp>
#include <fcppt/math/vector/unit.hpp>
#include <fcppt/optional/object.hpp>
#include <fcppt/tuple/make.hpp>
#include <fcppt/tuple/object.hpp>

#include <cstring>
#include <string>
#include <type_traits>
#include <utility>
#include <vector>

namespace
{
namespace fm = fcppt::math;
using sz = fm::size_type;
using ivec = std::vector<int>;

long NREC = 0;

// ---------------------------------------------------------------- record writer
struct Rec
{
  std::string s;
  explicit Rec(char const *f)
  {
    s = "{\"f\":\"";
    s += f;
    s += '"';
  }
  Rec &k(char const *key, std::string const &json)
  {
    s += ",\"";
    s += key;
    s += "\":";
    s += json;
    return *this;
  }
  Rec &ks(char const *key, char const *str) { return k(key, std::string("\"") + str + "\""); }
  Rec &ki(char const *key, long long v) { return k(key, std::to_string(v)); }
  Rec &kb(char const *key, bool v) { return k(key, v ? "true" : "false"); }
  void begin()
  {
    vj::begin_call(s);
    s.clear();
  }
  void end()
  {
    s += '}';
    vj::end_call(s);
    ++NREC;
  }
};

// ---------------------------------------------------------------- building operands, reading results
template <sz N, std::size_t... Is>
fm::vector::static_<int, N> mk_vec(ivec const &v, std::size_t off, std::index_sequence<Is...>)
{
  return fm::vector::static_<int, N>{v[off + Is]...};
}
template <sz N>
fm::vector::static_<int, N> mk_vec(ivec const &v, std::size_t off = 0)
{
  return mk_vec<N>(v, off, std::make_index_sequence<N>{});
}
template <sz N, std::size_t... Is>
fm::dim::static_<int, N> mk_dim(ivec const &v, std::size_t off, std::index_sequence<Is...>)
{
  return fm::dim::static_<int, N>{v[off + Is]...};
}
template <sz N>
fm::dim::static_<int, N> mk_dim(ivec const &v, std::size_t off = 0)
{
  return mk_dim<N>(v, off, std::make_index_sequence<N>{});
}
// a matrix from row-major values, through the documented rows constructor
template <sz R, sz C, std::size_t... Rs>
fm::matrix::static_<int, R, C> mk_mat(ivec const &v, std::size_t off, std::index_sequence<Rs...>)
{
  return fm::matrix::static_<int, R, C>{mk_vec<C>(v, off + Rs * C)...};
}
template <sz R, sz C>
fm::matrix::static_<int, R, C> mk_mat(ivec const &v, std::size_t off = 0)
{
  return mk_mat<R, C>(v, off, std::make_index_sequence<R>{});
}

// components by run-time index (get_unsafe), as JSON
template <typename V>
std::string vj_(V const &v)
{
  std::string s = "[";
  for (sz i = 0; i < V::static_size::value; ++i)
  {
    if (i) s += ',';
    s += std::to_string(static_cast<long long>(v.get_unsafe(i)));
  }
  return s + "]";
}
template <typename M>
std::string mj_(M const &m)
{
  std::string s = "[";
  for (sz i = 0; i < M::static_rows::value; ++i)
  {
    if (i) s += ',';
    s += vj_(m.get_unsafe(i));
  }
  return s + "]";
}
std::string vals_vec(ivec const &v, std::size_t off, std::size_t n)
{
  std::string s = "[";
  for (std::size_t i = 0; i < n; ++i)
  {
    if (i) s += ',';
    s += std::to_string(v[off + i]);
  }
  return s + "]";
}
std::string vals_mat(ivec const &v, std::size_t off, std::size_t r, std::size_t c)
{
  std::string s = "[";
  for (std::size_t i = 0; i < r; ++i)
  {
    if (i) s += ',';
    s += vals_vec(v, off + i * c, c);
  }
  return s + "]";
}

template <sz N, typename F>
void static_for(F const &f)
{
  [&f]<sz... Is>(std::integer_sequence<sz, Is...>) { (f(std::integral_constant<sz, Is>{}), ...); }
  (std::make_integer_sequence<sz, N>{});
}

ivec random_vals(vj::Rng &rng, std::size_t n, int lo, int hi)
{
  ivec v(n);
  for (auto &x : v) x = static_cast<int>(rng.range(lo, hi));
  return v;
}

// ---------------------------------------------------------------- vectors (and dims)
// binary operations with operands of storage kinds S1, S2 (static vector or row view)
template <typename A, typename B>
void vec_binary(char const *kind, char const *st, std::string const &aj, std::string const &bj, A const &a, B const &b)
{
  {
    Rec r("add");
    r.ks("k", kind).ks("st", st).k("a", aj).k("b", bj).begin();
    auto const res(a + b);
    r.k("r", vj_(res)).end();
  }
  {
    Rec r("sub");
    r.ks("k", kind).ks("st", st).k("a", aj).k("b", bj).begin();
    auto const res(a - b);
    r.k("r", vj_(res)).end();
  }
  {
    Rec r("mul");
    r.ks("k", kind).ks("st", st).k("a", aj).k("b", bj).begin();
    auto const res(a * b);
    r.k("r", vj_(res)).end();
  }
  {
    Rec r("eq");
    r.ks("k", kind).ks("st", st).k("a", aj).k("b", bj).begin();
    bool const res = a == b;
    r.kb("r", res).end();
  }
  {
    Rec r("ne");
    r.ks("k", kind).ks("st", st).k("a", aj).k("b", bj).begin();
    bool const res = a != b;
    r.kb("r", res).end();
  }
}

template <typename A, typename B>
void vec_only_binary(char const *st, std::string const &aj, std::string const &bj, A const &a, B const &b)
{
  {
    Rec r("dot");
    r.ks("k", "vector").ks("st", st).k("a", aj).k("b", bj).begin();
    int const res = fm::vector::dot(a, b);
    r.ki("r", res).end();
  }
  if constexpr (A::static_size::value == 3)
  {
    Rec r("cross");
    r.ks("k", "vector").ks("st", st).k("a", aj).k("b", bj).begin();
    auto const res(fm::vector::cross(a, b));
    r.k("r", vj_(res)).end();
  }
}

// comparisons need both operands of the same type (detail::array_less takes one template type)
template <typename A>
void vec_order(char const *kind, char const *st, std::string const &aj, std::string const &bj, A const &a, A const &b)
{
  {
    Rec r("lt");
    r.ks("k", kind).ks("st", st).k("a", aj).k("b", bj).begin();
    bool const res = a < b;
    r.kb("r", res).end();
  }
  {
    Rec r("gt");
    r.ks("k", kind).ks("st", st).k("a", aj).k("b", bj).begin();
    bool const res = a > b;
    r.kb("r", res).end();
  }
  {
    Rec r("le");
    r.ks("k", kind).ks("st", st).k("a", aj).k("b", bj).begin();
    bool const res = a <= b;
    r.kb("r", res).end();
  }
  {
    Rec r("ge");
    r.ks("k", kind).ks("st", st).k("a", aj).k("b", bj).begin();
    bool const res = a >= b;
    r.kb("r", res).end();
  }
}

template <sz I, typename T, sz N, typename S>
T at_(fm::vector::object<T, N, S> const &v)
{
  return fm::vector::at<I>(v);
}
template <sz I, typename T, sz N, typename S>
T at_(fm::dim::object<T, N, S> const &v)
{
  return fm::dim::at<I>(v);
}

template <typename A>
void vec_unary(char const *kind, char const *st, std::string const &aj, A const &a, int const k)
{
  constexpr sz N = A::static_size::value;
  {
    Rec r("neg");
    r.ks("k", kind).ks("st", st).k("a", aj).begin();
    auto const res(-a);
    r.k("r", vj_(res)).end();
  }
  {
    Rec r("scale");
    r.ks("k", kind).ks("st", st).k("a", aj).ki("k", k).begin();
    auto const res(a * k);
    r.k("r", vj_(res)).end();
  }
  {
    Rec r("scale_left");
    r.ks("k", kind).ks("st", st).k("a", aj).ki("k", k).begin();
    auto const res(k * a);
    r.k("r", vj_(res)).end();
  }
  static_for<N>([&](auto idx) {
    constexpr sz I = decltype(idx)::value;
    Rec r("at");
    r.ks("k", kind).ks("st", st).k("a", aj).ki("i", I).begin();
    int const res = at_<I>(a);
    r.ki("r", res).end();
  });
}

template <sz N>
void vector_cases(ivec const &v, int const k)
{
  // operands: a = v[0..N), b = v[N..2N); views are rows 0 and 1 of a 2xN matrix
  auto const a(mk_vec<N>(v, 0));
  auto const b(mk_vec<N>(v, N));
  auto m(mk_mat<2, N>(v, 0));
  auto const &cm(m);
  auto const va(m.get_unsafe(0));   // view into a non-const matrix
  auto const vb(cm.get_unsafe(1));  // view into a const matrix
  auto const vb2(m.get_unsafe(1));
  std::string const aj = vals_vec(v, 0, N), bj = vals_vec(v, N, N);
  vec_binary("vector", "static,static", aj, bj, a, b);
  vec_binary("vector", "view,static", aj, bj, va, b);
  vec_binary("vector", "static,constview", aj, bj, a, vb);
  vec_binary("vector", "view,constview", aj, bj, va, vb);
  vec_only_binary("static,static", aj, bj, a, b);
  vec_only_binary("view,static", aj, bj, va, b);
  vec_only_binary("static,constview", aj, bj, a, vb);
  vec_only_binary("view,constview", aj, bj, va, vb);
  vec_order("vector", "static,static", aj, bj, a, b);
  vec_order("vector", "view,view", aj, bj, va, vb2);
  vec_unary("vector", "static", aj, a, k);
  vec_unary("vector", "view", aj, va, k);
  vec_unary("vector", "constview", bj, vb, k);
  {
    Rec r("length_square");
    r.ks("k", "vector").ks("st", "static").k("a", aj).begin();
    int const res = fm::vector::length_square(a);
    r.ki("r", res).end();
  }
  {
    Rec r("length_square");
    r.ks("k", "vector").ks("st", "view").k("a", aj).begin();
    int const res = fm::vector::length_square(va);
    r.ki("r", res).end();
  }
  {
    Rec r("push_back");
    r.ks("k", "vector").ks("st", "static").k("a", aj).ki("x", k).begin();
    auto const res(fm::vector::push_back(a, k));
    r.k("r", vj_(res)).end();
  }
  {
    Rec r("push_back");
    r.ks("k", "vector").ks("st", "view").k("a", aj).ki("x", k).begin();
    auto const res(fm::vector::push_back(va, k));
    r.k("r", vj_(res)).end();
  }
  if constexpr (N >= 2)
  {
    static_for<N - 1>([&](auto idx) {
      constexpr sz M = decltype(idx)::value + 1U;
      {
        Rec r("narrow_cast");
        r.ks("k", "vector").ks("st", "static").k("a", aj).ki("n", M).begin();
        auto const res(fm::vector::narrow_cast<fm::vector::static_<int, M>>(a));
        r.k("r", vj_(res)).end();
      }
      {
        Rec r("narrow_cast");
        r.ks("k", "vector").ks("st", "view").k("a", aj).ki("n", M).begin();
        auto const res(fm::vector::narrow_cast<fm::vector::static_<int, M>>(va));
        r.k("r", vj_(res)).end();
      }
    });
  }
  {
    Rec r("structure_cast");
    r.ks("k", "vector").ks("st", "static").ks("to", "long").k("a", aj).begin();
    auto const res(fm::vector::structure_cast<fm::vector::static_<long, N>, fcppt::cast::size_fun>(a));
    r.k("r", vj_(res)).end();
  }
  {
    Rec r("structure_cast");
    r.ks("k", "vector").ks("st", "view").ks("to", "long").k("a", aj).begin();
    auto const res(fm::vector::structure_cast<fm::vector::static_<long, N>, fcppt::cast::size_fun>(va));
    r.k("r", vj_(res)).end();
  }
  {
    Rec r("copy");
    r.ks("k", "vector").ks("st", "view->static").k("a", aj).begin();
    fm::vector::static_<int, N> const res(va);
    r.k("r", vj_(res)).end();
  }
  {
    Rec r("to_dim");
    r.ks("k", "vector").ks("st", "view").k("a", bj).begin();
    auto const res(fm::vector::to_dim(vb));
    r.k("r", vj_(res)).end();
  }
  // member operators; the left operand is a static vector or a view (then the matrix row changes)
  {
    auto x(a);
    Rec r("add_assign");
    r.ks("k", "vector").ks("st", "static,constview").k("a", aj).k("b", bj).begin();
    x += vb;
    r.k("r", vj_(x)).end();
  }
  {
    auto x(a);
    Rec r("sub_assign");
    r.ks("k", "vector").ks("st", "static,static").k("a", aj).k("b", bj).begin();
    x -= b;
    r.k("r", vj_(x)).end();
  }
  {
    auto x(a);
    Rec r("mul_assign");
    r.ks("k", "vector").ks("st", "static,constview").k("a", aj).k("b", bj).begin();
    x *= vb;
    r.k("r", vj_(x)).end();
  }
  {
    auto x(a);
    Rec r("scale_assign");
    r.ks("k", "vector").ks("st", "static").k("a", aj).ki("k", k).begin();
    x *= k;
    r.k("r", vj_(x)).end();
  }
  {
    auto m2(mk_mat<2, N>(v, 0));
    auto row0(m2.get_unsafe(0));
    Rec r("add_assign");
    r.ks("k", "vector").ks("st", "view,static").k("a", aj).k("b", bj).begin();
    row0 += b;
    r.k("r", vj_(m2.get_unsafe(0))).end();
  }
  {
    // both operands are rows of the same matrix
    auto m2(mk_mat<2, N>(v, 0));
    auto row0(m2.get_unsafe(0));
    Rec r("add_assign");
    r.ks("k", "vector").ks("st", "view,view(same matrix)").k("a", aj).k("b", bj).begin();
    row0 += m2.get_unsafe(1);
    r.k("r", vj_(m2.get_unsafe(0))).end();
    Rec r2("copy");
    r2.ks("k", "vector").ks("st", "untouched row").k("a", bj).begin();
    fm::vector::static_<int, N> const other(m2.get_unsafe(1));
    r2.k("r", vj_(other)).end();
  }
  {
    auto m2(mk_mat<2, N>(v, 0));
    auto row0(m2.get_unsafe(0));
    Rec r("sub_assign");
    r.ks("k", "vector").ks("st", "view,self").k("a", aj).k("b", aj).begin();
    row0 -= row0;
    r.k("r", vj_(m2.get_unsafe(0))).end();
  }
  // dims: same component-wise operations
  auto const da(mk_dim<N>(v, 0));
  auto const db(mk_dim<N>(v, N));
  // the scalar of operator*=(value_type const &) taken from the object itself (it aliases a
  // component that the operation overwrites); the record carries its value before the call
  static_for<N>([&](auto idx) {
    constexpr sz I = decltype(idx)::value;
    {
      auto x(a);
      Rec r("scale_assign");
      r.ks("k", "vector").ks("st", "static,alias").k("a", aj).ki("k", v[I]).ki("alias", I).begin();
      x *= x.get_unsafe(I);
      r.k("r", vj_(x)).end();
    }
    {
      auto m2(mk_mat<2, N>(v, 0));
      auto row0(m2.get_unsafe(0));
      Rec r("scale_assign");
      r.ks("k", "vector").ks("st", "view,alias").k("a", aj).ki("k", v[I]).ki("alias", I).begin();
      row0 *= row0.get_unsafe(I);
      r.k("r", vj_(m2.get_unsafe(0))).end();
    }
    {
      auto d(da);
      Rec r("scale_assign");
      r.ks("k", "dim").ks("st", "static,alias").k("a", aj).ki("k", v[I]).ki("alias", I).begin();
      d *= d.get_unsafe(I);
      r.k("r", vj_(d)).end();
    }
  });
  // both operands the same object
  {
    auto x(a);
    Rec r("add_assign");
    r.ks("k", "vector").ks("st", "self").k("a", aj).k("b", aj).begin();
    x += x;
    r.k("r", vj_(x)).end();
  }
  {
    auto x(a);
    Rec r("sub_assign");
    r.ks("k", "vector").ks("st", "self").k("a", aj).k("b", aj).begin();
    x -= x;
    r.k("r", vj_(x)).end();
  }
  {
    auto x(a);
    Rec r("mul_assign");
    r.ks("k", "vector").ks("st", "self").k("a", aj).k("b", aj).begin();
    x *= x;
    r.k("r", vj_(x)).end();
  }
  {
    auto d(da);
    Rec r("add_assign");
    r.ks("k", "dim").ks("st", "static,static").k("a", aj).k("b", bj).begin();
    d += db;
    r.k("r", vj_(d)).end();
  }
  {
    auto d(da);
    Rec r("scale_assign");
    r.ks("k", "dim").ks("st", "static").k("a", aj).ki("k", k).begin();
    d *= k;
    r.k("r", vj_(d)).end();
  }
  vec_binary("dim", "static,static", aj, bj, da, db);
  vec_order("dim", "static,static", aj, bj, da, db);
  vec_unary("dim", "static", aj, da, k);
  {
    Rec r("contents");
    r.ks("k", "dim").k("a", aj).begin();
    int const res = fm::dim::contents(da);
    r.ki("r", res).end();
  }
  {
    Rec r("push_back");
    r.ks("k", "dim").ks("st", "static").k("a", aj).ki("x", k).begin();
    auto const res(fm::dim::push_back(da, k));
    r.k("r", vj_(res)).end();
  }
  {
    Rec r("to_vector");
    r.ks("k", "dim").k("a", aj).begin();
    auto const res(fm::dim::to_vector(da));
    r.k("r", vj_(res)).end();
  }
  {
    Rec r("structure_cast");
    r.ks("k", "dim").ks("st", "static").ks("to", "long").k("a", aj).begin();
    auto const res(fm::dim::structure_cast<fm::dim::static_<long, N>, fcppt::cast::size_fun>(da));
    r.k("r", vj_(res)).end();
  }
  // vector (op) dim
  {
    Rec r("add");
    r.ks("k", "vector,dim").ks("st", "view,static").k("a", aj).k("b", bj).begin();
    auto const res(va + db);
    r.k("r", vj_(res)).end();
  }
  {
    Rec r("sub");
    r.ks("k", "vector,dim").ks("st", "static,static").k("a", aj).k("b", bj).begin();
    auto const res(a - db);
    r.k("r", vj_(res)).end();
  }
  {
    Rec r("mul");
    r.ks("k", "vector,dim").ks("st", "static,static").k("a", aj).k("b", bj).begin();
    auto const res(a * db);
    r.k("r", vj_(res)).end();
  }
}

template <sz N>
void vector_builders(int const x, int const c0, int const c1)
{
  using V = fm::vector::static_<int, N>;
  using D = fm::dim::static_<int, N>;
  {
    Rec r("null");
    r.ks("k", "vector").ki("n", N).begin();
    auto const res(fm::vector::null<V>());
    r.k("r", vj_(res)).end();
  }
  {
    Rec r("null");
    r.ks("k", "dim").ki("n", N).begin();
    auto const res(fm::dim::null<D>());
    r.k("r", vj_(res)).end();
  }
  {
    Rec r("fill");
    r.ks("k", "vector").ki("n", N).ki("x", x).begin();
    auto const res(fm::vector::fill<V>(x));
    r.k("r", vj_(res)).end();
  }
  {
    Rec r("fill");
    r.ks("k", "dim").ki("n", N).ki("x", x).begin();
    auto const res(fm::dim::fill<D>(x));
    r.k("r", vj_(res)).end();
  }
  {
    Rec r("init");
    r.ks("k", "vector").ki("n", N).ki("c0", c0).ki("c1", c1).begin();
    auto const res(fm::vector::init<V>([c0, c1](auto const i) { return c0 + c1 * static_cast<int>(i()); }));
    r.k("r", vj_(res)).end();
  }
  {
    Rec r("init");
    r.ks("k", "dim").ki("n", N).ki("c0", c0).ki("c1", c1).begin();
    auto const res(fm::dim::init<D>([c0, c1](auto const i) { return c0 + c1 * static_cast<int>(i()); }));
    r.k("r", vj_(res)).end();
  }
}

template <sz N>
void bit_strings_case()
{
  Rec r("bit_strings");
  r.ki("n", N).begin();
  auto const res(fm::vector::bit_strings<int, N>());
  std::string s = "[";
  bool first = true;
  for (auto const &v : res)
  {
    if (!first) s += ',';
    first = false;
    s += vj_(v);
  }
  r.k("r", s + "]").end();
}

// unsigned <-> signed structure casts on non-negative vectors
template <sz N>
void sign_casts(ivec const &v)
{
  ivec w(v);
  for (auto &x : w) x = x < 0 ? -x : x;
  auto const a(mk_vec<N>(w, 0));
  std::string const aj = vals_vec(w, 0, N);
  Rec r("sign_cast");
  r.ks("k", "vector").ks("to", "unsigned->signed").k("a", aj).begin();
  auto const u(fm::vector::to_unsigned(a));
  auto const res(fm::vector::to_signed(u));
  r.k("r", vj_(res)).end();
}

// ---------------------------------------------------------------- matrices
template <sz R, sz C>
void matrix_sum(char const *grp, ivec const &v)
{
  auto const a(mk_mat<R, C>(v, 0));
  auto const b(mk_mat<R, C>(v, R * C));
  std::string const aj = vals_mat(v, 0, R, C), bj = vals_mat(v, R * C, R, C);
  {
    Rec r("madd");
    r.ks("g", grp).k("a", aj).k("b", bj).begin();
    auto const res(a + b);
    r.k("r", mj_(res)).end();
  }
  {
    Rec r("msub");
    r.ks("g", grp).k("a", aj).k("b", bj).begin();
    auto const res(a - b);
    r.k("r", mj_(res)).end();
  }
}

template <sz R, sz C>
void matrix_compare(char const *grp, ivec const &v)
{
  auto const a(mk_mat<R, C>(v, 0));
  auto const b(mk_mat<R, C>(v, R * C));
  std::string const aj = vals_mat(v, 0, R, C), bj = vals_mat(v, R * C, R, C);
  {
    Rec r("meq");
    r.ks("g", grp).k("a", aj).k("b", bj).begin();
    bool const res = a == b;
    r.kb("r", res).end();
  }
  {
    Rec r("mne");
    r.ks("g", grp).k("a", aj).k("b", bj).begin();
    bool const res = a != b;
    r.kb("r", res).end();
  }
}

template <sz R, sz C>
void matrix_same_shape(char const *grp, ivec const &v)
{
  matrix_sum<R, C>(grp, v);
  matrix_compare<R, C>(grp, v);
}

template <sz R, sz C>
void matrix_same_shape_more(char const *grp, ivec const &v)
{
  auto const a(mk_mat<R, C>(v, 0));
  auto const b(mk_mat<R, C>(v, R * C));
  std::string const aj = vals_mat(v, 0, R, C), bj = vals_mat(v, R * C, R, C);
  {
    auto x(a);
    Rec r("madd_assign");
    r.ks("g", grp).k("a", aj).k("b", bj).begin();
    x += b;
    r.k("r", mj_(x)).end();
  }
  {
    auto x(a);
    Rec r("msub_assign");
    r.ks("g", grp).k("a", aj).k("b", bj).begin();
    x -= b;
    r.k("r", mj_(x)).end();
  }
  {
    auto x(a);
    Rec r("madd_assign");
    r.ks("g", grp).ks("st", "self").k("a", aj).k("b", aj).begin();
    x += x;
    r.k("r", mj_(x)).end();
  }
  {
    auto x(a);
    Rec r("msub_assign");
    r.ks("g", grp).ks("st", "self").k("a", aj).k("b", aj).begin();
    x -= x;
    r.k("r", mj_(x)).end();
  }
  {
    Rec r("mne");
    r.ks("g", grp).k("a", aj).k("b", bj).begin();
    bool const res = a != b;
    r.kb("r", res).end();
  }
  {
    Rec r("meq");
    r.ks("g", grp).k("a", aj).k("b", aj).begin();
    auto const a2(mk_mat<R, C>(v, 0));
    bool const res = a == a2;
    r.kb("r", res).end();
  }
}

template <sz M1, sz N, sz M2>
void matrix_product(char const *grp, ivec const &v)
{
  auto const a(mk_mat<M1, N>(v, 0));
  auto const b(mk_mat<N, M2>(v, M1 * N));
  Rec r("mmul");
  r.ks("g", grp).k("a", vals_mat(v, 0, M1, N)).k("b", vals_mat(v, M1 * N, N, M2)).begin();
  auto const res(a * b);
  r.k("r", mj_(res)).end();
}

template <sz R, sz C>
void matrix_unary(char const *grp, ivec const &v, int const k)
{
  // values: the matrix (R*C), then a vector of dimension C
  auto const a(mk_mat<R, C>(v, 0));
  std::string const aj = vals_mat(v, 0, R, C);
  {
    Rec r("mscale");
    r.ks("g", grp).k("a", aj).ki("k", k).begin();
    auto const res(a * k);
    r.k("r", mj_(res)).end();
  }
  {
    Rec r("mscale_left");
    r.ks("g", grp).k("a", aj).ki("k", k).begin();
    auto const res(k * a);
    r.k("r", mj_(res)).end();
  }
  {
    auto x(a);
    Rec r("mscale_assign");
    r.ks("g", grp).k("a", aj).ki("k", k).begin();
    x *= k;
    r.k("r", mj_(x)).end();
  }
  {
    auto const vec(mk_vec<C>(v, R * C));
    Rec r("mvec");
    r.ks("g", grp).ks("st", "static").k("a", aj).k("v", vals_vec(v, R * C, C)).begin();
    auto const res(a * vec);
    r.k("r", vj_(res)).end();
  }
  {
    // the vector operand as a view: row 0 of another matrix
    auto const other(mk_mat<1, C>(v, R * C));
    Rec r("mvec");
    r.ks("g", grp).ks("st", "view").k("a", aj).k("v", vals_vec(v, R * C, C)).begin();
    auto const res(a * other.get_unsafe(0));
    r.k("r", vj_(res)).end();
  }
}

template <sz R, sz C>
void matrix_access(char const *grp, ivec const &v)
{
  auto const a(mk_mat<R, C>(v, 0));
  std::string const aj = vals_mat(v, 0, R, C);
  {
    Rec r("transpose");
    r.ks("g", grp).k("a", aj).begin();
    auto const res(fm::matrix::transpose(a));
    r.k("r", mj_(res)).end();
  }
  {
    Rec r("mstructure_cast");
    r.ks("g", grp).ks("to", "long").k("a", aj).begin();
    auto const res(fm::matrix::structure_cast<fm::matrix::static_<long, R, C>, fcppt::cast::size_fun>(a));
    r.k("r", mj_(res)).end();
  }
  static_for<R>([&](auto ri) {
    constexpr sz I = decltype(ri)::value;
    {
      Rec r("row");
      r.ks("g", grp).ks("via", "at_r").k("a", aj).ki("i", I).begin();
      auto const res(fm::matrix::at_r<I>(a));
      r.k("r", vj_(res)).end();
    }
    {
      Rec r("row");
      r.ks("g", grp).ks("via", "get_unsafe").k("a", aj).ki("i", I).begin();
      auto const res(a.get_unsafe(I));
      r.k("r", vj_(res)).end();
    }
    static_for<C>([&](auto ci) {
      constexpr sz J = decltype(ci)::value;
      {
        Rec r("mat_at");
        r.ks("g", grp).k("a", aj).ki("i", I).ki("j", J).begin();
        int const res = fm::matrix::at_r_c<I, J>(a);
        r.ki("r", res).end();
      }
      {
        // M *= (an element of M itself): the scalar aliases a component that is overwritten
        auto x(a);
        Rec r("mscale_assign");
        r.ks("g", grp).ks("st", "alias").k("a", aj).ki("k", v[I * C + J]).ki("i", I).ki("j", J).begin();
        x *= x.get_unsafe(I).get_unsafe(J);
        r.k("r", mj_(x)).end();
      }
      if constexpr (R >= 2 && C >= 2)
      {
        Rec r("delete_row_and_column");
        r.ks("g", grp).k("a", aj).ki("i", I).ki("j", J).begin();
        auto const res(fm::matrix::delete_row_and_column<I, J>(a));
        r.k("r", mj_(res)).end();
      }
    });
  });
}

template <sz N>
void matrix_square(char const *grp, ivec const &v)
{
  auto const a(mk_mat<N, N>(v, 0));
  std::string const aj = vals_mat(v, 0, N, N);
  {
    Rec r("determinant");
    r.ks("g", grp).k("a", aj).begin();
    int const res = fm::matrix::determinant(a);
    r.ki("r", res).end();
  }
  if constexpr (N >= 2)
  {
    Rec r("adjugate");
    r.ks("g", grp).k("a", aj).begin();
    auto const res(fm::matrix::adjugate(a));
    r.k("r", mj_(res)).end();
  }
}

template <sz N>
void identity_case()
{
  Rec r("identity");
  r.ki("n", N).begin();
  auto const res(fm::matrix::identity<fm::matrix::static_<int, N, N>>());
  r.k("r", mj_(res)).end();
}

void builders_4x4(ivec const &v)
{
  // v: x, y, z, a 4x4 matrix, a 3-vector
  {
    Rec r("translation");
    r.ks("via", "scalars").ki("x", v[0]).ki("y", v[1]).ki("z", v[2]).begin();
    auto const res(fm::matrix::translation(v[0], v[1], v[2]));
    r.k("r", mj_(res)).end();
  }
  {
    Rec r("translation");
    r.ks("via", "vector").ki("x", v[0]).ki("y", v[1]).ki("z", v[2]).begin();
    auto const res(fm::matrix::translation(mk_vec<3>(v, 0)));
    r.k("r", mj_(res)).end();
  }
  {
    Rec r("scaling");
    r.ks("via", "scalars").ki("x", v[0]).ki("y", v[1]).ki("z", v[2]).begin();
    auto const res(fm::matrix::scaling(v[0], v[1], v[2]));
    r.k("r", mj_(res)).end();
  }
  {
    auto const m(mk_mat<1, 3>(v, 0));
    Rec r("scaling");
    r.ks("via", "view").ki("x", v[0]).ki("y", v[1]).ki("z", v[2]).begin();
    auto const res(fm::matrix::scaling(m.get_unsafe(0)));
    r.k("r", mj_(res)).end();
  }
  auto const a(mk_mat<4, 4>(v, 3));
  auto const p(mk_vec<3>(v, 19));
  {
    Rec r("transform_point");
    r.k("a", vals_mat(v, 3, 4, 4)).k("v", vals_vec(v, 19, 3)).begin();
    auto const res(fm::matrix::transform_point(a, p));
    r.k("r", vj_(res)).end();
  }
  {
    Rec r("transform_direction");
    r.k("a", vals_mat(v, 3, 4, 4)).k("v", vals_vec(v, 19, 3)).begin();
    auto const res(fm::matrix::transform_direction(a, p));
    r.k("r", vj_(res)).end();
  }
}

// all 2x2 matrices over {-1,0,1,2}
ivec mat2_of(unsigned code)
{
  ivec v(4);
  for (auto &x : v)
  {
    x = static_cast<int>(code % 4U) - 1;
    code /= 4U;
  }
  return v;
}

void part_pairs()
{
  for (unsigned ca = 0; ca < 256; ++ca)
  {
    ivec const a(mat2_of(ca));
    for (unsigned cb = 0; cb < 256; ++cb)
    {
      ivec v(a);
      ivec const b(mat2_of(cb));
      v.insert(v.end(), b.begin(), b.end());
      matrix_sum<2, 2>("2x2", v);
      matrix_product<2, 2, 2>("2x2", v);
      if (ca == cb || (ca + cb) % 8U == 0U) matrix_compare<2, 2>("2x2", v);
      if ((ca + cb) % 16U == 0U) matrix_same_shape_more<2, 2>("2x2", v);
    }
    // singles: every scalar -2..3, every vector over {-1,0,1,2}^2
    matrix_access<2, 2>("2x2", a);
    matrix_square<2>("2x2", a);
    for (int x = -1; x <= 2; ++x)
      for (int y = -1; y <= 2; ++y)
      {
        ivec v(a);
        v.push_back(x);
        v.push_back(y);
        matrix_unary<2, 2>("2x2", v, (x + 4 * y + static_cast<int>(ca)) % 6 - 2);
      }
  }
}

void part_matrices(vj::Rng &rng, bool const thorough)
{
  identity_case<1>();
  identity_case<2>();
  identity_case<3>();
  identity_case<4>();
  unsigned const n = thorough ? 6000U : 600U;
  for (unsigned i = 0; i < n; ++i)
  {
    int const k = static_cast<int>(rng.range(-9, 9));
    // |entries| <= 9: sums, products, determinants and adjugates stay far below 2^31
    {
      ivec const v(random_vals(rng, 18 + 3, -9, 9));
      matrix_same_shape<3, 3>("3x3", v);
      matrix_product<3, 3, 3>("3x3", v);
      matrix_unary<3, 3>("3x3", v, k);
      matrix_access<3, 3>("3x3", v);
      matrix_square<3>("3x3", v);
      if (i % 8U == 0U) matrix_same_shape_more<3, 3>("3x3", v);
    }
    {
      ivec const v(random_vals(rng, 32 + 4, -9, 9));
      matrix_same_shape<4, 4>("4x4", v);
      matrix_product<4, 4, 4>("4x4", v);
      matrix_unary<4, 4>("4x4", v, k);
      matrix_access<4, 4>("4x4", v);
      matrix_square<4>("4x4", v);
      if (i % 8U == 0U) matrix_same_shape_more<4, 4>("4x4", v);
    }
    {
      ivec const v(random_vals(rng, 3 + 16 + 3, -9, 9));
      builders_4x4(v);
    }
    if (i % 4U == 0U)
    {
      // rectangular shapes
      ivec const v(random_vals(rng, 40, -9, 9));
      matrix_product<2, 3, 4>("2x3*3x4", v);
      matrix_product<3, 1, 2>("3x1*1x2", v);
      matrix_product<1, 4, 1>("1x4*4x1", v);
      matrix_product<4, 2, 3>("4x2*2x3", v);
      matrix_unary<2, 3>("2x3", v, k);
      matrix_access<2, 3>("2x3", v);
      matrix_unary<3, 2>("3x2", v, k);
      matrix_access<3, 2>("3x2", v);
      matrix_unary<1, 4>("1x4", v, k);
      matrix_access<1, 4>("1x4", v);
      matrix_unary<4, 1>("4x1", v, k);
      matrix_access<4, 1>("4x1", v);
      matrix_unary<1, 1>("1x1", v, k);
      matrix_access<1, 1>("1x1", v);
      matrix_same_shape<2, 3>("2x3", v);
      matrix_same_shape<4, 1>("4x1", v);
      matrix_square<1>("1x1", v);
    }
    if (i % 2U == 0U)
    {
      // products of products (the laws the judge cannot see from one call are checked on the model;
      // here the operands are real results): entries <= 3 keep det(A*B) of a 4x4 below 2^31
      ivec const v(random_vals(rng, 32, -3, 3));
      auto const a(mk_mat<4, 4>(v, 0));
      auto const b(mk_mat<4, 4>(v, 16));
      auto const ab(a * b);
      Rec r("determinant");
      r.ks("g", "4x4 product").k("a", mj_(ab)).begin();
      int const res = fm::matrix::determinant(ab);
      r.ki("r", res).end();
      Rec r2("mmul");
      r2.ks("g", "4x4 A*adj(A)").k("a", vals_mat(v, 0, 4, 4));
      auto const adj(fm::matrix::adjugate(a));
      r2.k("b", mj_(adj)).begin();
      auto const res2(a * adj);
      r2.k("r", mj_(res2)).end();
    }
  }
}

void part_vectors(vj::Rng &rng, bool const thorough)
{
  bit_strings_case<1>();
  bit_strings_case<2>();
  bit_strings_case<3>();
  bit_strings_case<4>();
  // dimension 1 and 2: all pairs over {-1,0,1,2}
  for (int a = -1; a <= 2; ++a)
    for (int b = -1; b <= 2; ++b)
      for (int k = -2; k <= 3; ++k) vector_cases<1>(ivec{a, b}, k);
  for (unsigned c = 0; c < 256; ++c)
  {
    ivec const v(mat2_of(c));
    vector_cases<2>(v, static_cast<int>(c % 7U) - 3);
  }
  for (int x = -2; x <= 2; ++x)
    for (int c1 = -2; c1 <= 2; ++c1)
    {
      vector_builders<1>(x, x + 1, c1);
      vector_builders<2>(x, x + 1, c1);
      vector_builders<3>(x, x - 1, c1);
      vector_builders<4>(x, 2 * x, c1);
    }
  unsigned const n = thorough ? 4000U : 400U;
  for (unsigned i = 0; i < n; ++i)
  {
    int const k = static_cast<int>(rng.range(-9, 9));
    // make equal / nearly equal operands frequent enough for the comparisons
    auto const tweak = [&rng](ivec &v, std::size_t const n_) {
      switch (rng.below(4))
      {
      case 0:
        for (std::size_t j = 0; j < n_; ++j) v[n_ + j] = v[j];
        break;
      case 1:
        for (std::size_t j = 0; j < n_; ++j) v[n_ + j] = v[j];
        v[n_ + rng.below(n_)] += static_cast<int>(rng.range(-1, 1));
        break;
      default:
        break;
      }
    };
    {
      ivec v(random_vals(rng, 2, -9, 9));
      vector_cases<1>(v, k);
    }
    {
      ivec v(random_vals(rng, 4, -9, 9));
      tweak(v, 2);
      vector_cases<2>(v, k);
      sign_casts<2>(v);
    }
    {
      ivec v(random_vals(rng, 6, -9, 9));
      tweak(v, 3);
      vector_cases<3>(v, k);
      sign_casts<3>(v);
    }
    {
      ivec v(random_vals(rng, 8, -9, 9));
      tweak(v, 4);
      vector_cases<4>(v, k);
      sign_casts<4>(v);
    }
  }
}

// ---------------------------------------------------------------- extension round
template <typename V>
std::string optvj(fcppt::optional::object<V> const &o)
{
  return o.has_value() ? "[" + vj_(o.get_unsafe()) + "]" : std::string("[]");
}

template <sz N>
void ext_vector_cases(ivec const &v, int const k)
{
  // a = v[0..N), b = v[N..2N) (b contains zeros now and then), views as before
  auto const a(mk_vec<N>(v, 0));
  auto const b(mk_vec<N>(v, N));
  auto m(mk_mat<2, N>(v, 0));
  auto const &cm(m);
  auto const va(m.get_unsafe(0));
  auto const vb(cm.get_unsafe(1));
  auto const da(mk_dim<N>(v, 0));
  auto const db(mk_dim<N>(v, N));
  std::string const aj = vals_vec(v, 0, N), bj = vals_vec(v, N, N);
  {
    Rec r("div");
    r.ks("k", "vector").ks("st", "static,static").k("a", aj).k("b", bj).begin();
    auto const res(a / b);
    r.k("r", optvj(res)).end();
  }
  {
    Rec r("div");
    r.ks("k", "vector").ks("st", "view,constview").k("a", aj).k("b", bj).begin();
    auto const res(va / vb);
    r.k("r", optvj(res)).end();
  }
  {
    Rec r("div");
    r.ks("k", "vector,dim").ks("st", "static,static").k("a", aj).k("b", bj).begin();
    auto const res(a / db);
    r.k("r", optvj(res)).end();
  }
  {
    Rec r("div");
    r.ks("k", "dim").ks("st", "static,static").k("a", aj).k("b", bj).begin();
    auto const res(da / db);
    r.k("r", optvj(res)).end();
  }
  {
    Rec r("div_scalar");
    r.ks("k", "vector").ks("st", "view").k("a", aj).ki("k", k).begin();
    auto const res(va / k);
    r.k("r", optvj(res)).end();
  }
  {
    Rec r("div_scalar");
    r.ks("k", "dim").ks("st", "static").k("a", aj).ki("k", k).begin();
    auto const res(da / k);
    r.k("r", optvj(res)).end();
  }
  {
    // fcppt::math::mod exists for unsigned (and floating point) types only: |components| as unsigned
    std::vector<unsigned> w;
    for (int x : v) w.push_back(static_cast<unsigned>(x < 0 ? -x : x));
    unsigned const uk = static_cast<unsigned>(k < 0 ? -k : k);
    auto const ua([&w]<std::size_t... Is>(std::index_sequence<Is...>) {
      return fm::vector::static_<unsigned, N>{w[Is]...};
    }(std::make_index_sequence<N>{}));
    auto const ub([&w]<std::size_t... Is>(std::index_sequence<Is...>) {
      return fm::vector::static_<unsigned, N>{w[N + Is]...};
    }(std::make_index_sequence<N>{}));
    std::string const uaj = vj_(ua), ubj = vj_(ub);
    {
      Rec r("mod");
      r.ks("k", "vector").ks("st", "static,static").k("a", uaj).k("b", ubj).begin();
      auto const res(fm::vector::mod(ua, ub));
      r.k("r", optvj(res)).end();
    }
    {
      Rec r("mod_scalar");
      r.ks("k", "vector").ks("st", "static").k("a", uaj).ki("k", uk).begin();
      auto const res(fm::vector::mod(ua, uk));
      r.k("r", optvj(res)).end();
    }
    {
      Rec r("div");
      r.ks("k", "vector").ks("st", "unsigned").k("a", uaj).k("b", ubj).begin();
      auto const res(ua / ub);
      r.k("r", optvj(res)).end();
    }
  }
  {
    Rec r("ceil_div_signed");
    r.ks("k", "vector").ks("st", "static").k("a", aj).ki("k", k).begin();
    auto const res(fm::vector::ceil_div_signed(a, k));
    r.k("r", optvj(res)).end();
  }
  {
    Rec r("ceil_div_signed");
    r.ks("k", "vector").ks("st", "view").k("a", aj).ki("k", k).begin();
    auto const res(fm::vector::ceil_div_signed(va, k));
    r.k("r", optvj(res)).end();
  }
  {
    Rec r("is_quadratic");
    r.ks("k", "dim").k("a", aj).begin();
    bool const res = fm::dim::is_quadratic(da);
    r.kb("r", res).end();
  }
  if constexpr (N >= 2)
  {
    Rec r("narrow_cast");
    r.ks("k", "dim").ks("st", "static").k("a", aj).ki("n", N - 1).begin();
    auto const res(fm::dim::narrow_cast<fm::dim::static_<int, N - 1>>(da));
    r.k("r", vj_(res)).end();
  }
  {
    // unsigned -> signed and back on non-negative components, vectors and dims
    ivec w(v);
    for (auto &x : w) x = x < 0 ? -x : x;
    auto const na(mk_vec<N>(w, 0));
    auto const nd(mk_dim<N>(w, 0));
    std::string const nj = vals_vec(w, 0, N);
    {
      Rec r("sign_cast");
      r.ks("k", "vector").ks("to", "to_unsigned").k("a", nj).begin();
      auto const res(fm::vector::to_unsigned(na));
      r.k("r", vj_(res)).end();
    }
    {
      auto const u(fm::vector::to_unsigned(na));
      Rec r("sign_cast");
      r.ks("k", "vector").ks("to", "to_signed").k("a", nj).begin();
      auto const res(fm::vector::to_signed(u));
      r.k("r", vj_(res)).end();
    }
    {
      Rec r("sign_cast");
      r.ks("k", "dim").ks("to", "to_unsigned").k("a", nj).begin();
      auto const res(fm::dim::to_unsigned(nd));
      r.k("r", vj_(res)).end();
    }
    {
      auto const u(fm::dim::to_unsigned(nd));
      Rec r("sign_cast");
      r.ks("k", "dim").ks("to", "to_signed").k("a", nj).begin();
      auto const res(fm::dim::to_signed(u));
      r.k("r", vj_(res)).end();
    }
  }
  // assignment between storage types, rows written through views
  {
    fm::vector::static_<int, N> x(b);
    Rec r("assign");
    r.ks("k", "vector").ks("st", "static=view").k("a", bj).k("b", aj).begin();
    x = va;
    r.k("r", vj_(x)).end();
  }
  {
    auto m2(mk_mat<2, N>(v, 0));
    auto row1(m2.get_unsafe(1));
    Rec r("row_assign");
    r.ks("st", "view=static").k("a", vals_mat(v, 0, 2, N)).ki("i", 1).k("v", aj).begin();
    row1 = a;
    r.k("r", mj_(m2)).end();
  }
  {
    auto m2(mk_mat<2, N>(v, 0));
    auto const &cm2(m2);
    auto row0(m2.get_unsafe(0));
    Rec r("row_copy");
    r.ks("st", "view=constview(same matrix)").k("a", vals_mat(v, 0, 2, N)).ki("i", 0).ki("j", 1).begin();
    row0 = cm2.get_unsafe(1);
    r.k("r", mj_(m2)).end();
  }
  for (char const *op : {"+=", "-=", "*="})
    for (unsigned i = 0; i < 2; ++i)
      for (unsigned j = 0; j < 2; ++j)
      {
        auto m2(mk_mat<2, N>(v, 0));
        auto const &cm2(m2);
        auto lhs(m2.get_unsafe(i));
        Rec r("row_op");
        r.ks("st", i == j ? "view,constview(same row)" : "view,constview(same matrix)").k("a", vals_mat(v, 0, 2, N))
            .ki("i", i).ki("j", j).ks("op", op).begin();
        if (op[0] == '+') lhs += cm2.get_unsafe(j);
        else if (op[0] == '-') lhs -= cm2.get_unsafe(j);
        else lhs *= cm2.get_unsafe(j);
        r.k("r", mj_(m2)).end();
      }
  static_for<N>([&](auto idx) {
    constexpr sz I = decltype(idx)::value;
    Rec r("unit");
    r.ks("k", "vector").ki("n", N).ki("axis", I).begin();
    auto const res(fm::vector::unit<fm::vector::static_<int, N>>(I));
    r.k("r", vj_(res)).end();
  });
  // spheres with integer components: members and comparison
  {
    fm::sphere::object<int, N> const s1(a, k);
    fm::sphere::object<int, N> const s2(b, (v[0] + v[1]) % 2 == 0 ? k : k + 1);
    fm::sphere::object<int, N> const s3(a, k);
    {
      Rec r("sphere_members");
      r.k("a", aj).ki("ra", k).begin();
      r.k("origin", vj_(s1.origin())).ki("radius", s1.radius()).end();
    }
    {
      Rec r("sphere_eq");
      r.k("a", aj).ki("ra", k).k("b", bj).ki("rb", s2.radius()).begin();
      bool const res = s1 == s2;
      r.kb("r", res).end();
    }
    {
      Rec r("sphere_ne");
      r.k("a", aj).ki("ra", k).k("b", bj).ki("rb", s2.radius()).begin();
      bool const res = s1 != s2;
      r.kb("r", res).end();
    }
    {
      Rec r("sphere_eq");
      r.k("a", aj).ki("ra", k).k("b", aj).ki("rb", k).begin();
      bool const res = s1 == s3;
      r.kb("r", res).end();
    }
  }
}

template <sz R, sz C>
void ext_matrix_cases(char const *grp, ivec const &v)
{
  auto const a(mk_mat<R, C>(v, 0));
  auto const b(mk_mat<R, C>(v, R * C));
  std::string const aj = vals_mat(v, 0, R, C), bj = vals_mat(v, R * C, R, C);
  {
    Rec r("infinity_norm");
    r.ks("g", grp).k("a", aj).begin();
    int const res = fm::matrix::infinity_norm(a);
    r.ki("r", res).end();
  }
  {
    auto x(a);
    Rec r("massign");
    r.ks("g", grp).k("a", aj).k("b", bj).begin();
    x = b;
    r.k("r", mj_(x)).end();
  }
  {
    // whole rows replaced through views, one after the other
    auto x(a);
    static_for<R>([&](auto ri) {
      constexpr sz I = decltype(ri)::value;
      std::string const before = mj_(x);
      auto row(fm::matrix::at_r<I>(x));
      Rec r("row_assign");
      r.ks("g", grp).ks("st", "at_r view=constview(other matrix)").k("a", before).ki("i", I).k("v", vals_vec(v, R * C + I * C, C)).begin();
      row = b.get_unsafe(I);
      r.k("r", mj_(x)).end();
    });
  }
}

void part_extension(vj::Rng &rng, bool const thorough)
{
  // interval_distance over all well-formed integer intervals with end points in -3..3
  for (int a1 = -3; a1 <= 3; ++a1)
    for (int b1 = a1; b1 <= 3; ++b1)
      for (int a2 = -3; a2 <= 3; ++a2)
        for (int b2 = a2; b2 <= 3; ++b2)
        {
          Rec r("interval_distance");
          r.k("a", "[" + std::to_string(a1) + "," + std::to_string(b1) + "]")
              .k("b", "[" + std::to_string(a2) + "," + std::to_string(b2) + "]").begin();
          int const res = fm::interval_distance(fcppt::tuple::make(a1, b1), fcppt::tuple::make(a2, b2));
          r.ki("r", res).end();
        }
  // dimension 1 and 2: all pairs over {-2..2} with every divisor -3..3
  for (int a = -2; a <= 2; ++a)
    for (int b = -2; b <= 2; ++b)
      for (int k = -3; k <= 3; ++k) ext_vector_cases<1>(ivec{a, b}, k);
  for (unsigned c = 0; c < 256; ++c)
  {
    ivec v(mat2_of(c));
    for (int k = -2; k <= 2; ++k)
    {
      if ((static_cast<int>(c) + k) % 3 != 0 && k != 0) continue;
      ext_vector_cases<2>(v, k);
    }
    ivec w(v);
    w.insert(w.end(), v.rbegin(), v.rend());
    ext_matrix_cases<2, 2>("2x2", w);
  }
  unsigned const n = thorough ? 4000U : 400U;
  for (unsigned i = 0; i < n; ++i)
  {
    int const k = static_cast<int>(rng.range(-4, 4));
    auto const zeros = [&rng](ivec &v) {
      // divisors: zero components with probability 1/4
      for (std::size_t j = v.size() / 2; j < v.size(); ++j)
        if (rng.below(8) == 0) v[j] = 0;
    };
    {
      ivec v(random_vals(rng, 6, -9, 9));
      zeros(v);
      ext_vector_cases<3>(v, k);
    }
    {
      ivec v(random_vals(rng, 8, -9, 9));
      zeros(v);
      ext_vector_cases<4>(v, k);
    }
    {
      ivec const v(random_vals(rng, 18, -9, 9));
      ext_matrix_cases<3, 3>("3x3", v);
    }
    {
      ivec const v(random_vals(rng, 32, -9, 9));
      ext_matrix_cases<4, 4>("4x4", v);
    }
    if (i % 4U == 0U)
    {
      ivec const v(random_vals(rng, 24, -9, 9));
      ext_matrix_cases<2, 3>("2x3", v);
      ext_matrix_cases<3, 1>("3x1", v);
      ext_matrix_cases<1, 4>("1x4", v);
    }
  }
}

}

int main(int argc, char **argv)
{
  if (argc < 6 || std::strcmp(argv[1], "record") != 0)
  {
    std::fprintf(stderr, "usage: c14_linalg record OUT seed quick|thorough pairs|matrices|vectors|extension|all\n");
    return 3;
  }
  vj::open(argv[2]);
  std::uint64_t const seed = std::strtoull(argv[3], nullptr, 10);
  bool const thorough = std::strcmp(argv[4], "thorough") == 0;
  std::string const part = argv[5];
  vj::Rng rng(seed * 1000003ULL + (part == "vectors" ? 17U : 5U));
  if (part == "pairs" || part == "all") part_pairs();
  if (part == "matrices" || part == "all") part_matrices(rng, thorough);
  if (part == "vectors" || part == "all") part_vectors(rng, thorough);
  if (part == "extension" || part == "all") part_extension(rng, thorough);
  vj::close();
  std::printf("records %ld\n", NREC);
  return 0;
}
