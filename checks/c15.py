"""C15 - textual and binary encodings round-trip losslessly; conversions never silently truncate.

1. TLC model-checks the reference codecs of spec/Codec.tla (spec/MCCodec.tla: the bounded input
   space is the set of initial states; laws: decode(encode(x)) = x for byte order, UTF-8 and
   decimal, byte layout, swap involution, prefix = incomplete input, order preservation, agreement
   of the arbitrary-width decimal arithmetic with TLC's integers) and runs the vacuity guards
   (broken encoders substituted for the reference ones: TLC must report the law as violated).
2. harness/c15_codec.cpp drives the real fcppt functions and records one ndjson line per call.
3. spec/CodecJudge.tla (TLC) judges every record against Codec.tla; a record it cannot explain is
   a rejection (signature C15:<function>:<reasons>).
ASan/UBSan reports inside a driven call become rejections too (observed, not decided by the spec)."""
import json
import os
import re

import vlib

LEVEL = "model_checking"

# state machines of the extension round (IoStream.tla): (module, cfg), and their vacuity guards
EXT_MC = [("MCIoStream", "MC_IoStream.cfg"), ("MCScopedRdbuf", "MC_ScopedRdbuf.cfg")]
EXT_GUARDS = [
    ("MCIoStream", "MC_IoStream_guard_peek_consumes.cfg", "LawPeekPure"),
    ("MCIoStream", "MC_IoStream_guard_to_string_from_start.cfg", "LawToStringComplete"),
    ("MCIoStream", "MC_IoStream_guard_extract_keeps_blanks.cfg", "LawExtract"),
    ("MCIoStream", "MC_IoStream_guard_expect_never_fails.cfg", "LawExtract"),
    ("MCScopedRdbuf", "MC_ScopedRdbuf_guard_close_restores_original.cfg", "LawNesting"),
    ("MCScopedRdbuf", "MC_ScopedRdbuf_guard_close_keeps_buffer.cfg", "LawRestored"),
]

GUARDS = [
    ("MC_Codec_guard_write_roundtrip.cfg", "LawBytesRoundTrip"),
    ("MC_Codec_guard_write_layout.cfg", "LawBytesLayout"),
    ("MC_Codec_guard_write_swap.cfg", "LawSwap"),
    ("MC_Codec_guard_utf8_roundtrip.cfg", "LawUtf8RoundTrip"),
    ("MC_Codec_guard_utf8_shape.cfg", "LawUtf8Shape"),
    ("MC_Codec_guard_utf8_truncated.cfg", "LawUtf8Truncated"),
    ("MC_Codec_guard_utf8_pairs.cfg", "LawUtf8Pairs"),
    ("MC_Codec_guard_dec_roundtrip.cfg", "LawDecRoundTrip"),
    ("MC_Codec_guard_dec_bigagrees.cfg", "LawDecBigAgrees"),
    ("MC_Codec_guard_dec_bigroundtrip.cfg", "LawDecBigRoundTrip"),
    ("MC_Codec_guard_decloc_LawDecLocRoundTrip.cfg", "LawDecLocRoundTrip"),
    ("MC_Codec_guard_decloc_LawDecLocShape.cfg", "LawDecLocShape"),
    ("MC_Codec_guard_convert.cfg", "LawConvert"),
    ("MC_Codec_guard_vecseq.cfg", "LawVecSeq"),
]

NARROW_FN = {"locale": "narrow_locale", "env": "narrow", "fcppt_locale": "from_std_wstring_locale", "fcppt": "from_std_wstring"}
WIDEN_FN = {"locale": "widen_locale", "env": "widen", "fcppt_locale": "to_std_wstring_locale", "fcppt": "to_std_wstring"}
DEC_FN = {"std_string": "output_to_std_string", "std_wstring": "output_to_std_wstring", "string": "output_to_string",
          "fcppt_string": "output_to_fcppt_string"}
PER_CHUNK = 40000


def _harness_compile_error(e):
    """the text of a compile error of the harness translation unit itself, else None (library / link failure)"""
    msg = str(e)
    if msg.startswith("compile failed") and "c15_codec.cpp" in msg.split("\n", 1)[0]:
        return msg
    return None


def build(ctx=None):
    """Round 3 (Clarification 2, compile failures): when the harness no longer compiles against the tree under test
    although the library itself builds, the in-scope part is built alone (-DC15_NO_OBSERVED: without the observed-only
    extension and its headers) and the failure is an observation.  When the in-scope part does not compile either, an API
    the statement names rejects well-formed arguments the harness used to pass: VIOLATION C15:<unit>:does-not-compile."""
    try:
        return vlib.build_harness("c15_codec", ["c15_codec.cpp"], libs=("core",))
    except vlib.Infra as e:
        err = _harness_compile_error(e)
        if err is None or ctx is None:
            raise
    first = next((l for l in err.splitlines() if " error" in l), err.splitlines()[-1] if err else "")
    try:
        b = vlib.build_harness("c15_codec", ["c15_codec.cpp"], libs=("core",), defs=("C15_NO_OBSERVED",))
    except vlib.Infra as e2:
        err2 = _harness_compile_error(e2)
        if err2 is None:
            raise
        errs = [l for l in err2.splitlines() if " error" in l or "required from" in l or "static assertion" in l]
        blob = "\n".join(errs)
        m = re.search(r"include/fcppt/([\w/]+)\.hpp:\d+:\d+: error", blob) or re.search(r"include/fcppt/([\w/]+)\.hpp:\d+", blob)
        n = re.search(r"fcppt::((?:\w+::)*\w+)", blob)
        unit = (m.group(1).replace("/", "_") if m else (n.group(1).replace("::", "_") if n else "harness"))
        ctx.reject("C15:%s:does-not-compile" % unit,
                   "the in-scope part of the conformance harness (calls of the functions named by the statement, with arguments "
                   "that compile on the unchanged tree) no longer compiles against this tree: %s" % " | ".join(errs[:6])[:1500],
                   {"records": [], "compiler": errs[:20]})
        return None
    obs = ctx.extra.setdefault("observations", {})
    obs["observed-only-part:does-not-compile"] = {"count": 1, "sample": first[:500]}
    vlib.log("the observed-only part of the harness does not compile against this tree (observation); in-scope part built alone")
    return b


def group_of(line):
    """Records are judged in groups so that a flood of rejections of one kind cannot use up the
    300 verbatim rejections TLC reports per chunk and hide another kind."""
    m = re.match(r'\{"f":"(\w+)"', line)
    f = m.group(1) if m else "?"
    if f == "utf8":
        m = re.search(r'"g":"(\w+)"', line)
        return "utf8_" + (m.group(1) if m else "x")
    return "enum" if f == "enum_from" else f


def split_groups(ctx, path):
    files = {}
    counts = {}
    handles = {}
    with open(path, "rb") as f:
        for raw in f:
            line = raw.decode(errors="replace")
            if not line.strip():
                continue
            g = group_of(line)
            k = counts.get(g, 0)
            ck = k // PER_CHUNK
            key = (g, ck)
            if key not in handles:
                p = os.path.join(ctx.workdir, "chunk_%s_%d.ndjson" % (g, ck))
                handles[key] = open(p, "w")
                files[key] = p
            handles[key].write(line if line.endswith("\n") else line + "\n")
            counts[g] = k + 1
    for h in handles.values():
        h.close()
    return files, counts


def judge_chunks(ctx, files):
    """Every chunk is judged by its own single-worker TLC; returns [(chunk path, bad list, n, nbad)]."""
    items = sorted(files.items())

    def one(it):
        (g, ck), p = it
        r = vlib.tlc("CodecJudge", "CodecJudge.cfg", workers=1, env={"TRACE": p}, timeout=1500,
                     tag="CodecJudge_%s_%d" % (g, ck), xmx="1500m")
        v = vlib._verdict_lines(r.out)
        if "VERDICT" not in v:
            raise vlib.Infra("CodecJudge gave no verdict on %s (rc=%d):\n%s" % (p, r.rc, "\n".join(r.out.splitlines()[-40:])))
        vd = v["VERDICT"][-1]
        return p, vd["bad"], vd["n"], vd["nbad"], r.generated
    return vlib.parallel(one, items, workers=min(vlib.NCPU, 12))


def classes_of(ctx, rec):
    f = rec["f"]
    if f in ("io", "swap"):
        d = rec["d"]
        shape = ("zero" if not any(d) else "ones" if all(x == 255 for x in d) else
                 "palindrome" if d == d[::-1] else "top-bit" if d[0] >= 128 else "general")
        ctx.count_class((f, rec["T"], shape))
    elif f == "io_read":
        ctx.count_class((f, rec["T"], rec["e"], min(len(rec["bs"]), rec["n"] + 1) - rec["n"]))
    elif f == "dec":
        ctx.count_class((f, rec["T"], rec["api"], rec["x"]["s"], len(rec["text"])))
    elif f == "dec_loc":
        ctx.count_class((f, rec["T"], rec["api"], rec["loc"], rec["glob"], rec["x"]["s"], len(rec["text"])))
    elif f == "dec_over":
        ctx.count_class((f, rec["T"], rec["ch"], rec["ok"], len(rec["text"])))
    elif f == "enum":
        ctx.count_class((f, rec["E"], rec["i"]))
    elif f == "enum_from":
        ctx.count_class((f, rec["E"], len(rec["r"])))
    elif f == "vec":
        ctx.count_class((f, rec["k"], rec["T"], rec["N"], rec["ch"], tuple(sorted(set(x["s"] for x in rec["xs"])))))
    elif f == "iostream":
        ctx.count_class((f, rec["ch"], min(len(rec["text"]), 4), tuple(sorted(set(o[0] for o in rec["ops"]))), sum(1 for o in rec["obs"] if o == [])))
    elif f == "rdbuf":
        ctx.count_class((f, rec["ch"], rec["nb"], max([0] + [sum(1 for o in rec["ops"][:i + 1] if o[0] == "open") - sum(1 for o in rec["ops"][:i + 1] if o[0] == "close") for i in range(len(rec["ops"]))])))
    elif f == "convert":
        ctx.count_class((f, rec["T"], rec["d"] == rec["d"][::-1]))
    elif f in ("nstring", "stypedef", "matrix", "box", "enum_names", "literal"):
        ctx.count_class((f, rec.get("k"), rec.get("T"), rec.get("ch"), rec.get("E"), rec.get("src")))
    elif f == "vecseq":
        ctx.count_class((f, rec["ch"], len(rec["items"]), rec["lead"] != [], tuple(len(x) for x in rec["seps"]),
                         tuple((i["k"], i["T"], len(i["xs"])) for i in rec["items"])[:2]))
    elif f == "utf8":
        def cls(c):
            return 1 if c < 128 else 2 if c < 2048 else 3 if c < 65536 else 4
        w = rec["w"]
        ctx.count_class((f, rec["api"], tuple(sorted(set(cls(c) for c in w))), min(len(w), 41) // 4,
                         rec.get("g")))


def function_names(rec, why):
    """(function name, reasons, note) triples of a rejected record - the signature names the fcppt function."""
    f = rec["f"]
    if f == "utf8":
        out = []
        nr = sorted(w for w in why if w.startswith("narrow"))
        sr = sorted(w for w in why if w in ("from_std_string", "to_std_string"))
        wr = sorted(w for w in why if not w.startswith("narrow") and w not in sr)
        for w in sr:
            out.append((w + ("_locale" if rec["api"] == "fcppt_locale" else ""), ["bytes-changed"], ""))
        # all four narrowing (widening) entry points forward to narrow_locale (widen_locale); the one
        # that was called is named in the text of the finding
        if nr:
            out.append(("narrow_locale", nr, "called through " + NARROW_FN.get(rec["api"], "?")))
        if wr:
            out.append(("widen_locale", wr, "called through " + WIDEN_FN.get(rec["api"], "?")))
        return out
    if f == "dec":
        return [(DEC_FN.get(rec["api"], "output?") + "/extract_from_string", sorted(why), "")]
    if f == "dec_loc":
        return [("output_to_string_locale/extract_from_string_locale", sorted(why),
                 "(%s, passed locale %s, global locale %s)" % (rec["api"], rec["loc"], rec["glob"]))]
    if f == "dec_over":
        return [("extract_from_string", sorted(why), "")]
    if f == "io":
        return [("io_write_read", sorted(why), "")]
    if f == "io_read":
        return [("io_read", sorted(why), "")]
    if f == "swap":
        return [("endianness_swap", sorted(why), "")]
    if f in ("enum", "enum_from"):
        return [("enum_string", sorted(why), "")]
    if f == "vec":
        return [("%s_io" % rec["k"], sorted(why), "")]
    if f == "vecseq":
        return [("vector_dim_io_sequence", sorted(why), "")]
    return [(f, sorted(why), "")]


def observe(ctx, rec, why, line):
    """Disagreements outside the statement of the property: counted and sampled in the evidence
    (coverage.observations), never a rejected event."""
    if not why:
        return
    obs = ctx.extra.setdefault("observations", {})
    key = "%s:%s" % (rec.get("dist") or rec["f"], "+".join(sorted(w[4:] for w in why)))
    o = obs.setdefault(key, {"count": 0, "sample": line[:500]})
    o["count"] += 1


# record kinds inside the statement of C15 (must agree with InScopeKinds of spec/CodecJudge.tla); a crash /
# hang / sanitizer report inside a call of any other kind is an OBSERVATION, never a VIOLATION
IN_SCOPE_KINDS = ("io", "io_read", "swap", "dec", "dec_loc", "dec_over", "enum", "enum_from", "vec", "vecseq", "utf8")
CRASH_FN = {"io": "io_write_read", "swap": "endianness_swap", "dec": "output_to_string/extract_from_string",
            "dec_loc": "output_to_string_locale/extract_from_string_locale", "dec_over": "extract_from_string",
            "enum": "enum_string", "enum_from": "enum_string", "vecseq": "vector_dim_io_sequence"}


def crash_verdict(ctx, what, rc, out, tail):
    """a harness run that did not exit 0: the partial line names the driven call"""
    kind = {66: "sanitizer", 67: "crash", 68: "hang", 124: "timeout"}.get(rc, "exit%d" % rc)
    # a sanitizer report whose innermost frame is harness code is a harness bug, not a finding
    fr = re.search(r"#0 0x[0-9a-f]+ in [^\n]*? (/\S+?):\d+", out)
    if rc == 66 and fr and fr.group(1).startswith(vlib.HARNESS):
        raise vlib.Infra("sanitizer report inside the harness itself: %s" % out[-1500:])
    if rc == 3:
        raise vlib.Infra("harness failed (rc=%d): %s" % (rc, out[-2000:]))
    m = re.search(r'"f":"(\w+)"', tail or "")
    op = m.group(1) if m else "?"
    san = re.search(r"(ERROR: \w+Sanitizer: [^\n]*|runtime error: [^\n]*)", out)
    text = "%s inside a driven call (%s): %s; partial record: %s" % (kind, what, san.group(1) if san else out[-300:], (tail or "")[:300])
    rec = None
    if tail:
        # the partial line carries the complete inputs of the call: replayable
        try:
            rec = json.loads(re.sub(r",\s*$", "", tail) + "}")
        except ValueError:
            rec = None
    if m and op not in IN_SCOPE_KINDS:
        obs = ctx.extra.setdefault("observations", {})
        o = obs.setdefault("%s:%s" % (op, kind), {"count": 0, "sample": text[:500]})
        o["count"] += 1
        return
    fn = CRASH_FN.get(op, op)
    if op == "utf8":
        fn = "narrow_widen_locale"
    elif op == "vec" and rec:
        fn = "%s_io" % rec.get("k", "vector")
    ctx.reject("C15:%s:%s" % (fn, kind), text, {"records": [rec] if rec else [], "partial_line": tail})


def judge_file(ctx, path, what, rc, out, count=True):
    lines, tail = vlib.check_trace_file(path)
    if rc != 0:
        crash_verdict(ctx, what, rc, out, tail)
    # the crash handler of the harness appends a {"e":"crash"} line: not a call record
    if rc != 0 or any(l.startswith('{"e":"crash"') for l in lines[-3:]):
        lines = [l for l in lines if not l.startswith('{"e":"crash"')]
        with open(path, "w") as f:
            f.write("\n".join(lines) + ("\n" if lines else ""))
    if not lines:
        if rc != 0:
            return 0    # the process died inside its first call: the verdict above is all there is
        raise vlib.Infra("harness produced no records: %s" % out[-1000:])
    del lines
    files, counts = split_groups(ctx, path)
    res = judge_chunks(ctx, files)
    total = 0
    pre = []
    for p, bad, n, nbad, gen in res:
        total += n
        ctx.extra["trace_states"] = ctx.extra.get("trace_states", 0) + gen
        chunk = open(p).read().splitlines()
        if count:
            for i in range(0, len(chunk), 7):
                classes_of(ctx, json.loads(chunk[i]))
        for b in bad:
            rec = json.loads(chunk[b["l"] - 1])
            if "HARNESS-PRECONDITION" in b["why"] or "unknown-record-kind" in b["why"]:
                pre.append(chunk[b["l"] - 1][:300])
                continue
            why_all = b["why"]
            observe(ctx, rec, [w for w in why_all if w.startswith("obs:")], chunk[b["l"] - 1])
            why_in = [w for w in why_all if not w.startswith("obs:")]
            if not why_in:
                continue
            for fn, why, via in function_names(rec, why_in):
                ctx.reject("C15:%s:%s" % (fn, "+".join(why)),
                           "%s: Codec.tla cannot explain %s %s(%s); %d of %d records of this chunk rejected; record: %s" % (
                               what, fn, via + " " if via else "", ",".join(why), nbad, n, chunk[b["l"] - 1][:600]),
                           {"records": [rec]})
        os.unlink(p)
    if pre and not ctx.violations:
        raise vlib.Infra("harness emitted records outside the generators' preconditions: %s" % pre[:3])
    ctx.evaluations += total
    ctx.extra.setdefault("records_per_group", {})
    for g, c in counts.items():
        ctx.extra["records_per_group"][g] = ctx.extra["records_per_group"].get(g, 0) + c
    return total


def sensitivity_guard_round3(ctx, tpath):
    """vacuity guard of the judge clauses added in round 3 (several enumerators on one stream, from_std_string /
    to_std_string, the empty string, swap of floating-point values): corrupted copies of real, explained records
    must be rejected with the expected reason (exit 2 otherwise)"""
    want = {}
    with open(tpath) as f:
        for l in f:
            if len(want) == 4:
                break
            if l.startswith('{"f":"enum","E":"E9"') and "enum" not in want and '"i":0' not in l[:30]:
                want["enum"] = json.loads(l)
            elif '"fsb"' in l and "fstr" not in want:
                r = json.loads(l)
                if len(r["gb"]) > 3 and r["tsok"]:
                    want["fstr"] = r
            elif l.startswith('{"f":"utf8"') and '"w":[],' in l[:60] and "empty" not in want:
                want["empty"] = json.loads(l)
            elif l.startswith('{"f":"swap","T":"double"') and "fswap" not in want:
                r = json.loads(l)
                if r["d"] != r["d"][::-1]:
                    want["fswap"] = r
    if len(want) < 4:
        raise vlib.Infra("sensitivity guard (round 3): no candidate record for %s" % sorted(set(("enum", "fstr", "empty", "fswap")) - set(want)))

    def cp(r):
        return json.loads(json.dumps(r))
    cor = []
    a = cp(want["enum"]); a["sq"][1] = []; cor.append((a, "input-sequence"))
    a = cp(want["enum"]); a["wsq"][2] = [0]; cor.append((a, "winput-sequence"))
    a = cp(want["enum"]); a["sqt"] = a["sqt"].replace("  ", " "); cor.append((a, "output-sequence"))
    a = cp(want["enum"]); a["wsqt"] = a["wsqt"][1:]; cor.append((a, "woutput-sequence"))
    a = cp(want["fstr"]); a["fsb"] = a["fsb"][:-1]; cor.append((a, "from_std_string"))
    a = cp(want["fstr"]); a["tsb"] = a["tsb"][:-1]; cor.append((a, "to_std_string"))
    a = cp(want["fstr"]); a["tsok"] = False; a["tsb"] = []; cor.append((a, "to_std_string"))
    a = cp(want["empty"]); a["nok"] = False; cor.append((a, "narrow-failed"))
    a = cp(want["fswap"]); a["s1"] = a["d"]; cor.append((a, "swap-bytes"))
    a = cp(want["fswap"]); a["s2"] = a["s1"]; cor.append((a, "swap-twice"))
    p = os.path.join(ctx.workdir, "corrupted_r3.ndjson")
    vlib.write_ndjson(p, [c[0] for c in cor])
    r = vlib.tlc("CodecJudge", "CodecJudge.cfg", workers=1, env={"TRACE": p}, timeout=600, tag="CodecJudge_guard_r3", xmx="1500m")
    v = vlib._verdict_lines(r.out)
    if "VERDICT" not in v:
        raise vlib.Infra("sensitivity guard (round 3): no verdict (rc=%d): %s" % (r.rc, r.out[-1500:]))
    got = {b["l"]: b["why"] for b in v["VERDICT"][-1]["bad"]}
    for i, (rec, why) in enumerate(cor):
        if why not in got.get(i + 1, []):
            raise vlib.Infra("sensitivity guard (round 3): corrupted record %d not rejected with %s (judged %s): %s" % (
                i + 1, why, got.get(i + 1), json.dumps(rec)[:300]))
    ctx.extra["judge_sensitivity_round3"] = {"corrupted_records": len(cor), "all_rejected_with_expected_reason": True}
    os.unlink(p)


def model_checks(ctx, thorough):
    cfgs = ["MC_Codec_bytes.cfg", "MC_Codec_utf8_all.cfg" if thorough else "MC_Codec_utf8.cfg", "MC_Codec_dec.cfg", "MC_Codec_vecseq.cfg"]
    vlib.parallel(lambda c: vlib.tlc_mc(ctx, "MCCodec", c, workers=4, timeout=3000, tag="MCCodec_" + c, xmx="2g"), cfgs)

    def guard(g):
        cfg, inv = g
        r = vlib.tlc("MCCodec", cfg, workers=2, timeout=1500, tag="MCCodec_" + cfg, xmx="1500m", expect=inv)
        if inv not in r.invariant_violated:
            raise vlib.Infra("vacuity guard: %s did not violate %s" % (cfg, inv))
        return {"cfg": cfg, "violates": inv}
    vlib.parallel(lambda mc: vlib.tlc_mc(ctx, mc[0], mc[1], workers=4, timeout=3000, tag=mc[0], xmx="2g"), EXT_MC)

    def eguard(g):
        mod, cfg, inv = g
        r = vlib.tlc(mod, cfg, workers=2, timeout=1500, tag=mod + "_" + cfg, xmx="1500m")
        if inv not in r.invariant_violated:
            raise vlib.Infra("vacuity guard: %s did not violate %s" % (cfg, inv))
        return {"cfg": cfg, "violates": inv}
    ctx.extra["vacuity_guards"] = vlib.parallel(guard, GUARDS, workers=5) + vlib.parallel(eguard, EXT_GUARDS, workers=6)


def run(ctx):
    thorough = ctx.tier == "thorough"
    model_checks(ctx, thorough)
    binary = build(ctx)
    if binary is None:
        ctx.rule = "the conformance harness does not compile against this tree"
        return
    tpath = os.path.join(ctx.workdir, "recorded.ndjson")
    # the enumeration is cut into sections (see the harness): after a crash / hang inside one section the
    # harness is restarted behind it, so that the other record kinds are still driven and judged
    start, rc, out, parts = 0, 0, "", []
    for attempt in range(12):
        part = tpath if attempt == 0 else "%s.part%d" % (tpath, attempt)
        rc_k, out_k = vlib.run_harness(binary, ["record", part, ctx.seed, ctx.tier, start], timeout=3000 if thorough else 900)
        parts.append(part)
        if rc_k == 0:
            break
        try:
            sec = int(open(part + ".sec").read().strip())
        except (OSError, ValueError):
            sec = None
        if attempt == 0:
            rc, out = rc_k, out_k
        else:
            # a later part died as well: its own verdict; its complete records are appended below
            _, tail_k = vlib.check_trace_file(part)
            crash_verdict(ctx, "recorded call", rc_k, out_k, tail_k)
        if sec is None or rc_k == 3:
            break
        start = sec + 1
    if len(parts) > 1:
        _, tail0 = vlib.check_trace_file(tpath)
        with open(tpath, "a") as f:
            if tail0:
                f.write("\n")
            for part in parts[1:]:
                ls, _ = vlib.check_trace_file(part)
                f.write("".join(l + "\n" for l in ls if not l.startswith('{"e":"crash"')))
                os.unlink(part)
        ctx.extra["harness_restarts"] = len(parts) - 1
    n = judge_file(ctx, tpath, "recorded call", rc, out)
    ctx.traces_validated += len(ctx.extra.get("records_per_group", {}))
    if rc == 0 and not ctx.violations:
        sensitivity_guard_round3(ctx, tpath)
    with open(tpath) as f:
        for i, l in enumerate(f):
            if i in (5, 400000) or '"f":"vec"' in l and len(ctx.samples) < 3:
                ctx.sample(json.loads(l))
    os.unlink(tpath)
    ctx.exhaustive = False
    ctx.extra.setdefault("observations", {})
    for k, o in ctx.extra["observations"].items():
        print("OBSERVATION (outside the statement, not a verdict): %s x%d e.g. %s" % (k, o["count"], o["sample"][:200]))
    ctx.extra["exhaustive_parts"] = (
        "all 8-bit and 16-bit values for io::write/read and swap; all 16-bit values for the decimal round trip; "
        "all enumerators of the 4 fixture enums; all vectors with components in -3..3 (0..6 unsigned) for N <= 4; "
        + ("all 1,112,063 scalar values singly" if thorough else "every 17th scalar value and the neighbourhoods of all length boundaries"))
    ctx.rule = ("one record per driven call group; a class = (kind, C++ type / API / enum, and a shape of the input: digit "
                "pattern class for binary records, sign and text length for decimal, set of encoded lengths x length "
                "bucket x whole/cut input for UTF-8); classes are counted on every 7th record")
    ctx.assumptions += [
        "the only UTF-8 locale of the sandbox (C.utf8, glibc + libstdc++ codecvt<wchar_t,char,mbstate_t>) stands for 'a UTF-8 locale'",
        "8-bit integer types are character types for operator<< / >> and are not part of the decimal text round trip",
        "floats: only the bit pattern round trip of io::write / io::read is judged; long double is not driven (padding bytes)",
        "negative decimal text extracted into an unsigned type, U+0000 and malformed (other than cut short) multibyte input are not constrained by the property and not driven",
        "memory errors inside the driven calls are only OBSERVED via ASan/UBSan, not decided by the TLA+ spec",
    ]


def replay(ctx, payload):
    binary = build()
    recs = payload["payload"].get("records", [])
    if not recs:
        raise vlib.Infra("nothing to replay (sanitizer finding without a complete record): %s" % payload["payload"].get("partial_line"))
    spath = os.path.join(ctx.workdir, "replay_in.ndjson")
    vlib.write_ndjson(spath, recs)
    rpath = os.path.join(ctx.workdir, "replay_out.ndjson")
    rc, out = vlib.run_harness(binary, ["replay", spath, rpath], timeout=600)
    judge_file(ctx, rpath, "replay", rc, out)
    ctx.traces_validated += 1
    ctx.rule = "replay of the inputs of one saved record"
