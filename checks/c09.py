"""C09 - fcppt::container::tree keeps parent/child links consistent under every operation history;
traversals agree with a recursive reference model; copies are deep.

1. TLC model-checks spec/Tree.tla (abstract forest: all histories within a node bound, laws of the
   reference functions and of the operations) and spec/TreeImpl.tla (pointer-level transcription of
   object_impl.hpp run in lock-step: ParentConsistent, RootsHaveNoParent, NoDangling, refinement,
   returned values).
2. Vacuity guards: with a defect re-introduced by a constant TLC must find the counterexample.
3. TLC emits one operation script per generated transition of two small models; the harness replays
   them on the real tree (spec -> code).
4. The harness records seeded random histories (<= 40 ops, 4 slots, operands among all live
   nodes) (code -> spec).
5. spec/TreeTrace.tla (TLC) judges every recorded event: forest value, the recorded parent() links,
   every traversal / function output, returned values.  A few corrupted copies of an accepted
   history must be rejected (the judge can fail).
ASan/UBSan/LSan reports of the harness become rejected events (observed, not decided by the spec)."""
import copy
import json
import os
import re

import vlib

LEVEL = "model_checking"
TRACE_MODULE = "TreeTrace"
TRACE_CFG = "TreeTrace.cfg"
XMX = "2g"   # the models are small; a modest heap keeps the JVMs out of the shared box's OOM killer
OP_FIELDS = ("op", "as", "ap", "bs", "bp", "d", "pos", "pos2", "x", "rv", "ss")
LINK_REASONS = {"parent-link", "root-has-parent", "dangling-link"}
# outputs that merely follow the parent links: implied by a link reason, not part of the signature
DERIVED_FROM_LINKS = {"to_root", "level"}

# (cfg, invariant TLC must report as violated, also run in the quick tier?)
GUARDS = (
    ("MC_TreeImpl_swapbug.cfg", "ParentConsistent", True),
    ("MC_TreeImpl_swapbug_roots.cfg", "RootsHaveNoParent", True),
    ("MC_TreeImpl_swapbug_dangling.cfg", "NoDangling", False),
    ("MC_TreeImpl_copyassignbug.cfg", "ParentConsistent", False),
    ("MC_TreeImpl_moveassignbug.cfg", "ParentConsistent", False),
    ("MC_TreeImpl_insertnoparent.cfg", "ParentConsistent", False),
    ("MC_TreeImpl_copynoreparent.cfg", "ParentConsistent", False),
    ("MC_TreeImpl_erasekeeps.cfg", "Refines", True),
    ("MC_TreeImpl_pushfrontret.cfg", "ReturnsAgree", True),
    # operator=(&&) assigning the child list in place: breaks `node = std::move(child of node)`
    ("MC_TreeImpl_moveassigninplace.cfg", "NoDangling", True),
)


def build():
    # the tree is header-only: no fcppt library sources are needed
    return vlib.build_harness("c09_tree", ["c09_tree.cpp"], libs=())


def signature(b):
    why = set(b["why"])
    if why & LINK_REASONS:
        why -= DERIVED_FROM_LINKS
    return "C09:%s:%s" % (b["op"], "+".join(sorted(why)))


def script_of(hist_lines):
    ops = []
    for l in hist_lines:
        try:
            e = json.loads(l)
        except ValueError:
            continue
        if e.get("e") == "op":
            ops.append({k: e[k] for k in OP_FIELDS})
    return ops


def judge_trace(ctx, path, per=6000, workers=12):
    """Like vlib.judge_trace, but with chunks of bounded size (<= `per` lines, cut at history
    boundaries), a 2 GB heap per judge and at most `workers` TLC processes at a time: a TLC process
    holds its whole chunk as TLA+ values (~80 bytes of heap per byte of JSON), and 16 judges with
    30 MB chunks each exhausted the memory of the shared box."""
    lines = open(path).read().splitlines()
    per = min(per, max(4000, (len(lines) + vlib.NCPU - 1) // vlib.NCPU))
    chunks = []
    cur = []
    start = 0
    for i, l in enumerate(lines):
        if len(cur) >= per and '"e":"reset"' in l:
            chunks.append((start, cur))
            cur = []
            start = i
        cur.append(l)
    if cur:
        chunks.append((start, cur))
    files = []
    for k, (st, c) in enumerate(chunks):
        fp = "%s.part%d" % (path, k)
        with open(fp, "w") as f:
            f.write("\n".join(c) + "\n")
        files.append((fp, st))
    del lines, chunks

    def one(ch):
        fp, first = ch
        r = vlib.tlc(TRACE_MODULE, TRACE_CFG, workers=1, env={"TRACE": fp}, timeout=1500, tag="TreeTrace_j", xmx="2g")
        v = vlib._verdict_lines(r.out)
        if "VERDICT" in v:
            bad = []
            for b in v["VERDICT"][-1]["bad"]:
                b = dict(b)
                b["l"] += first
                bad.append(b)
        elif "STUCK" in v:
            bad = [{"l": int(v["STUCK"][-1]) + first, "op": "?", "why": ["no-action-explains-event"]}]
        else:
            raise vlib.Infra("trace judge gave no verdict on %s (rc=%d):\n%s" % (fp, r.rc, "\n".join(r.out.splitlines()[-40:])))
        os.unlink(fp)
        return bad, r.generated
    res = vlib.parallel(one, files, workers=workers)
    bad = [b for bs, _ in res for b in bs]
    ctx.extra["trace_states"] = ctx.extra.get("trace_states", 0) + sum(g for _, g in res)
    ctx.extra["judge_chunks"] = ctx.extra.get("judge_chunks", 0) + len(files)
    return sorted(bad, key=lambda b: b["l"])


def judge_file(ctx, path, what, rc, out):
    lines, tail = vlib.check_trace_file(path)
    if rc != 0:
        # sanitizer report / crash / hang inside a driven call or inside the dump that follows it
        op = "?"
        if tail:
            m = re.search(r'"op":"(\w+)"', tail) or re.search(r'"e":"(\w+)"', tail)
            op = m.group(1) if m else "?"
        kind = {66: "sanitizer", 67: "crash", 68: "hang", 124: "timeout"}.get(rc, "exit%d" % rc)
        san = re.search(r"(ERROR: \w+Sanitizer: [^\n]*|runtime error: [^\n]*)", out)
        hist = vlib.history_of(lines, len(lines)) if lines else []
        last = []
        if tail:
            try:
                last = [{k: v for k, v in json.loads(tail + "}").items() if k in OP_FIELDS}]
            except ValueError:
                last = []
        ctx.reject("C09:%s:%s" % (op, kind), "%s during %s (%s): %s" % (kind, op, what, san.group(1) if san else out[-300:]),
                   {"script": script_of(hist) + last, "partial_line": tail})
        with open(path, "w") as f:
            f.write("\n".join(lines) + ("\n" if lines else ""))
    if not lines:
        return lines
    bad = judge_trace(ctx, path)
    ctx.evaluations += sum(1 for x in lines if '"e":"op"' in x)
    for b in bad:
        if "HARNESS-PRECONDITION" in b["why"] or "MALFORMED-DUMP" in b["why"]:
            raise vlib.Infra("harness emitted an operation outside the API precondition / a malformed dump "
                             "at line %d of %s" % (b["l"], path))
        hist = vlib.history_of(lines, b["l"])
        ev = json.loads(lines[b["l"] - 1])
        brief = {k: ev[k] for k in OP_FIELDS}
        ctx.reject(signature(b), "%s: spec cannot explain %s (%s) after %d earlier operation(s); operation: %s" % (
            what, b["op"], ",".join(sorted(b["why"])), len(hist) - 2, json.dumps(brief)),
            {"script": script_of(hist), "event": ev, "why": sorted(b["why"])})
    ctx.extra["histories_rejected"] = ctx.extra.get("histories_rejected", 0) + len(bad)
    return lines


def count_classes(ctx, lines):
    for l in lines:
        if '"e":"op"' not in l:
            continue
        e = json.loads(l)
        two = e["bs"] != 0
        n_nodes = sum(len(s["nodes"]) for s in e["slots"])
        ctx.count_class((e["op"], "root" if not e["ap"] else "inner%d" % min(len(e["ap"]), 3),
                         ("root" if not e["bp"] else "inner") if two else "-",
                         (e["as"] == e["bs"]) if two else False, min(n_nodes // 4, 3)))


def judge_vacuity(ctx, lines):
    """Binding demonstration (a): corrupt single fields of an accepted history - each corrupted copy
    must be rejected at the corrupted event for the expected reason."""
    # pick an accepted history whose last event has a slot with a node at depth >= 2
    hists = []
    cur = []
    for l in lines:
        if '"e":"reset"' in l:
            cur = [l]
            hists.append(cur)
        else:
            cur.append(l)
    pick = None
    for h in hists:
        evs = [x for x in h if '"e":"op"' in x]
        if len(evs) < 3:
            continue
        ev = json.loads(evs[-1])
        for si, s in enumerate(ev["slots"]):
            if s["live"] and len(s["nodes"]) >= 3 and any(n["l"] >= 2 for n in s["nodes"]):
                pick = (h, ev, si)
                break
        if pick:
            break
    if pick is None:
        raise vlib.Infra("judge vacuity: no history with a node at level 2 found")
    h, ev, si = pick
    last_idx = max(i for i, x in enumerate(h) if '"e":"op"' in x)
    deep = next(i for i, n in enumerate(ev["slots"][si]["nodes"]) if n["l"] >= 2)

    def mut(fn):
        e = copy.deepcopy(ev)
        fn(e["slots"][si])
        return e
    cases = [
        ("parent-link", mut(lambda s: s["nodes"][deep].__setitem__("par", -1))),
        ("parent-link", mut(lambda s: s["nodes"][deep].__setitem__("par", s["nodes"][0]["tr"][0]))),
        ("root-has-parent", mut(lambda s: s["nodes"][0].__setitem__("par", s["nodes"][deep]["tr"][0]))),
        ("dangling-link", mut(lambda s: s["nodes"][deep].__setitem__("par", -2))),
        ("structure", mut(lambda s: s["nodes"][deep].__setitem__("v", s["nodes"][deep]["v"] + 1))),
        ("depth", mut(lambda s: s["nodes"][0].__setitem__("d", s["nodes"][0]["d"] + 1))),
        ("level", mut(lambda s: s["nodes"][deep].__setitem__("l", s["nodes"][deep]["l"] - 1))),
        ("to_root", mut(lambda s: s["nodes"][deep].__setitem__("tr", s["nodes"][deep]["tr"][:-1]))),
        ("pre_order", mut(lambda s: s.__setitem__("pre", list(reversed(s["pre"]))))),
        ("child_position", mut(lambda s: s["nodes"][deep].__setitem__("cp", s["nodes"][deep]["cp"] + 1))),
        ("map", mut(lambda s: s["map"][deep].__setitem__("v", 0))),
    ]
    e2 = copy.deepcopy(ev)
    e2["eq"][si][si] = 0
    cases.append(("comparison", e2))
    path = os.path.join(ctx.workdir, "vacuity.ndjson")
    expect = {}
    with open(path, "w") as f:
        n = 0
        # the unmodified history first: must be accepted
        for x in h:
            f.write(x + "\n")
            n += 1
        f.write('{"e":"end"}\n')
        n += 1
        for reason, e in cases:
            for i, x in enumerate(h):
                n += 1
                if i == last_idx:
                    f.write(json.dumps(e, separators=(",", ":")) + "\n")
                    expect[n] = reason
                else:
                    f.write(x + "\n")
            f.write('{"e":"end"}\n')
            n += 1
    bad = judge_trace(ctx, path, per=10 ** 9)
    got = {b["l"]: b["why"] for b in bad}
    for ln, reason in expect.items():
        if reason not in got.get(ln, []):
            raise vlib.Infra("judge vacuity: corrupted field (%s) at line %d was not rejected for that reason: %s" % (
                reason, ln, got.get(ln)))
    extra = [ln for ln in got if ln not in expect]
    if extra:
        raise vlib.Infra("judge vacuity: uncorrupted events rejected at lines %s" % extra)
    ctx.extra["judge_vacuity_cases"] = len(cases)


def run(ctx):
    thorough = ctx.tier == "thorough"
    # 1. the specification itself: abstract forest, and the pointer-level transcription in lock-step
    vlib.tlc_mc(ctx, "Tree", "MC_Tree.cfg", xmx=XMX)
    r = vlib.tlc_mc(ctx, "TreeImpl", "MC_TreeImpl.cfg", coverage=thorough, xmx=XMX)
    if thorough:
        zero = [k for k, (t, g) in r.coverage().items() if t == 0]
        if zero:
            raise vlib.Infra("coverage: actions never taken: %s" % zero)
        vlib.tlc_mc(ctx, "Tree", "MC_Tree_big.cfg", timeout=3000, xmx=XMX)
        vlib.tlc_mc(ctx, "TreeImpl", "MC_TreeImpl_big.cfg", timeout=3000, xmx=XMX)
    # 2. vacuity guards: each invariant CAN fail - with a defect re-introduced into the transcription
    #    TLC must find a counterexample (SwapBug/CopyAssignBug/MoveAssignBug = the unrepaired code)
    def guard(g):
        cfg, inv, _ = g
        return cfg, inv, vlib.tlc("TreeImpl", cfg, workers=2, tag="TreeImpl_g", xmx="1g", expect=inv)
    for cfg, inv, r in vlib.parallel(guard, [g for g in GUARDS if thorough or g[2]], workers=5):
        if inv not in r.invariant_violated:
            raise vlib.Infra("vacuity guard: %s did not violate %s" % (cfg, inv))
        ctx.extra.setdefault("vacuity_guards", []).append({"cfg": cfg, "violates": inv, "states": r.distinct})
    if thorough:
        # dropping `ret.parent_ = nullptr` from release()/pop_*() is unobservable: the model says so
        r = vlib.tlc_mc(ctx, "TreeImpl", "MC_TreeImpl_releasenoclear.cfg", workers=4, xmx=XMX)
        ctx.extra["equivalent_mutant_release_no_clear_states"] = r.distinct
    # 3. operation scripts, one per generated transition
    r = vlib.tlc_mc(ctx, "Tree", "MC_TreeScripts.cfg", workers=4, xmx=XMX)
    scripts = vlib._verdict_lines(r.out).get("SCRIPT", [])
    if len(scripts) < 1000:
        raise vlib.Infra("script emission produced only %d scripts" % len(scripts))
    if not thorough:
        scripts = scripts[ctx.seed % 2::2]
    r = vlib.tlc_mc(ctx, "TreeImpl", "MC_TreeImplScripts_big.cfg" if thorough else "MC_TreeImplScripts.cfg", workers=4,
                    timeout=3000, xmx=XMX)
    iscripts = vlib._verdict_lines(r.out).get("SCRIPT", [])
    if len(iscripts) < 1000:
        raise vlib.Infra("impl script emission produced only %d scripts" % len(iscripts))
    if not thorough:
        iscripts = iscripts[(ctx.seed + 1) % 2::2]
    scripts += iscripts
    spath = os.path.join(ctx.workdir, "scripts.ndjson")
    vlib.write_ndjson(spath, scripts)
    binary = build()
    # 4. spec -> code
    rpath = os.path.join(ctx.workdir, "replayed.ndjson")
    rc, out = vlib.run_harness(binary, ["replay", spath, rpath], timeout=1500)
    lines = judge_file(ctx, rpath, "TLC-generated script", rc, out)
    ctx.traces_validated += len(scripts)
    if lines:
        count_classes(ctx, lines[:200000])
        ctx.sample({"tlc_script": scripts[len(scripts) // 2]})
    # 5. code -> spec
    nh, ml = (5000, 40) if thorough else (700, 40)
    tpath = os.path.join(ctx.workdir, "recorded.ndjson")
    rc, out = vlib.run_harness(binary, ["record", tpath, ctx.seed, nh, ml], timeout=3000)
    lines = judge_file(ctx, tpath, "random history", rc, out)
    ctx.traces_validated += nh
    if lines:
        count_classes(ctx, lines[:300000])
        pick = next((x for x in lines[:5000] if '"op":"swap"' in x or '"op":"copy_assign"' in x), lines[1])
        ev = json.loads(pick)
        ctx.sample({"recorded_event": {k: ev[k] for k in OP_FIELDS + ("ret", "some", "rb")},
                    "dump_of_first_live_slot": next((s for s in ev["slots"] if s["live"]), None)})
        # 6. the judge can fail: corrupted copies of an accepted history must be rejected
        if not ctx.violations and not ctx.known_hits:
            judge_vacuity(ctx, lines[:60000])
    ctx.rule = ("histories: (a) every generated transition of two small TLC models as an op script (spec -> code), "
                "(b) seeded random histories of 1..40 ops over 4 slots (<= 14 nodes) with operands drawn uniformly "
                "from all live nodes; a class = (operation, first operand root / inner level 1,2,3+, second operand "
                "none/root/inner, operands in the same slot?, forest size bucket) of an executed event")
    ctx.assumptions += [
        "use of a destroyed node (use-after-free, double free, leaks) is only OBSERVED via ASan/UBSan/LSan in the harness, not decided by the TLA+ spec; a parent() address that is not a live node is decided (logged as -2)",
        "label type int stands for all T; map is driven with x -> 2x+1 into a tree of long",
        "API preconditions excluded from the generators: swap where one operand is the other or its ancestor/descendant, assignment from the node itself or from one of its ancestors (assignment from a proper descendant IS driven), moving a tree into its own sub-tree, self-move, invalid iterators",
        "the label and children of a moved-from node and the order sort() gives to equal labels are left open (only link well-formedness is demanded)",
        "TreeImpl.tla is a hand transcription (with the three repaired defects switchable); verdicts are only taken from traces of the real code judged by the abstract spec",
        "after the first rejected event of a history the rest of that history is not judged (stale links persist in the objects)",
    ]


def replay(ctx, payload):
    binary = build()
    spath = os.path.join(ctx.workdir, "replay_script.ndjson")
    vlib.write_ndjson(spath, [payload["payload"]["script"]])
    rpath = os.path.join(ctx.workdir, "replay_out.ndjson")
    rc, out = vlib.run_harness(binary, ["replay", spath, rpath], timeout=600)
    judge_file(ctx, rpath, "replay", rc, out)
    ctx.traces_validated += 1
    ctx.count_class("replay")
    ctx.count_class("replay2")
    ctx.rule = "replay of one saved history"
