"""C09 - fcppt::container::tree keeps parent/child links consistent under every operation history;
traversals agree with a recursive reference model; copies are deep.

1. TLC model-checks spec/Tree.tla (abstract forest: all histories within a node bound, laws of the
   reference functions and of the operations; the log context's find-or-create / set sub-model),
   spec/TreeImpl.tla (pointer-level transcription of object_impl.hpp run in lock-step:
   ParentConsistent, RootsHaveNoParent, NoDangling, refinement, returned values) and
   spec/TreeIter.tla (the pre_order / to_root iterators as state machines over all tree shapes).
2. Vacuity guards: with a defect re-introduced by a constant TLC must find the counterexample.
3. TLC emits one operation script per generated transition of small models; the harnesses replay
   them on the real tree (spec -> code): harness/c09_tree.cpp for the label types int, std::string,
   move-only std::unique_ptr<int> and a nested tree<int>; harness/c09_logtree.cpp for the log
   context's use of the tree (its own context tree through the real find_or_create_child, and the
   real fcppt::log::context through the public API).
4. The harnesses record seeded random histories (code -> spec).
5. spec/TreeTrace.tla (TLC) judges every recorded event.  Reasons covered by the STATEMENT of
   property C09 (links, forest value, traversals, depth/level/child_position/map/comparison)
   reject the event -> VIOLATION; all other reasons (operator<<, size/front/back, returned
   references, iterator equality, the log context's API) are OBSERVATIONS: counted, written to the
   evidence (coverage.observations) and printed, never a rejected event.
   Corrupted copies of accepted histories must be rejected / observed (the judge can fail).
ASan/UBSan/LSan reports of the harness become rejected events (observed, not decided by the spec)."""
import copy
import json
import os
import re
import time

import vlib

LEVEL = "model_checking"
TRACE_MODULE = "TreeTrace"
TRACE_CFG = "TreeTrace.cfg"
XMX = "2g"   # the models are small; a modest heap keeps the JVMs out of the shared box's OOM killer
OP_FIELDS = ("op", "as", "ap", "bs", "bp", "d", "pos", "pos2", "x", "rv", "ss")
LINK_REASONS = {"parent-link", "root-has-parent", "dangling-link"}
# outputs that merely follow the parent links: implied by a link reason, not part of the signature
DERIVED_FROM_LINKS = {"to_root", "level", "iterator-visit", "const-overload"}
OTHER_LABELS = ("str", "uptr", "tree")

# (module, cfg, invariant TLC must report as violated, also run in the quick tier?)
GUARDS = (
    ("TreeImpl", "MC_TreeImpl_swapbug.cfg", "ParentConsistent", True),
    ("TreeImpl", "MC_TreeImpl_swapbug_roots.cfg", "RootsHaveNoParent", True),
    ("TreeImpl", "MC_TreeImpl_swapbug_dangling.cfg", "NoDangling", False),
    ("TreeImpl", "MC_TreeImpl_copyassignbug.cfg", "ParentConsistent", False),
    ("TreeImpl", "MC_TreeImpl_moveassignbug.cfg", "ParentConsistent", False),
    ("TreeImpl", "MC_TreeImpl_insertnoparent.cfg", "ParentConsistent", False),
    ("TreeImpl", "MC_TreeImpl_copynoreparent.cfg", "ParentConsistent", False),
    ("TreeImpl", "MC_TreeImpl_erasekeeps.cfg", "Refines", True),
    ("TreeImpl", "MC_TreeImpl_pushfrontret.cfg", "ReturnsAgree", False),
    # operator=(&&) assigning the child list in place: breaks `node = std::move(child of node)`
    ("TreeImpl", "MC_TreeImpl_moveassigninplace.cfg", "NoDangling", True),
    # extension round
    ("TreeImpl", "MC_TreeImpl_leaktemp.cfg", "NoLeak", False),
    ("TreeImpl", "MC_TreeImpl_badinit_itype.cfg", "ITypeOK", False),
    ("TreeImpl", "MC_TreeImpl_badinit_type.cfg", "TypeOK", False),
    ("TreeImpl", "MC_TreeImpl_logdup.cfg", "LogNamesUniqueI", True),
    ("TreeImpl", "MC_TreeImpl_logdup_refines.cfg", "Refines", False),
    ("TreeImpl", "MC_TreeImpl_logsetshallow.cfg", "Refines", False),
    ("TreeIter", "MC_TreeIter_pushfirst.cfg", "PreOrderVisits", True),
    ("TreeIter", "MC_TreeIter_pushfirst_eq.cfg", "PEqualIsPosition", False),
    ("TreeIter", "MC_TreeIter_pushfirst_stack.cfg", "StackIsPending", False),
    ("TreeIter", "MC_TreeIter_pushfirst_end.cfg", "PEndIsAfterLast", False),
    ("TreeIter", "MC_TreeIter_parentskip.cfg", "ToRootVisits", True),
    ("TreeIter", "MC_TreeIter_parentskip_eq.cfg", "REqualIsPosition", False),
)


def build():
    """The PRIMARY harness: label type int.  The tree is header-only: no fcppt library sources are
    needed.  If this does not build there is no verdict (Infra, exit 2)."""
    return vlib.build_harness("c09_tree", ["c09_tree.cpp"], libs=())


def build_secondary(ctx, name):
    """The secondary harness binaries - the other label types and the log context's tree - are built
    one by one.  One that does not compile against the tree under test must not block the judgement
    of the int histories: the failure is recorded as an observation and that part is skipped."""
    try:
        if name == "log":
            return vlib.build_harness("c09_logtree", ["c09_logtree.cpp"], libs=("core", "log"))
        return vlib.build_harness("c09_tree_" + name, ["c09_tree_l_%s.cpp" % name], libs=())
    except vlib.Infra as e:
        msg = str(e)
        if "compile failed" not in msg and "link failed" not in msg:
            raise
        first = next((l.strip() for l in msg.splitlines() if " error" in l or "error:" in l), msg.splitlines()[0])
        unit = "c09_logtree.cpp" if name == "log" else "c09_tree_l_%s.cpp" % name
        ctx.extra.setdefault("harness_units_skipped", []).append(
            {"unit": unit, "first_error": first[:400]})
        table = ctx.extra.setdefault("observations", {"events": 0, "kinds": {}})
        table["kinds"]["C09:build:%s" % unit] = {"count_in_kept_sample": 1, "example": {
            "source": "harness build", "lt": name, "operation": "harness TU %s does not compile: %s" % (unit, first[:300]),
            "earlier_operations": []}}
        print("OBSERVATION: harness TU %s does not compile against the tree under test (that part is skipped): %s" % (
            unit, first[:300]))
        return None


def signature(b):
    why = set(b["why"])
    if why & LINK_REASONS:
        why -= DERIVED_FROM_LINKS
    return "C09:%s:%s" % (b["op"], "+".join(sorted(why)))


def script_of(hist_lines):
    ops = []
    for l in hist_lines:
        try:
            e = json.loads(l)
        except ValueError:
            continue
        if e.get("e") == "op":
            ops.append({k: e[k] for k in OP_FIELDS})
    return ops


def judge_trace(ctx, path, per=6000, workers=8):
    """Like vlib.judge_trace, but with chunks of bounded size (<= `per` lines, cut at history
    boundaries), a 2 GB heap per judge and at most `workers` TLC processes at a time: a TLC process
    holds its whole chunk as TLA+ values (~80 bytes of heap per byte of JSON), and 16 judges with
    30 MB chunks each exhausted the memory of the shared box.
    Returns (rejected events, observations, number of observed events)."""
    lines = open(path).read().splitlines()
    per = min(per, max(5000, (len(lines) + vlib.NCPU - 1) // vlib.NCPU))
    chunks = []
    cur = []
    start = 0
    for i, l in enumerate(lines):
        if len(cur) >= per and '"e":"reset"' in l:
            chunks.append((start, cur))
            cur = []
            start = i
        cur.append(l)
    if cur:
        chunks.append((start, cur))
    files = []
    for k, (st, c) in enumerate(chunks):
        fp = "%s.part%d" % (path, k)
        with open(fp, "w") as f:
            f.write("\n".join(c) + "\n")
        files.append((fp, st))
    del lines, chunks

    def one(ch):
        fp, first = ch
        for attempt in (1, 2, 3):
            try:
                r = vlib.tlc(TRACE_MODULE, TRACE_CFG, workers=1, env={"TRACE": fp}, timeout=1500, tag="TreeTrace_j", xmx="2g")
                break
            except vlib.Infra as e:
                # the shared box's OOM killer takes JVMs at random when other agents fill the memory
                if "rc=-9" not in str(e) or attempt == 3:
                    raise
                vlib.log("judge of %s was killed (rc=-9), retrying" % fp)
                time.sleep(20 * attempt)
        v = vlib._verdict_lines(r.out)
        obs = []
        nobs = 0
        if "VERDICT" in v:
            bad = []
            for b in v["VERDICT"][-1]["bad"]:
                b = dict(b)
                b["l"] += first
                bad.append(b)
            for b in v["VERDICT"][-1].get("obs", []):
                b = dict(b)
                b["l"] += first
                obs.append(b)
            nobs = v["VERDICT"][-1].get("nobs", len(obs))
        elif "STUCK" in v:
            bad = [{"l": int(v["STUCK"][-1]) + first, "op": "?", "why": ["no-action-explains-event"]}]
        else:
            raise vlib.Infra("trace judge gave no verdict on %s (rc=%d):\n%s" % (fp, r.rc, "\n".join(r.out.splitlines()[-40:])))
        os.unlink(fp)
        return bad, r.generated, obs, nobs
    res = vlib.parallel(one, files, workers=workers)
    bad = [b for bs, _, _, _ in res for b in bs]
    obs = [b for _, _, os_, _ in res for b in os_]
    ctx.extra["trace_states"] = ctx.extra.get("trace_states", 0) + sum(g for _, g, _, _ in res)
    ctx.extra["judge_chunks"] = ctx.extra.get("judge_chunks", 0) + len(files)
    return sorted(bad, key=lambda b: b["l"]), sorted(obs, key=lambda b: b["l"]), sum(n for _, _, _, n in res)


def observe(ctx, obs, nobs, lines, what):
    """Disagreements outside the statement of C09: counted and reported, never a rejected event."""
    table = ctx.extra.setdefault("observations", {"events": 0, "kinds": {}})
    table["events"] += nobs
    for o in obs:
        key = "C09:%s:%s" % (o["op"], "+".join(sorted(o["why"])))
        k = table["kinds"].setdefault(key, {"count_in_kept_sample": 0, "example": None})
        k["count_in_kept_sample"] += 1
        if k["example"] is None:
            ev = json.loads(lines[o["l"] - 1])
            k["example"] = {"source": what, "lt": ev.get("lt"), "operation": {f: ev[f] for f in OP_FIELDS},
                            "earlier_operations": script_of(vlib.history_of(lines, o["l"]))[:-1][-12:]}


def judge_file(ctx, path, what, rc, out):
    lines, tail = vlib.check_trace_file(path)
    if rc != 0:
        # sanitizer report / crash / hang inside a driven call or inside the dump that follows it
        op = "?"
        if tail:
            m = re.search(r'"op":"(\w+)"', tail) or re.search(r'"e":"(\w+)"', tail)
            op = m.group(1) if m else "?"
        kind = {66: "sanitizer", 67: "crash", 68: "hang", 124: "timeout"}.get(rc, "exit%d" % rc)
        san = re.search(r"(ERROR: \w+Sanitizer: [^\n]*|runtime error: [^\n]*)", out)
        hist = vlib.history_of(lines, len(lines)) if lines else []
        last = []
        lt = "int"
        if tail:
            try:
                t = json.loads(tail + "}")
                last = [{k: v for k, v in t.items() if k in OP_FIELDS}]
                lt = t.get("lt", "int")
            except ValueError:
                last = []
        ctx.reject("C09:%s:%s" % (op, kind), "%s during %s (%s): %s" % (kind, op, what, san.group(1) if san else out[-300:]),
                   {"script": script_of(hist) + last, "partial_line": tail, "lt": lt})
        with open(path, "w") as f:
            f.write("\n".join(lines) + ("\n" if lines else ""))
    if not lines:
        return lines
    bad, obs, nobs = judge_trace(ctx, path)
    ctx.evaluations += sum(1 for x in lines if '"e":"op"' in x)
    for b in bad:
        if "HARNESS-PRECONDITION" in b["why"] or "MALFORMED-DUMP" in b["why"]:
            raise vlib.Infra("harness emitted an operation outside the API precondition / a malformed dump "
                             "at line %d of %s" % (b["l"], path))
        hist = vlib.history_of(lines, b["l"])
        ev = json.loads(lines[b["l"] - 1])
        brief = {k: ev[k] for k in OP_FIELDS}
        ctx.reject(signature(b), "%s: spec cannot explain %s (%s) after %d earlier operation(s); label type %s; operation: %s" % (
            what, b["op"], ",".join(sorted(b["why"])), len(hist) - 2, ev.get("lt"), json.dumps(brief)),
            {"script": script_of(hist), "event": ev, "why": sorted(b["why"]), "lt": ev.get("lt", "int")})
    observe(ctx, obs, nobs, lines, what)
    ctx.extra["histories_rejected"] = ctx.extra.get("histories_rejected", 0) + len(bad)
    return lines


def run_group(ctx, runs, combined, what):
    """Execute several harness runs [(binary, args, what)] (args[1] or args[2] is the output file) and
    judge their logs as one file (fewer TLC start-ups).  A run that did not exit cleanly is judged on
    its own, so that the sanitizer / crash report is attributed to it."""
    outs = []
    clean = True
    for binary, args, w in runs:
        path = args[2] if args[0] == "replay" else args[1]
        rc, out = vlib.run_harness(binary, args, timeout=3000)
        outs.append((path, rc, out, w))
        clean = clean and rc == 0
    if not clean:
        lines = []
        for path, rc, out, w in outs:
            lines += judge_file(ctx, path, w, rc, out) or []
        return lines
    with open(combined, "w") as f:
        for path, _, _, _ in outs:
            with open(path) as g:
                f.write(g.read())
            os.unlink(path)
    return judge_file(ctx, combined, what, 0, "") or []


def count_classes(ctx, lines):
    for l in lines:
        if '"e":"op"' not in l:
            continue
        e = json.loads(l)
        two = e["bs"] != 0
        n_nodes = sum(len(s["nodes"]) for s in e["slots"])
        ctx.count_class((e.get("lt"), e["op"], "root" if not e["ap"] else "inner%d" % min(len(e["ap"]), 3),
                         ("root" if not e["bp"] else "inner") if two else "-",
                         (e["as"] == e["bs"]) if two else False, min(n_nodes // 4, 3)))


def _histories(lines):
    hists = []
    cur = []
    for l in lines:
        if '"e":"reset"' in l:
            cur = [l]
            hists.append(cur)
        else:
            cur.append(l)
    return hists


def judge_vacuity(ctx, lines, log_lines):
    """Binding demonstration (a): corrupt single fields of accepted histories - each corrupted copy
    must be rejected (in-scope reasons) or observed (reasons outside the statement) at the corrupted
    event for the expected reason, and nothing else may be reported."""
    pick = None
    for h in _histories(lines):
        evs = [x for x in h if '"e":"op"' in x]
        if len(evs) < 3 or '"lt":"int"' not in evs[-1]:
            continue
        ev = json.loads(evs[-1])
        for si, s in enumerate(ev["slots"]):
            if s["live"] and 3 <= len(s["nodes"]) <= 6 and any(n["l"] >= 2 for n in s["nodes"]):
                pick = (h, ev, si)
                break
        if pick:
            break
    if pick is None:
        raise vlib.Infra("judge vacuity: no history with a node at level 2 found")
    h, ev, si = pick
    last_idx = max(i for i, x in enumerate(h) if '"e":"op"' in x)
    deep = next(i for i, n in enumerate(ev["slots"][si]["nodes"]) if n["l"] >= 2)

    def mut(fn):
        e = copy.deepcopy(ev)
        fn(e["slots"][si])
        return e

    def setn(i, k, f):
        return lambda s: s["nodes"][i].__setitem__(k, f(s["nodes"][i][k], s))
    # (expected reason, rejected (True) or observed (False), corrupted event)
    cases = [
        ("parent-link", True, mut(setn(deep, "par", lambda v, s: -1))),
        ("parent-link", True, mut(setn(deep, "par", lambda v, s: s["nodes"][deep]["tr"][0]))),
        ("root-has-parent", True, mut(setn(0, "par", lambda v, s: s["nodes"][deep]["tr"][0]))),
        ("dangling-link", True, mut(setn(deep, "par", lambda v, s: -2))),
        ("structure", True, mut(setn(deep, "v", lambda v, s: v + 1))),
        ("depth", True, mut(setn(0, "d", lambda v, s: v + 1))),
        ("level", True, mut(setn(deep, "l", lambda v, s: v - 1))),
        ("to_root", True, mut(setn(deep, "tr", lambda v, s: v[:-1]))),
        ("pre_order", True, mut(lambda s: s.__setitem__("pre", list(reversed(s["pre"]))))),
        ("child_position", True, mut(setn(deep, "cp", lambda v, s: v + 1))),
        ("map", True, mut(lambda s: s["map"][deep].__setitem__("v", 0))),
        # extension round
        ("map-move-only", True, mut(lambda s: s["mapu"][deep].__setitem__("par", -1))),
        ("const-overload", True, mut(setn(deep, "parc", lambda v, s: -1))),
        ("const-overload", True, mut(setn(deep, "trn", lambda v, s: v[:-1]))),
        ("const-overload", True, mut(lambda s: s.__setitem__("prec", list(reversed(s["prec"]))))),
        ("iterator-visit", True, mut(lambda s: s["pitc"].__setitem__("post", s["pitc"]["post"][:-1]))),
        ("iterator-visit", True, mut(lambda s: s["trit"].__setitem__("post", s["trit"]["post"][:1]))),
        ("iterator-equality", False, mut(lambda s: s["pit"]["eqend"].__setitem__(0, 1))),
        ("iterator-equality", False, mut(lambda s: s["pit"]["mat"][0].__setitem__(1, 1))),
        ("iterator-equality", False, mut(lambda s: s["trit"]["eqbeg"].__setitem__(1, 1))),
        ("output", False, mut(lambda s: s.__setitem__("out", s["out"][:-1]))),
        ("output", False, mut(lambda s: s.__setitem__("wout", [9] + s["wout"]))),
        ("size", False, mut(setn(deep, "sz", lambda v, s: v + 1))),
        ("front-back", False, mut(setn(0, "fr", lambda v, s: -1))),
    ]
    e2 = copy.deepcopy(ev)
    e2["eq"][si][si] = 0
    cases.append(("comparison", True, e2))
    e4 = copy.deepcopy(ev)
    i0 = e4["cpn"].index((si + 1) * 1000)           # the slot's root ...
    i1 = e4["cpn"].index((si + 1) * 1000 + deep)    # ... and a node at level >= 2: not its child
    e4["cpall"][i0][i1] = 0
    cases.append(("child_position", True, e4))
    e3 = copy.deepcopy(ev)
    e3["ret"] = 1234 if e3["ret"] == -1 else -1
    cases.append(("returned-reference", False, e3))
    groups = [(h, last_idx, cases)]
    # the log context's events
    lpick = None
    for hh in _histories(log_lines):
        evs = [i for i, x in enumerate(hh) if '"op":"log_create"' in x]
        if evs and len(hh) >= 4:
            lev = json.loads(hh[evs[-1]])
            if len(lev["slots"][0]["nodes"]) >= 3:
                lpick = (hh[:evs[-1] + 1], lev, evs[-1])
                break
    if lpick is None:
        raise vlib.Infra("judge vacuity: no log history found")
    lh, lev, lidx = lpick

    def lmut(fn):
        e = copy.deepcopy(lev)
        fn(e)
        return e
    def bump_last_label(e):
        # a consistent dump of a different tree value: label, pre_order labels and both mapped trees
        s = e["slots"][0]
        s["nodes"][-1]["v"] += 1
        s["prev"][-1] += 1
        s["map"][-1]["v"] += 2
        s["mapu"][-1]["v"] += 2
    lcases = [
        ("log-get", False, lmut(lambda e: e["get"][0].__setitem__("l", (e["get"][0]["l"] + 1) % 7))),
        ("log-object", False, lmut(lambda e: e.__setitem__("ofmt", e["ofmt"][1:]))),
        ("log-object", False, lmut(lambda e: e.__setitem__("olvl", (e["olvl"] + 1) % 7))),
        ("structure", False, lmut(bump_last_label)),
        ("parent-link", True, lmut(lambda e: e["slots"][0]["nodes"][-1].__setitem__("par", -1))),
    ]
    groups.append((lh, lidx, lcases))
    path = os.path.join(ctx.workdir, "vacuity.ndjson")
    expect = {}
    with open(path, "w") as f:
        n = 0
        for hist, idx, cs in groups:
            hist = [x for x in hist if '"e":"end"' not in x]
            for x in hist:   # the unmodified history first: must be accepted
                f.write(x + "\n")
                n += 1
            f.write('{"e":"end"}\n')
            n += 1
            for reason, rejected, e in cs:
                for i, x in enumerate(hist):
                    n += 1
                    if i == idx:
                        f.write(json.dumps(e, separators=(",", ":")) + "\n")
                        expect[n] = (reason, rejected)
                    else:
                        f.write(x + "\n")
                f.write('{"e":"end"}\n')
                n += 1
    bad, obs, _ = judge_trace(ctx, path, per=10 ** 9)
    got_bad = {b["l"]: b["why"] for b in bad}
    got_obs = {b["l"]: b["why"] for b in obs}
    for ln, (reason, rejected) in expect.items():
        got = got_bad if rejected else got_obs
        if reason not in got.get(ln, []):
            raise vlib.Infra("judge vacuity: corrupted field (%s) at line %d was not %s for that reason: rejected %s, observed %s" % (
                reason, ln, "rejected" if rejected else "observed", got_bad.get(ln), got_obs.get(ln)))
        if not rejected and ln in got_bad:
            raise vlib.Infra("judge vacuity: a reason outside the statement (%s) rejected the event at line %d: %s" % (
                reason, ln, got_bad[ln]))
    extra = [ln for ln in list(got_bad) + list(got_obs) if ln not in expect]
    if extra:
        raise vlib.Infra("judge vacuity: uncorrupted events reported at lines %s" % extra)
    ctx.extra["judge_vacuity_cases"] = len(cases) + len(lcases)


def run(ctx):
    thorough = ctx.tier == "thorough"
    # 1. the specification itself: abstract forest, the pointer-level transcription in lock-step,
    #    the iterator state machines, the log context's sub-model
    vlib.tlc_mc(ctx, "Tree", "MC_Tree.cfg", xmx=XMX, workers=4)
    r = vlib.tlc_mc(ctx, "TreeImpl", "MC_TreeImpl.cfg", coverage=thorough, xmx=XMX, workers=6)
    vlib.tlc_mc(ctx, "TreeIter", "MC_TreeIter_big.cfg" if thorough else "MC_TreeIter.cfg", xmx=XMX, timeout=3000,
                workers=vlib.NCPU if thorough else 4)
    if thorough:
        zero = [k for k, (t, g) in r.coverage().items() if t == 0]
        if zero:
            raise vlib.Infra("coverage: actions never taken: %s" % zero)
        vlib.tlc_mc(ctx, "Tree", "MC_Tree_big.cfg", timeout=3000, xmx=XMX)
        vlib.tlc_mc(ctx, "TreeImpl", "MC_TreeImpl_big.cfg", timeout=3000, xmx=XMX)
        # deeper bounds: 7 nodes (all shapes, one label; and two labels on two slots)
        vlib.tlc_mc(ctx, "Tree", "MC_Tree_deep.cfg", timeout=3000, xmx=XMX)
        vlib.tlc_mc(ctx, "TreeImpl", "MC_TreeImpl_deep.cfg", timeout=3000, xmx=XMX)
        vlib.tlc_mc(ctx, "Tree", "MC_Tree_deep2.cfg", timeout=3000, xmx="3g")
        vlib.tlc_mc(ctx, "TreeImpl", "MC_TreeImpl_log.cfg", timeout=3000, xmx=XMX)
    # 2. vacuity guards: each invariant CAN fail - with a defect re-introduced into the transcription
    #    TLC must find a counterexample (SwapBug/CopyAssignBug/MoveAssignBug = the unrepaired code)
    def guard(g):
        mod, cfg, inv, _ = g
        return cfg, inv, vlib.tlc(mod, cfg, workers=2, tag=mod + "_g", xmx="1g", expect=inv)
    for cfg, inv, r in vlib.parallel(guard, [g for g in GUARDS if thorough or g[3]], workers=5):
        if inv not in r.invariant_violated:
            raise vlib.Infra("vacuity guard: %s did not violate %s" % (cfg, inv))
        ctx.extra.setdefault("vacuity_guards", []).append({"cfg": cfg, "violates": inv, "states": r.distinct})
    if thorough:
        # dropping `ret.parent_ = nullptr` from release()/pop_*() is unobservable: the model says so
        r = vlib.tlc_mc(ctx, "TreeImpl", "MC_TreeImpl_releasenoclear.cfg", workers=4, xmx=XMX)
        ctx.extra["equivalent_mutant_release_no_clear_states"] = r.distinct
    # 3. operation scripts, one per generated transition
    r = vlib.tlc_mc(ctx, "Tree", "MC_TreeScripts.cfg", workers=4, xmx=XMX)
    ascripts = vlib._verdict_lines(r.out).get("SCRIPT", [])
    if len(ascripts) < 1000:
        raise vlib.Infra("script emission produced only %d scripts" % len(ascripts))
    r = vlib.tlc_mc(ctx, "TreeImpl", "MC_TreeImplScripts_big.cfg" if thorough else "MC_TreeImplScripts.cfg", workers=4,
                    timeout=3000, xmx=XMX)
    iscripts = vlib._verdict_lines(r.out).get("SCRIPT", [])
    if len(iscripts) < 1000:
        raise vlib.Infra("impl script emission produced only %d scripts" % len(iscripts))
    # the log sub-model: laws + one script per transition
    r = vlib.tlc_mc(ctx, "Tree", "MC_TreeLog.cfg", workers=4, xmx=XMX)
    lscripts = vlib._verdict_lines(r.out).get("SCRIPT", [])
    if len(lscripts) < 10000:
        raise vlib.Infra("log script emission produced only %d scripts" % len(lscripts))
    all_scripts = ascripts + iscripts
    scripts = all_scripts if thorough else ascripts[ctx.seed % 2::2] + iscripts[(ctx.seed + 1) % 2::2]
    spath = os.path.join(ctx.workdir, "scripts.ndjson")
    vlib.write_ndjson(spath, scripts)
    apath = os.path.join(ctx.workdir, "scripts_all.ndjson")
    vlib.write_ndjson(apath, all_scripts)
    lpath = os.path.join(ctx.workdir, "scripts_log.ndjson")
    vlib.write_ndjson(lpath, lscripts)
    binary = build()
    secondary = dict(zip(OTHER_LABELS + ("log",), vlib.parallel(lambda n: build_secondary(ctx, n), OTHER_LABELS + ("log",), workers=4)))
    logbin = secondary["log"]
    # 4. spec -> code, label type int
    rpath = os.path.join(ctx.workdir, "replayed.ndjson")
    rc, out = vlib.run_harness(binary, ["replay", spath, rpath, "int"], timeout=1500)
    lines = judge_file(ctx, rpath, "TLC-generated script", rc, out)
    ctx.traces_validated += len(scripts)
    if lines:
        count_classes(ctx, lines[:200000])
        ctx.sample({"tlc_script": scripts[len(scripts) // 2]})
    # 5. code -> spec, label type int
    nh, ml = (2000, 40) if thorough else (400, 40)
    tpath = os.path.join(ctx.workdir, "recorded.ndjson")
    rc, out = vlib.run_harness(binary, ["record", tpath, ctx.seed, nh, ml, 1, "int"], timeout=3000)
    int_lines = judge_file(ctx, tpath, "random history", rc, out)
    ctx.traces_validated += nh
    if int_lines:
        count_classes(ctx, int_lines[:300000])
        pick = next((x for x in int_lines[:5000] if '"op":"swap"' in x or '"op":"copy_assign"' in x), int_lines[1])
        ev = json.loads(pick)
        ctx.sample({"recorded_event": {k: ev[k] for k in OP_FIELDS + ("ret", "some", "rb")},
                    "dump_of_first_live_slot": next((s for s in ev["slots"] if s["live"]), None)})
    # 6. the other label types: std::string, move-only unique_ptr<int>, nested tree<int>
    stride = 8 if thorough else 16
    nh2 = 300 if thorough else 50
    runs = []
    for k, lt in enumerate(OTHER_LABELS):
        if secondary[lt] is None:
            continue
        runs.append((secondary[lt], ["replay", apath, os.path.join(ctx.workdir, "replayed_%s.ndjson" % lt), lt, stride,
                              (ctx.seed + k) % stride], "TLC-generated script, label type " + lt))
        runs.append((secondary[lt], ["record", os.path.join(ctx.workdir, "recorded_%s.ndjson" % lt), ctx.seed + 100 + k, nh2, ml, 1, lt],
                     "random history, label type " + lt))
    ls = run_group(ctx, runs, os.path.join(ctx.workdir, "labels.ndjson"), "label types str/uptr/tree") if runs else []
    for lt in OTHER_LABELS:
        n = sum(1 for x in ls if '"e":"reset"' in x and '"lt":"%s"' % lt in x)
        ctx.traces_validated += n
        ctx.extra.setdefault("label_types", {})[lt] = {"histories": n, "events": sum(
            1 for x in ls if '"e":"op"' in x and '"lt":"%s"' % lt in x)}
    count_classes(ctx, ls[:100000])
    # 7. the log context's use of the tree
    lstride = 30 if thorough else 100
    nh3 = 600 if thorough else 100
    log_lines = [] if logbin is None else run_group(ctx, [
        (logbin, ["replay", lpath, os.path.join(ctx.workdir, "replayed_log.ndjson"), lstride, ctx.seed % lstride], "TLC-generated log script"),
        (logbin, ["record", os.path.join(ctx.workdir, "recorded_log.ndjson"), ctx.seed, nh3, 20], "random log history"),
    ], os.path.join(ctx.workdir, "log.ndjson"), "log context")
    n = sum(1 for x in log_lines if '"e":"reset"' in x)
    ctx.traces_validated += n
    ctx.extra.setdefault("label_types", {})["log"] = {"histories": n, "events": sum(1 for x in log_lines if '"e":"op"' in x)}
    count_classes(ctx, log_lines[:50000])
    if log_lines:
        ev = json.loads(next(x for x in log_lines if '"op":"log_create"' in x))
        ctx.sample({"log_event": {k: ev[k] for k in ("op", "ss", "x", "ret", "get", "olvl", "ofmt")}})
    # 8. the judge can fail: corrupted copies of accepted histories must be rejected / observed
    obs0 = ctx.extra.get("observations", {})
    if not ctx.violations and not ctx.known_hits and not obs0.get("events") and not obs0.get("kinds") and log_lines:
        judge_vacuity(ctx, int_lines[:60000], log_lines[:20000])
    # observations: outside the statement of C09 - reported, never a VIOLATION
    obs = ctx.extra.get("observations")
    if obs and obs["events"]:
        by_reason = {}
        for key, k in sorted(obs["kinds"].items()):
            _, op, why = key.split(":", 2)
            if op == "build":
                continue
            by_reason.setdefault(why, []).append((op, k))
        print("OBSERVATIONS: %d event(s) disagree with the specification OUTSIDE the statement of C09 "
              "(no verdict; details in evidence coverage.observations)" % obs["events"])
        for why, ops in sorted(by_reason.items()):
            ex = ops[0][1]["example"]
            print("OBSERVATION: %s after %s; e.g. label type %s, operation %s" % (
                why, ",".join(sorted(set(o for o, _ in ops))), ex["lt"], json.dumps(ex["operation"])))
    ctx.rule = ("histories: (a) every generated transition of small TLC models as an op script (spec -> code) for the label "
                "types int / std::string / unique_ptr<int> / tree<int> and for the log context's tree, (b) seeded random "
                "histories of 1..40 ops over 4 slots (<= 14 nodes) with operands drawn uniformly from all live nodes; a class = "
                "(label type, operation, first operand root / inner level 1,2,3+, second operand none/root/inner, operands in "
                "the same slot?, forest size bucket) of an executed event")
    ctx.assumptions += [
        "use of a destroyed node (use-after-free, double free, leaks) is only OBSERVED via ASan/UBSan/LSan in the harness, not decided by the TLA+ spec; a parent() address that is not a live node is decided (logged as -2)",
        "label types int, std::string, std::unique_ptr<int> (move-only: no copy construction/assignment, T const& overloads, ==), tree<int> stand for all T; labels are compared through a projection to integers; map is driven with x -> 2x+1 into a tree of long and a tree of unique_ptr<long>",
        "API preconditions excluded from the generators: swap where one operand is the other or its ancestor/descendant, assignment from the node itself or from one of its ancestors (assignment from a proper descendant IS driven), moving a tree into its own sub-tree, self-move, invalid iterators",
        "the label and children of a moved-from node and the order sort() gives to equal labels are left open (only link well-formedness is demanded)",
        "reasons outside the statement of C09 (operator<<, size/empty, front/back, returned references / optionals, iterator equality, the log context's get / object level / formatter and the effect of log operations on the tree) are observations only: reported in coverage.observations, never a VIOLATION",
        "the log context's own tree is not reachable through the public API: the harness drives a context_tree of its own through the real find_or_create_child and the pre_order loop of context::set, next to a real context driven through the public API",
        "TreeImpl.tla / TreeIter.tla are hand transcriptions; verdicts are only taken from traces of the real code judged by the abstract spec",
        "after the first rejected event of a history the rest of that history is not judged (stale links persist in the objects)",
    ]


def replay(ctx, payload):
    pl = payload["payload"]
    lt = pl.get("lt", "int")
    spath = os.path.join(ctx.workdir, "replay_script.ndjson")
    vlib.write_ndjson(spath, [pl["script"]])
    rpath = os.path.join(ctx.workdir, "replay_out.ndjson")
    binary = build() if lt == "int" else build_secondary(ctx, lt)
    if binary is None:
        raise vlib.Infra("the harness for label type %s does not compile against this tree" % lt)
    if lt == "log":
        rc, out = vlib.run_harness(binary, ["replay", spath, rpath], timeout=600)
    else:
        rc, out = vlib.run_harness(binary, ["replay", spath, rpath, lt], timeout=600)
    judge_file(ctx, rpath, "replay", rc, out)
    ctx.traces_validated += 1
    ctx.count_class("replay")
    ctx.count_class("replay2")
    ctx.rule = "replay of one saved history"
