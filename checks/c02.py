"""C02 - fcppt.parse combinators implement ordered-choice (PEG) semantics for every grammar.

1. gen/peg_family.py generates (deterministically from the seed) a type-directed grammar family as
   grammars.json AND as C++ translation units building the same parsers from the real combinators.
2. TLC model-checks spec/Peg.tla over that family (spec/MC_Peg.tla): the clauses of the property
   as theorems of the specification, for every subterm at every entry position, every skipper,
   all inputs up to the model bound; vacuity guards with one rule broken each.
3. The harness (harness/c02_main.cpp + generated TUs, built from REPO's current tree) runs
   parse_string / phrase_parse_string / grammar_parse_string on ALL inputs up to the tier's length
   over {a, b, space, 0} plus a list of extra inputs, and records outcome, fatal flag, value and the
   positions at which user-defined probe parsers were entered.
4. spec/PegJudge.tla (TLC) evaluates the specification on every record and compares.
"""
import json
import os
import re
import sys

import vlib

sys.path.insert(0, os.path.join(vlib.VERIF, "gen"))
import peg_family  # noqa: E402

LEVEL = "model_checking"
NTU = 16
_OBS = {}   # observed-only disagreements (outside the statement of C02): what -> [count, example]

EXTRA = ["7", "-7", "-0", "70", "-70", "0.7", "-0.7", "7.", ".7", "7.7a", "-", "--7", "- 7", " -7", "7 7", "a7", "7a",
         "65535", "65536", "00065535", "99999", "2147483647", "2147483648", "-2147483647", "-2147483648",
         "02147483647", "99999999999", "a\nb", "\na", "a \n b", "ab\n", "a\tb", "a  b", "a   b", "  a b  ",
         "ab0ab", "aab0ab", "a0b0a0", "aab0abb", "aa0bb", "a a 0 b b", "aabbab", "a0a0a0a", "0 0 0", "a a a a",
         "ab ab ab", "a ab", "a a", "a a a",
         # the numeric parsers are lexemes as a whole: nothing may be skipped after the sign, around the dot or between digits
         "- 0.7", "-  7.7", "-\t0.7", "0 .7", "0. 7", "7 . 7", "7 0.7", "0.7 0", "-0 .7", " 0.7", "0.7 ", "- 0.7a", "0.7 a", "-0.7 a",
         "0.70", "00.7", "0.0", "-0.0", "0..7", "0.7.7", "-.7", "-7.", "0.-7", "+0.7", "7 0", "- 70", "-7 0", "6553 5", "-0 7"]


def gen_dir(ctx):
    return vlib.mkdir(os.path.join(vlib.BUILD, "gen_c02_%s_%d" % (ctx.tier, ctx.seed)))


def generate(ctx):
    d = gen_dir(ctx)
    doc, files = peg_family.emit(ctx.seed, ctx.tier, d, NTU)
    return d, doc, files


def _genuine_compile_error(out):
    """a diagnostic of the compiler about the code (not the compiler being killed / out of memory on the shared box,
    not a link failure: those stay infrastructure failures)"""
    if re.search(r"Killed signal|internal compiler error|virtual memory exhausted|No space left|cannot allocate memory|std::bad_alloc", out):
        return False
    return out.startswith("compile failed") and re.search(r" error: |fatal error:", out) is not None


def _first_error(out):
    for l in out.splitlines():
        if " error: " in l or "fatal error:" in l:
            return re.sub(r"\s+", " ", l)[:400]
    return re.sub(r"\s+", " ", out[-400:])


def build(ctx, files):
    """Build the harness.  A generated translation unit (7 grammars x skippers over the combinators the statement
    names, well-formed arguments) that no longer compiles against the tree under test is a verdict about the tree:
    VIOLATION C02:grammars_tu<N>:does-not-compile; it is replaced by an empty stub and the other units are built,
    run and judged as usual.  If c02_main.cpp (the recursive grammars through grammar / make_base) does not compile:
    VIOLATION C02:recursive_grammars:does-not-compile and None is returned."""
    # the generated TUs dominate the cost (measured, g++ 12, ASan+UBSan: 17 s CPU per TU of 7 grammars x 2
    # skippers at -O1, 8 s at -O0): built at -O0, still with ASan+UBSan
    files = list(files)
    name = "c02_harness_%s_%d" % (ctx.tier, ctx.seed)
    noise = 0
    for _ in range(len(files) + 3):
        try:
            return vlib.build_harness(name, ["c02_main.cpp"] + files, libs=("core",), opt="-O0")
        except vlib.Infra as e:
            msg = str(e)
            m = re.match(r"compile failed: (\S+)", msg)
            if not m or not _genuine_compile_error(msg):
                noise += 1
                if noise > 1:
                    raise
                vlib.log("build failed for a reason that is not a compiler diagnostic, retrying once: %s" % msg[:200])
                continue
            src = m.group(1)
            ctx.extra.setdefault("units_not_compiling", []).append({"unit": os.path.basename(src), "first_error": _first_error(msg)})
            mt = re.search(r"c02_gen_(\d+)\.cpp$", os.path.basename(src))
            if src in files and mt:
                t = int(mt.group(1))
                ctx.reject("C02:grammars_tu%d:does-not-compile" % t,
                           "the generated grammars of translation unit %d (well-formed uses of the fcppt.parse combinators) do not "
                           "compile against this tree: %s" % (t, _first_error(msg)),
                           {"build": True, "unit": os.path.basename(src), "compiler_output_tail": msg[-2500:]})
                stub = os.path.join(os.path.dirname(src), "stub_tu_%d.cpp" % t)
                with open(stub, "w") as f:
                    f.write('#include "c02_common.hpp"\nvoid c02_run_tu_%d(c02::runner &) {}\n' % t)
                files[files.index(src)] = stub
                continue
            if src.startswith(vlib.REPO):
                # a library source of the tree under test does not build: the tree's own build is broken
                raise
            ctx.reject("C02:recursive_grammars:does-not-compile",
                       "the harness' recursive grammars / entry points (%s) do not compile against this tree: %s" % (
                           os.path.basename(src), _first_error(msg)),
                       {"build": True, "unit": os.path.basename(src), "compiler_output_tail": msg[-2500:]})
            return None
    raise vlib.Infra("the C02 harness could not be built")


JSON_EXTRA = ['[null]', '[true,false]', '[ 1 , -2 ]', '{"a":1}', '{"a":1,"a":2}', '{"a":{"b":[1,{"c":null}]}}', '[[[[]]]]', '[1,]', '[,1]',
              '{"a"}', '{"a":}', '[" a"]', '["a" ]', ' [1]', '[1] ', '[tru]', '[nul]', '[-]', '[2147483648]', '[-2147483647]', '[00]',
              '{"":[]}', '{"a":1,"b":2}', '[1 2]', '[[1],[2,[3]]]', '{"a":[{"b":{}}]}', '[""," "]', '[\n1,\n x]', '{"a":1,\n"b" 2}',
              '[1,\n\n{"k":tru}]']


def write_inputs(path, std, jsn):
    with open(path, "w") as f:
        for s in std:
            f.write(json.dumps({"set": "std", "s": [ord(c) for c in s]}) + "\n")
        for s in jsn:
            f.write(json.dumps({"set": "json", "s": [ord(c) for c in s]}) + "\n")


def judge_file(ctx, path, gpath, what, rc, out, doc):
    try:
        lines, tail = vlib.check_trace_file(path)
    except OSError:
        lines, tail = [], None      # the process died before it opened its log
    # only records of the shape the judge reads reach TLC (not vjson's crash marker, not a line that happens to be
    # JSON without being a record)
    recs = []
    for x in lines:
        try:
            r = json.loads(x)
        except ValueError:
            continue
        if isinstance(r, dict) and r.get("f") == "parse" and "exc" in r:
            recs.append(x)
    dirty = len(recs) != len(lines)
    lines = recs
    if dirty and rc == 0:
        with open(path, "w") as fh:
            fh.write("\n".join(lines) + ("\n" if lines else ""))
    if rc != 0:
        g = sk = "?"
        if tail:
            m = re.search(r'"g":(\d+),"sk":"(\w+)"', tail)
            if m:
                g, sk = m.group(1), m.group(2)
        kind = {66: "sanitizer", 67: "crash", 68: "hang", 124: "timeout"}.get(rc, "exit%d" % rc)
        san = re.search(r"(ERROR: \w+Sanitizer: [^\n]*|runtime error: [^\n]*)", out)
        payload = {"partial_line": tail}
        m = re.search(r'"s":(\[[^\]]*\])', tail or "")
        if m and g != "?":
            try:
                payload.update({"g": int(g), "sk": sk, "s": json.loads(m.group(1))})
            except ValueError:
                pass
        m2 = re.search(r'"e":"(\w+)"', tail or "")
        if m2 and m2.group(1) != "string":
            # a crash inside an observed-only entry point is an observation, not a verdict
            o = _OBS.setdefault("%s:%s" % (m2.group(1), kind), [0, None])
            o[0] += 1
            o[1] = o[1] or {"partial_line": (tail or "")[:300]}
        else:
          ctx.reject("C02:parse:%s" % kind, "%s during a parse call (%s), grammar %s skipper %s: %s; partial line: %s" % (
            kind, what, g, sk, san.group(1) if san else out[-300:], (tail or "")[:300]), payload)
        with open(path, "w") as fh:
            fh.write("\n".join(lines) + ("\n" if lines else ""))
    if not lines:
        return lines
    chunks = vlib.split_file(path, max(4, min(12, vlib.NCPU - 4)))

    def one(ch):
        p, first = ch
        r = vlib.tlc("PegJudge", "PegJudge.cfg", workers=1, env={"TRACE": p, "GRAMMARS": gpath}, timeout=2400, xmx="3g",
                     tag="PegJudge_j")
        v = vlib._verdict_lines(r.out)
        if "VERDICT" not in v:
            raise vlib.Infra("PegJudge gave no verdict on %s (rc=%d):\n%s" % (p, r.rc, "\n".join(r.out.splitlines()[-30:])))
        vd = v["VERDICT"][-1]
        return vd, first, r.generated

    res = vlib.parallel(one, chunks, workers=len(chunks))
    gram = {x["id"]: x for x in doc["grammars"] + doc["recursive"]}
    n = 0
    for vd, first, gen in res:
        n += vd["n"]
        ctx.extra["trace_states"] = ctx.extra.get("trace_states", 0) + gen
        for b in vd["bad"]:
            if "HARNESS-PRECONDITION" in b["why"]:
                raise vlib.Infra("harness record refers to an unknown grammar/skipper: line %d of %s" % (b["l"] + first, path))
            rec = json.loads(lines[b["l"] + first - 1])
            inside = sorted(w for w in b["why"] if not w.startswith("obs:"))
            for w in b["why"]:
                if w.startswith("obs:"):
                    # outside the statement of C02 (PegJudge.tla RecordInScope): observed, counted, never a VIOLATION
                    o = _OBS.setdefault(w[4:], [0, None])
                    o[0] += 1
                    if o[1] is None:
                        o[1] = {"grammar": show(gram[rec["g"]]["g"]), "record": json.dumps(rec, separators=(",", ":"))[:500]}
            if not inside:
                continue
            sig = "C02:parse:%s" % "+".join(inside)
            ctx.reject(sig, "%s: the PEG semantics cannot explain (%s) the result of grammar %d = %s under skipper %s on input %r: %s" % (
                what, ",".join(b["why"]), rec["g"], show(gram[rec["g"]]["g"]), rec["sk"], "".join(chr(c) for c in rec["s"]),
                json.dumps(rec, separators=(",", ":"))[:300]),
                {"g": rec["g"], "sk": rec["sk"], "s": rec["s"], "record": rec, "grammar": gram[rec["g"]]})
        if vd["nbad"] > len(vd["bad"]):
            vlib.log("note: %d further rejected records not listed" % (vd["nbad"] - len(vd["bad"])))
    for p, _ in chunks:
        try:
            os.unlink(p)
        except OSError:
            pass
    if n != len(lines):
        raise vlib.Infra("PegJudge consumed %d of %d records" % (n, len(lines)))
    return lines


def show(g):
    """compact rendering of a grammar for messages"""
    k = g["k"]
    if k == "lit":
        return "'%s'" % chr(g["c"])
    if k in ("cset", "compl"):
        return ("~" if k == "compl" else "") + "[%s]" % "".join(chr(c) for c in g["cs"])
    if k == "str":
        return '"%s"' % "".join(chr(c) for c in g["w"])
    if k == "probe":
        return "probe%d" % g["id"]
    if k == "seq":
        return "(%s >> %s)" % (show(g["l"]), show(g["r"]))
    if k == "alt":
        return "(%s | %s)" % (show(g["l"]), show(g["r"]))
    if k == "sep":
        return "separator(%s, %s)" % (show(g["i"]), show(g["s"]))
    if k == "list":
        return "list(%s, %s, %s, %s)" % tuple(show(g[x]) for x in "bise")
    if k == "ref":
        return g["n"]
    if "g" in g:
        nm = {"rep": "*", "plus": "+", "opt": "-", "not": "!"}.get(k)
        inner = show(g["g"])
        if nm:
            return nm + inner
        return "%s%s(%s)" % (k, ":" + g["f"] if "f" in g else "", inner)
    return k


def run(ctx):
    thorough = ctx.tier == "thorough"
    d, doc, files = generate(ctx)
    gpath = os.path.join(d, "grammars.json")
    ngram = len(doc["grammars"])
    # 1. the specification itself, over this very family
    env = {"GRAMMARS": gpath}
    vlib.tlc_mc(ctx, "MC_Peg", "MC_Peg_big.cfg" if thorough else "MC_Peg.cfg", env=env, timeout=3000)
    for b in ("not", "alt", "rep", "opt", "fatal", "loc"):
        r = vlib.tlc("MC_Peg", "MC_Peg_bug_%s.cfg" % b, workers=4, env=env, expect="Laws")
        if "Laws" not in r.invariant_violated:
            raise vlib.Infra("vacuity guard: MC_Peg with Bug=%s did not violate Laws" % b)
        ctx.extra.setdefault("vacuity_guards", []).append({"cfg": "MC_Peg_bug_%s.cfg" % b, "violates": "Laws", "states": r.distinct})
    ipath = os.path.join(ctx.workdir, "extra_inputs.ndjson")
    write_inputs(ipath, EXTRA, JSON_EXTRA)
    jpath = os.path.join(ctx.workdir, "json_extra.ndjson")
    write_inputs(jpath, [], JSON_EXTRA)
    # the JSON grammar (recursive grammar 9004) as Peg.tla interprets it = the independent reference JsonRef.tla
    jenv = {"GRAMMARS": gpath, "JSONEXTRA": jpath}
    vlib.tlc_mc(ctx, "MC_PegJson", "MC_PegJson_big.cfg" if thorough else "MC_PegJson.cfg", env=jenv, timeout=3000)
    r = vlib.tlc("MC_PegJson", "MC_PegJson_bug.cfg", workers=4, env=jenv)
    if "JsonAgree" not in r.invariant_violated:
        raise vlib.Infra("vacuity guard: MC_PegJson with Bug=opt did not violate JsonAgree")
    ctx.extra.setdefault("vacuity_guards", []).append({"cfg": "MC_PegJson_bug.cfg", "violates": "JsonAgree", "states": r.distinct})
    # 2. the real code
    binary = build(ctx, files)
    if binary is None:
        ctx.rule = "the harness does not compile against the tree under test: nothing was run"
        return
    maxlen = 5 if thorough else 4
    # the harness is single-threaded: run it as independent processes over disjoint sets of TUs
    nsh = 8 if thorough else 4

    def shard(i):
        tp = os.path.join(ctx.workdir, "parses_%d.ndjson" % i)
        # quick: the stream entry points for every second generated grammar (all of them in thorough)
        rc, out = vlib.run_harness(binary, [tp, maxlen, 1 if thorough else 2, ipath, i, nsh], timeout=3000)
        if rc in (3, 4):
            raise vlib.Infra("harness usage/internal error: %s" % out[-500:])
        return tp, rc, out

    lines = []
    for tp, rc, out in vlib.parallel(shard, range(nsh), workers=nsh):
        lines += judge_file(ctx, tp, gpath, "recorded parse", rc, out, doc)
        try:
            os.unlink(tp)
        except OSError:
            pass
    ctx.evaluations += len(lines)
    ctx.traces_validated += len(lines)
    # classes: (root combinator, skipper, outcome class, probes seen?) per grammar x skipper
    kinds = {x["id"]: x["g"]["k"] for x in doc["grammars"] + doc["recursive"]}
    step = max(1, len(lines) // 200000)
    for l in lines[::step]:
        r = json.loads(l)
        ctx.count_class((r["g"], r["sk"], r["ch"], r["e"], "ok" if r["ok"] else ("fatal" if r["fatal"] else "fail"),
                         len(r["probes"]) > 0, min(len(r["locs"]), 2)))
    for l in lines[len(lines) // 3: len(lines) // 3 + 2]:
        ctx.sample(json.loads(l))
    nin = sum(4 ** k for k in range(maxlen + 1)) + len(EXTRA)
    ctx.extra.update({"grammars": ngram + 2, "grammar_skipper_pairs": sum(len(x["sks"]) for x in doc["grammars"]) + 2,
                      "inputs_per_pair": nin, "char_types": 2 if thorough else 1,
                      "combinator_census": census(doc)})
    ctx.extra["observations"] = [{"what": k, "count": v[0], "example": v[1]} for k, v in sorted(_OBS.items())]
    for k, v in sorted(_OBS.items()):
        vlib.log("OBSERVATION (outside the statement of C02, not a verdict): %s x%d e.g. %s" % (k, v[0], v[1]))
    ctx.exhaustive = False
    ctx.rule = ("a record = one call of parse_string/phrase_parse_string/grammar_parse_string: %d generated grammars (depth <= 3 "
                "over the leaf set, hand-picked + every unary combinator over every leaf + seeded random, type-directed) + 2 "
                "hand-built recursive grammars, each under %d skippers, on ALL %d inputs of length <= %d over {a,b,space,0} plus %d "
                "extra inputs (digits, signs, newlines, tabs), %s; a class = (grammar id, skipper, char type, outcome "
                "success/failure/fatal failure, probes entered?) with at least one record" % (
                    ngram, 3 if thorough else 2, nin - len(EXTRA), maxlen, len(EXTRA), "char and wchar_t" if thorough else "char"))
    ctx.assumptions += [
        "the judged rule set is DESIGN.md Appendix A (parse.doxygen + *_impl.hpp): sequence = left, skipper, right; repetition = element then skipper, committed after both; separator allows zero elements (as coded and tested; its class comment's 'Equivalent to Inner >> *(Sep >> Inner)' omits that)",
        "error TEXT is not compared; the position after a failure is not modelled (never observable)",
        "family restrictions (generator preconditions): no left recursion, no repetition of a nullable parser, repetitions only under skippers that cannot fail, named only over parsers without fatal, repetition_plus only over non-unit non-tuple element types, int_<int>/uint<unsigned short>/float_<double> (float value not judged)",
        "bounded: grammars of depth <= 3 (+ derived forms), inputs <= %d over a 4-letter alphabet plus %d extras; wchar_t only in the thorough tier" % (maxlen, len(EXTRA)),
        "undefined behaviour / memory errors are only OBSERVED through ASan/UBSan in the harness",
    ]


def census(doc):
    c = {}
    for x in doc["grammars"] + doc["recursive"]:
        for h in list(peg_family.subterms(x["g"])) + [t for b in x["ps"].values() for t in peg_family.subterms(b)]:
            c[h["k"]] = c.get(h["k"], 0) + 1
    return c


def replay(ctx, payload):
    # the family is regenerated from the seed/tier recorded in the replay file
    ctx.seed = payload.get("seed", ctx.seed)
    ctx.tier = payload.get("tier", ctx.tier)
    d, doc, files = generate(ctx)
    gpath = os.path.join(d, "grammars.json")
    binary = build(ctx, files)
    p = payload["payload"]
    if binary is None or p.get("build"):
        ctx.rule = "replay of a build verdict"
        ctx.count_class("replay")
        ctx.count_class("replay2")
        return
    if "g" not in p:
        raise vlib.Infra("replay payload names no grammar/input")
    ipath = os.path.join(ctx.workdir, "replay_input.ndjson")
    with open(ipath, "w") as f:
        f.write(json.dumps({"set": "both", "s": p["s"]}) + "\n")
    tpath = os.path.join(ctx.workdir, "replay_out.ndjson")
    rc, out = vlib.run_harness(binary, [tpath, -1, 1 if ctx.tier == "thorough" else 0, ipath, 0, 1, p["g"], p["sk"]], timeout=600)
    lines = judge_file(ctx, tpath, gpath, "replay", rc, out, doc)
    ctx.extra["observations"] = [{"what": k, "count": v[0], "example": v[1]} for k, v in sorted(_OBS.items())]
    for k, v in sorted(_OBS.items()):
        print("OBSERVATION (outside the statement of C02, not a verdict): %s x%d e.g. %s" % (k, v[0], v[1]))
    ctx.traces_validated += len(lines)
    ctx.evaluations += len(lines)
    ctx.count_class("replay")
    ctx.count_class("replay2")
    ctx.rule = "replay of one saved (grammar, skipper, input)"
