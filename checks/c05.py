"""C05 - generic operations conserve values: rvalues moved once, lvalues untouched, no read after move.

1. TLC model-checks the ownership machine (spec/Linearity.tla via spec/LinearityMC.tla) on a small
   universe: with the judge's event rules enforced, the property-level invariants hold (no duplication
   of an rvalue element, lvalue arguments intact, reads only of live objects, End's conservation check
   implied); bug configs (one rule switched off) must violate the corresponding invariant; witness
   configs must REACH the intended behaviours (move-into-result, copy-of-lvalue, harness copy,
   swap-like shuffling).  In the thorough tier action coverage is checked (no action never taken).
2. harness/c05_*.cpp runs the registered generic operations of fcppt on containers of the instrumented
   element type (harness/common/tracked.hpp) for small shapes x every value category of every argument
   and records every copy / move / assignment / read / destruction with object ids.  The harness is built
   from separately compiled units (a unit that does not compile is replaced by a stub and reported), every
   history runs under a watchdog, and after a crash / hang inside one history the harness is restarted at the
   next one: whatever the code under test does, the outcome is a verdict (exit 0 / 1), not exit 2.
3. spec/LinearityTrace.tla (TLC) replays every recorded history through the machine and reports the
   events it cannot accept.  A self-test log of deliberately wrong operations written in the harness
   must be rejected with exactly the expected reasons (vacuity guard of the judge)."""
import json
import os
import re

import vlib

LEVEL = "model_checking"
TRACE_MODULE = "LinearityTrace"
TRACE_CFG = "LinearityTrace.cfg"

BUG_CFGS = [
    ("MC_Linearity_bug_copy.cfg", "InvNoDuplication"),
    ("MC_Linearity_bug_move_lvalue.cfg", "InvLvalueIntact"),
    ("MC_Linearity_bug_modify_lvalue.cfg", "InvLvalueIntact"),
    ("MC_Linearity_bug_read.cfg", "InvReadsLive"),
    ("MC_Linearity_bug_dup_end.cfg", "InvEndImplied"),
]
WITNESS_CFGS = [
    ("MC_Linearity_wit_good_end.cfg", "NoGoodEnd"),
    ("MC_Linearity_wit_harness_copy.cfg", "NoHarnessCopy"),
    ("MC_Linearity_wit_revival.cfg", "NoRevival"),
]
ACTIONS = ["Copy", "Move", "CopyAssign", "MoveAssign", "Read", "Destroy", "CbEnter", "CbExit", "End"]

# reasons every selftest history must (at least) be rejected with
SELFTEST = {
    "selftest::copy-of-rvalue-element": {"copy-of-rvalue-element"},
    "selftest::move-from-lvalue-argument": {"move-from-lvalue-argument", "lvalue-argument-modified"},
    "selftest::read-after-move": {"read-after-move"},
    "selftest::element-lost": {"element-lost"},
    "selftest::lvalue-element-passed-as-rvalue": {"lvalue-element-passed-as-rvalue"},
    "selftest::lvalue-argument-modified": {"lvalue-argument-modified"},
    "selftest::result-holds-moved-from-object": {"result-holds-moved-from-object"},
    "selftest::rvalue-element-duplicated": {"rvalue-element-duplicated", "copy-of-rvalue-element"},
    "selftest::consumed-then-returned": {"result-holds-moved-from-object", "element-lost"},
    "selftest::moved-twice": {"read-after-move"},
    "selftest::throws": {"undocumented-exception"},
    "selftest::opaque-copy": {"copy-of-rvalue-element"},
    "selftest::untracked-result": {"untracked-object"},
    "selftest::ok": set(),
}


# The harness is built from UNITS: one object per (source, -DC05_UNIT_<NAME>), each defining c05::drive_<name>().
# A unit that does not compile against the tree under test is replaced by a stub (harness/c05_stub.cpp) so that the
# other units are still linked, run and judged; what the broken unit means is decided by unit_failure().
UNITS = [  # (name, source, in scope of the statement?)
    ("algorithm", "c05_algorithm.cpp", True),
    ("container", "c05_algorithm.cpp", True),
    ("optionals", "c05_values.cpp", True),
    ("optionals_multi", "c05_values.cpp", True),
    ("eithers", "c05_values.cpp", True),
    ("eithers_multi", "c05_values.cpp", True),
    ("variants", "c05_values.cpp", True),
    ("arrays", "c05_product.cpp", True),
    ("tuples", "c05_product.cpp", True),
    ("records", "c05_product.cpp", True),
    ("grids", "c05_nested.cpp", True),
    ("trees", "c05_nested.cpp", True),
    ("options_ctor", "c05_parsers.cpp", True),    # "options/parse constructors"
    ("parse_ctor", "c05_parsers.cpp", True),
    ("options_parse", "c05_parsers.cpp", False),  # results of running a parser: observed only (see LinearityTrace.tla)
    ("parse_results", "c05_parsers.cpp", False),
]
# diagnostics located in the harness's own OBSERVER code (walking a result, reading labels) do not say that an
# operation of the statement rejects its arguments
OBSERVER_CODE = re.compile(r"c05::walk|c05_walk|c05::ids_of|labs_of|c05::end\b|c05::desc|c05::recv_json")


def tree_defs():
    defs = []
    # fcppt::array::append names array::size<Array1> with the unstripped type: an lvalue first array is a
    # hard compile error there; drive those categories only when the tree under test has that repaired
    try:
        txt = open(os.path.join(vlib.REPO, "libs/core/include/fcppt/array/append.hpp")).read()
        if "fcppt::array::size<Array1>" not in txt:
            defs.append("C05_ARRAY_APPEND_LVALUE=1")
        txt = open(os.path.join(vlib.REPO, "libs/core/include/fcppt/optional/to_container.hpp")).read()
        if "fcppt::optional::value_type<Optional>(" in txt:
            defs.append("C05_TO_CONTAINER_CONST=1")   # const lvalue optionals compile since 73de222
        # rvalue sets are spliced since the fix "container::join splices the nodes of rvalue associative
        # containers" (fixes/C05_join_rvalue_set_copies.diff): the set shapes are always driven
        defs.append("C05_JOIN_SET_MERGE=1")
    except OSError:
        pass
    return defs


def unit_failure(ctx, name, in_scope, err):
    """a unit of the harness does not compile against the tree under test (it does against the unchanged tree)"""
    m = re.search(r"(?:fatal )?error: [^\n]*", err)
    first = m.group(0) if m else "(no diagnostic)"
    pos = m.start() if m else 0
    context = err[max(0, pos - 2500):pos + 400]
    where = [l.strip()[:220] for l in err.splitlines() if "/libs/" in l and ("required from" in l or "error:" in l or "In instantiation" in l)]
    ops = sorted(set(re.findall(r"fcppt::(?:algorithm|container|optional|either|variant|array|tuple|record|options|parse)::[a-z_:]+", context)))[:6]
    obs = ctx.extra.setdefault("observations", {"count": 0, "by_kind": {}, "samples": []})
    what = ("harness unit '%s' does not compile against this tree: %s; %s; names near the diagnostic: %s"
            % (name, first, " | ".join(where[-3:]), ", ".join(ops)))
    observer = bool(OBSERVER_CODE.search(context)) and "/libs/" not in "\n".join(context.splitlines()[-12:])
    if not in_scope or observer:
        key = "%s:does-not-compile" % name
        obs["count"] += 1
        obs["by_kind"][key] = obs["by_kind"].get(key, 0) + 1
        obs["samples"].append({"unit": name, "what": what[:600]})
        print("OBSERVATION (%s, not a violation): %s" % (
            "outside the statement of C05" if not in_scope else "only the harness's observer code is affected", what[:400]))
        return
    # a public operation named by the statement no longer compiles with the well-formed arguments (value categories,
    # shapes) the harness passes on the unchanged tree: the property cannot hold for inputs the code rejects
    ctx.reject("C05:%s:does-not-compile" % name, what, {"op": "unit-build", "unit": name, "compiler_output_tail": err[-3000:]})


def build(ctx=None):
    defs = tree_defs()
    flags0 = vlib.base_flags("asan", "-O1", tuple(defs))
    tag = vlib.sha((vlib.REPO + "c05units" + " ".join(defs)).encode())[:10]
    objdir = vlib.mkdir(os.path.join(vlib.BUILD, "obj", tag))
    libtag = vlib.sha((vlib.REPO + "asan" + "-O1" + "").encode())[:10]   # shared with build_harness(defs=())
    libdir = vlib.mkdir(os.path.join(vlib.BUILD, "obj", libtag))
    libflags = vlib.base_flags("asan", "-O1", ())
    jobs = [("main", os.path.join(vlib.HARNESS, "c05_linear.cpp"), os.path.join(objdir, "h_c05_main.o"), flags0, None)]
    for name, src, in_scope in UNITS:
        jobs.append((name, os.path.join(vlib.HARNESS, src), os.path.join(objdir, "h_c05_unit_%s.o" % name),
                     flags0 + ["-DC05_UNIT_%s=1" % name.upper()], in_scope))
    for l in ("core", "options"):
        for p in vlib.lib_sources(l):
            rel = os.path.relpath(p, os.path.join(vlib.REPO, "libs")).replace("/", "_")
            jobs.append(("lib", p, os.path.join(libdir, "lib_" + rel + ".o"), libflags, None))

    def one(j):
        name, src, obj, flags, in_scope = j
        try:
            o, rebuilt = vlib.compile_obj(src, obj, flags)
            return name, o, rebuilt, None
        except vlib.Infra as e:
            return name, None, 0, str(e)
    import time
    t0 = time.time()
    res = vlib.parallel(one, jobs, workers=vlib.NCPU)
    objs, rebuilt, broken = [], 0, []
    for (name, src, obj, flags, in_scope), (_, o, r, err) in zip(jobs, res):
        if err is None:
            objs.append(o)
            rebuilt += r
            continue
        if name in ("main", "lib") or "error:" not in err:
            # the library itself (or the unit-independent main + selftest) does not build: not a verdict
            raise vlib.Infra("build of %s failed: %s" % (src, err[-3000:]))
        if ctx is None:
            raise vlib.Infra("harness unit %s does not compile: %s" % (name, err[-2000:]))
        unit_failure(ctx, name, in_scope, err)
        broken.append(name)
        stub = os.path.join(objdir, "h_c05_stub_%s.o" % name)
        o, r = vlib.compile_obj(os.path.join(vlib.HARNESS, "c05_stub.cpp"), stub, flags0 + ["-DC05_STUB_FN=drive_%s" % name])
        objs.append(o)
        rebuilt += r
    out = os.path.join(vlib.mkdir(os.path.join(vlib.BUILD, "bin", tag)), "c05_linear")
    tout = out + ".tmp%d" % os.getpid()
    if rebuilt or not os.path.exists(out):
        import subprocess
        p = subprocess.run(["g++", "-pthread"] + vlib.SAN_FLAGS["asan"] + objs + ["-o", tout],
                           stdout=subprocess.PIPE, stderr=subprocess.STDOUT, text=True, errors="replace")
        if p.returncode != 0:
            raise vlib.Infra("link failed: c05_linear\n%s" % p.stdout[-4000:])
        os.replace(tout, out)
    vlib.log("build c05_linear: %d objects (%d rebuilt, %d units replaced by stubs) in %.1fs" % (len(objs), rebuilt, len(broken), time.time() - t0))
    if ctx is not None:
        ctx.extra["units_built"] = [u[0] for u in UNITS if u[0] not in broken]
        ctx.extra["units_not_built"] = broken
    return out


PROBE_GROUPS = {1: "algorithm+container", 2: "optional", 3: "either", 4: "either::bind+join",
                5: "variant+array+tuple+record", 6: "grid+tree",
                7: "state+void+nary+error-combinators+containers"}


def move_only_probe(ctx):
    """compile harness/c05_probe.cpp once per group with the move-only element type; a group that does not
    compile means some operation copies an element of an rvalue argument (or otherwise rejects move-only types)"""
    def one(g):
        flags = vlib.base_flags(san="none", opt="-O0", defs=("PROBE_GROUP=%d" % g,))
        obj = os.path.join(vlib.BUILD, "obj", "probe_" + vlib.sha(vlib.REPO.encode())[:10], "c05_probe_%d.o" % g)
        try:
            vlib.compile_obj(os.path.join(vlib.HARNESS, "c05_probe.cpp"), obj, flags)
            return g, None
        except vlib.Infra as e:
            return g, str(e)
    res = vlib.parallel(one, sorted(PROBE_GROUPS), workers=7)
    ok = []
    for g, err in res:
        if err is None:
            ok.append(PROBE_GROUPS[g])
            continue
        if "error:" not in err:
            raise vlib.Infra("move-only probe group %d: compiler failed without a diagnostic:\n%s" % (g, err[-1500:]))
        first = re.search(r"error: [^\n]*", err).group(0)
        where = [l.strip()[:220] for l in err.splitlines() if "/libs/" in l and ("required from" in l or "error:" in l)]
        ctx.reject("C05:move-only-probe:%s" % PROBE_GROUPS[g],
                   "the operations of group '%s' do not compile for rvalue arguments with a move-only element type: %s; %s"
                   % (PROBE_GROUPS[g], first, " | ".join(where[-3:])),
                   {"op": "move-only-probe", "group": g, "compiler_output_tail": err[-3000:]})
    ctx.extra["move_only_probe_groups_compiled"] = ok
    ctx.traces_validated += 0
    return len(ok)


def model_check(ctx):
    thorough = ctx.tier == "thorough"
    def mc(cfg):
        r = vlib.tlc_mc(ctx, "LinearityMC", cfg, workers=6, timeout=1500, coverage=thorough, xmx="4g")
        if thorough:
            cov = r.coverage()
            never = [a for a in ACTIONS if cov.get(a, (0, 0))[0] == 0]
            if never:
                raise vlib.Infra("coverage: actions never taken in %s: %s" % (cfg, never))
            ctx.extra.setdefault("action_coverage", {})[cfg] = {a: cov[a][0] for a in ACTIONS}
    vlib.parallel(mc, ("MC_Linearity_big.cfg", "MC_Linearity_const_big.cfg") if thorough
                  else ("MC_Linearity.cfg", "MC_Linearity_const.cfg"), workers=2)

    def expect_violation(t):
        cfg, inv = t
        r = vlib.tlc("LinearityMC", cfg, workers=2, timeout=600, xmx="2g", tag="LinearityVac", expect=inv)
        if inv not in r.invariant_violated:
            raise vlib.Infra("%s: TLC did not violate %s\n%s" % (cfg, inv, "\n".join(r.out.splitlines()[-15:])))
        return {"cfg": cfg, "violates": inv, "states": r.distinct}
    # extension round: the record model (observed-only contract "which label ends where")
    vlib.tlc_mc(ctx, "RecordLabelsMC", "MC_RecordLabels.cfg", workers=4, timeout=900, xmx="3g")
    r = vlib.tlc("RecordLabelsMC", "MC_RecordLabels_bug.cfg", workers=2, timeout=600, xmx="2g", tag="RecordLabelsVac")
    if "LawSetGet" not in r.invariant_violated:
        raise vlib.Infra("MC_RecordLabels_bug.cfg did not violate LawSetGet")
    ctx.extra["vacuity_guards"] = vlib.parallel(expect_violation, BUG_CFGS, workers=5)
    ctx.extra["witnesses_reached"] = vlib.parallel(expect_violation, WITNESS_CFGS, workers=3)


def judge(ctx, path):
    return vlib.judge_trace(ctx, TRACE_MODULE, TRACE_CFG, path, nchunks=8, boundary_key='"e":"reset"', timeout=1500)


def selftest(ctx, binary):
    path = os.path.join(ctx.workdir, "selftest.ndjson")
    rc, out = vlib.run_harness(binary, ["selftest", path], timeout=300)
    if rc != 0:
        raise vlib.Infra("selftest run failed rc=%d: %s" % (rc, out[-400:]))
    # the same clamping / validation as for recorded logs, checked on a line with an absurd id
    probe = sanitize(['{"e":"read","obj":18446744073709551615}', '{"e":"end","result":[{"obj":5,"tok":1}]}', '{"e":"rea'])
    if probe[0] != ['{"e":"read","obj":%d}' % BIG] or probe[3] != 2:
        raise vlib.Infra("sanitize() self-test failed: %r" % (probe,))
    bad = judge(ctx, path)
    got = {}
    for b in bad:
        got.setdefault(b["op"], set()).update(b["why"])
    for op, want in SELFTEST.items():
        have = got.get(op, set())
        if want and not want <= have:
            raise vlib.Infra("judge self-test: %s was not rejected with %s (got %s)" % (op, sorted(want), sorted(have)))
        if not want and have:
            raise vlib.Infra("judge self-test: acceptable behaviour %s was rejected: %s" % (op, sorted(have)))
        if any(w.startswith("HARNESS") for w in have):
            raise vlib.Infra("judge self-test: harness-level reason in %s: %s" % (op, sorted(have)))
    ctx.extra["judge_selftest"] = {op: sorted(got.get(op, set())) for op in SELFTEST}


def history_of(lines, lineno):
    i = lineno - 1
    j = i
    while j > 0 and '"e":"reset"' not in lines[j]:
        j -= 1
    k = i
    while k + 1 < len(lines) and '"e":"reset"' not in lines[k + 1]:
        k += 1
    return lines[j:k + 1]


REQUIRED = {  # fields every event of a kind must have (a truncated line may by accident be valid JSON)
    "reset": ("op", "shape", "cats"), "new": ("obj", "tok"), "begin": ("op", "keeps", "args"),
    "copy": ("src", "dst"), "move": ("src", "dst"), "copy_assign": ("src", "dst"), "move_assign": ("src", "dst"),
    "read": ("obj",), "destroy": ("obj",), "cb_enter": ("recv",), "cb_exit": (), "end": ("result", "args"),
    "labels": ("arg", "res"), "throw": (), "crash": (), "done": (),
}
BIG = 1 << 30


def _clamp(x):
    """TLC integers are 32-bit: an absurd id / token (garbage memory read through a corrupted object) becomes 2^30,
    which no constructor ever logged (-> 'untracked-object' / 'token-corrupt' instead of a TLC evaluation error)"""
    if isinstance(x, bool):
        return x, False
    if isinstance(x, int):
        return (x, False) if 0 <= x < BIG else (BIG, True)
    if isinstance(x, float):
        return BIG, True
    if isinstance(x, list):
        ch = False
        out = []
        for y in x:
            y2, c = _clamp(y)
            out.append(y2)
            ch = ch or c
        return out, ch
    if isinstance(x, dict):
        ch = False
        out = {}
        for k, y in x.items():
            y2, c = _clamp(y)
            out[k] = y2
            ch = ch or c
        return out, ch
    return x, False


def sanitize(lines):
    """-> (event lines fit for the judge, crash records, done marker seen, number of malformed lines dropped)"""
    good, crashes, done, dropped = [], [], False, 0
    for l in lines:
        try:
            e = json.loads(l)
        except ValueError:
            dropped += 1
            continue
        if not isinstance(e, dict) or not isinstance(e.get("e"), str) or e["e"] not in REQUIRED \
                or any(k not in e for k in REQUIRED[e["e"]]):
            dropped += 1
            continue
        if e["e"] == "crash":
            crashes.append(e)
            continue
        if e["e"] == "done":
            done = True
            continue
        e2, changed = _clamp(e)
        good.append(json.dumps(e2, separators=(",", ":")) if changed else l)
    return good, crashes, done, dropped


MAX_RUNS = 40          # restarts of the harness after a crash / hang inside one history
SKIP_AFTER = 2         # an operation that made the process die this often is not driven any more
KINDS = {66: "sanitizer", 67: "crash", 68: "hang", 124: "hang"}


def record(ctx, binary, what, seed, tier, only=None, tag="events"):
    """Runs the harness.  When the process dies inside history h (crash, sanitizer abort, watchdog), that is a
    verdict about the operation of history h; the harness is started again at history h + 1, so that everything
    else is still driven and judged.  Returns (event lines of all runs, stderr of all runs)."""
    all_lines, all_out = [], []
    start, fails, skip = 0, {}, []
    t_hang = 0.0
    for attempt in range(MAX_RUNS):
        path = os.path.join(ctx.workdir, "%s_run%d.ndjson" % (tag, attempt))
        args = ["record", path, seed, tier] + ([only] if only else [])
        args += ["--start", start, "--seconds", 10 if t_hang < 30 else 3]
        if skip:
            args += ["--skip", "|".join(skip)]
        rc, out = vlib.run_harness(binary, args, timeout=900)
        all_out.append(out)
        try:
            raw, tail = vlib.check_trace_file(path)
        except OSError:
            raw, tail = [], None
        lines, crashes, done, dropped = sanitize(raw)
        all_lines += lines
        try:
            os.unlink(path)
        except OSError:
            pass
        if rc == 0 and done:
            break
        kind = KINDS.get(rc, "exit%d" % rc if rc != 0 else "premature-exit")
        san = re.search(r"(ERROR: \w+Sanitizer: [^\n]*|runtime error: [^\n]*|terminate called[^\n]*\n[^\n]*)", out)
        detail = san.group(1) if san else (out[-300:] if out else str(crashes[-1:] or ""))
        if done:
            # every history ran to its end; the process failed while exiting (leak report, static destructors)
            fr = re.search(r"in (fcppt::[\w:]+)", out)
            op = fr.group(1).replace("fcppt::", "") if fr else "process-exit"
            ctx.reject("C05:%s:%s-at-exit" % (op, kind), "%s at process exit (%s): %s" % (kind, what, detail),
                       {"op": None, "seed": seed, "tier": tier, "output_tail": out[-3000:]})
            break
        last = None
        for l in reversed(lines):
            if l.startswith('{"e":"reset"'):
                last = json.loads(l)
                break
        if last is None or "h" not in last:
            ctx.reject("C05:harness-startup:%s" % kind, "the harness died before its first history (%s): %s" % (what, detail),
                       {"op": None, "seed": seed, "tier": tier, "output_tail": out[-3000:]})
            break
        op = last["op"]
        if kind == "hang":
            t_hang += 10
        hist = history_of(all_lines, len(all_lines))
        ctx.reject("C05:%s:%s" % (op, kind), "%s during %s [%s, categories %s] (%s): %s"
                   % (kind, op, last.get("shape", ""), last.get("cats", ""), what, detail),
                   {"op": op, "seed": seed, "tier": tier, "history": hist[-200:]})
        ctx.extra.setdefault("harness_restarts", []).append({"history": last["h"], "op": op, "kind": kind})
        fails[op] = fails.get(op, 0) + 1
        if (fails[op] >= SKIP_AFTER or kind == "hang") and op not in skip:   # a hang costs the whole watchdog time
            skip.append(op)
        start = last["h"] + 1
        if only and op == only and op in skip:
            break
    else:
        ctx.extra["harness_restarts_exhausted"] = True
    return all_lines, "\n".join(all_out)


MAX_HISTORY = 1500     # events of one history handed to the judge (a runaway history is judged by its prefix)


def cut_runaway(lines):
    out, n = [], 0
    for l in lines:
        if l.startswith('{"e":"reset"'):
            n = 0
        n += 1
        if n <= MAX_HISTORY:
            out.append(l)
    return out


def judge_lines(ctx, lines, what, seed, tier, tag="events"):
    lines = cut_runaway(lines)
    if not lines:
        if ctx.violations:
            return lines
        raise vlib.Infra("harness produced no events")
    path = os.path.join(ctx.workdir, tag + ".ndjson")
    with open(path, "w") as f:
        f.write("\n".join(lines) + "\n")
    bad = judge(ctx, path)
    nhist = 0
    for l in lines:
        if l.startswith('{"e":"reset"'):
            nhist += 1
            e = json.loads(l)
            ctx.count_class((e["op"], e["shape"], e["cats"]))
    ctx.evaluations += len(lines)
    ctx.traces_validated += nhist
    for b in bad:
        if any(w.startswith("HARNESS") for w in b["why"]):
            raise vlib.Infra("harness/log defect at line %d of %s: %s %s" % (b["l"], path, b["op"], b["why"]))
    seen = {}
    obs = ctx.extra.setdefault("observations", {"count": 0, "by_kind": {}, "samples": []})
    for b in bad:
        if "OBSERVED-ONLY" in b["why"]:
            # outside the statement of C05 (results of options / parse parsers, label placement of record
            # operations): judged and reported, never a violation
            why = sorted(w for w in b["why"] if w != "OBSERVED-ONLY")
            key = "%s:%s" % (b["op"], "+".join(why))
            obs["count"] += 1
            obs["by_kind"][key] = obs["by_kind"].get(key, 0) + 1
            if obs["by_kind"][key] <= 2 and len(obs["samples"]) < 20:
                obs["samples"].append({"op": b["op"], "reasons": why, "event": json.loads(lines[b["l"] - 1])})
                print("OBSERVATION (outside the statement of C05, not a violation): %s: %s at event %s"
                      % (b["op"], ",".join(why), lines[b["l"] - 1][:200]))
            continue
        hist = history_of(lines, b["l"])
        head = json.loads(hist[0])
        for why in sorted(b["why"]):
            sig = "C05:%s:%s" % (b["op"], why)
            seen[sig] = seen.get(sig, 0) + 1
            ctx.reject(sig, "%s: %s [%s, categories %s]: event %s of the history violates '%s'" % (
                what, b["op"], head.get("shape", ""), head.get("cats", ""), lines[b["l"] - 1][:200], why),
                {"op": b["op"], "seed": seed, "tier": tier,
                 "event": json.loads(lines[b["l"] - 1]), "history": [json.loads(x) for x in hist[:400]]})
    ctx.extra["rejected_events_by_signature"] = seen
    return lines


def label_corruption_selftest(ctx, lines):
    """swap the labels of the result in one recorded record::permute history: the judge must report
    label-mapping (as an observation)"""
    for i, l in enumerate(lines):
        if l.startswith('{"e":"labels"') and '"l":"a"' in l and '"l":"b"' in l:
            hist = history_of(lines, i + 1)
            if not hist[0].startswith('{"e":"reset","op":"record::permute"'):
                continue
            arg, _, res = l.partition(',"res":')
            res = res.replace('"l":"a"', '"l":"@"').replace('"l":"b"', '"l":"a"').replace('"l":"@"', '"l":"b"')
            k = hist.index(l)
            bad_hist = hist[:k] + [arg + ',"res":' + res] + hist[k + 1:]
            p = os.path.join(ctx.workdir, "labels_corrupted.ndjson")
            with open(p, "w") as f:
                f.write("\n".join(bad_hist) + "\n")
            r = vlib.tlc(TRACE_MODULE, TRACE_CFG, workers=1, env={"TRACE": p}, timeout=300, xmx="2g", tag="LinearityCorrupt")
            v = vlib._verdict_lines(r.out)
            got = set()
            for b in (v.get("VERDICT") or [{"bad": []}])[-1]["bad"]:
                got.update(b["why"])
            if not {"label-mapping", "OBSERVED-ONLY"} <= got:
                raise vlib.Infra("label corruption self-test: swapped labels were not reported (got %s)" % sorted(got))
            ctx.extra["label_corruption_selftest"] = sorted(got)
            return
    raise vlib.Infra("label corruption self-test: no record::permute history with labels found")


def run(ctx):
    model_check(ctx)
    binary = build(ctx)
    selftest(ctx, binary)
    move_only_probe(ctx)
    lines, out = record(ctx, binary, "recorded history", ctx.seed, ctx.tier)
    ni = sorted(set(re.findall(r"NOT-INSTANTIABLE (.*)", out)))
    ctx.extra["not_instantiable"] = ni
    lines = judge_lines(ctx, lines, "recorded history", ctx.seed, ctx.tier)
    if (ctx.violations or "records" in ctx.extra.get("units_not_built", [])) and not any(l.startswith('{"e":"reset","op":"record::permute"') for l in lines):
        ctx.extra["label_corruption_selftest"] = "skipped (no record::permute history on this tree)"
        finish_run(ctx, lines)
        return
    label_corruption_selftest(ctx, lines)
    finish_run(ctx, lines)


def finish_run(ctx, lines):
    for i in (3, len(lines) // 2) if lines else ():
        h = history_of(lines, max(1, i))
        ctx.sample({"history": [json.loads(x) for x in h[:40]]})
    if ctx.traces_validated < 500 and not ctx.violations:
        raise vlib.Infra("only %d histories recorded" % ctx.traces_validated)
    ctx.exhaustive = False
    ctx.rule = ("one history = one call of a registered generic operation (algorithm, container, optional, either, variant, "
                "array, tuple, record, grid, tree, options, parse) on arguments built from instrumented elements, for every "
                "shape in the registry (empty/one/many elements, present/absent, each alternative) x every value category "
                "of every argument that the operation's signature accepts (rvalue, lvalue, const lvalue; 'inout' for "
                "documented modifiers); evaluations = events judged, traces = histories; a class = (operation, shape, "
                "value categories)")
    ctx.assumptions += [
        "the instrumented element type (copyable + noexcept-movable, logs every special member and value() read) stands "
        "for all element types (parametricity)",
        "'moved at most once' is read per object: an object is moved from at most once while live; a value may travel "
        "through several library-owned temporaries (std::reverse, vector reallocation)",
        "copies made inside the harness's continuations and rvalue elements handed to a continuation as lvalues are "
        "not alarmed; copies of a continuation's own results are not constrained by the property",
        "value categories that an operation rejects at compile time are not driven (list in coverage.not_instantiable "
        "and docs/notes_C05.md)",
        "undefined behaviour is only OBSERVED through ASan/UBSan in the harness",
    ]


def replay(ctx, payload):
    pl = payload["payload"]
    if pl.get("op") == "move-only-probe":
        move_only_probe(ctx)
        ctx.count_class("probe")
        ctx.count_class("probe2")
        ctx.evaluations += len(PROBE_GROUPS)
        ctx.rule = "replay: the move-only compile-time probe"
        return
    if pl.get("op") == "unit-build":
        build(ctx)
        ctx.count_class("unit-build")
        ctx.count_class("unit-build2")
        ctx.evaluations += len(UNITS)
        ctx.rule = "replay: the harness units are compiled against the tree"
        return
    binary = build(ctx)
    seed = pl.get("seed", 1)
    tier = pl.get("tier", "quick")
    only = pl["op"] if pl.get("op") and pl["op"] != "?" else None
    lines, out = record(ctx, binary, "replay of %s" % pl.get("op"), seed, tier, only=only, tag="replay")
    judge_lines(ctx, lines, "replay of %s" % pl.get("op"), seed, tier, tag="replay")
    ctx.rule = "replay: every history of the saved operation"
