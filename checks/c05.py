"""C05 - generic operations conserve values: rvalues moved once, lvalues untouched, no read after move.

1. TLC model-checks the ownership machine (spec/Linearity.tla via spec/LinearityMC.tla) on a small
   universe: with the judge's event rules enforced, the property-level invariants hold (no duplication
   of an rvalue element, lvalue arguments intact, reads only of live objects, End's conservation check
   implied); bug configs (one rule switched off) must violate the corresponding invariant; witness
   configs must REACH the intended behaviours (move-into-result, copy-of-lvalue, harness copy,
   swap-like shuffling).  In the thorough tier action coverage is checked (no action never taken).
2. harness/c05_*.cpp runs the registered generic operations of fcppt on containers of the instrumented
   element type (harness/common/tracked.hpp) for small shapes x every value category of every argument
   and records every copy / move / assignment / read / destruction with object ids.
3. spec/LinearityTrace.tla (TLC) replays every recorded history through the machine and reports the
   events it cannot accept.  A self-test log of deliberately wrong operations written in the harness
   must be rejected with exactly the expected reasons (vacuity guard of the judge)."""
import json
import os
import re

import vlib

LEVEL = "model_checking"
TRACE_MODULE = "LinearityTrace"
TRACE_CFG = "LinearityTrace.cfg"
SOURCES = ["c05_linear.cpp", "c05_values.cpp", "c05_product.cpp", "c05_nested.cpp", "c05_parsers.cpp"]

BUG_CFGS = [
    ("MC_Linearity_bug_copy.cfg", "InvNoDuplication"),
    ("MC_Linearity_bug_move_lvalue.cfg", "InvLvalueIntact"),
    ("MC_Linearity_bug_modify_lvalue.cfg", "InvLvalueIntact"),
    ("MC_Linearity_bug_read.cfg", "InvReadsLive"),
    ("MC_Linearity_bug_dup_end.cfg", "InvEndImplied"),
]
WITNESS_CFGS = [
    ("MC_Linearity_wit_good_end.cfg", "NoGoodEnd"),
    ("MC_Linearity_wit_harness_copy.cfg", "NoHarnessCopy"),
    ("MC_Linearity_wit_revival.cfg", "NoRevival"),
]
ACTIONS = ["Copy", "Move", "CopyAssign", "MoveAssign", "Read", "Destroy", "CbEnter", "CbExit", "End"]

# reasons every selftest history must (at least) be rejected with
SELFTEST = {
    "selftest::copy-of-rvalue-element": {"copy-of-rvalue-element"},
    "selftest::move-from-lvalue-argument": {"move-from-lvalue-argument", "lvalue-argument-modified"},
    "selftest::read-after-move": {"read-after-move"},
    "selftest::element-lost": {"element-lost"},
    "selftest::lvalue-element-passed-as-rvalue": {"lvalue-element-passed-as-rvalue"},
    "selftest::lvalue-argument-modified": {"lvalue-argument-modified"},
    "selftest::result-holds-moved-from-object": {"result-holds-moved-from-object"},
    "selftest::rvalue-element-duplicated": {"rvalue-element-duplicated", "copy-of-rvalue-element"},
    "selftest::consumed-then-returned": {"result-holds-moved-from-object", "element-lost"},
    "selftest::moved-twice": {"read-after-move"},
    "selftest::ok": set(),
}


def build():
    defs = []
    # fcppt::array::append names array::size<Array1> with the unstripped type: an lvalue first array is a
    # hard compile error there; drive those categories only when the tree under test has that repaired
    try:
        txt = open(os.path.join(vlib.REPO, "libs/core/include/fcppt/array/append.hpp")).read()
        if "fcppt::array::size<Array1>" not in txt:
            defs.append("C05_ARRAY_APPEND_LVALUE=1")
        txt = open(os.path.join(vlib.REPO, "libs/core/include/fcppt/optional/to_container.hpp")).read()
        if "fcppt::optional::value_type<Optional>(" in txt:
            defs.append("C05_TO_CONTAINER_CONST=1")   # const lvalue optionals compile since 73de222
    except OSError:
        pass
    return vlib.build_harness("c05_linear", SOURCES, libs=("core", "options"), defs=tuple(defs))


PROBE_GROUPS = {1: "algorithm+container", 2: "optional", 3: "either", 4: "either::bind+join",
                5: "variant+array+tuple+record", 6: "grid+tree"}


def move_only_probe(ctx):
    """compile harness/c05_probe.cpp once per group with the move-only element type; a group that does not
    compile means some operation copies an element of an rvalue argument (or otherwise rejects move-only types)"""
    def one(g):
        flags = vlib.base_flags(san="none", opt="-O0", defs=("PROBE_GROUP=%d" % g,))
        obj = os.path.join(vlib.BUILD, "obj", "probe_" + vlib.sha(vlib.REPO.encode())[:10], "c05_probe_%d.o" % g)
        try:
            vlib.compile_obj(os.path.join(vlib.HARNESS, "c05_probe.cpp"), obj, flags)
            return g, None
        except vlib.Infra as e:
            return g, str(e)
    res = vlib.parallel(one, sorted(PROBE_GROUPS), workers=6)
    ok = []
    for g, err in res:
        if err is None:
            ok.append(PROBE_GROUPS[g])
            continue
        if "error:" not in err:
            raise vlib.Infra("move-only probe group %d: compiler failed without a diagnostic:\n%s" % (g, err[-1500:]))
        first = re.search(r"error: [^\n]*", err).group(0)
        where = [l.strip()[:220] for l in err.splitlines() if "/libs/" in l and ("required from" in l or "error:" in l)]
        ctx.reject("C05:move-only-probe:%s" % PROBE_GROUPS[g],
                   "the operations of group '%s' do not compile for rvalue arguments with a move-only element type: %s; %s"
                   % (PROBE_GROUPS[g], first, " | ".join(where[-3:])),
                   {"op": "move-only-probe", "group": g, "compiler_output_tail": err[-3000:]})
    ctx.extra["move_only_probe_groups_compiled"] = ok
    ctx.traces_validated += 0
    return len(ok)


def model_check(ctx):
    thorough = ctx.tier == "thorough"
    def mc(cfg):
        r = vlib.tlc_mc(ctx, "LinearityMC", cfg, workers=6, timeout=1500, coverage=thorough, xmx="4g")
        if thorough:
            cov = r.coverage()
            never = [a for a in ACTIONS if cov.get(a, (0, 0))[0] == 0]
            if never:
                raise vlib.Infra("coverage: actions never taken in %s: %s" % (cfg, never))
            ctx.extra.setdefault("action_coverage", {})[cfg] = {a: cov[a][0] for a in ACTIONS}
    vlib.parallel(mc, ("MC_Linearity_big.cfg", "MC_Linearity_const_big.cfg") if thorough
                  else ("MC_Linearity.cfg", "MC_Linearity_const.cfg"), workers=2)

    def expect_violation(t):
        cfg, inv = t
        r = vlib.tlc("LinearityMC", cfg, workers=2, timeout=600, xmx="2g", tag="LinearityVac", expect=inv)
        if inv not in r.invariant_violated:
            raise vlib.Infra("%s: TLC did not violate %s\n%s" % (cfg, inv, "\n".join(r.out.splitlines()[-15:])))
        return {"cfg": cfg, "violates": inv, "states": r.distinct}
    # extension round: the record model (observed-only contract "which label ends where")
    vlib.tlc_mc(ctx, "RecordLabelsMC", "MC_RecordLabels.cfg", workers=4, timeout=900, xmx="3g")
    r = vlib.tlc("RecordLabelsMC", "MC_RecordLabels_bug.cfg", workers=2, timeout=600, xmx="2g", tag="RecordLabelsVac")
    if "LawSetGet" not in r.invariant_violated:
        raise vlib.Infra("MC_RecordLabels_bug.cfg did not violate LawSetGet")
    ctx.extra["vacuity_guards"] = vlib.parallel(expect_violation, BUG_CFGS, workers=5)
    ctx.extra["witnesses_reached"] = vlib.parallel(expect_violation, WITNESS_CFGS, workers=3)


def judge(ctx, path):
    return vlib.judge_trace(ctx, TRACE_MODULE, TRACE_CFG, path, nchunks=8, boundary_key='"e":"reset"', timeout=1500)


def selftest(ctx, binary):
    path = os.path.join(ctx.workdir, "selftest.ndjson")
    rc, out = vlib.run_harness(binary, ["selftest", path], timeout=300)
    if rc != 0:
        raise vlib.Infra("selftest run failed rc=%d: %s" % (rc, out[-400:]))
    bad = judge(ctx, path)
    got = {}
    for b in bad:
        got.setdefault(b["op"], set()).update(b["why"])
    for op, want in SELFTEST.items():
        have = got.get(op, set())
        if want and not want <= have:
            raise vlib.Infra("judge self-test: %s was not rejected with %s (got %s)" % (op, sorted(want), sorted(have)))
        if not want and have:
            raise vlib.Infra("judge self-test: acceptable behaviour %s was rejected: %s" % (op, sorted(have)))
        if any(w.startswith("HARNESS") for w in have):
            raise vlib.Infra("judge self-test: harness-level reason in %s: %s" % (op, sorted(have)))
    ctx.extra["judge_selftest"] = {op: sorted(got.get(op, set())) for op in SELFTEST}


def history_of(lines, lineno):
    i = lineno - 1
    j = i
    while j > 0 and '"e":"reset"' not in lines[j]:
        j -= 1
    k = i
    while k + 1 < len(lines) and '"e":"reset"' not in lines[k + 1]:
        k += 1
    return lines[j:k + 1]


def judge_record(ctx, path, what, rc, out, seed, tier):
    lines, tail = vlib.check_trace_file(path)
    if rc != 0:
        kind = {66: "sanitizer", 67: "crash", 68: "hang", 124: "timeout"}.get(rc, "exit%d" % rc)
        op = "?"
        for l in reversed(lines):
            m = re.match(r'\{"e":"(?:begin|reset)","op":"([^"]+)"', l)
            if m:
                op = m.group(1)
                break
        san = re.search(r"(ERROR: \w+Sanitizer: [^\n]*|runtime error: [^\n]*)", out)
        hist = history_of(lines, len(lines)) if lines else []
        ctx.reject("C05:%s:%s" % (op, kind), "%s during %s (%s): %s" % (kind, op, what, san.group(1) if san else out[-300:]),
                   {"op": op, "seed": seed, "tier": tier, "history": hist[-200:]})
        with open(path, "w") as f:
            f.write("\n".join(lines) + ("\n" if lines else ""))
    if not lines:
        raise vlib.Infra("harness produced no events")
    bad = judge(ctx, path)
    nhist = 0
    for l in lines:
        if l.startswith('{"e":"reset"'):
            nhist += 1
            e = json.loads(l)
            ctx.count_class((e["op"], e["shape"], e["cats"]))
    ctx.evaluations += len(lines)
    ctx.traces_validated += nhist
    for b in bad:
        if any(w.startswith("HARNESS") for w in b["why"]):
            raise vlib.Infra("harness/log defect at line %d of %s: %s %s" % (b["l"], path, b["op"], b["why"]))
    seen = {}
    obs = ctx.extra.setdefault("observations", {"count": 0, "by_kind": {}, "samples": []})
    for b in bad:
        if "OBSERVED-ONLY" in b["why"]:
            # outside the statement of C05 (results of options / parse parsers, label placement of record
            # operations): judged and reported, never a violation
            why = sorted(w for w in b["why"] if w != "OBSERVED-ONLY")
            key = "%s:%s" % (b["op"], "+".join(why))
            obs["count"] += 1
            obs["by_kind"][key] = obs["by_kind"].get(key, 0) + 1
            if obs["by_kind"][key] <= 2 and len(obs["samples"]) < 20:
                obs["samples"].append({"op": b["op"], "reasons": why, "event": json.loads(lines[b["l"] - 1])})
                print("OBSERVATION (outside the statement of C05, not a violation): %s: %s at event %s"
                      % (b["op"], ",".join(why), lines[b["l"] - 1][:200]))
            continue
        hist = history_of(lines, b["l"])
        head = json.loads(hist[0])
        for why in sorted(b["why"]):
            sig = "C05:%s:%s" % (b["op"], why)
            seen[sig] = seen.get(sig, 0) + 1
            ctx.reject(sig, "%s: %s [%s, categories %s]: event %s of the history violates '%s'" % (
                what, b["op"], head.get("shape", ""), head.get("cats", ""), lines[b["l"] - 1][:200], why),
                {"op": b["op"], "seed": seed, "tier": tier,
                 "event": json.loads(lines[b["l"] - 1]), "history": [json.loads(x) for x in hist]})
    ctx.extra["rejected_events_by_signature"] = seen
    return lines


def label_corruption_selftest(ctx, lines):
    """swap the labels of the result in one recorded record::permute history: the judge must report
    label-mapping (as an observation)"""
    for i, l in enumerate(lines):
        if l.startswith('{"e":"labels"') and '"l":"a"' in l and '"l":"b"' in l:
            hist = history_of(lines, i + 1)
            if not hist[0].startswith('{"e":"reset","op":"record::permute"'):
                continue
            arg, _, res = l.partition(',"res":')
            res = res.replace('"l":"a"', '"l":"@"').replace('"l":"b"', '"l":"a"').replace('"l":"@"', '"l":"b"')
            k = hist.index(l)
            bad_hist = hist[:k] + [arg + ',"res":' + res] + hist[k + 1:]
            p = os.path.join(ctx.workdir, "labels_corrupted.ndjson")
            with open(p, "w") as f:
                f.write("\n".join(bad_hist) + "\n")
            r = vlib.tlc(TRACE_MODULE, TRACE_CFG, workers=1, env={"TRACE": p}, timeout=300, xmx="2g", tag="LinearityCorrupt")
            v = vlib._verdict_lines(r.out)
            got = set()
            for b in (v.get("VERDICT") or [{"bad": []}])[-1]["bad"]:
                got.update(b["why"])
            if not {"label-mapping", "OBSERVED-ONLY"} <= got:
                raise vlib.Infra("label corruption self-test: swapped labels were not reported (got %s)" % sorted(got))
            ctx.extra["label_corruption_selftest"] = sorted(got)
            return
    raise vlib.Infra("label corruption self-test: no record::permute history with labels found")


def run(ctx):
    model_check(ctx)
    binary = build()
    selftest(ctx, binary)
    move_only_probe(ctx)
    path = os.path.join(ctx.workdir, "events.ndjson")
    rc, out = vlib.run_harness(binary, ["record", path, ctx.seed, ctx.tier], timeout=1500)
    ni = sorted(set(re.findall(r"NOT-INSTANTIABLE (.*)", out)))
    ctx.extra["not_instantiable"] = ni
    lines = judge_record(ctx, path, "recorded history", rc, out, ctx.seed, ctx.tier)
    label_corruption_selftest(ctx, lines)
    for i in (3, len(lines) // 2):
        h = history_of(lines, max(1, i))
        ctx.sample({"history": [json.loads(x) for x in h[:40]]})
    if ctx.traces_validated < 500:
        raise vlib.Infra("only %d histories recorded" % ctx.traces_validated)
    ctx.exhaustive = False
    ctx.rule = ("one history = one call of a registered generic operation (algorithm, container, optional, either, variant, "
                "array, tuple, record, grid, tree, options, parse) on arguments built from instrumented elements, for every "
                "shape in the registry (empty/one/many elements, present/absent, each alternative) x every value category "
                "of every argument that the operation's signature accepts (rvalue, lvalue, const lvalue; 'inout' for "
                "documented modifiers); evaluations = events judged, traces = histories; a class = (operation, shape, "
                "value categories)")
    ctx.assumptions += [
        "the instrumented element type (copyable + noexcept-movable, logs every special member and value() read) stands "
        "for all element types (parametricity)",
        "'moved at most once' is read per object: an object is moved from at most once while live; a value may travel "
        "through several library-owned temporaries (std::reverse, vector reallocation)",
        "copies made inside the harness's continuations and rvalue elements handed to a continuation as lvalues are "
        "not alarmed; copies of a continuation's own results are not constrained by the property",
        "value categories that an operation rejects at compile time are not driven (list in coverage.not_instantiable "
        "and docs/notes_C05.md)",
        "undefined behaviour is only OBSERVED through ASan/UBSan in the harness",
    ]


def replay(ctx, payload):
    pl = payload["payload"]
    if pl.get("op") == "move-only-probe":
        move_only_probe(ctx)
        ctx.count_class("probe")
        ctx.count_class("probe2")
        ctx.evaluations += len(PROBE_GROUPS)
        ctx.rule = "replay: the move-only compile-time probe"
        return
    binary = build()
    path = os.path.join(ctx.workdir, "replay.ndjson")
    seed = pl.get("seed", 1)
    tier = pl.get("tier", "quick")
    args = ["record", path, seed, tier]
    if pl.get("op") and pl["op"] != "?":
        args.append(pl["op"])
    rc, out = vlib.run_harness(binary, args, timeout=1500)
    judge_record(ctx, path, "replay of %s" % pl.get("op"), rc, out, seed, tier)
    ctx.rule = "replay: every history of the saved operation"
