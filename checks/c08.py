"""C08 - grid positions, offsets and ranges form an exact row-major bijection.

1. TLC model-checks the specification itself:
   * spec/GridIter.tla - the position iterator (next_position / end_position transcribed) started on
     every (min, sup) with components 0..5, N = 1..3: never leaves RangeSet, what it has visited is
     always a prefix of RowMajor(RangeSet), reaches end() exactly after |RangeSet| steps, size() law;
   * spec/GridLaws.tla - laws of the reference definitions (spec/Grid.tla) over every size with
     extents 0..4: Offset is a bijection onto 0..content-1 and agrees with the order of the whole
     position range, RangeSet = the documented set, at_optional / clamp / resize / map / apply / fill laws.
   Bug-constant configurations (carry, end sentinel, size, stride, four swapped definitions) must be
   refuted by TLC - vacuity guards, one per invariant.
2. harness/c08_grid.cpp enumerates the same space on the real code (pos_range, pos_ref_range and the
   make_* functions, offset, at_optional / in_range, constructors, resize, map, apply, fill, clamped_*)
   and records what it did; spec/GridJudge.tla (TLC) judges every record against Grid.tla.
3. Sensitivity guard: corrupted copies of real records must be rejected by the same judge."""
import copy
import json
import os
import re

import vlib

LEVEL = "model_checking"
JUDGE = "GridJudge"
JUDGE_CFG = "GridJudge.cfg"

GUARDS = [
    ("GridIter", "MC_GridIter_bug_carry1.cfg", "AtEnd"),
    ("GridIter", "MC_GridIter_bug_carry2.cfg", "Prefix"),
    ("GridIter", "MC_GridIter_bug_end.cfg", "InSet"),
    ("GridIter", "MC_GridIter_bug_size.cfg", "SizeLaw"),
    ("GridLaws", "MC_GridLaws_bug_offset.cfg", "OffsetLaw"),
    ("GridLaws", "MC_GridLaws_bug_storage.cfg", "StorageLaw"),
    ("GridLaws", "MC_GridLaws_bug_law1.cfg", "RangeLaw"),
    ("GridLaws", "MC_GridLaws_bug_law2.cfg", "AtLaw"),
    ("GridLaws", "MC_GridLaws_bug_law3.cfg", "ClampLaw"),
    ("GridLaws", "MC_GridLaws_bug_law4.cfg", "ResizeLaw"),
    # extension round: the grid object machine
    ("GridObjMC", "MC_GridObj_bug_swap.cfg", "Refines"),
    ("GridObjMC", "MC_GridObj_bug_move.cfg", "Refines"),
    ("GridObjMC", "MC_GridObj_bug_offset.cfg", "Refines"),
    ("GridObjMC", "MC_GridObj_bug_law.cfg", "Laws"),
]


# record kinds / grid object operations that are entirely outside the statement of C08 (observed only, see
# spec/GridJudge.tla); OBJ_IN_SCOPE must agree with ObjInScope there
OBSERVED_KINDS = ("interp", "spiral_grid")
OBJ_IN_SCOPE = ("obj_write_at", "obj_resize_assign", "obj_fill")


def build():
    return vlib.build_harness("c08_grid", ["c08_grid.cpp"], libs=())


def signature(b):
    return "C08:%s:%s" % (b["op"], "+".join(sorted(b["why"])))


def inputs_of(rec):
    """the input fields of a record (what replay needs)"""
    keys = ("f", "N", "T", "via", "min", "sup", "dim", "gsize", "gen", "c", "size", "kind", "nsize", "igen", "rv",
            "fa", "fb", "sizes", "gens", "co", "fgen", "q", "o", "d", "ext")
    return {k: rec[k] for k in keys if k in rec}

PID = "C08"


def split_why(why):
    """(reasons inside the statement of the property, observed-only reasons without the obs: prefix)"""
    return [w for w in why if not w.startswith("obs:")], [w[4:] for w in why if w.startswith("obs:")]


def observe(ctx, op, obs, line):
    """a disagreement outside the statement of the property: recorded in the evidence
    (coverage.observations) and in the log, never a rejected event"""
    o = ctx.extra.setdefault("observations", {})
    key = "%s:%s:%s" % (PID, op, "+".join(sorted(obs)))
    e = o.setdefault(key, {"count": 0, "example": line[:700]})
    e["count"] += 1
    if e["count"] == 1:
        vlib.log("OBSERVED (outside the statement of %s, not a violation): %s" % (PID, key))


def judge_light(ctx, module, cfg, trace_path, nchunks=48, par=8, xmx="1200m", timeout=1500):
    """vlib.judge_trace with small JVM heaps and bounded parallelism (the machine is shared): the
    record file is split on line boundaries, every chunk is judged by its own single-worker TLC.
    Returns the rejected records {l (global 1-based line), op, why[]}."""
    nlines = sum(1 for _ in open(trace_path))
    nchunks = max(2, min(nchunks, nlines // 3000))
    chunks = vlib.split_file(trace_path, nchunks)

    def one(ch):
        p, first = ch
        r = vlib.tlc(module, cfg, workers=1, env={"TRACE": p}, timeout=timeout, tag=module + "_j", xmx=xmx)
        v = vlib._verdict_lines(r.out)
        if "VERDICT" not in v:
            raise vlib.Infra("judge %s gave no verdict on %s (rc=%d):\n%s" % (module, p, r.rc, "\n".join(r.out.splitlines()[-30:])))
        vd = v["VERDICT"][-1]
        bad = []
        for b in vd["bad"]:
            b = dict(b)
            b["l"] = b["l"] + first
            bad.append(b)
        if vd["nbad"] > len(vd["bad"]):
            # RecordLoop lists at most 300 rejected records per run: judge this chunk again in pieces
            # of 250 records so that nothing (in particular nothing in scope) is dropped
            ls = open(p).read().splitlines()
            bad, gen = [], r.generated
            for k in range(0, len(ls), 250):
                q = "%s.sub%d" % (p, k)
                with open(q, "w") as fh:
                    fh.write("\n".join(ls[k:k + 250]) + "\n")
                b2, g2 = one((q, first + k))
                os.unlink(q)
                bad += b2
                gen += g2
            return bad, gen
        return bad, r.generated
    res = vlib.parallel(one, chunks, workers=par)
    bad = []
    for b, g in res:
        bad += b
        ctx.extra["trace_states"] = ctx.extra.get("trace_states", 0) + g
    for p, _ in chunks:
        try:
            os.unlink(p)
        except OSError:
            pass
    return sorted(bad, key=lambda b: b["l"])


def judge_file(ctx, path, what, rc, out, judge=True):
    lines, tail = vlib.check_trace_file(path)
    crash = [l for l in lines if l.startswith('{"e":"crash"')]
    lines = [l for l in lines if not l.startswith('{"e":"crash"')]
    if crash and rc == 0:
        raise vlib.Infra("crash record in a trace of a harness that exited 0")
    if rc != 0:
        op = "?"
        if tail:
            m = re.search(r'"f":"(\w+)"', tail)
            op = m.group(1) if m else "?"
        kind = {66: "sanitizer", 67: "crash", 68: "hang", 124: "timeout"}.get(rc, "exit%d" % rc)
        san = re.search(r"(ERROR: \w+Sanitizer: [^\n]*|runtime error: [^\n]*|Assertion [^\n]*)", out)
        payload = {"partial_line": tail}
        if tail and tail.startswith('{"f":"obj"'):
            try:
                cur = json.loads((tail[:tail.index(',"pre":')] if ',"pre":' in tail else tail) + "}")
                # no "pre" yet: the abort happened while the driver observed the objects BEFORE the operation
                op = "obj_" + cur["op"] if ',"pre":' in tail else "obj_observe_before_" + cur["op"]
                hist = obj_script(lines, len(lines)) if lines and '"h":%d,' % cur["h"] in lines[-1] else []
                payload["script"] = hist + [{k: cur[k] for k in ACTION_KEYS}]
            except (ValueError, KeyError):
                pass
        elif tail:
            try:
                payload["record"] = inputs_of(json.loads(re.sub(r",\s*$", "", tail) + "}"))
            except ValueError:
                pass
        if op in OBSERVED_KINDS or (op.startswith("obj_") and op not in OBJ_IN_SCOPE):
            observe(ctx, op, [kind], tail or "")
        else:
            ctx.reject("C08:%s:%s" % (op, kind), "%s during %s (%s): %s" % (kind, op, what, san.group(1) if san else out[-300:]), payload)
        with open(path, "w") as f:
            f.write("\n".join(lines) + ("\n" if lines else ""))
    if not lines or not judge:
        return lines
    bad = judge_light(ctx, JUDGE, JUDGE_CFG, path)
    ctx.evaluations += len(lines)
    if not hasattr(ctx, "unexplained"):
        ctx.unexplained = set()
    for b in bad:
        ctx.unexplained.add(lines[b["l"] - 1])
        ins, obs = split_why(b["why"])
        if obs:
            m = re.match(r'\{"f":"obj".*?"op":"(\w+)"', lines[b["l"] - 1][:120])
            observe(ctx, "obj_" + m.group(1) if m else b["op"], obs, lines[b["l"] - 1])
        if not ins:
            continue
        b = dict(b, why=ins)
        if "HARNESS-PRECONDITION" in b["why"] and lines[b["l"] - 1].startswith('{"f":"obj"') and (
                ctx.violations or ctx.extra.get("observations")):
            # the observed state of a grid object does not cover its own size(): after an operation of the same run was
            # already rejected / observed this is a corrupted object, not a bug of the generator (Clarification 2)
            observe(ctx, "obj_" + json.loads(lines[b["l"] - 1])["op"], ["object-state-not-observable-after-an-earlier-rejection"], lines[b["l"] - 1])
            continue
        if "HARNESS-PRECONDITION" in b["why"]:
            raise vlib.Infra("harness record outside its own input space at line %d of %s: %s" % (b["l"], path, lines[b["l"] - 1][:300]))
        rec = json.loads(lines[b["l"] - 1])
        if rec.get("f") == "obj":
            ctx.reject(signature({"op": "obj_" + rec["op"], "why": b["why"]}),
                       "%s: GridObj.tla cannot explain %s (%s); transition: %s" % (what, rec["op"], ",".join(b["why"]), lines[b["l"] - 1][:700]),
                       {"script": obj_script(lines, b["l"]), "observed": rec})
            continue
        ctx.reject(signature(b), "%s: Grid.tla cannot explain %s (%s); record: %s" % (
            what, b["op"], ",".join(b["why"]), lines[b["l"] - 1][:500]), {"record": inputs_of(rec), "observed": rec})
    return lines


ACTION_KEYS = ("op", "d", "s", "size", "v", "gen", "p", "k")


def obj_script(lines, lineno):
    """the operations of the history containing 1-based line `lineno`, up to and including it"""
    last = json.loads(lines[lineno - 1])
    ops = []
    j = lineno - 1
    while j >= 0:
        r = json.loads(lines[j])
        if r.get("f") != "obj" or r["h"] != last["h"]:
            break
        ops.append({k: r[k] for k in ACTION_KEYS})
        j -= 1
    return ops[::-1]


def ext_class(e):
    return "0" if e == 0 else ("1" if e == 1 else "n")


def count_classes(ctx, lines):
    for l in lines:
        r = json.loads(l)
        f = r["f"]
        if "min" in r:
            rel = tuple("<" if a < b else ("=" if a == b else ">") for a, b in zip(r["min"], r["sup"]))
            wid = tuple(ext_class(max(b - a, 0)) for a, b in zip(r["min"], r["sup"]))
            ctx.count_class((f, r["N"], r.get("T", ""), r.get("c", ""), rel, wid))
        elif f == "obj":
            kinds = tuple(o["k"] for o in r["pre"])
            shape = tuple(ext_class(e) for e in r["pre"][r["d"] - 1].get("gsize", []))
            ctx.count_class((f, r["op"], kinds, shape, r["d"] == r["s"], r["ret"]))
        elif f == "interp":
            ctx.count_class((f, r["N"], tuple(q % 4 for q in r["q"]), tuple(ext_class(e) for e in r["gsize"])))
        elif f == "spiral_grid":
            ctx.count_class((f, tuple(ext_class(e) for e in r["gsize"]), r["d"], tuple(0 <= o < e for o, e in zip(r["o"], r["gsize"]))))
        elif f in ("resize",):
            ctx.count_class((f, r["N"], r["rv"], tuple(ext_class(e) for e in r["size"]),
                             tuple("<" if a < b else ("=" if a == b else ">") for a, b in zip(r["size"], r["nsize"]))))
        elif f == "apply":
            ctx.count_class((f, r["N"], len(r["sizes"]), tuple(tuple(ext_class(e) for e in s) for s in r["sizes"]),
                             all(s == r["sizes"][0] for s in r["sizes"])))
        else:
            sz = r.get("dim", r.get("size", r.get("gsize", [])))
            if not isinstance(sz, list):
                sz = r.get("gsize", [])
            ctx.count_class((f, r["N"], r.get("T", ""), r.get("kind", ""), r.get("c", ""), r.get("rv", ""), tuple(ext_class(e) for e in sz)))


def corruptions(recs):
    """(corrupted record, reason the judge must give) - built from real records"""
    out = []

    cur = [None]
    cnt = {}
    PER_KEY = 4    # several candidate records per kind: one accepted corruption must not fail the guard

    def mut(r, fn, why):
        r = copy.deepcopy(r)
        fn(r)
        out.append((r, why, cur[0]))

    def _one(r):
        f = r["f"]
        key = ("obj", r["op"]) if f == "obj" else f
        if cnt.get(key, 0) >= PER_KEY:
            return
        cur[0] = key
        if f in ("pos_range", "whole_range", "pos_ref_range", "whole_ref_range") and len(r["vis"]) >= 3:
            mut(r, lambda x: x["vis"].reverse(), "visited-sequence")
            mut(r, lambda x: (x["vis"].pop(), x.get("vals", [0]).pop()), "visited-sequence")
            mut(r, lambda x: x.__setitem__("size", x["size"] + 1), "size")
            mut(r, lambda x: x["vis"].__setitem__(1, x["vis"][0]), "visited-sequence")
            if "vals" in r:
                mut(r, lambda x: x["vals"].__setitem__(1, x["vals"][1] + 1), "element-at-position")
            cnt[key] = cnt.get(key, 0) + 1
        elif f == "offset" and len(r["offs"]) >= 3:
            mut(r, lambda x: x["offs"].__setitem__(1, x["offs"][2]), "offset-value")
            cnt[key] = cnt.get(key, 0) + 1
        elif f in ("construct", "resize", "map", "apply", "fill") and len(r["flat"]) >= 3 and len(set(r["flat"])) > 1:
            def sw(x):
                i = next(k for k in range(len(x["flat"]) - 1) if x["flat"][k] != x["flat"][k + 1])
                x["flat"][i], x["flat"][i + 1] = x["flat"][i + 1], x["flat"][i]
            mut(r, sw, "storage-order")
            mut(r, lambda x: x["cells"][1].__setitem__(-1, x["cells"][1][-1] + 1), "cell-value")
            mut(r, lambda x: x["gsize"].__setitem__(0, x["gsize"][0] + 1), "result-size")
            cnt[key] = cnt.get(key, 0) + 1
        elif f == "offset_at" and len(r["offs"]) >= 3:
            mut(r, lambda x: x["offs"].__setitem__(1, x["offs"][2]), "offset-value")
            mut(r, lambda x: x["offs"].__setitem__(len(x["offs"]) - 1, x["offs"][-1] % 65536), "offset-value")
            cnt[key] = cnt.get(key, 0) + 1
        elif f in ("clamped_min", "clamped_sup", "clamped_sup_signed") and r.get("ext"):
            # round 3 (extreme coordinates): the first probe is the smallest value of the type
            key = f + "_ext"
            cur[0] = key
            if cnt.get(key, 0) < PER_KEY and any(e > 0 for e in r.get("size", [1])):
                mut(r, lambda x: x["rs"][0].__setitem__(0, 2), f)
                mut(r, lambda x: x["rs"][4].__setitem__(0, 2), f)
                cnt[key] = cnt.get(key, 0) + 1
        elif f in ("clamped_min", "clamped_sup", "clamped_sup_signed") and any(e > 0 for e in r.get("size", [1])):
            mut(r, lambda x: x["rs"][-1].__setitem__(0, x["rs"][-1][0] + 1), f)
            cnt[key] = cnt.get(key, 0) + 1
        elif f == "at" and 1 in r["some"]:
            i = r["some"].index(1)
            mut(r, lambda x: x["some"].__setitem__(i, 0), "at_optional")
            mut(r, lambda x: x["valc"].__setitem__(i, x["valc"][i] + 1), "at_optional-const")
            j = len(r["some"]) - 1
            mut(r, lambda x: (x["some"].__setitem__(j, 1)), "at_optional")
            cnt[key] = cnt.get(key, 0) + 1
        elif f == "interp":
            mut(r, lambda x: x.__setitem__("r16", x["r16"] + 1), "interpolate")
            cnt[key] = cnt.get(key, 0) + 1
        elif f == "spiral_grid" and len(r["hits"]) >= 3:
            mut(r, lambda x: (x["hits"].pop(), x["vals"].pop()), "cells-within-distance")
            mut(r, lambda x: x["vals"].__setitem__(0, x["vals"][0] + 1), "element-at-position")
            mut(r, lambda x: (x["hits"].reverse(), x["vals"].reverse()), "distance-decreases")
            cnt[key] = cnt.get(key, 0) + 1
        elif f == "obj":
            d = r["d"] - 1
            post = r["post"][d]
            if r["op"] == "output" and len(r["text"]) > 4:
                mut(r, lambda x: x["text"].__setitem__(2, x["text"][2] + 1), "output-text")
                mut(r, lambda x: x["text"].pop(1), "output-text")
                cnt[key] = cnt.get(key, 0) + 1
            elif r["op"] == "write_at" and r["ret"] == 1:
                mut(r, lambda x: x.__setitem__("ret", 0), "returned-flag")
                cnt[key] = cnt.get(key, 0) + 1
            elif r["op"] == "destroy":
                mut(r, lambda x: x["post"].__setitem__(d, x["pre"][d]), "slot-kind")
                cnt[key] = cnt.get(key, 0) + 1
            elif post.get("k") == "live" and len(post["flat"]) >= 2 and r["op"] not in ("output", "write_at") and (
                    len(set(post["flat"])) > 1 or r["op"] == "ctor_value"):
                def sw(x):
                    fl = x["post"][d]["flat"]
                    i = next(k for k in range(len(fl) - 1) if fl[k] != fl[k + 1])
                    fl[i], fl[i + 1] = fl[i + 1], fl[i]
                if len(set(post["flat"])) > 1:
                    mut(r, sw, "storage-order")
                else:
                    mut(r, lambda x: x["post"][d]["flat"].__setitem__(1, x["post"][d]["flat"][1] + 1), "storage-order")
                mut(r, lambda x: x["post"][d]["cells"][0].__setitem__(2, x["post"][d]["cells"][0][2] + 1), "cell-value")
                mut(r, lambda x: x["post"][d]["gsize"].__setitem__(0, x["post"][d]["gsize"][0] + 1), "result-size")
                cnt[key] = cnt.get(key, 0) + 1
        elif f == "in_range" and 1 in r["inr"]:
            i = r["inr"].index(1)
            mut(r, lambda x: x["inr"].__setitem__(i, 0), "in_range")
            mut(r, lambda x: x["ird"].__setitem__(len(x["ird"]) - 1, 1), "in_range_dim")
            cnt[key] = cnt.get(key, 0) + 1
    for r in recs:
        try:
            _one(r)
        except (IndexError, KeyError, ValueError, StopIteration):
            pass    # this record is not a usable candidate
    return out


def check_corruptions(ctx, cor, bad):
    """Per (kind of record, expected reason): at least one of the corrupted candidate records must be
    rejected by the judge with that reason.  A single candidate on which the corruption happens to leave
    a value the specification also accepts does not fail the guard; only a kind/reason for which NO
    candidate is rejected does (exit 2)."""
    groups = {}
    for i, (rec, why, key) in enumerate(cor):
        got = bad.get(i + 1, [])
        ok = why in got or "obs:" + why in got
        g = groups.setdefault((str(key), why), [0, 0, rec, got])
        g[0] += 1
        g[1] += 1 if ok else 0
    failed = [(k, g) for k, g in groups.items() if g[1] == 0]
    if failed:
        k, g = failed[0]
        raise vlib.Infra("sensitivity guard: none of the %d corrupted %s records (expected reason %s) was rejected, e.g. judged %s: %s" % (
            g[0], k[0], k[1], g[3], json.dumps(g[2])[:300]))
    rejected = sum(g[1] for g in groups.values())
    ctx.extra["judge_sensitivity"] = {"corrupted_records": len(cor), "rejected_with_expected_reason": rejected,
                                      "groups": len(groups), "every_group_rejected": True, "all_rejected": rejected == len(cor)}


def sensitivity_guard(ctx, lines):
    """corrupt copies of records the judge currently explains completely (records with any reason - a
    violation or an observation - are no candidates); a kind whose records are all unexplained is skipped"""
    unexpl = getattr(ctx, "unexplained", set())
    # candidates: a stride over the whole log plus an even spread of about 600 records of every kind (the kinds that are
    # driven last would otherwise be missed in the thorough tier)
    per = {}
    for l in lines:
        per.setdefault(l[6:l.index('"', 6)], []).append(l)
    spread = []
    for k, v in per.items():
        want = 6000 if k == "obj" else 600
        spread += v[::max(1, len(v) // want)][:want + 50]
    cand = [l for l in lines[::7][:30000] + spread if l not in unexpl]
    recs = [json.loads(l) for l in cand]
    cor = corruptions(recs)
    kinds = set(c[0]["f"] for c in cor)
    objops = set(c[0]["op"] for c in cor if c[0]["f"] == "obj")
    touched = set()
    for l in unexpl:
        r = json.loads(l)
        touched.add(r["f"])
        if r["f"] in ("obj", "obj_stop"):
            touched.add("obj")
            touched.add("op:" + r["op"])
    needops = {"ctor_value", "ctor_fn", "ctor_rows", "copy_ctor", "move_ctor", "copy_assign", "move_assign", "swap", "write_unsafe",
               "write_at", "write_iter", "resize_assign", "fill", "output", "destroy"}
    missops = {o for o in needops - objops if "op:" + o not in touched}
    if missops:
        raise vlib.Infra("sensitivity guard: no corruptible grid-object transition for %s" % sorted(missops))
    need = {"obj", "interp", "spiral_grid", "offset_at", "pos_range", "whole_range", "pos_ref_range", "whole_ref_range", "offset", "construct", "resize", "map",
            "apply", "fill", "clamped_min", "clamped_sup", "clamped_sup_signed", "at", "in_range"}
    missing = need - kinds - touched
    if missing:
        raise vlib.Infra("sensitivity guard: no corruptible record for %s" % sorted(missing))
    p = os.path.join(ctx.workdir, "corrupted.ndjson")
    vlib.write_ndjson(p, [c[0] for c in cor])
    # (RecordLoop lists at most 300 rejected records per run; judge_light re-judges in pieces of 250)
    bad = {b["l"]: b["why"] for b in judge_light(ctx, JUDGE, JUDGE_CFG, p, nchunks=4, par=4)}
    check_corruptions(ctx, cor, bad)
    ctx.extra["judge_sensitivity"]["kinds_skipped_because_unexplained"] = sorted((need - kinds) & touched) + sorted(
        o for o in needops - objops if "op:" + o in touched)


def run(ctx):
    thorough = ctx.tier == "thorough"
    # 1. the specification itself
    vlib.tlc_mc(ctx, "GridIter", "MC_GridIter_n1.cfg", workers=2, xmx="2g")
    vlib.tlc_mc(ctx, "GridIter", "MC_GridIter_n2.cfg", workers=4, xmx="2g")
    vlib.tlc_mc(ctx, "GridIter", "MC_GridIter_n3.cfg" if thorough else "MC_GridIter_n3q.cfg", timeout=3000, xmx="2g")
    vlib.tlc_mc(ctx, "GridLaws", "MC_GridLaws_n1.cfg", workers=2, xmx="2g")
    vlib.tlc_mc(ctx, "GridLaws", "MC_GridLaws_n2.cfg", workers=8, xmx="2g")
    vlib.tlc_mc(ctx, "GridLaws", "MC_GridLaws_n3.cfg" if thorough else "MC_GridLaws_n3q.cfg", timeout=3000, xmx="2g")
    # extension round: the grid object machine, abstract operations and member-level transcription in lock-step
    vlib.tlc_mc(ctx, "GridObjMC", "MC_GridObj_deep.cfg" if thorough else "MC_GridObj.cfg", workers=8, xmx="2g")
    r = vlib.tlc_mc(ctx, "GridObjMC", "MC_GridObjScripts.cfg", workers=4, xmx="2g")
    scripts = vlib._verdict_lines(r.out).get("SCRIPT", [])
    if len(scripts) < 3000:
        raise vlib.Infra("grid object script emission produced only %d scripts" % len(scripts))

    def guard(g):
        mod, cfg, inv = g
        r = vlib.tlc(mod, cfg, workers=2, xmx="1g", expect=inv)
        if inv not in r.invariant_violated:
            raise vlib.Infra("vacuity guard: %s/%s did not violate %s" % (mod, cfg, inv))
        return {"module": mod, "cfg": cfg, "violates": inv}
    ctx.extra["vacuity_guards"] = vlib.parallel(guard, GUARDS, workers=5)
    # 2. code -> spec
    binary = build()
    tpath = os.path.join(ctx.workdir, "recorded.ndjson")
    # every section of the enumeration (N = 1, 2, 3, observed-only extension) in its own process: a call that kills
    # the process (abort, undocumented exception, watchdog) ends only its section; all complete records are judged
    rc, all_lines = 0, []
    for sec in (1, 2, 3, 4):
        spath_k = "%s.sec%d" % (tpath, sec)
        rc_k, out_k = vlib.run_harness(binary, ["record", spath_k, ctx.tier, sec], timeout=1600 if thorough else 600)
        all_lines += judge_file(ctx, spath_k, "exhaustive enumeration, section %d" % sec, rc_k, out_k, judge=False)
        rc = rc or rc_k
        os.unlink(spath_k)
    with open(tpath, "w") as f:
        f.write("".join(l + "\n" for l in all_lines))
    lines = judge_file(ctx, tpath, "exhaustive enumeration", 0, "")
    # a walked range is one behaviour of the iterator machine; the other records are single calls
    ctx.traces_validated += sum(1 for l in lines if '"vis":' in l)
    if lines:
        count_classes(ctx, lines)
        for k in (len(lines) // 3, len(lines) // 2, len(lines) - 5):
            s = lines[k]
            ctx.sample(json.loads(s) if len(s) < 1500 else {"truncated_record": s[:1500]})
    # 2b. the grid object machine: spec -> code (one script per generated transition of the small
    #     model) and code -> spec (seeded random histories)
    spath = os.path.join(ctx.workdir, "obj_scripts.ndjson")
    vlib.write_ndjson(spath, scripts)
    opath = os.path.join(ctx.workdir, "obj_replayed.ndjson")
    rc2, out2 = vlib.run_harness(binary, ["objreplay", spath, opath], timeout=900)
    olines = judge_file(ctx, opath, "TLC-generated grid object script", rc2, out2)
    ctx.traces_validated += len(scripts)
    nh, ml = (30000, 14) if thorough else (3000, 14)
    rpath = os.path.join(ctx.workdir, "obj_recorded.ndjson")
    rc3, out3 = vlib.run_harness(binary, ["objrecord", rpath, ctx.seed, nh, ml], timeout=900)
    rlines = judge_file(ctx, rpath, "random grid object history", rc3, out3)
    ctx.traces_validated += nh
    count_classes(ctx, olines + rlines)
    if scripts:
        ctx.sample({"tlc_grid_object_script": scripts[len(scripts) // 2]})
    if lines:
        # 3. the judge rejects corrupted copies of real records
        if rc == 0 and rc2 == 0 and rc3 == 0 and not ctx.violations:
            sensitivity_guard(ctx, lines + rlines)
    ctx.exhaustive = True
    ctx.rule = ("exhaustive enumeration by the harness: N in 1..3, extents 0..4 (quick: 0..3 for N=3), (min,sup) components 0..5 "
                "(quick: 0..3 for N=3; pos_ref_range: all min,sup <= size), at_optional probes 0..extent+2 plus the two largest "
                "size_t values per component, clamp inputs -2..6; one record per call (or per batch of probes on one grid); "
                "a class = (function, N, type/const/rvalue variant, per-dimension shape: extent 0/1/n, min vs sup relation)")
    ctx.assumptions += [
        "element type int and std::allocator stand for all element types; size types unsigned and std::size_t",
        "pos_ref_range is only driven with min, sup <= size (outside is a precondition violation)",
        "functions passed to resize/map/apply/fill are affine, identified to the judge by their coefficients",
        "values >= 2^31-1 are logged saturated (no demanded value in this space is that large)",
        "out-of-bounds accesses inside the driven calls are only OBSERVED (ASan/UBSan/_GLIBCXX_ASSERTIONS), not decided by the spec",
    ]


def replay(ctx, payload):
    binary = build()
    script = payload["payload"].get("script")
    if script:
        spath = os.path.join(ctx.workdir, "replay_script.ndjson")
        vlib.write_ndjson(spath, [script])
        opath = os.path.join(ctx.workdir, "replay_out.ndjson")
        rc, out = vlib.run_harness(binary, ["objreplay", spath, opath], timeout=300)
        judge_file(ctx, opath, "replay", rc, out)
        ctx.traces_validated += 1
        ctx.count_class("replay")
        ctx.count_class("replay2")
        ctx.rule = "replay of one saved grid object history"
        return
    rec = payload["payload"].get("record")
    if not rec:
        raise vlib.Infra("replay file carries no record")
    ipath = os.path.join(ctx.workdir, "replay_in.ndjson")
    vlib.write_ndjson(ipath, [rec])
    opath = os.path.join(ctx.workdir, "replay_out.ndjson")
    rc, out = vlib.run_harness(binary, ["replay", ipath, opath], timeout=300)
    judge_file(ctx, opath, "replay", rc, out)
    ctx.traces_validated += 1
    ctx.count_class("replay")
    ctx.count_class("replay2")
    ctx.rule = "replay of one saved record"
