"""C08 - grid positions, offsets and ranges form an exact row-major bijection.

1. TLC model-checks the specification itself:
   * spec/GridIter.tla - the position iterator (next_position / end_position transcribed) started on
     every (min, sup) with components 0..5, N = 1..3: never leaves RangeSet, what it has visited is
     always a prefix of RowMajor(RangeSet), reaches end() exactly after |RangeSet| steps, size() law;
   * spec/GridLaws.tla - laws of the reference definitions (spec/Grid.tla) over every size with
     extents 0..4: Offset is a bijection onto 0..content-1 and agrees with the order of the whole
     position range, RangeSet = the documented set, at_optional / clamp / resize / map / apply / fill laws.
   Bug-constant configurations (carry, end sentinel, size, stride, four swapped definitions) must be
   refuted by TLC - vacuity guards, one per invariant.
2. harness/c08_grid.cpp enumerates the same space on the real code (pos_range, pos_ref_range and the
   make_* functions, offset, at_optional / in_range, constructors, resize, map, apply, fill, clamped_*)
   and records what it did; spec/GridJudge.tla (TLC) judges every record against Grid.tla.
3. Sensitivity guard: corrupted copies of real records must be rejected by the same judge."""
import copy
import json
import os
import re

import vlib

LEVEL = "model_checking"
JUDGE = "GridJudge"
JUDGE_CFG = "GridJudge.cfg"

GUARDS = [
    ("GridIter", "MC_GridIter_bug_carry1.cfg", "AtEnd"),
    ("GridIter", "MC_GridIter_bug_carry2.cfg", "Prefix"),
    ("GridIter", "MC_GridIter_bug_end.cfg", "InSet"),
    ("GridIter", "MC_GridIter_bug_size.cfg", "SizeLaw"),
    ("GridLaws", "MC_GridLaws_bug_offset.cfg", "OffsetLaw"),
    ("GridLaws", "MC_GridLaws_bug_storage.cfg", "StorageLaw"),
    ("GridLaws", "MC_GridLaws_bug_law1.cfg", "RangeLaw"),
    ("GridLaws", "MC_GridLaws_bug_law2.cfg", "AtLaw"),
    ("GridLaws", "MC_GridLaws_bug_law3.cfg", "ClampLaw"),
    ("GridLaws", "MC_GridLaws_bug_law4.cfg", "ResizeLaw"),
]


def build():
    return vlib.build_harness("c08_grid", ["c08_grid.cpp"], libs=())


def signature(b):
    return "C08:%s:%s" % (b["op"], "+".join(sorted(b["why"])))


def inputs_of(rec):
    """the input fields of a record (what replay needs)"""
    keys = ("f", "N", "T", "via", "min", "sup", "dim", "gsize", "gen", "c", "size", "kind", "nsize", "igen", "rv",
            "fa", "fb", "sizes", "gens", "co", "fgen")
    return {k: rec[k] for k in keys if k in rec}


def judge_light(ctx, module, cfg, trace_path, nchunks=48, par=8, xmx="1200m", timeout=1500):
    """vlib.judge_trace with small JVM heaps and bounded parallelism (the machine is shared): the
    record file is split on line boundaries, every chunk is judged by its own single-worker TLC.
    Returns the rejected records {l (global 1-based line), op, why[]}."""
    chunks = vlib.split_file(trace_path, nchunks)

    def one(ch):
        p, first = ch
        r = vlib.tlc(module, cfg, workers=1, env={"TRACE": p}, timeout=timeout, tag=module + "_j", xmx=xmx)
        v = vlib._verdict_lines(r.out)
        if "VERDICT" not in v:
            raise vlib.Infra("judge %s gave no verdict on %s (rc=%d):\n%s" % (module, p, r.rc, "\n".join(r.out.splitlines()[-30:])))
        vd = v["VERDICT"][-1]
        bad = []
        for b in vd["bad"]:
            b = dict(b)
            b["l"] = b["l"] + first
            bad.append(b)
        if vd["nbad"] > len(vd["bad"]):
            bad.append({"l": bad[-1]["l"], "op": bad[-1]["op"], "why": ["more-rejected-records-than-listed"]})
        return bad, r.generated
    res = vlib.parallel(one, chunks, workers=par)
    bad = []
    for b, g in res:
        bad += b
        ctx.extra["trace_states"] = ctx.extra.get("trace_states", 0) + g
    for p, _ in chunks:
        try:
            os.unlink(p)
        except OSError:
            pass
    return sorted(bad, key=lambda b: b["l"])


def judge_file(ctx, path, what, rc, out):
    lines, tail = vlib.check_trace_file(path)
    crash = [l for l in lines if l.startswith('{"e":"crash"')]
    lines = [l for l in lines if not l.startswith('{"e":"crash"')]
    if crash and rc == 0:
        raise vlib.Infra("crash record in a trace of a harness that exited 0")
    if rc != 0:
        op = "?"
        if tail:
            m = re.search(r'"f":"(\w+)"', tail)
            op = m.group(1) if m else "?"
        kind = {66: "sanitizer", 67: "crash", 68: "hang", 124: "timeout"}.get(rc, "exit%d" % rc)
        san = re.search(r"(ERROR: \w+Sanitizer: [^\n]*|runtime error: [^\n]*|Assertion [^\n]*)", out)
        payload = {"partial_line": tail}
        if tail:
            try:
                payload["record"] = inputs_of(json.loads(re.sub(r",\s*$", "", tail) + "}"))
            except ValueError:
                pass
        ctx.reject("C08:%s:%s" % (op, kind), "%s during %s (%s): %s" % (kind, op, what, san.group(1) if san else out[-300:]), payload)
        with open(path, "w") as f:
            f.write("\n".join(lines) + ("\n" if lines else ""))
    if not lines:
        return lines
    bad = judge_light(ctx, JUDGE, JUDGE_CFG, path)
    ctx.evaluations += len(lines)
    for b in bad:
        if "HARNESS-PRECONDITION" in b["why"]:
            raise vlib.Infra("harness record outside its own input space at line %d of %s: %s" % (b["l"], path, lines[b["l"] - 1][:300]))
        rec = json.loads(lines[b["l"] - 1])
        ctx.reject(signature(b), "%s: Grid.tla cannot explain %s (%s); record: %s" % (
            what, b["op"], ",".join(b["why"]), lines[b["l"] - 1][:500]), {"record": inputs_of(rec), "observed": rec})
    return lines


def ext_class(e):
    return "0" if e == 0 else ("1" if e == 1 else "n")


def count_classes(ctx, lines):
    for l in lines:
        r = json.loads(l)
        f = r["f"]
        if "min" in r:
            rel = tuple("<" if a < b else ("=" if a == b else ">") for a, b in zip(r["min"], r["sup"]))
            wid = tuple(ext_class(max(b - a, 0)) for a, b in zip(r["min"], r["sup"]))
            ctx.count_class((f, r["N"], r.get("T", ""), r.get("c", ""), rel, wid))
        elif f in ("resize",):
            ctx.count_class((f, r["N"], r["rv"], tuple(ext_class(e) for e in r["size"]),
                             tuple("<" if a < b else ("=" if a == b else ">") for a, b in zip(r["size"], r["nsize"]))))
        elif f == "apply":
            ctx.count_class((f, r["N"], len(r["sizes"]), tuple(tuple(ext_class(e) for e in s) for s in r["sizes"]),
                             all(s == r["sizes"][0] for s in r["sizes"])))
        else:
            sz = r.get("dim", r.get("size", r.get("gsize", [])))
            if not isinstance(sz, list):
                sz = r.get("gsize", [])
            ctx.count_class((f, r["N"], r.get("T", ""), r.get("kind", ""), r.get("c", ""), r.get("rv", ""), tuple(ext_class(e) for e in sz)))


def corruptions(recs):
    """(corrupted record, reason the judge must give) - built from real records"""
    out = []

    def mut(r, fn, why):
        r = copy.deepcopy(r)
        fn(r)
        out.append((r, why))

    done = set()
    for r in recs:
        f = r["f"]
        if f in done:
            continue
        if f in ("pos_range", "whole_range", "pos_ref_range", "whole_ref_range") and len(r["vis"]) >= 3:
            mut(r, lambda x: x["vis"].reverse(), "visited-sequence")
            mut(r, lambda x: (x["vis"].pop(), x.get("vals", [0]).pop()), "visited-sequence")
            mut(r, lambda x: x.__setitem__("size", x["size"] + 1), "size")
            mut(r, lambda x: x["vis"].__setitem__(1, x["vis"][0]), "visited-sequence")
            if "vals" in r:
                mut(r, lambda x: x["vals"].__setitem__(1, x["vals"][1] + 1), "element-at-position")
            done.add(f)
        elif f == "offset" and len(r["offs"]) >= 3:
            mut(r, lambda x: x["offs"].__setitem__(1, x["offs"][2]), "offset-value")
            done.add(f)
        elif f in ("construct", "resize", "map", "apply", "fill") and len(r["flat"]) >= 3 and len(set(r["flat"])) > 1:
            def sw(x):
                i = next(k for k in range(len(x["flat"]) - 1) if x["flat"][k] != x["flat"][k + 1])
                x["flat"][i], x["flat"][i + 1] = x["flat"][i + 1], x["flat"][i]
            mut(r, sw, "storage-order")
            mut(r, lambda x: x["cells"][1].__setitem__(-1, x["cells"][1][-1] + 1), "cell-value")
            mut(r, lambda x: x["gsize"].__setitem__(0, x["gsize"][0] + 1), "result-size")
            done.add(f)
        elif f in ("clamped_min", "clamped_sup", "clamped_sup_signed") and any(e > 0 for e in r.get("size", [1])):
            mut(r, lambda x: x["rs"][-1].__setitem__(0, x["rs"][-1][0] + 1), f)
            done.add(f)
        elif f == "at" and 1 in r["some"]:
            i = r["some"].index(1)
            mut(r, lambda x: x["some"].__setitem__(i, 0), "at_optional")
            mut(r, lambda x: x["valc"].__setitem__(i, x["valc"][i] + 1), "at_optional-const")
            j = len(r["some"]) - 1
            mut(r, lambda x: (x["some"].__setitem__(j, 1)), "at_optional")
            done.add(f)
        elif f == "in_range" and 1 in r["inr"]:
            i = r["inr"].index(1)
            mut(r, lambda x: x["inr"].__setitem__(i, 0), "in_range")
            mut(r, lambda x: x["ird"].__setitem__(len(x["ird"]) - 1, 1), "in_range_dim")
            done.add(f)
    return out


def sensitivity_guard(ctx, lines):
    recs = [json.loads(l) for l in lines[::7][:30000]]
    cor = corruptions(recs)
    kinds = set(c[0]["f"] for c in cor)
    need = {"pos_range", "whole_range", "pos_ref_range", "whole_ref_range", "offset", "construct", "resize", "map",
            "apply", "fill", "clamped_min", "clamped_sup", "clamped_sup_signed", "at", "in_range"}
    if kinds != need:
        raise vlib.Infra("sensitivity guard: no corruptible record for %s" % sorted(need - kinds))
    p = os.path.join(ctx.workdir, "corrupted.ndjson")
    vlib.write_ndjson(p, [c[0] for c in cor])
    r = vlib.tlc(JUDGE, JUDGE_CFG, workers=1, env={"TRACE": p}, tag="GridJudge_sens", xmx="1g")
    v = vlib._verdict_lines(r.out).get("VERDICT")
    if not v:
        raise vlib.Infra("sensitivity guard: no verdict\n" + r.out[-2000:])
    bad = {b["l"]: b["why"] for b in v[-1]["bad"]}
    for i, (rec, why) in enumerate(cor):
        if why not in bad.get(i + 1, []):
            raise vlib.Infra("sensitivity guard: corrupted %s record (expected reason %s) was judged %s" % (rec["f"], why, bad.get(i + 1)))
    ctx.extra["judge_sensitivity"] = {"corrupted_records": len(cor), "all_rejected": True}


def run(ctx):
    thorough = ctx.tier == "thorough"
    # 1. the specification itself
    vlib.tlc_mc(ctx, "GridIter", "MC_GridIter_n1.cfg", workers=2, xmx="2g")
    vlib.tlc_mc(ctx, "GridIter", "MC_GridIter_n2.cfg", workers=4, xmx="2g")
    vlib.tlc_mc(ctx, "GridIter", "MC_GridIter_n3.cfg" if thorough else "MC_GridIter_n3q.cfg", timeout=3000, xmx="2g")
    vlib.tlc_mc(ctx, "GridLaws", "MC_GridLaws_n1.cfg", workers=2, xmx="2g")
    vlib.tlc_mc(ctx, "GridLaws", "MC_GridLaws_n2.cfg", workers=8, xmx="2g")
    vlib.tlc_mc(ctx, "GridLaws", "MC_GridLaws_n3.cfg" if thorough else "MC_GridLaws_n3q.cfg", timeout=3000, xmx="2g")

    def guard(g):
        mod, cfg, inv = g
        r = vlib.tlc(mod, cfg, workers=2, xmx="1g", expect=inv)
        if inv not in r.invariant_violated:
            raise vlib.Infra("vacuity guard: %s/%s did not violate %s" % (mod, cfg, inv))
        return {"module": mod, "cfg": cfg, "violates": inv}
    ctx.extra["vacuity_guards"] = vlib.parallel(guard, GUARDS, workers=5)
    # 2. code -> spec
    binary = build()
    tpath = os.path.join(ctx.workdir, "recorded.ndjson")
    rc, out = vlib.run_harness(binary, ["record", tpath, ctx.tier], timeout=1600)
    lines = judge_file(ctx, tpath, "exhaustive enumeration", rc, out)
    # a walked range is one behaviour of the iterator machine; the other records are single calls
    ctx.traces_validated += sum(1 for l in lines if '"vis":' in l)
    if lines:
        count_classes(ctx, lines)
        for k in (len(lines) // 3, len(lines) // 2, len(lines) - 5):
            s = lines[k]
            ctx.sample(json.loads(s) if len(s) < 1500 else {"truncated_record": s[:1500]})
        # 3. the judge rejects corrupted copies of real records
        if rc == 0 and not ctx.violations:
            sensitivity_guard(ctx, lines)
    ctx.exhaustive = True
    ctx.rule = ("exhaustive enumeration by the harness: N in 1..3, extents 0..4 (quick: 0..3 for N=3), (min,sup) components 0..5 "
                "(quick: 0..3 for N=3; pos_ref_range: all min,sup <= size), at_optional probes 0..extent+2 plus the two largest "
                "size_t values per component, clamp inputs -2..6; one record per call (or per batch of probes on one grid); "
                "a class = (function, N, type/const/rvalue variant, per-dimension shape: extent 0/1/n, min vs sup relation)")
    ctx.assumptions += [
        "element type int and std::allocator stand for all element types; size types unsigned and std::size_t",
        "pos_ref_range is only driven with min, sup <= size (outside is a precondition violation)",
        "functions passed to resize/map/apply/fill are affine, identified to the judge by their coefficients",
        "values >= 2^31-1 are logged saturated (no demanded value in this space is that large)",
        "out-of-bounds accesses inside the driven calls are only OBSERVED (ASan/UBSan/_GLIBCXX_ASSERTIONS), not decided by the spec",
    ]


def replay(ctx, payload):
    binary = build()
    rec = payload["payload"].get("record")
    if not rec:
        raise vlib.Infra("replay file carries no record")
    ipath = os.path.join(ctx.workdir, "replay_in.ndjson")
    vlib.write_ndjson(ipath, [rec])
    opath = os.path.join(ctx.workdir, "replay_out.ndjson")
    rc, out = vlib.run_harness(binary, ["replay", ipath, opath], timeout=300)
    judge_file(ctx, opath, "replay", rc, out)
    ctx.traces_validated += 1
    ctx.count_class("replay")
    ctx.count_class("replay2")
    ctx.rule = "replay of one saved record"
