"""C20 - random wrappers are transparent and stay within the requested bounds.

LEVEL is "exploration", not model checking: the TLA+ content of this property is thin.  Random.tla
states a refinement-style law (a wrapper draw = Decorate(wrapped draw), cursor advanced alike),
interval bounds and the factory laws; the wrapped standard distribution is - by the wording of the
property - the reference and is NOT specified.  TLC model-checks the laws on a small model with a
stand-in distribution (MCRandom.tla, all scripts as initial states, vacuity guards) and then acts
as the JUDGE of recorded runs of the real code against the logged runs of the real std::
distribution.  What carries the verdict is the exhaustive script enumeration of the harness, i.e.
exploration with the spec as judge."""
import json
import os
import re

import vlib

LEVEL = "exploration"

GUARDS = [
    ("MC_Random_guard_max_minus_1_LawTransparent.cfg", "LawTransparent"),
    ("MC_Random_guard_max_minus_1_LawEndsReached.cfg", "LawEndsReached"),
    ("MC_Random_guard_extra_raw_LawTransparent.cfg", "LawTransparent"),
    ("MC_Random_guard_wrong_decorate_LawDecorated.cfg", "LawDecorated"),
    ("MC_Random_guard_clamp_LawBounds.cfg", "LawBounds"),
    ("MC_Random_guard_size_not_minus_1_LawContainer.cfg", "LawContainer"),
    ("MC_Random_guard_size_not_minus_1_LawFactories.cfg", "LawFactories"),
    ("MC_Random_guard_no_empty_guard_LawFactories.cfg", "LawFactories"),
    ("MC_Random_guard_rewind_LawCursorMonotone.cfg", "LawCursorMonotone"),
    ("MC_Random_guard_convert_to_max_from_a_LawTransparent.cfg", "LawTransparent"),
    ("MC_Random_guard_convert_to_max_from_a_LawReadBack.cfg", "LawReadBack"),
    ("MC_Random_guard_convert_to_max_from_a_LawEndsReached.cfg", "LawEndsReached"),
]
# hidden-state model (draws interleaved with reset()): MCRandomState.tla
STATE_GUARDS = [
    ("MC_RandomState_guard_reset_keeps_cache_LawResetFresh.cfg", "LawResetFresh"),
    ("MC_RandomState_guard_reset_keeps_cache_LawTransparentH.cfg", "LawTransparentH"),
    ("MC_RandomState_guard_reset_keeps_cache_LawResetClears.cfg", "LawResetClears"),
    ("MC_RandomState_guard_draw_drops_cache_LawTransparentH.cfg", "LawTransparentH"),
    ("MC_RandomState_guard_copy_drops_hidden_state_LawTransparentH.cfg", "LawTransparentH"),
    ("MC_RandomState_guard_copy_drops_hidden_state_LawCopyKeeps.cfg", "LawCopyKeeps"),
]
PER_CHUNK = 40000
JUDGES = min(vlib.NCPU, 12)


PROBE = """#include <fcppt/random/distribution/basic.hpp>
#include <fcppt/random/distribution/parameters/uniform_int.hpp>
#include <random>
int probe()
{
  using params = fcppt::random::distribution::parameters::uniform_int<int>;
  fcppt::random::distribution::basic<params> d(params::min(1), params::max(3));
  std::minstd_rand g(1);
  params const p(d.param());
  return d(g, p);
}
"""


def param_api_compiles():
    """basic::param() and basic::operator()(Rng&, param_type const&) do not compile on the tree as
    found (wrong argument lists inside the members); they are driven only if they do."""
    d = vlib.mkdir(os.path.join(vlib.BUILD, "work", "C20"))
    src = os.path.join(d, "param_probe.cpp")
    with open(src, "w") as f:
        f.write(PROBE)
    import subprocess
    p = subprocess.run(vlib.base_flags("none", "-O0") + ["-fsyntax-only", src], stdout=subprocess.PIPE,
                       stderr=subprocess.STDOUT, text=True, errors="replace")
    return p.returncode == 0


ISTREAM_PROBE = """#include <fcppt/random/distribution/basic.hpp>
#include <fcppt/random/distribution/parameters/uniform_int.hpp>
#include <sstream>
bool probe()
{
  using params = fcppt::random::distribution::parameters::uniform_int<int>;
  fcppt::random::distribution::basic<params> d(params::min(1), params::max(3));
  std::istringstream s("1 3");
  return static_cast<bool>(s >> d);
}
"""


# In-scope entry points that only the operation sessions drive.  If the sessions do not compile against
# the tree under test these probes decide: a probe that fails = a function the statement names rejects
# the well-formed arguments the harness always passed -> VIOLATION C20:<name>:does-not-compile; all probes
# compile = only an observed-only member (==, <<, min/max, param read-back) broke -> OBSERVATION.
SCOPE_PROBE_HEAD = """#include <fcppt/make_ref.hpp>
#include <fcppt/random/make_variate.hpp>
#include <fcppt/random/variate.hpp>
#include <fcppt/random/distribution/basic.hpp>
#include <fcppt/random/distribution/make_basic.hpp>
#include <fcppt/random/distribution/parameters/normal.hpp>
#include <fcppt/random/distribution/parameters/uniform_int.hpp>
#include <fcppt/random/generator/minstd_rand.hpp>
using gen = fcppt::random::generator::minstd_rand;
using params = fcppt::random::distribution::parameters::normal<double>;
using dist = fcppt::random::distribution::basic<params>;
double probe()
{
  gen g(gen::seed(1));
  dist d(params(params::mean(1.0), params::stddev(2.0)));
  (void)d(g);
"""
SCOPE_PROBES = {
    "make_variate": "  auto v = fcppt::random::make_variate(fcppt::make_ref(g), d);\n  return v();\n}\n",
    "variate": "  fcppt::random::variate<gen, dist> v(fcppt::make_ref(g), d);\n  fcppt::random::variate<gen, dist> w(v);\n  return v() + w();\n}\n",
    "distribution_basic": "  dist e(d);\n  e = d;\n  e.reset();\n  return e(g);\n}\n",
}


def failing_scope_probes():
    return sorted(k for k, tail in SCOPE_PROBES.items() if not probe_compiles("scope_probe_%s.cpp" % k, SCOPE_PROBE_HEAD + tail))


def probe_compiles(name, text):
    d = vlib.mkdir(os.path.join(vlib.BUILD, "work", "C20"))
    src = os.path.join(d, name)
    with open(src, "w") as f:
        f.write(text)
    import subprocess
    p = subprocess.run(vlib.base_flags("none", "-O0") + ["-fsyntax-only", src], stdout=subprocess.PIPE,
                       stderr=subprocess.STDOUT, text=True, errors="replace")
    return p.returncode == 0


def build(ctx=None):
    ok = param_api_compiles()
    # operator>> of distribution::basic does not compile on the tree as found (friend declaration
    # mismatch, fixes/C20_basic_istream_friend.diff); the << / >> round trip is driven only if it does
    iok = ok and probe_compiles("istream_probe.cpp", ISTREAM_PROBE)
    if ctx is not None:
        ctx.extra["param_api_driven"] = ok
        ctx.extra["istream_api_driven"] = iok
    defs = (("C20_PARAM_API",) if ok else ()) + (("C20_ISTREAM_API",) if iok else ())
    try:
        return vlib.build_harness("c20_random", ["c20_random.cpp"], libs=("core",), defs=defs)
    except vlib.Infra as e:
        first = _tree_build_failure(e)
        if first is None or ctx is None:
            raise
    # The harness does not compile against the tree under test: a verdict about the tree, not an
    # infrastructure failure.  Build what the statement names without the observed-only parts
    # (seed_from_chrono, write-through of uniform_container; then also without the operation sessions,
    # which need reset / param / == / << of distribution::basic).
    vlib.log("the full harness does not compile against this tree (%s)" % first)
    for name, d2, left_out in (("c20_random_noobs", defs + ("C20_NO_OBSERVED",), "seed_from_chrono, write-through of uniform_container"),
                               ("c20_random_core", ("C20_NO_OBSERVED",), "seed_from_chrono, write-through of uniform_container, "
                                "the operation sessions of distribution::basic / variate (reset, param, ==, <<, copies)")):
        try:
            b = vlib.build_harness(name, ["c20_random.cpp"], libs=("core",), defs=d2)
        except vlib.Infra as e:
            if _tree_build_failure(e) is None:
                raise
            last = _tree_build_failure(e)
            continue
        ctx.extra["harness_variant"] = name
        if name == "c20_random_core":
            for k in failing_scope_probes():
                ctx.reject("C20:%s:does-not-compile" % k,
                           "%s no longer compiles with the well-formed arguments the operation sessions always passed "
                           "(first error of the harness: %s); the records that do not need it are still judged" % (k, first),
                           {"records": [], "build": True})
        o = ctx.extra.setdefault("observations", {}).setdefault("build:full-harness-does-not-compile", {"count": 0, "sample": ""})
        o["count"] += 1
        o["sample"] = "the full harness does not compile: %s; driven without: %s" % (first, left_out)
        return b
    # "If a public API that the statement names no longer compiles with well-formed arguments of a kind the
    # harness used to pass, that is a VIOLATION: the property cannot hold for inputs the code rejects."
    ctx.reject("C20:core:does-not-compile",
               "the core harness (variate / distribution::basic over uniform_int, uniform_real, normal; make_basic, make_variate, "
               "make_uniform_enum(_advanced), make_uniform_indices(_advanced), make_uniform_container(_advanced), the provided "
               "generators - the functions the statement of C20 names, with the argument kinds it always used) does not compile "
               "against the tree under test: %s" % last, {"records": [], "build": True})
    return None


def _tree_build_failure(e):
    """The first error line if the Infra is a compile / link failure of OUR translation unit against the
    tree under test; None if it is anything else (also: a library source of the tree that does not
    compile - such a tree does not build its own tests either)."""
    msg = str(e)
    m = re.match(r"(compile|link) failed: (\S+)", msg)
    if not m or (m.group(1) == "compile" and not os.path.abspath(m.group(2)).startswith(os.path.abspath(vlib.HARNESS))):
        return None
    return next((x.strip() for x in msg.splitlines() if "error" in x), msg.splitlines()[0])[:500]


def group_of(line):
    m = re.match(r'\{"f":"(\w+)"(,"wide":(true|false))?', line)
    f = m.group(1) if m else "?"
    if f == "draw":
        return "draw_wide" if m.group(3) == "true" else "draw"
    return f


def split_groups(ctx, path):
    files, counts, handles = {}, {}, {}
    with open(path, "rb") as f:
        for raw in f:
            line = raw.decode(errors="replace")
            if not line.strip():
                continue
            g = group_of(line)
            k = counts.get(g, 0)
            key = (g, k // PER_CHUNK)
            if key not in handles:
                p = os.path.join(ctx.workdir, "chunk_%s_%d.ndjson" % key)
                handles[key] = open(p, "w")
                files[key] = p
            handles[key].write(line if line.endswith("\n") else line + "\n")
            counts[g] = k + 1
    for h in handles.values():
        h.close()
    return files, counts


def judge_chunks(files):
    def one(it):
        (g, ck), p = it
        r = vlib.tlc("RandomJudge", "RandomJudge.cfg", workers=1, env={"TRACE": p}, timeout=1500,
                     tag="RandomJudge_%s_%d" % (g, ck), xmx="1500m")
        v = vlib._verdict_lines(r.out)
        if "VERDICT" not in v:
            raise vlib.Infra("RandomJudge gave no verdict on %s (rc=%d):\n%s" % (p, r.rc, "\n".join(r.out.splitlines()[-40:])))
        vd = v["VERDICT"][-1]
        return p, vd["bad"], vd["n"], vd["nbad"], r.generated
    return vlib.parallel(one, sorted(files.items()), workers=JUDGES)


def val(x):
    if isinstance(x, dict):
        n = 0
        for d in x["m"]:
            n = n * 256 + d
        return -n if x["s"] else n
    return x


def classes_of(ctx, rec):
    f = rec["f"]
    if f == "draw":
        rng = val(rec["b"]) - val(rec["a"]) + 1
        ctx.count_class((f, rec["R"], rec["via"], min(rng, 18) if rng < 1000 else "huge", len(rec["script"]), len(rec["wv"]), rec["wex"]))
    elif f == "agg":
        ctx.count_class((f, rec["R"], rec["n"] > 0))
    elif f == "container":
        ctx.count_class((f, rec["C"], len(rec["elems"]), len(rec["script"]), len(rec["wv"])))
    elif f in ("engine", "real"):
        ctx.count_class((f, rec["eng"], rec["R"], rec.get("dist")))
    elif f in ("raw", "chrono"):
        ctx.count_class((f, rec["eng"]))
    elif f == "session":
        ops = [o["op"] for o in rec["ops"]]
        before = ops.index("reset") if "reset" in ops else -1
        ctx.count_class((f, rec["dist"], rec["R"], rec["eng"], rec["vp"], before, tuple(sorted(set(ops))), len(ops) < len(rec["opcodes"])))
    else:
        ctx.count_class((f, rec.get("E")))


def function_name(rec, why):
    f = rec["f"]
    if f in ("draw", "agg"):
        return "make_uniform_enum" if rec.get("via") == "make_uniform_enum" else "uniform_int"
    if f == "enum_params":
        return "make_uniform_enum"
    if f == "container":
        return "make_uniform_indices" if all(w.startswith("indices") for w in why) else "uniform_container"
    if f in ("raw", "chrono"):
        return "generator_" + rec["eng"]
    if f == "engine":
        return "variate"
    if f in ("real", "session"):
        return rec["dist"]
    return f


def observe(ctx, rec, why, line):
    """Disagreements outside the statement of the property: counted and sampled in the evidence
    (coverage.observations), never a rejected event."""
    if not why:
        return
    obs = ctx.extra.setdefault("observations", {})
    key = "%s:%s" % (rec.get("dist") or rec["f"], "+".join(sorted(w[4:] for w in why)))
    o = obs.setdefault(key, {"count": 0, "sample": line[:500]})
    o["count"] += 1


def drive(ctx, binary, args_of, path, what, timeout):
    """Run the harness (`args_of(out, skip)` -> argv).  A crash / sanitizer abort / hang of the code under
    test is a verdict (judge_file rejects C20:<function>:<kind> and keeps the complete records); the
    harness is restarted behind the record that died (at most 3 times, once after a hang), so that the
    other parameter sets are still judged.  The parts are concatenated into `path`."""
    skip, hangs, nviol = 0, 0, len(ctx.violations)
    with open(path, "w") as whole:
        for attempt in range(4):
            part = "%s.part%d" % (path, attempt)
            if os.path.exists(part):
                os.unlink(part)
            rc, out = vlib.run_harness(binary, args_of(part, skip), timeout=timeout)
            if not os.path.exists(part):
                open(part, "w").close()
            n = judge_file(ctx, part, what, rc, out, judge=False)
            with open(part) as f:
                for x in f:
                    whole.write(x)
            os.unlink(part)
            if rc == 0:
                break
            kind = {68: "hang", 124: "timeout"}.get(rc)
            hangs += 1 if kind else 0
            if hangs >= 2:
                break
            skip += n + 1      # the complete records of this part and the one that died
    return len(ctx.violations) > nviol


def judge_file(ctx, path, what, rc, out, judge=True):
    lines, tail = vlib.check_trace_file(path)
    if rc != 0:
        kind = {66: "sanitizer", 67: "crash", 68: "hang", 124: "timeout"}.get(rc, "exit%d" % rc)
        # a sanitizer report whose innermost frame is harness code is a harness bug, not a finding
        fr = re.search(r"#0 0x[0-9a-f]+ in [^\n]*? (/\S+?):\d+", out)
        # (only outside a driven call: inside one - a record was begun and not finished - the harness touches
        #  what the code under test returned, e.g. reads through a returned reference; garbage from the
        #  tree must never become an infrastructure failure)
        if rc == 66 and fr and fr.group(1).startswith(vlib.HARNESS) and not tail:
            raise vlib.Infra("sanitizer report inside the harness itself: %s" % out[-1500:])
        if rc == 3:
            raise vlib.Infra("harness failed (rc=%d): %s" % (rc, out[-2000:]))
        m = re.search(r'"f":"(\w+)"', tail or "")
        op = m.group(1) if m else "?"
        fn = "?"
        if tail:
            try:
                fn = function_name(json.loads(tail + "}"), ["crash"])
            except (ValueError, KeyError):
                fn = op
        san = re.search(r"(ERROR: \w+Sanitizer: [^\n]*|runtime error: [^\n]*|Assertion[^\n]*)", out)
        payload = {"records": [], "partial_line": tail}
        if tail:
            try:
                payload["records"] = [json.loads(tail + "}")]
            except ValueError:
                pass
        ctx.reject("C20:%s:%s" % (fn, kind), "%s inside a driven call (%s): %s; partial record: %s" % (
            kind, what, san.group(1) if san else out[-300:], (tail or "")[:400]), payload)
        # the crash handler of the harness appends a {"e":"crash"} line: not a call record
        lines = [l for l in lines if not l.startswith('{"e":"crash"')]
        with open(path, "w") as f:
            f.write("\n".join(lines) + ("\n" if lines else ""))
    nlines = len(lines)
    del lines
    if not judge:
        return nlines
    if nlines == 0:
        if ctx.violations:
            return 0
        raise vlib.Infra("harness produced no records: %s" % out[-1000:])
    files, counts = split_groups(ctx, path)
    res = judge_chunks(files)
    total = 0
    pre = []
    for p, bad, n, nbad, gen in res:
        total += n
        ctx.extra["trace_states"] = ctx.extra.get("trace_states", 0) + gen
        chunk = open(p).read().splitlines()
        for i in range(0, len(chunk), 5):
            classes_of(ctx, json.loads(chunk[i]))
        for b in bad:
            rec = json.loads(chunk[b["l"] - 1])
            if "HARNESS-PRECONDITION" in b["why"] or "unknown-record-kind" in b["why"]:
                pre.append(chunk[b["l"] - 1][:300])
                continue
            observe(ctx, rec, [w for w in b["why"] if w.startswith("obs:")], chunk[b["l"] - 1])
            why = sorted(w for w in b["why"] if not w.startswith("obs:"))
            if not why:
                continue
            fn = function_name(rec, why)
            ctx.reject("C20:%s:%s" % (fn, "+".join(why)),
                       "%s: Random.tla cannot explain %s (%s); %d of %d records of this chunk rejected; record: %s" % (
                           what, fn, ",".join(why), nbad, n, chunk[b["l"] - 1][:700]), {"records": [rec]})
        os.unlink(p)
    if pre and not ctx.violations:
        raise vlib.Infra("harness emitted records outside the generators' preconditions: %s" % pre[:3])
    ctx.evaluations += total
    rp = ctx.extra.setdefault("records_per_group", {})
    for g, c in counts.items():
        rp[g] = rp.get(g, 0) + c
    return total


def model_checks(ctx):
    vlib.tlc_mc(ctx, "MCRandom", "MC_Random.cfg", workers=8, timeout=3000, tag="MCRandom", xmx="2g")

    def guard(g):
        cfg, inv = g
        r = vlib.tlc("MCRandom", cfg, workers=2, timeout=1500, tag="MCRandom_" + cfg, xmx="2g", expect=inv)
        hit = inv in r.invariant_violated or (inv == "LawCursorMonotone" and r.property_violated)
        if not hit:
            raise vlib.Infra("vacuity guard: %s did not violate %s" % (cfg, inv))
        return {"cfg": cfg, "violates": inv}
    vlib.tlc_mc(ctx, "MCRandomState", "MC_RandomState.cfg", workers=6, timeout=3000, tag="MCRandomState", xmx="2g")

    def sguard(g):
        cfg, inv = g
        r = vlib.tlc("MCRandomState", cfg, workers=2, timeout=1500, tag="MCRandomState_" + cfg, xmx="1500m", expect=inv)
        if inv not in r.invariant_violated and not (inv == "LawCopyKeeps" and r.property_violated):
            raise vlib.Infra("vacuity guard: %s did not violate %s" % (cfg, inv))
        return {"cfg": cfg, "violates": inv}
    ctx.extra["vacuity_guards"] = vlib.parallel(guard, GUARDS, workers=5) + vlib.parallel(sguard, STATE_GUARDS, workers=4)


def run(ctx):
    # development aid: VERIF_C20_PHASES=nomc skips the model checks of the specification and the vacuity
    # guards (they do not depend on the tree under test; for mutant trials on a loaded box); never set in a
    # real run
    if os.environ.get("VERIF_C20_PHASES") == "nomc":
        ctx.mc_runs.append({"module": "-", "cfg": "-", "generated": 1, "distinct": 1, "depth": 0, "wall_s": 0, "ok": True,
                            "cmd": "skipped (VERIF_C20_PHASES=nomc)", "simulate": None})
    else:
        model_checks(ctx)
    binary = build(ctx)
    if binary is None:
        ctx.rule = "the core harness does not compile against the tree under test; only the model checks ran"
        ctx.count_class("build-failure")
        return
    tpath = os.path.join(ctx.workdir, "recorded.ndjson")
    drive(ctx, binary, lambda out, skip: ["record", out, ctx.seed, ctx.tier, skip], tpath, "recorded run",
          3000 if ctx.tier == "thorough" else 900)
    judge_file(ctx, tpath, "recorded run", 0, "")
    ctx.traces_validated += ctx.extra.get("records_per_group", {}).get("agg", 0)
    with open(tpath) as f:
        for i, l in enumerate(f):
            if i in (1000, 2000) or (l.startswith('{"f":"container"') and len(ctx.samples) < 3):
                ctx.sample(json.loads(l))
            if len(ctx.samples) >= 3 and i > 2000:
                break
    os.unlink(tpath)
    thorough = ctx.tier == "thorough"
    ctx.exhaustive = False
    ctx.extra.setdefault("observations", {})
    for k, o in ctx.extra["observations"].items():
        print("OBSERVATION (outside the statement, not a verdict): %s x%d e.g. %s" % (k, o["count"], o["sample"][:200]))
    ctx.extra["exhaustive_parts"] = (
        "scripted engine (raw values 0..15), every interval -8 <= a <= b <= 8 over short/int/long, plain and "
        "strong-typedef results, and the type-limit intervals: "
        + ("all scripts of length <= 2 for every result type; all scripts of length <= 3 for every interval (int, long, "
           "strong short) and the selected intervals (others)" if thorough
           else "all scripts of length <= 2 with int results (length <= 3 for the selected interval sizes 1, 2, 15, 16, 17 "
                "and two more); for the other five result types all scripts of length <= 1, every third script of length 2 "
                "(all of them for the 17-value interval)")
        + ", for the enum distributions of size 1..9 and for containers of size 0..6; traces_validated counts parameter "
        "sets whose whole script family was judged (aggregate records)")
    ctx.rule = ("one record per (parameter set, script): runs of the wrapper and of the std:: distribution on identical "
                "scripted engines; a class = (kind, result type, entry point, interval size, script length, number of "
                "values drawn, exhausted?); classes are counted on every 5th record")
    ctx.assumptions += [
        "the wrapped standard distribution (libstdc++ of g++ 12) is the reference by the wording of the property; its algorithm is not specified, its logged runs are",
        "engine seam: a scripted URBG with min()=0, max()=15 that throws when exhausted stands for 'every seed'; the provided engines minstd_rand / mt19937 are compared with their std:: pairs on a seed sample only",
        "real-valued distributions (uniform_real, normal): transparency (bit patterns) on the provided engines only; bounds are not stated for them",
        "basic::param(), basic::operator()(Rng&, param_type const&) and the operation sessions (reset, param, min/max, ==, <<) are driven only if a probe using them compiles (they did not before commit a504ed0); coverage.param_api_driven says whether they were",
        "basic's operator>> cannot be instantiated (its friend declaration does not match the defined operator) and is not driven; reported in docs/notes_C20.md",
        "memory errors inside the driven calls are only OBSERVED via ASan/UBSan and libstdc++ assertions",
    ]


def replay(ctx, payload):
    binary = build(ctx)
    if binary is None:
        return
    recs = payload["payload"].get("records", [])
    if payload["payload"].get("build"):
        ctx.traces_validated += 1
        ctx.evaluations += 1
        ctx.rule = "replay of a build verdict: the harness compiles now"
        return
    if not recs:
        raise vlib.Infra("nothing to replay: %s" % payload["payload"].get("partial_line"))
    spath = os.path.join(ctx.workdir, "replay_in.ndjson")
    vlib.write_ndjson(spath, recs)
    rpath = os.path.join(ctx.workdir, "replay_out.ndjson")
    rc, out = vlib.run_harness(binary, ["replay", spath, rpath], timeout=600)
    judge_file(ctx, rpath, "replay", rc, out)
    ctx.traces_validated += 1
    ctx.rule = "replay of the inputs of one saved record"
