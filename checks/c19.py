"""C19 - fcppt::log levels follow "latest setting on a prefix wins", also under concurrent use.

1. TLC model-checks spec/LogContext.tla (all histories of set / object creation over a small
   tree; ghost `sets`; invariants LatestPrefixWins, GetLaw, EnabledLaw, LogLaw, ...) and
   spec/LogContextConc.tla (threads with program counters, the mutex, node-by-node pre-order
   update, lock-free reads: mutual exclusion, refinement of the sequential spec at
   linearisation points, the weak reading for lock-free reads).  Vacuity guards: with a defect
   constant switched on TLC must find the counterexample; the strong joint reading of lock-free
   reads must be refuted (it is false by design and not claimed).
2. spec -> code: TLC emits one operation script per generated transition of a small model; the
   harness replays them on the real fcppt::log::context / object.
3. code -> spec: the harness records random sequential histories (<= 60 calls, locations of depth
   <= 3 over three names, six ostringstream sinks) with the full state read back after each call.
   spec/LogTrace.tla (TSpec) judges every event.
4. The threaded driver (2-6 threads on one context, begin/end events stamped with a global atomic
   sequence number, rendez-vous every <= 6 calls with the state read back) is run
   (a) built with ASan/UBSan: LogTrace.tla (CSpec) searches a linearisation of every window;
   (b) built with ThreadSanitizer: a TSan report becomes the rejected event C19:<op>:tsan.
   ABSENCE OF DATA RACES IS NOT DECIDED BY THE TLA+ SPECIFICATION; it is observed by TSan on
   the schedules that happened to run.
A rejected concurrent history is reported only if a second TLC run on the saved history rejects
it again."""
import concurrent.futures
import json
import os
import re
import time

import vlib

LEVEL = "model_checking"
DEFS = ("ENABLE_THREADS",)          # libs/log/CMakeLists.txt: default ON; without it the mutex is a no-op
TSAN_DEFS = ("ENABLE_THREADS", "C19_TSAN")
OPF = ("op", "loc", "l", "o", "kind", "par", "name", "fmt", "msg")


def _tree_build_failure(e):
    """The first error line if the Infra is a compile / link failure of OUR translation unit against the
    tree under test (a verdict about the tree); None if it is anything else (also: a library source of
    the tree itself that does not compile - such a tree does not build its own tests either)."""
    msg = str(e)
    m = re.match(r"(compile|link) failed: (\S+)", msg)
    if not m or (m.group(1) == "compile" and not os.path.abspath(m.group(2)).startswith(os.path.abspath(vlib.HARNESS))):
        return None
    return next((x.strip() for x in msg.splitlines() if "error" in x), msg.splitlines()[0])[:500]


def build(san="asan", ctx=None):
    """The harness; if it does not compile against the tree under test, the CORE harness (-DC19_CORE_ONLY:
    only context::set/get, the object constructors, level, enabled, log - what the statement names; no
    call records, accessors, FCPPT_LOG_* macros).  Core builds -> the observed-only part is an
    OBSERVATION and the in-scope part is judged; core does not build either -> VIOLATION
    C19:core:does-not-compile ("the property cannot hold for inputs the code rejects"), returns None."""
    defs = TSAN_DEFS if san == "tsan" else DEFS
    try:
        return vlib.build_harness("c19_log", ["c19_log.cpp"], libs=("core", "log"), san=san, defs=defs)
    except vlib.Infra as e:
        first = _tree_build_failure(e)
        if first is None or ctx is None:
            raise
    vlib.log("the full harness does not compile against this tree (%s): building the core harness" % first)
    try:
        b = vlib.build_harness("c19_log_core", ["c19_log.cpp"], libs=("core", "log"), san=san, defs=defs + ("C19_CORE_ONLY",))
    except vlib.Infra as e:
        f2 = _tree_build_failure(e)
        if f2 is None:
            raise
        if not ctx.extra.get("core_build_failed"):
            ctx.extra["core_build_failed"] = f2
            ctx.reject("C19:core:does-not-compile",
                       "the core harness (only context::set / context::get / the three fcppt::log::object constructors / "
                       "object::level / enabled / log with well-formed arguments, as named by the statement of C19) does "
                       "not compile against the tree under test: %s" % f2, {"build": True, "san": san})
        return None
    if not ctx.extra.get("full_build_failed"):
        ctx.extra["full_build_failed"] = first
        observe(ctx, "build", ["observed-only-part-does-not-compile"], "harness build (%s)" % san,
                "the full harness (call records of level names / default streams / formatter functions / level_stream / "
                "parameters, object accessors, FCPPT_LOG_* macros: outside the statement) does not compile: %s; the "
                "in-scope histories are driven with the core harness" % first)
    return b


# ----------------------------------------------------------------------------- sequential judge


def script_of(hist_lines):
    ops = []
    for x in hist_lines:
        try:
            e = json.loads(x)
        except ValueError:
            continue
        if e.get("e") == "reset":
            ops.append({"op": "reset", "loc": [], "l": e["root"], "o": 0, "kind": "", "par": 0, "name": [],
                        "fmt": [], "msg": [], "lf": e["lf"]})
        elif e.get("e") == "op":
            ops.append({k: e[k] for k in OPF})
    return ops


def san_summary(out):
    m = re.search(r"(ERROR: \w+Sanitizer: [^\n]*|WARNING: ThreadSanitizer: [^\n]*|runtime error: [^\n]*)", out)
    return m.group(1) if m else out[-300:]


def observe(ctx, op, reasons, what, line):
    """OBSERVED ONLY: behaviour outside the statement of C19 (level names, default streams, formatter
    functions, level_stream sinks, parameters, accessors, macro laziness).  The judge disagrees with
    the recorded event, but this is never a rejected event / VIOLATION: it is counted and written to
    the evidence (coverage.observations) and reported in docs/notes_C19.md."""
    sig = "C19:%s:%s(observed-only)" % (op, "+".join(reasons))
    counts = ctx.extra.setdefault("observation_counts", {})
    counts[sig] = counts.get(sig, 0) + 1
    obs = ctx.extra.setdefault("observations", [])
    if counts[sig] <= 3 and len(obs) < 60:
        obs.append({"signature": sig, "from": what, "event": line[:600],
                    "note": "outside the statement of property C19: observation, not a verdict"})
        vlib.log("OBSERVED (outside the statement of C19, no verdict): %s: %s" % (sig, line[:200]))
    if counts[sig] == 1:
        print("OBSERVATION property=C19 (outside the statement, not a violation) %s: %s" % (sig, line[:300]))


def judge_trace_small(ctx, path, max_lines=6000, workers=8):
    """Like vlib.judge_trace, but with chunks of <= max_lines lines (cut at history boundaries), a 2 GB
    heap per TLC process and at most `workers` processes at a time: the read-back makes C19 events
    large, and 16 TLC processes with 6 GB heaps each were killed by the OOM killer on a busy box."""
    lines = open(path).read().splitlines()
    chunks = []
    cur, start = [], 0
    for i, x in enumerate(lines):
        if len(cur) >= max_lines and x.startswith('{"e":"reset"'):
            chunks.append((start, cur))
            cur, start = [], i
        cur.append(x)
    if cur:
        chunks.append((start, cur))

    def one(k):
        first, ls = chunks[k]
        p = "%s.j%d" % (path, k)
        with open(p, "w") as f:
            f.write("\n".join(ls) + "\n")
        try:
            r = vlib.tlc("LogTrace", "LogTrace.cfg", workers=1, env={"TRACE": p}, timeout=1800, xmx="2g", tag="LogTrace_j")
        finally:
            os.unlink(p)
        v = vlib._verdict_lines(r.out)
        bad = []
        if "VERDICT" in v:
            for b in v["VERDICT"][-1]["bad"]:
                b = dict(b)
                b["l"] += first
                bad.append(b)
        elif "STUCK" in v:
            bad.append({"l": int(v["STUCK"][-1]) + first, "op": "?", "why": ["no-action-explains-event"]})
        else:
            raise vlib.Infra("trace judge gave no verdict on chunk %d of %s:\n%s" % (k, path, "\n".join(r.out.splitlines()[-40:])))
        return bad, r.generated
    res = vlib.parallel(one, list(range(len(chunks))), workers=workers)
    bad = []
    for b, g in res:
        bad += b
        ctx.extra["trace_states"] = ctx.extra.get("trace_states", 0) + g
    return sorted(bad, key=lambda b: b["l"])


RC_KIND = {66: "sanitizer", 67: "crash", 68: "hang", 124: "timeout"}
MAX_RESTARTS = 3


def drive_seq(ctx, binary, args_of, path, what, timeout):
    """Run the sequential harness (`args_of(first, recs, out)` -> argv).  A crash / sanitizer abort / hang
    of the code under test is a verdict (in scope: rejected event C19:<op>:<kind>; inside an observed-only
    call record: OBSERVATION), never an infrastructure failure; the complete prefix of the trace is kept
    and the harness is restarted behind the history that died (at most MAX_RESTARTS times), so that the
    other histories are still judged.  Writes the concatenated complete lines to `path`."""
    all_lines = []
    first, recs, hangs = 0, 1, 0
    for attempt in range(MAX_RESTARTS + 1):
        part = "%s.part%d" % (path, attempt)
        if os.path.exists(part):
            os.unlink(part)
        rc, out = vlib.run_harness(binary, args_of(first, recs, part), timeout=timeout)
        lines, tail = vlib.check_trace_file(part) if os.path.exists(part) else ([], None)
        if os.path.exists(part):
            os.unlink(part)
        lines = [x for x in lines if not x.startswith('{"e":"crash"')]
        if rc == 0:
            all_lines += lines
            break
        if rc == 3:
            raise vlib.Infra("harness usage error (%s): %s" % (what, out[-300:]))
        kind = RC_KIND.get(rc, "crash" if rc < 0 else "exit%d" % rc)       # rc < 0: killed by a signal (e.g. stack overflow)
        tail = tail or ""
        m = re.search(r'"op":"(\w+)"', tail)
        mf = re.search(r'^\{"e":"rec","f":"(\w+)"', tail)
        last_h = None
        for x in reversed(lines):
            if x.startswith('{"e":"reset"'):
                last_h = json.loads(x)["h"]
                break
        if mf and mf.group(1) != "dlog":
            # an independent call record of something the statement does not mention
            observe(ctx, mf.group(1), [kind], what, "%s inside the call record %s: %s" % (kind, tail[:200], san_summary(out)))
            recs = 0
            all_lines += lines
            first = first if last_h is None else last_h + 1
            continue
        op = m.group(1) if m else (mf.group(1) if mf else "?")
        if op == "?" and not tail:
            op = "teardown" if lines else "startup"      # died between two records: context / object destruction or construction
        hist = vlib.history_of(lines, len(lines)) if lines else []
        script = script_of(hist)
        if tail.startswith('{"e":"op"'):
            try:
                script.append({k: v for k, v in json.loads(tail + "}").items() if k in OPF})
            except ValueError:
                pass
        ctx.reject("C19:%s:%s" % (op, kind), "%s during %s (%s): %s" % (kind, op, what, san_summary(out)),
                   {"script": script, "partial_line": tail})
        all_lines += lines
        first = (first + (0 if mf else 1)) if last_h is None else last_h + 1
        if mf:
            recs = 0
        if kind in ("hang", "timeout"):
            hangs += 1
            if hangs >= 2:       # every hang costs the watchdog time: one restart only
                break
    else:
        vlib.log("%s: the harness died %d times; the histories behind the last crash are not driven" % (what, MAX_RESTARTS + 1))
        ctx.extra["histories_not_driven_after_crashes"] = ctx.extra.get("histories_not_driven_after_crashes", 0) + 1
    with open(path, "w") as f:
        f.write("\n".join(all_lines) + ("\n" if all_lines else ""))
    return all_lines


def judge_seq(ctx, path, what, record_args=None):
    lines, _ = vlib.check_trace_file(path)
    # an undocumented exception out of a driven call (or out of the read-back after it): the harness logs
    # "exc" instead of results and abandons the history
    kept = []
    for x in lines:
        if x.startswith('{"e":"op"') and '"exc":"' in x:
            try:
                ev = json.loads(x)
            except ValueError:
                continue
            hist = vlib.history_of(kept, len(kept)) if kept else []
            ctx.reject("C19:%s:exception" % ev.get("op", "?"),
                       "%s: %s threw %s (no exception is documented for set / get / object creation / level / enabled / log)" % (
                           what, ev.get("op", "?"), str(ev.get("exc"))[:200]),
                       {"script": script_of(hist) + [{k: ev[k] for k in OPF if k in ev}], "event": ev})
            continue
        kept.append(x)
    if len(kept) != len(lines):
        lines = kept
        with open(path, "w") as f:
            f.write("\n".join(lines) + ("\n" if lines else ""))
    if not lines:
        return []
    bad = judge_trace_small(ctx, path)
    ctx.evaluations += len(lines)
    ctx.c19_flagged = set(b["l"] for b in bad)       # lines the judge disagreed with (verdict or observation)
    for b in bad:
        why, obs = sorted(b.get("why", [])), sorted(b.get("obs", []))
        if "HARNESS-PRECONDITION" in why or b["op"] == "?":
            raise vlib.Infra("harness emitted an event outside the driver preconditions / unknown to the judge at "
                             "line %d of %s" % (b["l"], path))
        if obs:
            observe(ctx, b["op"], obs, what, lines[b["l"] - 1])
        if not why:
            continue
        hist = vlib.history_of(lines, b["l"])
        ev = json.loads(lines[b["l"] - 1])
        payload = {"script": script_of(hist), "event": ev}
        if ev.get("e") == "rec":
            payload = {"record": record_args, "event": ev}
        ctx.reject("C19:%s:%s" % (b["op"], "+".join(why)),
                   "%s: spec cannot explain %s (%s); event: %s" % (what, b["op"], ",".join(why), lines[b["l"] - 1][:500]),
                   payload)
    return lines


def none_seen(ctx, key):
    d = ctx.extra.setdefault("none_coverage", {})
    d[key] = d.get(key, 0) + 1


NONE_REQUIRED = (["context-constructed-disabled", "get-none", "level-on-disabled"] +
                 ["set-none-depth%d" % d for d in range(4)] +
                 ["enabled-on-disabled-l%d" % l for l in range(6)] + ["log-on-disabled-l5", "logm-on-disabled-l5"] +
                 ["create-below-disabled-%s" % k for k in ("ctx", "loc", "parent")])


def count_seq(ctx, lines):
    for x in lines:
        e = json.loads(x)
        if e.get("e") == "rec":
            f = e["f"]
            ctx.count_class(("rec", f, e.get("l", -1), e.get("has", None), e.get("ok", None), len(e.get("steps", []))))
            ctx.extra.setdefault("record_counts", {})[f] = ctx.extra.setdefault("record_counts", {}).get(f, 0) + 1
            continue
        if e.get("e") == "reset" and e.get("root") == 6:
            none_seen(ctx, "context-constructed-disabled")
        if e.get("e") != "op":
            continue
        op = e["op"]
        # the optional level "none" (6): where it was set, and what was observed on a disabled node
        if op == "set" and e["l"] == 6:
            none_seen(ctx, "set-none-depth%d" % len(e["loc"]))
        elif op == "get" and e["ret"] == 6:
            none_seen(ctx, "get-none")
        elif op in ("level", "enabled", "log", "logm") and 0 < e["o"] <= len(e["ol"]) and e["ol"][e["o"] - 1] == 6:
            none_seen(ctx, "%s-on-disabled%s" % (op, "" if op == "level" else "-l%d" % e["l"]))
        elif op == "create" and 0 < e["o"] <= len(e["ol"]) and e["ol"][e["o"] - 1] == 6:
            none_seen(ctx, "create-below-disabled-%s" % e["kind"])
        if op in ("set", "get"):
            ctx.count_class((op, len(e["loc"]), e["l"] if op == "set" else e["ret"]))
        elif op == "create":
            ctx.count_class((op, e["kind"], len(e["loc"]), bool(e["fmt"])))
        elif op in ("log", "logm"):
            ctx.count_class((op, e["l"], any(e["out"])))
        else:
            ctx.count_class((op, e["l"], e["rb"], e["ret"]))


# ----------------------------------------------------------------------------- concurrent judge


def tlc_conc(path):
    r = vlib.tlc("LogTrace", "LogTraceConc.cfg", workers=1, dfs=True, env={"TRACE": path}, timeout=1500,
                 tag="LogTrace_c", xmx="2g")
    v = vlib._verdict_lines(r.out)
    if "STUCK" in v:
        return int(v["STUCK"][-1]), r
    if "VERDICT" in v:
        return 0, r
    raise vlib.Infra("concurrent judge gave no verdict on %s:\n%s" % (path, "\n".join(r.out.splitlines()[-40:])))


def split_runs(lines):
    runs = []
    for x in lines:
        if x.startswith('{"e":"crash"'):
            continue
        if x.startswith('{"e":"cstart"'):
            runs.append([])
        if not runs:
            continue        # (cannot happen: every part of the file starts with a cstart record)
        runs[-1].append(x)
    return runs


def judge_conc(ctx, path, what, extra_payload):
    """Linearisation search per run; returns (events judged, windows judged)."""
    lines, tail = vlib.check_trace_file(path)
    if not lines:
        return 0, 0
    runs = split_runs(lines)
    if not runs:
        return 0, 0
    nch = max(1, min(8, len(runs)))
    groups = [runs[i::nch] for i in range(nch)]
    states = [0]
    skipped = [0]

    def one(gi):
        rejected = []
        todo = list(groups[gi])
        k = 0
        while todo:
            k += 1
            p = "%s.c%d_%d" % (path, gi, k)
            with open(p, "w") as f:
                for r_ in todo:
                    f.write("\n".join(r_) + "\n")
            stuck, res = tlc_conc(p)
            states[0] += res.distinct
            os.unlink(p)
            if not stuck:
                break
            # locate the run containing the stuck line
            n = 0
            for ri, r_ in enumerate(todo):
                if stuck <= n + len(r_):
                    at = stuck - n            # 1-based inside the run
                    break
                n += len(r_)
            else:
                raise vlib.Infra("stuck line %d outside chunk" % stuck)
            run = todo[ri]
            ev = json.loads(run[at - 1])
            if ev["e"] == "b":
                raise vlib.Infra("threaded driver emitted a call outside the driver preconditions: %s" % run[at - 1][:300])
            end = at
            while end < len(run) and not run[end - 1].startswith('{"e":"q"'):
                end += 1
            rejected.append((run[:end], at, ev))
            todo = todo[ri + 1:]
            if len(rejected) >= 3 and todo:
                # a tree that breaks the property in (nearly) every run: three rejected runs per judge
                # process are evidence enough, the verdict must not be delayed by a TLC start per run
                skipped[0] += len(todo)
                break
        return rejected

    results = vlib.parallel(one, list(range(nch)))
    ctx.extra["linearisation_search_states"] = ctx.extra.get("linearisation_search_states", 0) + states[0]
    if skipped[0]:
        ctx.extra["conc_runs_not_judged_after_3_rejections_per_group"] = ctx.extra.get("conc_runs_not_judged_after_3_rejections_per_group", 0) + skipped[0]
    nrej = 0
    for rej in results:
        for hist, at, ev in rej:
            nrej += 1
            if nrej > 8:
                break
            # second opinion: the saved history on its own must be rejected again
            hp = os.path.join(ctx.workdir, "conc_history_%d_%d.ndjson" % (os.getpid(), nrej))
            with open(hp, "w") as f:
                f.write("\n".join(hist) + "\n")
            stuck2, _ = tlc_conc(hp)
            if not stuck2:
                vlib.log("concurrent rejection at %s did not repeat on the saved history; not reported" % hp)
                ctx.extra["unrepeated_concurrent_rejections"] = ctx.extra.get("unrepeated_concurrent_rejections", 0) + 1
                continue
            ev2 = json.loads(hist[stuck2 - 1])
            if ev2["e"] == "q":
                sig, txt = "C19:quiescent:not-linearizable", "the state read back at a quiescent point is not the result of any linearisation of the calls of the window"
            elif ev2.get("op") in ("level", "enabled"):
                sig, txt = "C19:%s:lock-free-read-inexplicable" % ev2["op"], "a lock-free read returned a level its node cannot have held between call and return"
            else:
                sig, txt = "C19:%s:not-linearizable" % ev2.get("op", "?"), "no linearisation point between call and return explains the call"
            payload = {"history": hist, "stuck_line": stuck2}
            payload.update(extra_payload)
            ctx.reject(sig, "%s: %s; event (line %d of the saved history): %s" % (what, txt, stuck2, hist[stuck2 - 1][:300]), payload)
    nq = sum(1 for x in lines if x.startswith('{"e":"q"')) - len(runs)
    ctx.evaluations += len(lines)
    return len(lines), nq


def count_conc(ctx, lines):
    pend = {}
    for x in lines:
        e = json.loads(x)
        if e["e"] == "b":
            if e["op"] == "set" and e["l"] == 6:
                none_seen(ctx, "threaded-set-none-depth%d" % len(e["loc"]))
            elif e["op"] == "get" and e["r"] == 6:
                none_seen(ctx, "threaded-get-none")
            elif e["op"] == "level" and e["r"] == 6:
                none_seen(ctx, "threaded-level-none")
            elif e["op"] == "enabled" and e["l"] == 5 and not e["rb"]:
                none_seen(ctx, "threaded-enabled-fatal-false")
            ctx.count_class(("conc", e["op"], min(len(pend), 3), len(e["loc"])))
            pend[e["t"]] = 1
        elif e["e"] == "e":
            pend.pop(e["t"], None)
        elif e["e"] == "cstart":
            pend = {}
            ctx.count_class(("conc-threads", e["nt"]))


def sanitizer_ops(out):
    """public fcppt::log entry points named in a sanitizer report"""
    ops = set(re.findall(r"fcppt::log::(?:context|object)::(\w+)\(", out))
    ops.discard("context")
    ops.discard("impl")
    return "+".join(sorted(ops)) if ops else "threads"


def pending_ops(out):
    """the public calls the threads were inside when the process died (harness: C19-PENDING-CALLS)"""
    m = re.findall(r"C19-PENDING-CALLS((?: \w+)*)", out)
    ops = set(m[-1].split()) if m else set()
    return "+".join(sorted(ops)) if ops else None


def run_threaded(ctx, binary, san, seed, runs, windows, maxcalls, tag):
    """A crash / sanitizer report / hang (watchdog of the harness: rc 68; ours: 124) is a rejected event
    naming the calls involved; the complete windows logged before it are still judged, and the ASan
    build is restarted behind the run that died (at most twice)."""
    path = os.path.join(ctx.workdir, "threads_%s_%s.ndjson" % (san, tag))
    info = {"san": san, "args": [str(a) for a in (seed, runs, windows, maxcalls)]}
    timeout = 3000 if ctx.tier == "thorough" else 420
    first, rc_all, all_lines = 0, 0, []
    for attempt in range(3):
        part = "%s.part%d" % (path, attempt)
        if os.path.exists(part):
            os.unlink(part)
        rc, out = vlib.run_harness(binary, ["threads", part, seed, runs, windows, maxcalls, first], timeout=timeout)
        lines, _ = vlib.check_trace_file(part) if os.path.exists(part) else ([], None)
        if os.path.exists(part):
            os.unlink(part)
        all_lines += [x for x in lines if not x.startswith('{"e":"crash"')]
        if rc == 0:
            break
        if rc == 3:
            raise vlib.Infra("threaded harness usage error: %s" % out[-300:])
        rc_all = rc
        kind = "tsan" if "ThreadSanitizer" in out else RC_KIND.get(rc, "crash" if rc < 0 else "exit%d" % rc)
        ops = pending_ops(out) if kind != "tsan" else None
        ctx.reject("C19:%s:%s" % (ops or sanitizer_ops(out), kind),
                   "threaded driver (%s build, seed %s): %s" % (san, seed, san_summary(out)),
                   dict(info, threads=True, report=out[:6000]))
        last_run = None
        for x in reversed(lines):
            if x.startswith('{"e":"cstart"'):
                last_run = json.loads(x)["run"]
                break
        first = first + 1 if last_run is None else last_run + 1
        if san == "tsan" or first >= int(runs) or (kind in ("hang", "timeout") and attempt >= 1):
            break
    with open(path, "w") as f:
        f.write("\n".join(all_lines) + ("\n" if all_lines else ""))
    return path, rc_all, info


# ----------------------------------------------------------------------------- vacuity guards


def expect_violations(ctx, guards):
    """Each (module, cfg, invariant, meaning): TLC must find a counterexample to the invariant."""
    def one(g):
        module, cfg, inv, why = g
        r = vlib.tlc(module, cfg, workers=2, timeout=900, expect=inv)
        return g, r
    for (module, cfg, inv, why), r in vlib.parallel(one, guards, workers=max(1, min(len(guards), vlib.NCPU))):
        if inv not in r.invariant_violated:
            raise vlib.Infra("vacuity guard: %s/%s did not violate %s" % (module, cfg, inv))
        ctx.extra.setdefault("vacuity_guards", []).append({"cfg": cfg, "violates": inv, "states": r.distinct, "meaning": why})


def judge_guards(ctx, seq_lines, conc_lines):
    """The judges themselves must be able to disagree: for every kind of reason a copy of an accepted
    trace with ONE recorded field corrupted must be rejected with that reason (in scope: `why`,
    observed only: `obs`)."""
    flagged = getattr(ctx, "c19_flagged", set())

    def first(pred):
        for i, x in enumerate(seq_lines):
            if pred(x) and (i + 1) not in flagged:      # only events the judge accepted are corrupted
                try:
                    e = json.loads(x)
                except ValueError:
                    continue
                return i, e
        return None, None

    def bump(cps):
        return [cps[0] + 1] + cps[1:] if cps else [33]

    def c_lv(e): e["lv"][0] = 9
    def c_ret(e): e["ret"] = 9
    def c_rb(e): e["rb"] = not e["rb"]
    def c_out_drop(e): e["out"] = [[]] * 6
    def c_out_text(e):
        e["out"] = [bump(o) if o else o for o in e["out"]]
    def c_out_route(e): e["out"] = e["out"][1:] + e["out"][:1]
    def c_ev(e): e["ev"] = 1
    def c_si(e): e["si"] = (e["si"] + 1) % 6
    def c_ft(e): e["ft"] = bump(e["ft"])
    def c_lss(e): e["lss"] = False
    def c_dlog_text(e):
        if e["clog"]:
            e["clog"] = bump(e["clog"])
        else:
            e["cerr"] = bump(e["cerr"])
    def c_dlog_route(e): e["clog"], e["cerr"] = e["cerr"], e["clog"]
    def c_r(e): e["r"] = bump(e["r"])
    def c_s(e): e["s"] = bump(e["s"])
    def c_from(e): e["r"] = (e["r"] + 1) % 7
    def c_which(e): e["which"] = 1 - e["which"] if e["which"] < 2 else 0
    def c_res(e): e["res"][0]["k"] = e["res"][0]["k"] + 1
    def c_rname(e): e["rname"] = bump(e["rname"])
    def c_ok(e): e["ok"] = not e["ok"]
    def c_ts(e): e["r"] = list(e["t"])      # the stamp dropped

    cases = [   # (field, predicate on the line, corruption, expected reason)
        ("why", lambda x: '"op":"set"' in x, c_lv, "levels"),
        ("why", lambda x: '"op":"get"' in x, c_ret, "returned-level"),
        ("why", lambda x: '"op":"enabled"' in x, c_rb, "enabled-decision"),
        ("why", lambda x: '"op":"log"' in x and '"out":[[],[],[],[],[],[]]' not in x, c_out_drop, "emitted-iff-enabled"),
        ("why", lambda x: '"op":"log"' in x and '"out":[[],[],[],[],[],[]]' not in x, c_out_text, "text"),
        ("why", lambda x: '"f":"dlog"' in x and ('"clog":[]' not in x or '"cerr":[]' not in x), c_dlog_text, "default-log"),
        ("obs", lambda x: '"f":"dlog"' in x and ('"clog":[]' not in x or '"cerr":[]' not in x), c_dlog_route, "default-log-routing"),
        ("obs", lambda x: '"op":"log"' in x and '"out":[[],[],[],[],[],[]]' not in x, c_out_route, "level-sink-routing"),
        ("obs", lambda x: '"op":"logm"' in x and '"ev":0' in x, c_ev, "macro-laziness"),
        ("obs", lambda x: '"op":"acc"' in x, c_si, "accessor-level-sink"),
        ("obs", lambda x: '"op":"acc"' in x, c_ft, "accessor-formatter"),
        ("obs", lambda x: '"op":"acc"' in x, c_lss, "accessor-level-streams"),
        ("obs", lambda x: '"f":"to_string"' in x, c_s, "level-name"),
        ("obs", lambda x: '"f":"from_string"' in x, c_from, "level-from-name"),
        ("obs", lambda x: '"f":"input"' in x and '"ok":true' in x, c_ok, "level-input"),
        ("obs", lambda x: '"f":"default_stream"' in x, c_which, "default-stream"),
        ("obs", lambda x: '"f":"dls"' in x, c_which, "default-level-streams"),
        ("obs", lambda x: '"f":"chain"' in x and '"has":true' in x, c_r, "format-chain"),
        ("obs", lambda x: '"f":"fmt"' in x, c_r, "format-function"),
        ("obs", lambda x: '"f":"time_stamp"' in x, c_ts, "time-stamp"),
        ("obs", lambda x: '"f":"params"' in x, c_rname, "parameters"),
        ("obs", lambda x: '"f":"level_stream"' in x, c_res, "level-stream-sink"),
    ]

    def one(k):
        field, pred, corrupt, reason = cases[k]
        i, e = first(pred)
        if e is None:
            return reason, None
        corrupt(e)
        hist = vlib.history_of(seq_lines, i + 1)
        if not hist[0].startswith('{"e":"reset"'):      # a record before the first history: judged on its own
            hist = [hist[-1]]
        p = os.path.join(ctx.workdir, "guard_seq_%d.ndjson" % k)
        with open(p, "w") as f:
            f.write("\n".join(hist[:-1] + [json.dumps(e, separators=(",", ":"))]) + "\n")
        r = vlib.tlc("LogTrace", "LogTrace.cfg", workers=1, env={"TRACE": p}, xmx="1g", tag="LogTrace_g")
        os.unlink(p)
        v = vlib._verdict_lines(r.out).get("VERDICT", [])
        ok = bool(v) and bool(v[-1]["bad"]) and reason in v[-1]["bad"][-1].get(field, [])
        return reason, ok

    res = vlib.parallel(one, list(range(len(cases))), workers=8)
    failed = [r for r, ok in res if ok is False]
    if failed:
        raise vlib.Infra("judge vacuity guard: corrupted sequential traces were accepted for %s" % failed)
    nconc = 0
    # concurrent: first run, alter the result of one get
    run = split_runs(conc_lines)[0]
    idx = [i for i, x in enumerate(run) if x.startswith('{"e":"b"') and '"op":"get"' in x]
    if idx:
        i = idx[len(idx) // 2]
        e = json.loads(run[i])
        e["r"] = 9         # not a level at all: no linearisation can explain it
        p = os.path.join(ctx.workdir, "guard_conc.ndjson")
        with open(p, "w") as f:
            f.write("\n".join(run[:i] + [json.dumps(e, separators=(",", ":"))] + run[i + 1:]) + "\n")
        stuck, _ = tlc_conc(p)
        if not stuck:
            raise vlib.Infra("judge vacuity guard: a corrupted concurrent history was accepted")
        nconc = 1
    ctx.extra.setdefault("vacuity_guards", []).append(
        {"judge": "LogTrace", "corrupted_fields_rejected": [r for r, ok in res if ok], "not_exercised": [r for r, ok in res if ok is None],
         "corrupted_concurrent_histories_rejected": nconc})


# ----------------------------------------------------------------------------- main


def run(ctx):
    thorough = ctx.tier == "thorough"
    # development aid: VERIF_C19_PHASES=seq skips the model checking and the threaded phases (used to
    # triage mutants of sequential-only features quickly); never set in a real run
    only_seq = os.environ.get("VERIF_C19_PHASES") == "seq"
    if only_seq:
        return run_seq_only(ctx)
    t0 = [time.time()]
    timing = ctx.extra.setdefault("phase_wall_s", {})

    def phase(name):
        now = time.time()
        timing[name] = round(now - t0[0], 1)
        vlib.log("phase %s: %.1fs" % (name, now - t0[0]))
        t0[0] = now
    pool = concurrent.futures.ThreadPoolExecutor(max_workers=1)
    builds = pool.submit(lambda: (build("asan", ctx), build("tsan", ctx)))     # compile while TLC explores

    # 1. the specifications themselves (thorough: the small configurations with -coverage, every action
    #    must have been taken; the larger configurations without it - coverage mode is several times slower)
    # development aid: VERIF_C19_PHASES=nomc skips the model checks of the specification and the vacuity
    # guards (they do not depend on the tree under test; used for mutant trials on a loaded box, where the
    # shared VERIF_MC_CACHE is invalidated whenever anybody edits a file in spec/); never set in a real run
    nomc = os.environ.get("VERIF_C19_PHASES") == "nomc"
    for mod, cfg in (() if nomc else (("LogFormatMC", "MC_LogFormat.cfg"), ("LogFormatMC", "MC_LogFormatLs.cfg"))):
        vlib.tlc_mc(ctx, mod, cfg, workers=2)
    for mod, cfg in (() if nomc else (("LogContext", "MC_LogContext.cfg"), ("LogContextConc", "MC_LogContextConc.cfg"))):
        r = vlib.tlc_mc(ctx, mod, cfg, workers=8, coverage=thorough, timeout=1800)
        if thorough:
            cov = r.coverage()
            dead = sorted(a for a, (taken, _) in cov.items() if taken == 0 and a not in ("Init", "CInit", "AObserve"))   # observers are quantified inside the invariants (GenObservers = FALSE)
            if dead or not cov:
                raise vlib.Infra("coverage: actions never taken in %s: %s" % (cfg, dead))
            ctx.extra.setdefault("action_coverage", {})[cfg] = {a: t for a, (t, _) in cov.items()}
    if thorough:
        for mod, cfg in (("LogContext", "MC_LogContext_d3.cfg"),
                         ("LogContextConc", "MC_LogContextConc_big.cfg"), ("LogContextConc", "MC_LogContextConc_3t.cfg"),
                         ("LogContextConc", "MC_LogContextConc_3t211.cfg")):
            vlib.tlc_mc(ctx, mod, cfg, timeout=3000)
    phase("model-checking")
    expect_violations(ctx, [] if nomc else [
        ("LogContext", "MC_LogContext_setbug.cfg", "LatestPrefixWins", "set updates only the node, not the sub-tree"),
        ("LogContext", "MC_LogContext_inheritbug.cfg", "LatestPrefixWins", "new children inherit the root node's level"),
        ("LogContextConc", "MC_LogContextConc_droplock.cfg", "MutualExclusion", "find_child without the lock_guard"),
        ("LogContextConc", "MC_LogContextConc_droplock_lpw.cfg", "LPWWhenFree",
         "find_child without the lock_guard: a child created during a set keeps the old level"),
        ("LogContextConc", "MC_LogContextConc_cached.cfg", "LockFreeReadOK", "object::level returns the level cached at creation"),
        ("LogContextConc", "MC_LogContextConc_droplock_born.cfg", "NewChildLevelOK",
         "find_child without the lock_guard: a new child gets a level LatestPrefixWins does not assign"),
        ("LogContextConc", "MC_LogContextConc_stale.cfg", "NewChildLevelOK",
         "find_child loads the parent's level before taking the lock (no data race, mutual exclusion intact)"),
        ("LogFormatMC", "MC_LogFormat_swapbug.cfg", "ChainOrder", "format::chain composes child (.) parent"),
        ("LogFormatMC", "MC_LogFormatLs_sinkbug.cfg", "SinkLatestWins", "level_stream::sink has no effect"),
        ("LogContextConc", "MC_LogContextConc_joint.cfg", "JointSequential",
         "NOT a defect: the strong joint reading of two lock-free reads is false by design (pre-order, node-by-node "
         "publication) and is not claimed; TLC must refute it"),
    ])
    phase("vacuity-guards")
    # 2. operation scripts, one per generated transition
    r = vlib.tlc_mc(ctx, "LogContext", "MC_LogContextScripts.cfg", workers=4)
    scripts = vlib._verdict_lines(r.out).get("SCRIPT", [])
    scripts = [s for s in scripts if len(s) > 1]
    if len(scripts) < 10000:
        raise vlib.Infra("script emission produced only %d scripts" % len(scripts))
    # every 10th (quick) / every 2nd (thorough) script, rotated by the seed
    step = 2 if thorough else 10
    scripts = scripts[ctx.seed % step::step]
    # ... and of the model around the optional level "none" (context constructed disabled, set to fatal / none,
    # enabled and log at fatal): the same fraction
    r = vlib.tlc_mc(ctx, "LogContext", "MC_LogContextScripts_none.cfg", workers=4)
    none_scripts = [s_ for s_ in vlib._verdict_lines(r.out).get("SCRIPT", []) if len(s_) > 1]
    if len(none_scripts) < 2000:
        raise vlib.Infra("script emission (none model) produced only %d scripts" % len(none_scripts))
    # every script ending in an observation through an object (level / enabled / log: the read-back after each
    # call covers get), the same fraction of the others
    obs_scripts = [s_ for s_ in none_scripts if s_[-1]["op"] in ("level", "enabled", "log")]
    rest_scripts = [s_ for s_ in none_scripts if s_[-1]["op"] not in ("level", "enabled", "log")][ctx.seed % step::step]
    if not any(s_[-1]["op"] == "log" and s_[-1]["l"] == 5 for s_ in obs_scripts):
        raise vlib.Infra("the none model generated no log step at fatal")
    ctx.extra["none_scripts"] = len(obs_scripts) + len(rest_scripts)
    scripts += obs_scripts + rest_scripts
    spath = os.path.join(ctx.workdir, "scripts.ndjson")
    vlib.write_ndjson(spath, scripts)

    phase("script-emission")
    asan_bin, tsan_bin = builds.result()
    pool.shutdown()
    phase("wait-for-builds")
    if asan_bin is None:
        # VIOLATION C19:core:does-not-compile was recorded by build(): nothing can be driven
        ctx.rule = "the core harness does not compile against the tree under test; only the model checks ran"
        ctx.count_class("build-failure")
        return
    seq_timeout = 3000 if thorough else 600

    # 3. spec -> code
    rpath = os.path.join(ctx.workdir, "replayed.ndjson")
    drive_seq(ctx, asan_bin, lambda first, recs, out: ["replay", spath, out, first], rpath, "TLC-generated script", seq_timeout)
    lines = judge_seq(ctx, rpath, "TLC-generated script")
    ctx.traces_validated += len(scripts)
    count_seq(ctx, lines[:200000])
    ctx.sample({"tlc_script": scripts[len(scripts) // 2]})

    phase("replay+judge-scripts")
    # 4. code -> spec, sequential
    nh, ml = (10000, 60) if thorough else (300, 60)
    tpath = os.path.join(ctx.workdir, "recorded.ndjson")
    drive_seq(ctx, asan_bin, lambda first, recs, out: ["record", out, ctx.seed, nh, ml, first, recs], tpath, "random history", seq_timeout)
    seq_lines = judge_seq(ctx, tpath, "random history", record_args=[ctx.seed, nh, ml])
    ctx.traces_validated += nh
    count_seq(ctx, seq_lines[:300000])
    # vacuity of the "none" part: the histories did disable roots, inner nodes and leaves and did observe
    # disabled nodes through get / level / enabled(every level) / log at fatal (only checked on a run
    # without rejections and with the full harness: a crashing tree legitimately cuts histories short)
    missing = [k for k in NONE_REQUIRED if not ctx.extra.get("none_coverage", {}).get(k)]
    if missing and not ctx.violations and not ctx.extra.get("full_build_failed"):
        raise vlib.Infra("the recorded histories never exercised: %s" % missing)
    ops = [x for x in seq_lines[:400] if x.startswith('{"e":"op"')]
    recs = [x for x in seq_lines[:400] if x.startswith('{"e":"rec"')]
    if ops:
        e = json.loads(ops[min(2, len(ops) - 1)])
        ctx.sample({"recorded_event": {k: e[k] for k in e if k != "lv"}, "lv_len": len(e["lv"])})
    if recs:
        ctx.sample({"recorded_call": json.loads(recs[len(recs) // 2])})
    phase("record+judge-sequential")
    # 5. threaded driver: linearisation (ASan build) and ThreadSanitizer
    seeds = [ctx.seed * 100 + i for i in range(4 if thorough else 1)]
    runs, windows = (250, 10) if thorough else (300, 10)      # short runs: fresh trees, so that node creation keeps racing with set
    conc_first = None
    for sd in seeds:
        path, rc, info = run_threaded(ctx, asan_bin, "asan", sd, runs, windows, 6, "s%d" % sd)
        n, nq = judge_conc(ctx, path, "threaded history (seed %d)" % sd, dict(info, threads=True))
        ctx.traces_validated += nq
        clines, _ = vlib.check_trace_file(path)
        count_conc(ctx, clines[:200000])
        if conc_first is None and clines:
            conc_first = clines
            ctx.sample({"threaded_events": [json.loads(x) for x in clines[2:6]]})
    phase("threaded+linearisation-search")
    tsan_windows = 0
    for sd in seeds:
        for mc in (30, 6):
            if tsan_bin is None:
                break
            truns = max(10, runs // 3)
            path, rc, info = run_threaded(ctx, tsan_bin, "tsan", sd, truns, windows, mc, "s%d_%d" % (sd, mc))
            tsan_windows += truns * windows
    ctx.extra["tsan_windows_run"] = tsan_windows
    ctx.extra["tsan_note"] = "absence of data races is observed by ThreadSanitizer on these schedules, not decided by the TLA+ specification"

    phase("tsan")
    # 6. the judges can reject
    # (only on a run without rejections: the guards corrupt ACCEPTED traces; with violations already
    #  found the verdict must stay exit 1, never turn into an infrastructure failure)
    if seq_lines and conc_first and not ctx.violations:
        judge_guards(ctx, seq_lines, conc_first)

    phase("judge-guards")
    ctx.rule = ("histories: (a) every generated transition of a small LogContext model as an op script, (b) seeded random "
                "sequential histories <= 60 calls (set/get/create x3 kinds/level/enabled/log/macro) over locations of depth <= 3 "
                "with names a,b,cc, random root level and level-stream formatters, (c) threaded windows of 2-6 threads x <= 6 "
                "calls on one context; a class = (op, location depth, level / kind / formatter / emitted) of a sequential event or "
                "(op, calls pending at begin (capped 3), location depth) of a threaded call")
    ctx.assumptions += [
        "ABSENCE OF DATA RACES is not decided by the TLA+ specification: it is OBSERVED by ThreadSanitizer (threaded driver built with -fsanitize=thread) on the schedules that ran; a clean TSan run is not a proof",
        "memory safety of the driven calls is observed by ASan/UBSan only",
        "lock-free reads (object::level/enabled) are judged by the weak per-observation reading: the value is one the node can have held between call and return; the joint reading is false by design (MC_LogContextConc_joint.cfg refutes it) and is not demanded",
        "LogContextConc.tla is a hand transcription of context.cpp; verdicts about the code are taken only from recorded executions judged by LogContext.tla/LogTrace.tla",
        "fcppt.log built with ENABLE_THREADS (the CMake default); names are non-empty; every object is used only by the thread that created it (documented restriction); log() is not driven concurrently (the sinks are caller-supplied streams)",
    ]


def run_seq_only(ctx):
    asan_bin = build("asan", ctx)
    if asan_bin is None:
        return
    tpath = os.path.join(ctx.workdir, "recorded.ndjson")
    drive_seq(ctx, asan_bin, lambda first, recs, out: ["record", out, ctx.seed, 300, 60, first, recs], tpath, "random history", 600)
    seq_lines = judge_seq(ctx, tpath, "random history", record_args=[ctx.seed, 300, 60])
    ctx.traces_validated += 300
    count_seq(ctx, seq_lines)
    ctx.sample({"note": "VERIF_C19_PHASES=seq: development run, sequential record+judge only"})
    ctx.mc_runs.append({"module": "-", "cfg": "-", "generated": 1, "distinct": 1, "depth": 0, "wall_s": 0, "ok": True, "cmd": "skipped (VERIF_C19_PHASES=seq)", "simulate": None})
    ctx.rule = "development run: sequential histories only"


def replay(ctx, payload):
    p = payload["payload"]
    ctx.rule = "replay of one saved history"
    ctx.count_class("replay")
    ctx.count_class("replay2")
    if "history" in p:
        # (1) the saved concurrent history is evidence on its own: judge it again and say so;
        # (2) the verdict of the replay is about the CURRENT tree: the threaded driver is re-executed
        #     with the saved seed (schedules differ from run to run: three attempts) and re-judged
        hp = os.path.join(ctx.workdir, "replay_history.ndjson")
        with open(hp, "w") as f:
            f.write("\n".join(p["history"]) + "\n")
        stuck, _ = tlc_conc(hp)
        ctx.evaluations += len(p["history"])
        ctx.traces_validated += 1
        print("NOTE saved concurrent history: %s" % (
            "still rejected by the specification at line %d: %s" % (stuck, p["history"][stuck - 1][:200]) if stuck
            else "accepted by the current specification"))
    if p.get("threads"):
        san = p.get("san", "asan")
        binary = build(san, ctx)
        if binary is None:
            return
        a = p["args"]
        for i in range(3):
            path, rc, info = run_threaded(ctx, binary, san, a[0], a[1], a[2], a[3], "replay%d" % i)
            ctx.traces_validated += 1
            ctx.evaluations += 1
            if rc == 0 and san == "asan":
                judge_conc(ctx, path, "re-execution of the threaded run", dict(info, threads=True))
            if ctx.violations:
                return
        print("NOTE the threaded run was re-executed 3 times on %s without a rejection" % vlib.REPO)
        return
    if "record" in p:
        binary = build("asan", ctx)
        if binary is None:
            return
        a = p["record"]
        tpath = os.path.join(ctx.workdir, "replay_recorded.ndjson")
        drive_seq(ctx, binary, lambda first, recs, out: ["record", out, a[0], a[1], a[2], first, recs], tpath, "re-recorded histories", 3000)
        judge_seq(ctx, tpath, "re-recorded histories", record_args=a)
        ctx.traces_validated += int(a[1])
        return
    if p.get("build"):
        build(p.get("san", "asan"), ctx)      # C19:core:does-not-compile again, or it builds now
        ctx.traces_validated += 1
        ctx.evaluations += 1
        return
    binary = build("asan", ctx)
    if binary is None:
        return
    spath = os.path.join(ctx.workdir, "replay_script.ndjson")
    vlib.write_ndjson(spath, [p["script"]])
    rpath = os.path.join(ctx.workdir, "replay_out.ndjson")
    drive_seq(ctx, binary, lambda first, recs, out: ["replay", spath, out, first], rpath, "replay", 600)
    judge_seq(ctx, rpath, "replay")
    ctx.traces_validated += 1
