"""C11 - intrusive list / signal membership equals the set of live connections.

1. TLC model-checks the abstract specification (spec/Membership.tla: laws incl. the frame
   condition; spec/Signal.tla: unregister-exactly-once, left fold) and the pointer-level
   transcription of base_impl.hpp / list_impl.hpp (spec/Ring.tla) in lock-step with it
   (RingOK, NoDeadRef, NoUAF, NoStaleHead, WalkAgree, Refines) over the complete reachable state
   graph for small constants.  Bug constants re-introduce defects (vacuity guards).
2. TLC emits one operation script per generated transition of the small models; the harness
   replays them on the real list / signal with three destruction orders (spec -> code).
3. The harness records seeded random histories (<= 50 ops, 3 lists/signals, 8 elements /
   connections; code -> spec).
4. spec/RingTrace.tla (TLC) judges every recorded event: forward and backward iteration and
   empty() of every live list, for signals the callbacks that ran, the combiner chain, the
   result and the unregister callbacks.
   For signals with unregister callbacks also what the unregister callback of a dying connection
   itself saw of every signal (empty(), one call): the dying connection is a member of no signal any
   more (Signal.tla: DyingState / DyingReasons, law LawDyingView).
ASan/UBSan reports, crashes, escaping exceptions and hangs (CPU-time watchdog per history) of the
harness inside a driven operation are turned into rejected events (observed, not decided by the
spec); the run is resumed at the next history.  If the full harness does not compile against the tree
under test, the core units (only what the statement names: harness/c11_core_{list,sig,usig}.cpp) are
built separately: one that does not compile is a VIOLATION C11:<unit>:does-not-compile, the others
are still driven and judged; a failure of the observed-only parts alone is an OBSERVATION."""
import json
import os
import re
import time

import vlib

LEVEL = "model_checking"
TRACE_MODULE = "RingTrace"
TRACE_CFG = "RingTrace.cfg"
SIG_FLAVOURS = ("sig", "usig", "vsig", "uvsig", "sig0", "usig0", "vsig0", "uvsig0", "sig2", "usig2", "vsig2", "uvsig2")
OP_KEYS = ("op", "l", "l2", "x", "x2", "b", "mode")
# Operation kinds the STATEMENT of C11 names (same set as InScopeOp in spec/RingTrace.tla, where the
# clauses are quoted).  A history that contains any other kind (unlink, iterator steps, moves of
# connection owners, containers, reentrant callbacks) is only OBSERVED: whatever it shows - a
# disagreement with the specification or a sanitizer report - goes to coverage.observations and is
# never a VIOLATION.
IN_SCOPE_REASONS = {"forward-extra", "forward-missing", "forward-twice", "forward-order", "backward-extra", "backward-missing",
                    "backward-twice", "backward-order", "forward-walk-leaves-the-list", "backward-walk-leaves-the-list",
                    "empty", "called-extra", "called-missing", "called-twice", "called-order", "call-does-not-end",
                    "left-fold", "unregister-not-run", "unregister-run-twice", "unregister-of-other-connection",
                    # a call of a signal made from INSIDE the unregister callback of a dying connection
                    "dying-called-extra", "dying-called-missing", "dying-called-twice", "dying-called-order",
                    "dying-call-does-not-end", "dying-left-fold"}
IN_SCOPE_OPS = {"list_ctor", "list_move_ctor", "list_move_assign", "list_dtor", "elem_ctor", "elem_move_ctor",
                "elem_move_assign", "elem_dtor", "sig_ctor", "sig_move_ctor", "sig_move_assign", "sig_dtor",
                "connect", "disconnect"}
MAX_ABORTS_PER_WORKER = 12
MAX_HANGS_PER_JOB = 2        # every hang costs the watchdog's 4 CPU-seconds (much more wall time on a loaded machine):
                             # a job that keeps hanging is given up early
JUDGE_BATCH = 160000
LIST_KINDS = ("list_ctor", "list_move_ctor", "list_move_assign", "list_dtor", "elem_ctor", "elem_move_ctor",
              "elem_move_assign", "elem_dtor", "unlink")
ITER_KINDS = LIST_KINDS + ("iter_begin", "iter_end", "iter_inc", "iter_dec", "iter_drop")
SIG_KINDS = ("sig_ctor", "sig_move_ctor", "sig_move_assign", "sig_dtor", "connect", "disconnect",
             "hold_move", "hold_assign", "box_ctor", "box_push", "box_dtor")

# (config, invariant TLC must report violated): every invariant can fail
GUARDS = [
    ("Membership", "MC_Membership_bug_dtor_keeps.cfg", "LawMembersAlive"),
    ("Membership", "MC_Membership_bug_movector_copies.cfg", "LawNoDup"),
    ("Membership", "MC_Membership_bug_dtor_clears_first.cfg", "LawFrame"),
    ("Ring", "MC_Ring_bug_assign_empty.cfg", "RingOK"),
    ("Ring", "MC_Ring_bug_assign_empty_refines.cfg", "Refines"),
    ("Ring", "MC_Ring_bug_assign_empty_stale.cfg", "NoStaleHead"),
    ("Ring", "MC_Ring_bug_assign_empty_uaf.cfg", "NoUAF"),
    ("Ring", "MC_Ring_bug_move_unlinked.cfg", "NoDeadRef"),
    ("Ring", "MC_Ring_bug_move_unlinked_walk.cfg", "WalkAgree"),
    ("Ring", "MC_Ring_bug_dtor_one_sided.cfg", "WalkAgree"),
    ("Ring", "MC_Ring_bug_move_no_reset.cfg", "RingOK"),
    ("Signal", "MC_Signal_bug_unreg_twice.cfg", "LawUnregisterOnce"),
    ("Signal", "MC_Signal_bug_skip_first.cfg", "LawCallExplained"),
    ("Signal", "MC_Signal_bug_fold_right.cfg", "LawCallExplained"),
    ("Ring", "MC_Ring_bug_iter.cfg", "IterRefines"),
    ("Signal", "MC_Signal_bug_hold_move_copies.cfg", "LawOwnership"),
    ("Signal", "MC_Signal_bug_box_dtor.cfg", "LawOwnership"),
    ("Signal", "MC_Signal_bug_dying_member.cfg", "LawDyingView"),
]


def tlc_run(module, cfg, **kw):
    """vlib.tlc with a small heap, retried when the process was killed from outside (the box is
    shared: the kernel's OOM killer takes the largest JVMs first)."""
    kw.setdefault("xmx", "1500m")
    for attempt in range(3):
        try:
            return vlib.tlc(module, cfg, **kw)
        except vlib.Infra as e:
            if "rc=-9" not in str(e) and "rc=137" not in str(e):
                raise
            vlib.log("TLC %s/%s was killed; retrying (%d)" % (module, cfg, attempt + 1))
            time.sleep(15 * (attempt + 1))
    return vlib.tlc(module, cfg, **kw)


def mc_run(ctx, module, cfg, **kw):
    """As vlib.tlc_mc (model check of the specification itself; failure = Infra), via tlc_run."""
    r = tlc_run(module, cfg, **kw)
    ok = r.rc == 0 and r.completed
    ctx.mc_runs.append({"module": module, "cfg": cfg, "generated": r.generated, "distinct": r.distinct,
                        "depth": r.depth, "wall_s": round(r.wall, 2), "ok": ok, "cmd": r.cmd, "simulate": None})
    if not ok:
        raise vlib.Infra("model check of %s/%s failed (spec-level, not a code verdict):\n%s" % (
            module, cfg, "\n".join(r.out.splitlines()[-80:])))
    vlib.log("MC %s/%s: %d generated, %d distinct, depth %d, %.1fs" % (module, cfg, r.generated, r.distinct, r.depth, r.wall))
    return r


def judge_file(ctx, path, nchunks=vlib.NCPU):
    """As vlib.judge_trace (chunks at history boundaries, one single-worker TLC per chunk), via
    tlc_run.  Returns the rejected events [{l, op, why}]."""
    chunks = vlib.split_file(path, nchunks, boundary=lambda x: '"e":"reset"' in x)

    def one(ch):
        p, first = ch
        r = tlc_run(TRACE_MODULE, TRACE_CFG, workers=1, env={"TRACE": p}, timeout=3000, tag=TRACE_MODULE + "_j", xmx="1g")
        v = vlib._verdict_lines(r.out)
        if "VERDICT" in v:
            return [dict(b, l=b["l"] + first) for b in v["VERDICT"][-1]["bad"]], r.generated
        if "STUCK" in v:
            return [{"l": int(v["STUCK"][-1]) + first, "op": "?", "why": ["no-action-explains-event"]}], r.generated
        raise vlib.Infra("trace judge gave no verdict on %s (rc=%d):\n%s" % (p, r.rc, "\n".join(r.out.splitlines()[-40:])))
    res = vlib.parallel(one, chunks)
    for p, _ in chunks:
        try:
            os.unlink(p)
        except OSError:
            pass
    ctx.extra["trace_states"] = ctx.extra.get("trace_states", 0) + sum(g for _, g in res)
    return sorted([b for bs, _ in res for b in bs], key=lambda b: b["l"])


CORE_UNITS = {"list": "intrusive-list", "sig": "signal", "usig": "signal-unregister"}


def unit_of(fl):
    return "list" if fl == "list" else "usig" if fl.startswith("u") else "sig"


def _tree_build_failure(e):
    """The first error line if the Infra is a compile / link failure of OUR translation unit against the
    tree under test (a verdict about the tree); None if it is anything else (also: a library source of
    the tree itself that does not compile - such a tree does not build its own tests either)."""
    msg = str(e)
    m = re.match(r"(compile|link) failed: (\S+)", msg)
    if not m or (m.group(1) == "compile" and not os.path.abspath(m.group(2)).startswith(os.path.abspath(vlib.HARNESS))):
        return None
    return next((l.strip() for l in msg.splitlines() if "error" in l), msg.splitlines()[0])[:500]


class Bins:
    """The harness binaries: the full harness, or - if that does not compile against the tree under test -
    the core units (only what the statement of C11 names), each built separately."""

    def __init__(self):
        self.full = None
        self.core = {}
        self.errors = {}

    def of(self, fl):
        return self.full or self.core.get(unit_of(fl))

    def all(self):
        return [self.full] if self.full else [b for b in self.core.values() if b]


def build(ctx):
    bins = Bins()
    try:
        bins.full = vlib.build_harness("c11_intrusive", ["c11_intrusive.cpp"], libs=("core",))
        return bins
    except vlib.Infra as e:
        first = _tree_build_failure(e)
        if first is None:
            raise
    vlib.log("the full harness does not compile against this tree (%s): building the core units separately" % first)

    def one(u):
        try:
            bins.core[u] = vlib.build_harness("c11_core_" + u, ["c11_core_%s.cpp" % u], libs=("core",))
        except vlib.Infra as e:
            f = _tree_build_failure(e)
            if f is None:
                raise
            bins.core[u] = None
            bins.errors[u] = f
    vlib.parallel(one, sorted(CORE_UNITS))
    for u in sorted(bins.errors):
        # "If a public API that the statement names no longer compiles with well-formed arguments of a kind
        # the harness used to pass, that is a VIOLATION: the property cannot hold for inputs the code rejects."
        ctx.reject("C11:%s:does-not-compile" % CORE_UNITS[u],
                   "the core harness unit %s (only operations the statement of C11 names: %s) does not compile against the tree under test: %s" % (
                       "c11_core_%s.cpp" % u, {"list": "list / element construction, moves, destruction, iteration, empty()",
                                               "sig": "signal construction, moves, destruction, connect, call, connection death",
                                               "usig": "the same on signals with unregister callbacks"}[u], bins.errors[u]),
                   {"build": True, "unit": u, "flavour": {"list": "list", "sig": "sig", "usig": "usig"}[u], "script": []})
    if len(bins.errors) < len(CORE_UNITS):
        observe(ctx, "C11:build:full-harness-does-not-compile",
                "the full harness (with the observed-only parts: unlink, held iterator, const iteration, auto_connection_container, "
                "optional_auto_connection, reentrant operations) does not compile against the tree under test: %s; the in-scope "
                "histories are driven with the core units %s, the observed-only parts are skipped" % (
                    first, ", ".join(u for u in sorted(CORE_UNITS) if bins.core.get(u))))
    ctx.extra["harness_units"] = {"full": False, "core": {u: bool(bins.core.get(u)) for u in sorted(CORE_UNITS)}, "first_error": first}
    return bins


def op_of(e):
    return {k: e[k] for k in OP_KEYS}


def observe(ctx, signature, what, payload=None):
    """A disagreement / sanitizer report OUTSIDE the statement of C11: recorded in the evidence
    (coverage.observations), never a VIOLATION."""
    o = ctx.extra.setdefault("observations", {"count": 0, "by_signature": {}, "examples": []})
    o["count"] += 1
    o["by_signature"][signature] = o["by_signature"].get(signature, 0) + 1
    if o["by_signature"][signature] == 1 and len(o["examples"]) < 12:
        o["examples"].append({"signature": signature, "what": what[:1200], "script": (payload or {}).get("script")})
    if o["by_signature"][signature] == 1:
        print("OBSERVATION property=C11 (outside the statement, not a violation) %s: %s" % (signature, what[:400]))


def in_scope_history(hist_lines, ops):
    for l in hist_lines[:1]:
        if '"e":"reset"' in l and json.loads(l).get("observed"):
            return False
    return all(o["op"] in IN_SCOPE_OPS for o in ops)


def script_of(hist_lines):
    """(flavour, ops) of a history given as log lines (reset line first)."""
    fl = "list"
    ops = []
    for l in hist_lines:
        try:
            e = json.loads(l)
        except ValueError:
            continue
        if e.get("e") == "reset":
            fl = e["fl"]
        elif e.get("e") == "op":
            ops.append(op_of(e))
    return fl, ops


def hint(fl, ops):
    """Not part of the verdict: names shapes in the failing history that are known to matter."""
    h = []
    names = [o["op"] for o in ops]
    if any(n in ("list_move_assign", "sig_move_assign") for n in names):
        h.append("history contains a move assignment of a list/signal")
    if any(n in ("elem_move_ctor", "elem_move_assign") for n in names):
        h.append("history contains a move of an element")
    return "; ".join(h)


def fmt_ops(ops):
    def one(o):
        args = [str(o[k]) for k in ("l", "l2", "x", "x2", "b") if o.get(k)]
        return "%s(%s)" % (o["op"], ",".join(args))
    return " ".join(one(o) for o in ops)


def categories(why):
    """Signature categories of the judge's reasons (the reasons themselves go into the text):
    members   - forward/backward iteration or empty() of a list disagrees with the membership
    callbacks - the callbacks a signal call ran are not exactly its live connections in order
    empty / left-fold / unregister - the other signal observables
    *-in-unregister - the same, seen from inside the unregister callback of a dying connection"""
    cats = set()
    for w in why:
        if w.startswith("dying-"):
            cats.add(categories([w[6:]])[0] + "-in-unregister")
        elif w.startswith("forward-const"):
            cats.add("const-iteration")
        elif w.startswith("iterator"):
            cats.add("iterator")
        elif w.startswith(("forward", "backward")):
            cats.add("members")
        elif w in ("callback-argument", "call-throws"):
            cats.add(w)
        elif w.startswith(("called", "call-")):
            cats.add("callbacks")
        elif w.startswith("unregister"):
            cats.add("unregister")
        else:
            cats.add(w)
    if "members" in cats:
        cats.discard("empty")
    return sorted(cats)


def judge_lines(ctx, lines, what, path):
    """Judge complete log lines with RingTrace; returns number of events judged."""
    if not lines:
        return 0
    # batches of <= JUDGE_BATCH lines (cut at history boundaries), each judged by 16 parallel
    # single-worker TLC processes: keeps every TLC process small
    bad = []
    start = 0
    while start < len(lines):
        stop = min(len(lines), start + JUDGE_BATCH)
        while stop < len(lines) and not lines[stop].startswith('{"e":"reset"'):
            stop += 1
        with open(path, "w") as f:
            f.write("\n".join(lines[start:stop]) + "\n")
        for b in judge_file(ctx, path):
            b = dict(b)
            b["l"] += start
            bad.append(b)
        start = stop
    nev = sum(1 for x in lines if x.startswith('{"e":"op"'))
    ctx.evaluations += nev
    # report the shortest failing history of each signature first
    items = []
    for b in bad:
        why = sorted(b["why"])
        if any(w.startswith("HARNESS") for w in why):
            raise vlib.Infra("harness/driver inconsistency (%s) at line %d of %s" % (",".join(why), b["l"], path))
        hist = vlib.history_of(lines, b["l"])
        fl, ops = script_of(hist)
        items.append((len(ops), b, why, fl, ops))
    items.sort(key=lambda t: t[0])
    for n, b, why, fl, ops in items:
        ev = json.loads(lines[b["l"] - 1])
        if b.get("scope", "in") != "in":
            sig = "C11:%s:%s" % (b["op"], "+".join(categories(why)))
            observe(ctx, sig, "%s [%s]: after %s the specification expects something else (%s); history: %s" % (
                what, fl, b["op"], ", ".join(why), fmt_ops(ops)), {"script": ops})
            continue
        inwhy = [w for w in why if w in IN_SCOPE_REASONS and (fl == "list" or w != "empty")]  # signal::empty(): observed only
        sig = "C11:%s:%s" % (b["op"], "+".join(categories(inwhy)))
        ctx.reject(sig, "%s [%s]: the specification cannot explain what the lists/signals show after %s (%s%s); history: %s%s" % (
            what, fl, b["op"], ", ".join(inwhy), ("; observed only: " + ", ".join(w for w in why if w not in inwhy)) if len(inwhy) < len(why) else "",
            fmt_ops(ops), ("; " + hint(fl, ops)) if hint(fl, ops) else ""),
            {"flavour": fl, "script": ops, "event": ev})
    return nev


def classify_abort(rc, out):
    kind = {66: "sanitizer", 67: "crash", 68: "hang", 124: "timeout"}.get(rc, "exit%d" % rc)
    san = re.search(r"(ERROR: \w+Sanitizer: [^\n]*|runtime error: [^\n]*)", out)
    where = re.search(r"#0 [^\n]* in ([^\n]*)", out)
    return kind, (san.group(1)[:160] if san else out[-200:]) + ((" at " + where.group(1)[:120]) if where else "")


def collect(path, rc, out, what, all_lines, rejections):
    """Take the complete lines of one harness run into all_lines.  If the run was stopped inside
    a driven operation (sanitizer / crash / hang) note the rejection of that operation (applied
    by the main thread) and return the index of the history it happened in (else None)."""
    lines, tail = vlib.check_trace_file(path)
    lines = [x for x in lines if '"e":"crash"' not in x]
    if rc == 0:
        all_lines += lines
        return None
    if rc in (3, 4):
        raise vlib.Infra("harness failed (rc=%d): %s" % (rc, out[-400:]))
    if rc == 124:
        # The harness stops itself inside a history that loops (4 CPU-seconds) or blocks (600 s): if the whole
        # PROCESS runs into the outer wall-clock limit, the machine is overloaded - not a verdict about the code
        raise vlib.Infra("harness run exceeded the outer wall-clock limit although no history hit its watchdog (overloaded machine?)")
    kind, detail = classify_abort(rc, out)
    hist = vlib.history_of(lines, len(lines)) if lines else []
    fl, ops = script_of(hist)
    opname = "?"
    if tail:
        m = re.search(r'"op":"(\w+)"', tail)
        opname = m.group(1) if m else "?"
        try:
            ops.append(op_of(json.loads(tail + "}")))
        except (ValueError, KeyError):
            pass
    h = None
    for x in reversed(lines):
        if '"e":"reset"' in x:
            h = json.loads(x)["h"]
            break
    if tail is None and any(x.startswith('{"e":"end"') for x in lines[-3:]):
        # all histories were completed: a report at process exit (LeakSanitizer).  It cannot be attributed
        # to a history and a leaked object is not something the statement of C11 talks about: observation
        rejections.append((0, "C11:exit:%s" % kind, "%s: %s report at process exit: %s" % (what, kind, detail), {"script": []}, False))
        all_lines += lines
        return None
    if tail is None and ops:
        # stopped between two operations of a history (destruction of the driver's empty slots, start of
        # the next history): attributed to the last operation that was driven
        opname = ops[-1]["op"]
    rejections.append((len(ops), "C11:%s:%s" % (opname, kind), "%s [%s]: %s during %s: %s; history: %s%s" % (
        what, fl, kind, opname, detail, fmt_ops(ops), ("; " + hint(fl, ops)) if hint(fl, ops) else ""),
        {"flavour": fl, "script": ops, "partial_line": tail}, in_scope_history(hist, ops)))
    all_lines += lines
    all_lines.append('{"e":"aborted"}')
    return h


def run_replay(ctx, binary, fl, scripts, what, tag):
    """Replay scripts (lists of op dicts); resumes after an aborted script."""
    all_lines = []
    rejections = []
    pos = 0
    aborts = 0
    k = 0
    gave_up = False
    while pos < len(scripts):
        spath = os.path.join(ctx.workdir, "scripts_%s_%d.ndjson" % (tag, k))
        opath = os.path.join(ctx.workdir, "replayed_%s_%d.ndjson" % (tag, k))
        vlib.write_ndjson(spath, scripts[pos:])
        rc, out = vlib.run_harness(binary, ["replay", fl, spath, opath, pos], timeout=3000)
        h = collect(opath, rc, out, what, all_lines, rejections)
        k += 1
        for p in (spath, opath):
            try:
                os.unlink(p)
            except OSError:
                pass
        if h is None:
            break
        aborts += 1
        pos = h + 1
        hangs = sum(1 for r in rejections if r[1].endswith((":hang", ":timeout")))
        if aborts >= 40 or hangs >= MAX_HANGS_PER_JOB:
            gave_up = True
            vlib.log("replay %s: giving up after %d aborted scripts, %d of them hangs (%d of %d scripts not run)" % (tag, aborts, hangs, len(scripts) - pos, len(scripts)))
            break
    done = min(pos, len(scripts)) if gave_up else len(scripts)
    return all_lines, done, aborts, rejections


def run_record(ctx, binary, first, count, maxlen, tag):
    all_lines = []
    rejections = []
    pos = first
    end = first + count
    aborts = 0
    k = 0
    while pos < end:
        opath = os.path.join(ctx.workdir, "recorded_%s_%d.ndjson" % (tag, k))
        rc, out = vlib.run_harness(binary, ["record", opath, ctx.seed, pos, end - pos, maxlen], timeout=3000)
        h = collect(opath, rc, out, "random history (seed %d)" % ctx.seed, all_lines, rejections)
        k += 1
        try:
            os.unlink(opath)
        except OSError:
            pass
        if h is None:
            pos = end
            break
        aborts += 1
        pos = h + 1
        if aborts >= MAX_ABORTS_PER_WORKER or sum(1 for r in rejections if r[1].endswith((":hang", ":timeout"))) >= MAX_HANGS_PER_JOB:
            break
    return all_lines, pos - first, aborts, rejections


def apply_rejections(ctx, rejections):
    for n, sig, what, payload, inscope in sorted(rejections, key=lambda t: t[0]):
        if inscope:
            ctx.reject(sig, what, payload)
        else:
            observe(ctx, sig, what, payload)


def count_classes(ctx, lines):
    fl = "list"
    prev_sizes = (0, 0, 0)
    for l in lines:
        if l.startswith('{"e":"reset"'):
            fl = json.loads(l)["fl"]
            prev_sizes = (0, 0, 0)
            continue
        if not l.startswith('{"e":"op"'):
            continue
        e = json.loads(l)
        sizes = []
        for r in e["lists"]:
            if not r["live"]:
                sizes.append(-1)
            elif fl == "list":
                sizes.append(min(len(r["fwd"]), 3))
            else:
                sizes.append(min(len(r["call"]["cbs"]), 3) if r["call"]["done"] else (-2 if r["empty"] else -3))
        # class = flavour, operation, size of destination and source list/signal BEFORE the operation
        d = prev_sizes[e["l"] - 1] if e["l"] else None
        s = prev_sizes[e["l2"] - 1] if e["l2"] else None
        ctx.count_class((fl, e["op"], d, s, sum(e["elive"]) > 0))
        prev_sizes = tuple(sizes)


def untainted_events(lines):
    """(index, reset record, line) of the op lines of judged, untainted histories (only operations the
    statement names so far, not an "observed" history, not cut short)."""
    ok = False
    rs = None
    for i, l in enumerate(lines):
        if l.startswith('{"e":"reset"'):
            rs = json.loads(l)
            ok = not rs["observed"]
            continue
        if not ok or not l.startswith('{"e":"op"'):
            if l.startswith('{"e":"aborted"'):
                ok = False
            continue
        m = re.search(r'"op":"(\w+)"', l)
        if not m or m.group(1) not in IN_SCOPE_OPS:
            ok = False
            continue
        yield i, rs, l


def untainted_view_events(lines):
    """(index, event) of those in which exactly one unregister callback recorded what it saw (the
    dying-time view)."""
    for i, rs, l in untainted_events(lines):
        if rs["unr"] and '"dying":[]' not in l:
            e = json.loads(l)
            if len(e.get("dying", [])) == 1:
                yield i, e


def count_full(ctx, lines):
    """Vacuity of the bound "8 elements / connections": in-scope events in which ONE list / signal shows
    7 or 8 members (the dense random histories are there for this)."""
    st = ctx.extra.setdefault("in_scope_events_with_7_or_8_members_in_one", {"list": 0, "signal": 0})
    for i, rs, l in untainted_events(lines):
        if rs["list"]:
            if re.search(r'"fwd":\[\d+(,\d+){6,}\]', l):
                st["list"] += 1
        elif l.count('{"c":') >= 7:
            e = json.loads(l)
            if any(r.get("live") and len(r["call"]["cbs"]) >= 7 for r in e["lists"]):
                st["signal"] += 1


def count_views(ctx, lines):
    """Vacuity of the dying-time view: how many in-scope views were judged, in how many the signal of
    the dying connection (as seen at the observation before) still called other connections / called
    nobody any more (counted from the callbacks that ran, not from what empty() claims)."""
    st = ctx.extra.setdefault("dying_views_in_scope", {"judged": 0, "owner_called_others": 0, "owner_called_nobody": 0, "no_callable_owner": 0})
    for _, e in untainted_view_events(lines):
        v = e["dying"][0]
        st["judged"] += 1
        rec = v["sigs"][v["owner"] - 1] if v["owner"] else None
        if not rec or not rec.get("live") or not rec["call"]["done"]:
            st["no_callable_owner"] += 1
        elif rec["call"]["cbs"]:
            st["owner_called_others"] += 1
        else:
            st["owner_called_nobody"] += 1      # the last connection of its signal died


def view_selftest(ctx, lines):
    """Vacuity guard of the whole pipeline for the dying-time view: one recorded in-scope history is
    doctored so that the call made from inside the unregister callback ALSO runs the callback of the
    dying connection (what the code does if the connection is not unlinked before its unregister
    callback runs); the judge must reject exactly that event, in scope, as dying-called-extra."""
    tried = 0
    for i, e in untainted_view_events(lines):
        v = e["dying"][0]
        if not v["owner"] or not v["sigs"][v["owner"] - 1]["call"]["done"]:
            continue
        tried += 1
        if tried > 8:
            break
        call = v["sigs"][v["owner"] - 1]["call"]
        call["cbs"] = [{"c": v["c"], "args": call["args"], "r": 0}] + call["cbs"]
        hist = vlib.history_of(lines, i + 1)
        doctored = hist[:-1] + [json.dumps(e, separators=(",", ":"))]
        path = os.path.join(ctx.workdir, "view_selftest.ndjson")
        with open(path, "w") as f:
            f.write("\n".join(doctored) + "\n")
        bad = judge_file(ctx, path, nchunks=1)
        hit = [b for b in bad if b["l"] == len(doctored) and "dying-called-extra" in b["why"] and b.get("scope") == "in"]
        if not hit and any(b["l"] < len(doctored) for b in bad):
            continue    # the code under test made the judge stop earlier in this history: take another one
        if not hit:
            raise vlib.Infra("vacuity guard: the judge accepted a dying-time view in which the dying connection is still called: %s" % bad)
        ctx.extra.setdefault("vacuity_guards", []).append({"cfg": "RingTrace.cfg on a doctored recorded history (dying connection called from its own unregister callback)",
                                                           "violates": "dying-called-extra", "states": len(doctored)})
        return True
    return False


def model_check_jobs(ctx, thorough):
    """Thunks: the model checks of the specifications and the vacuity guards (run concurrently)."""
    cov = thorough
    runs = [("Membership", "MC_Membership.cfg"), ("Ring", "MC_Ring_mut_list_move_ctor.cfg"), ("Signal", "MC_Signal.cfg"),
            ("Ring", "MC_Ring_34.cfg")]
    if thorough:
        runs += [("Membership", "MC_Membership_big.cfg"), ("Ring", "MC_Ring_big.cfg"), ("Ring", "MC_Ring_huge.cfg"), ("Ring", "MC_Ring_iter_big.cfg"),
                 ("Signal", "MC_Signal_big.cfg")]

    def mc(mod, cfg):
        r = mc_run(ctx, mod, cfg, workers=8, coverage=cov, timeout=3000, xmx="2g")
        if cov:
            c = {}
            for m in re.finditer(r"<(\w+) line \d+, col \d+ to line \d+, col \d+ of module \w+(?: \([\d ]+\))?>: (\d+):(\d+)", r.out):
                t, g = c.get(m.group(1), (0, 0))   # an action with several disjuncts is listed once per disjunct
                c[m.group(1)] = (t + int(m.group(2)), g + int(m.group(3)))
            acts = [a for a in ("Next", "RNext", "SNext") if a in c]
            zero = [a for a in acts if c[a][0] == 0]
            if zero or not acts:
                raise vlib.Infra("coverage: action(s) %s never taken in %s/%s" % (zero or "?", mod, cfg))
            ctx.extra.setdefault("action_coverage", {})[cfg] = {a: list(c[a]) for a in acts}

    def guard(mod, cfg, inv):
        r = tlc_run(mod, cfg, workers=2, xmx="1g", expect=inv)
        if inv not in r.invariant_violated:
            raise vlib.Infra("vacuity guard: %s/%s did not violate %s" % (mod, cfg, inv))
        ctx.extra.setdefault("vacuity_guards", []).append({"cfg": cfg, "violates": inv, "states": r.distinct})

    return [(lambda m=m, c=c: mc(m, c)) for m, c in runs] + [(lambda m=m, c=c, i=i: guard(m, c, i)) for m, c, i in GUARDS]


def emit_scripts(ctx, mod, cfg, minimum):
    """Model-check mod/cfg (all invariants) and collect the operation scripts its CONSTRAINT prints."""
    r = mc_run(ctx, mod, cfg, workers=4, timeout=3000)
    scripts = vlib._verdict_lines(r.out).get("SCRIPT", [])
    scripts = [s for s in scripts if isinstance(s, list)]
    if len(scripts) < minimum:
        raise vlib.Infra("script emission %s/%s produced only %d scripts" % (mod, cfg, len(scripts)))
    return scripts


def run(ctx):
    thorough = ctx.tier == "thorough"
    # 1. the specifications themselves (model checks + vacuity guards), 2. operation scripts: one
    #    per generated transition of the complete state graph of the small pointer-level model
    #    (lists) and of the signal model, and the harness build - all concurrently
    out = {}
    jobs = model_check_jobs(ctx, thorough) + [
        lambda: out.__setitem__("small_all", emit_scripts(ctx, "Ring", "MC_Ring.cfg", 1000)),
        lambda: out.__setitem__("small", emit_scripts(ctx, "Ring", "MC_Ring_inscope.cfg", 1000)),
        lambda: out.__setitem__("big", emit_scripts(ctx, "Ring", "MC_Ring_34_inscope.cfg", 20000)),
        lambda: out.__setitem__("iter", emit_scripts(ctx, "Ring", "MC_Ring_iter.cfg", 5000)),
        lambda: out.__setitem__("sigs", emit_scripts(ctx, "Signal", "MC_Signal_inscope.cfg", 1000)),
        lambda: out.__setitem__("owners", emit_scripts(ctx, "Signal", "MC_Signal_small.cfg", 1000)),
        lambda: out.__setitem__("bins", build(ctx)),
    ]
    if thorough:
        jobs.append(lambda: out.__setitem__("owners3", emit_scripts(ctx, "Signal", "MC_Signal_scripts.cfg", 50000)))
    vlib.parallel(lambda f: f(), jobs, workers=6)
    ctx.mc_runs.sort(key=lambda r: (r["module"], r["cfg"]))
    ctx.extra["vacuity_guards"].sort(key=lambda g: g["cfg"])
    bins = out["bins"]

    def inscope(scripts):
        return [sc for sc in scripts if all(o["op"] in IN_SCOPE_OPS for o in sc)]
    # histories of the operations the statement names (the ACTION_CONSTRAINT of the *_inscope configs
    # keeps the canonical paths free of the others; the last step is filtered here) ...
    small, big, sigs = inscope(out["small"]), inscope(out["big"]), inscope(out["sigs"])
    # ... and histories with the other judged operations (observed only)
    unl = [sc for sc in out["small_all"] if any(o["op"] == "unlink" for o in sc)]
    iters = [sc for sc in out["iter"] if any(o["op"].startswith("iter_") for o in sc)]
    owners = [sc for sc in out["owners"] if any(o["op"] not in IN_SCOPE_OPS for o in sc)]
    owners3 = [sc for sc in out.get("owners3", []) if any(o["op"] not in IN_SCOPE_OPS for o in sc)]
    # vacuity: every kind of operation is the last step of some generated transition
    for name, scripts, kinds in (("Ring 3x4", big, LIST_KINDS[:-1]), ("Ring 2x3", small + unl, LIST_KINDS),
                                 ("Ring 2x3 with iterator", out["iter"], ITER_KINDS),
                                 ("Signal", sigs, SIG_KINDS[:6]), ("Signal with owners", out["owners"], SIG_KINDS)):
        taken = {}
        for sc in scripts:
            if sc:
                taken[sc[-1]["op"]] = taken.get(sc[-1]["op"], 0) + 1
        missing = [k for k in kinds if not taken.get(k)]
        if missing:
            raise vlib.Infra("operation kind(s) %s never taken in the %s model" % (missing, name))
        ctx.extra.setdefault("transitions_per_operation", {})[name] = taken
    # every script of the small list model three times so that the harness finishes it with each
    # of its three destruction orders (order = script index mod 3)
    small.sort(key=len)
    nf = len(SIG_FLAVOURS)
    if thorough:
        lscripts = [s for s in small for _ in range(3)] + big[ctx.seed % 2::2] + unl + iters
        jobs = [("list", lscripts)] + [
            (fl, ([s for s in sigs for _ in range(3)] if fl == "sig" else sigs[(ctx.seed + k) % 2::2]) + owners[(ctx.seed + k) % 2::2]
                 + owners3[(ctx.seed + k) % (4 * nf)::4 * nf])
            for k, fl in enumerate(SIG_FLAVOURS)]
    else:
        # quick: all in-scope transitions of the 2x3 list model (x3 orders) and every 16th of the 3x4
        # model, a quarter of the unlink transitions, every 8th of the iterator model; all in-scope
        # transitions of the 2x3 signal model on the plain int(int) signal and a different eleventh on
        # each of the other eleven flavours; the owner-operation transitions spread over all twelve
        lscripts = [s for s in small for _ in range(3)] + big[ctx.seed % 16::16] + unl[ctx.seed % 4::4] + iters[ctx.seed % 8::8]
        jobs = [("list", lscripts)] + [
            (fl, (sigs if fl == "sig" else sigs[(ctx.seed + k) % (nf - 1)::nf - 1]) + owners[(ctx.seed + k) % nf::nf])
            for k, fl in enumerate(SIG_FLAVOURS)]
    # 3. spec -> code
    if not bins.full:
        # core units: only the histories of operations the statement names, on the flavours that compile
        jobs = [(fl, inscope(sc)) for fl, sc in jobs if bins.of(fl)]
    res = vlib.parallel(lambda j: run_replay(ctx, bins.of(j[0]), j[0], j[1], "TLC-generated script", j[0]), jobs)
    lines = []
    for (fl, sc), (ls, done, aborts, rej) in zip(jobs, res):
        lines += ls
        apply_rejections(ctx, rej)
        ctx.traces_validated += done
        ctx.extra.setdefault("replayed_scripts", {})[fl] = {"scripts": len(sc), "run": done, "aborted": aborts}
    judge_lines(ctx, lines, "TLC-generated script", os.path.join(ctx.workdir, "replayed.ndjson"))
    count_classes(ctx, lines)
    count_views(ctx, lines)
    selftested = view_selftest(ctx, lines)
    ctx.sample({"tlc_script": small[len(small) // 2]})
    ctx.sample({"tlc_signal_script": sigs[len(sigs) // 2]})
    ctx.sample({"tlc_iterator_script_observed_only": iters[len(iters) // 2]})
    ctx.sample({"tlc_owner_script_observed_only": owners[len(owners) // 2]})
    # observation (outside the statement, undocumented): a callback that drops its OWN connection
    rc, outp = vlib.run_harness(bins.full, ["probe_drop_self"], timeout=60) if bins.full else (0, "not run (core units only)")
    kind, detail = classify_abort(rc, outp) if rc != 0 else ("ok", outp.strip().replace("\n", "; ")[:200])
    ctx.extra["observed_only_probe_drop_own_connection_during_call"] = {"rc": rc, "result": kind, "detail": detail[:300]}
    if rc != 0:
        observe(ctx, "C11:reent_drop_self:%s" % kind, "a callback that destroys its own connection during the call: %s "
                "(signal.doxygen is silent about reentrancy; not driven in histories, not judged)" % detail)
    # 4. code -> spec: seeded random histories, in rounds of 16 parallel ranges
    rounds, per, ml = (5, 500, 50) if thorough else (1, 250, 50)
    nw = 16
    stats = {"requested": rounds * nw * per, "run": 0, "aborted": 0}
    for rd in range(rounds):
        base = rd * nw * per
        # (with core units every unit records the histories of its own flavours of each range)
        wjobs = [(w, k, b) for w in range(nw) for k, b in enumerate(bins.all())]
        res = vlib.parallel(lambda j: run_record(ctx, j[2], base + j[0] * per, per, ml, "w%d_%d" % (j[0], j[1])), wjobs)
        lines = []
        for ls, done, aborts, rej in res:
            lines += ls
            apply_rejections(ctx, rej)
            done = sum(1 for x in ls if x.startswith('{"e":"reset"'))
            ctx.traces_validated += done
            stats["run"] += done
            stats["aborted"] += aborts
        judge_lines(ctx, lines, "random history (seed %d)" % ctx.seed, os.path.join(ctx.workdir, "recorded.ndjson"))
        if rd < 2:
            count_classes(ctx, lines)
        count_views(ctx, lines)
        count_full(ctx, lines)
        if rd == 0:
            evs = [json.loads(x) for x in lines[1:200] if x.startswith('{"e":"op"')]
            if evs:
                ctx.sample({"recorded_events": evs[len(evs) // 2:len(evs) // 2 + 2]})
        if stats["aborted"] >= 3 * nw * MAX_ABORTS_PER_WORKER:
            break
    ctx.extra["recorded_histories"] = stats
    # vacuity of the dying-time view (only meaningful when the code under test did not stop the runs)
    dv = ctx.extra.get("dying_views_in_scope", {})
    if not ctx.violations and not (selftested and dv.get("owner_called_others") and dv.get("owner_called_nobody")):
        raise vlib.Infra("vacuity guard: no in-scope dying-time view was judged (%s, self-test %s)" % (dv, selftested))
    full = ctx.extra.get("in_scope_events_with_7_or_8_members_in_one", {})
    if not ctx.violations and not (full.get("list") and full.get("signal")):
        raise vlib.Infra("vacuity guard: no in-scope history reached 7 members in one list and in one signal (%s)" % full)
    ctx.rule = ("histories: (a) every generated transition of the complete state graphs of the small TLC models as an op script "
                "(Ring 2 lists x 3 elements x3 destruction orders, Ring 3x4 %s, Ring 2x3 with a held iterator %s, Signal 2 signals x "
                "3 connections on the 12 signal flavours (int/void result, plain/unregister base, 0/1/2 arguments)%s, Signal with "
                "owner operations 2x2 + 1 container), (b) seeded random histories <= 50 ops over 3 lists/signals, 8 elements/"
                "connections, 2 containers, cycling through the flavours: in-scope-only histories, extended histories (unlink, "
                "iterators, owner moves, containers: observed only), dense in-scope histories (every fourth: up to 8 members in ONE "
                "list / signal) and reentrant histories (never judged), everything destroyed "
                "in random order at the end; a class = (flavour, operation, size bucket of the destination and of the source "
                "list/signal before the operation, any element alive) of an executed event" % (
                    ("every 2nd transition", "complete", " (all on int(int), half on each other)") if thorough else ("every 16th transition", "every 8th", " (all on int(int), an eleventh on each other)")))
    ctx.assumptions += [
        "writes through pointers to destroyed heads/elements are only OBSERVED via ASan in the harness (every node is a separate heap object), not decided by the TLA+ spec",
        "moving an object onto itself is not driven (the statement is silent); connections are not movable through the public API",
        "a signal with a result type is only called while it has a combiner (a moved-from combiner is unspecified)",
        "only behaviour named by the statement of C11 can become a VIOLATION (operation kinds and reasons marked in scope in spec/RingTrace.tla); unlink, iterator steps, const iteration, moves of connection owners, containers, signal::empty(), callback arguments and reentrant callbacks are judged or driven but only reported under coverage.observations",
        "an element that is move-constructed/assigned from another takes over its place in the list (link order is the order of the links)",
        "a connection that is being destroyed is not alive: a call of a signal made from inside the unregister callback of the dying connection must not invoke it (in scope; only operations in which exactly one connection dies are judged); what signal::empty() says there is observed only",
        "Ring.tla is a hand transcription of base_impl.hpp/list_impl.hpp (repaired code); verdicts are only taken from traces of the real code judged by Membership.tla/Signal.tla",
    ]


def replay(ctx, payload):
    bins = build(ctx)      # (rejects again if a core unit still does not compile)
    p = payload["payload"]
    fl = p.get("flavour", "list")
    binary = bins.of(fl)
    ctx.count_class("replay")
    ctx.count_class("replay2")
    ctx.rule = "replay of one saved history (three destruction orders)"
    if p.get("build") or not binary or (not bins.full and not all(o["op"] in IN_SCOPE_OPS for o in p["script"])):
        ctx.sample({"unit": p.get("unit", unit_of(fl))})
        return
    # run the saved history with each destruction order (script index mod 3)
    lines, done, aborts, rej = run_replay(ctx, binary, fl, [p["script"]] * 3, "replay", "replay")
    apply_rejections(ctx, rej)
    judge_lines(ctx, lines, "replay", os.path.join(ctx.workdir, "replay_out.ndjson"))
    ctx.traces_validated += done
    ctx.count_class("replay")
    ctx.count_class("replay2")
    ctx.sample({"script": p["script"]})
    ctx.rule = "replay of one saved history (three destruction orders)"
