"""C12 - fcppt::parse stream reports true line/column and rewinds exactly.

1. TLC model-checks the abstract stream (spec/ParseStream.tla: offset + line/column from scratch
   by the documented definition) and the implementation-shaped model (spec/IStream.tla: the std
   stream's eof/fail/bad bits, clear/tellg/seekg, the incremental line/column update of
   detail/stream_impl.hpp) in lock-step: refinement, agreement of every returned value, every
   handed-out position exact, whole observable future = the abstract future (rewinding).
   Vacuity guards: with each of three defects re-introduced TLC must find a counterexample.
2. spec -> code: TLC emits one call script per generated transition of a small model; the harness
   replays them on the real detail::stream<char> / <wchar_t>.
3. code -> spec: the harness records random call sequences (get_char / get_position /
   set_position(saved) / badbit / literal / char_set) for ALL texts up to the tier's length over
   {a, newline, space, tab}, both character types, plus random longer texts, plus the
   `Line l:c` prefix of phrase_parse_string errors.
4. spec/StreamTrace.tla (TLC) folds every recorded history through the abstract spec's operators and
   reports the first event it cannot explain.
"""
import concurrent.futures
import json
import os
import re
import threading

import vlib

LEVEL = "model_checking"
JUDGE = ("StreamTrace", "StreamTrace.cfg")
_LOCK = threading.Lock()
OPNAMES = {1: "get_char", 2: "get_position", 3: "set_position", 4: "set_bad", 5: "literal", 6: "char_set",
           7: "position_equal", 8: "location_output", 9: "get_char_error", 10: "string"}
_OBS = {}   # observed-only disagreements (outside the statement of C12): signature -> [count, example]


def observe(sig, example):
    o = _OBS.setdefault(sig, [0, None])
    o[0] += 1
    if o[1] is None:
        o[1] = example


def _genuine_compile_error(out):
    """a diagnostic of the compiler about the code (as opposed to the compiler being killed / out of memory on the
    shared box, or a link failure: our infrastructure, never a verdict)"""
    if re.search(r"Killed signal|internal compiler error|virtual memory exhausted|No space left|cannot allocate memory|std::bad_alloc", out):
        return False
    if out.startswith("link failed"):
        return False
    return re.search(r" error: |fatal error:", out) is not None


def _first_error(out):
    for l in out.splitlines():
        if " error: " in l or "fatal error:" in l:
            return re.sub(r"\s+", " ", l)[:400]
    return re.sub(r"\s+", " ", out[-400:])


# harness units, largest first: (binary name, -D, what is lost, signature if it does not compile / None = observed only)
UNITS = (
    ("c12_stream", ("C12_PARSERS", "C12_EXT"), None, None),
    ("c12_stream_core", ("C12_PARSERS",),
     "the extension calls (position ==, location <<, get_char_error, string parser: observed only)", None),
    ("c12_stream_min", (),
     "literal / char_set on the stream and the phrase_parse_string error locations", "C12:char_parsers:does-not-compile"),
)


def build(ctx=None):
    """The whole harness; if it does not compile against the tree under test (and the compiler really diagnosed
    the code), the in-scope part without the observed-only extension calls (the loss is an OBSERVATION); if that
    does not compile, the stream alone (the character-level parsers the statement names no longer accept what the
    harness passed them: VIOLATION C12:char_parsers:does-not-compile); if even that does not compile: VIOLATION
    C12:stream:does-not-compile and nothing is run.  Returns the binary or None."""
    err = None
    for i, (name, defs, lost, sig) in enumerate(UNITS):
        if err is not None:
            msg = "the harness unit with %s does not compile against this tree: %s" % (lost, _first_error(err))
            if ctx is not None:
                ctx.extra.setdefault("units_not_compiling", []).append({"lost": lost, "first_error": _first_error(err)})
            if sig is None:
                observe("C12:extension_unit:does-not-compile", msg)
            elif ctx is not None:
                ctx.reject(sig, msg, {"build": True, "unit": name, "compiler_output_tail": err[-2500:]})
        for attempt in (1, 2):
            try:
                return vlib.build_harness(name, ["c12_stream.cpp"], libs=("core",), defs=defs)
            except vlib.Infra as e:
                if _genuine_compile_error(str(e)):
                    err = str(e)
                    break
                if attempt == 2:
                    raise
                vlib.log("build failed for a reason that is not a compiler diagnostic, retrying once: %s" % str(e)[:200])
    if ctx is None:
        raise vlib.Infra("the C12 harness does not compile: %s" % _first_error(err))
    ctx.reject("C12:stream:does-not-compile",
               "detail::stream<Ch> / get_char / get_position / set_position as driven by the harness do not compile "
               "against this tree: %s" % _first_error(err), {"build": True, "unit": "stream", "compiler_output_tail": err[-2500:]})
    return None


# ------------------------------------------------------------------ scripts


def script_of_hist(text, hist, ch=None, failat=-1):
    """Model history (events) -> harness script (calls).  set_position(off) becomes
    set_position(id of the first position handed out for that offset)."""
    ops = []
    offs = []
    for ev in hist:
        k = ev[0]
        if k in (1, 4, 9):
            ops.append([k])
        elif k == 2:
            ops.append([2])
            if len(ev) == 5:
                offs.append(ev[2])
        elif k == 3:
            ops.append([3, offs.index(ev[1])])
        elif k == 5:
            ops.append([5, ev[1]])
        elif k == 6:
            ops.append([6, ev[1]])
    # the last generated transition is observed as well: position, one read, position
    ops += [[2], [1], [2]]
    s = {"text": text, "ops": ops}
    if failat >= 0:
        s["sk"] = 3
        s["fa"] = failat
    if ch is not None:
        s["ch"] = ch
    return s


def script_of_record(r, upto=None):
    """Logged history -> harness script (ids are already ids)."""
    ops = []
    for ev in (r["ev"] if upto is None else r["ev"][:upto]):
        k = ev[0]
        if k in (1, 2, 4, 9):
            ops.append([k])
        elif k in (3, 5, 6, 8, 10):
            ops.append([k, ev[1]])
        elif k == 7:
            ops.append([k, ev[1], ev[2]])
    return {"text": r["text"], "ops": ops, "ch": r["ch"], "sk": r.get("sk", 0), "fa": r.get("fa", -1), "via": r.get("via", 0)}


# ------------------------------------------------------------------ judging


def judge_file(ctx, path, what, rc=0, out="", harness_args=None):
    """Judge one log file with StreamTrace; turn rejected records into ctx.reject()."""
    try:
        lines, tail = vlib.check_trace_file(path)
    except OSError:
        lines, tail = [], None      # the process died before it opened its log
    # records of the shape the judge reads; anything else (the crash marker of vjson.hpp, a line that happens to be
    # JSON but is no record) is kept out of TLC
    recs = []
    crashed = []
    for x in lines:
        try:
            r = json.loads(x)
        except ValueError:
            continue
        if not (isinstance(r, dict) and r.get("f") in ("hist", "scan", "longline", "entry")):
            continue
        recs.append(x)
        if "crash" in r:
            crashed.append((len(recs), r))
    dirty = len(recs) != len(lines)
    lines = recs
    if rc != 0:
        kind = {66: "sanitizer", 67: "crash", 68: "hang", 124: "timeout"}.get(rc, "exit%d" % rc)
        san = re.search(r"(ERROR: \w+Sanitizer: [^\n]*|runtime error: [^\n]*)", out)
        detail = san.group(1) if san else out[-300:]
        if crashed:
            # the crash handler of the harness completed the record: the call that was running is named, the events
            # before it are judged below like any other history
            n, r = crashed[-1]
            if r["f"] == "hist":
                op = OPNAMES.get(r["crash"], "history-setup" if r["crash"] == 0 else "call%s" % r["crash"])
                k = len(r["ev"])
                scr = script_of_record(r)
                if isinstance(r.get("call"), list) and r["call"] and r["call"][0] != 0:
                    scr["ops"].append(r["call"])     # the fatal call itself, so that the replay repeats it
                payload = {"script": scr, "record": r, "event_index": k + 1, "fatal_call": op, "harness_args": harness_args}
                desc = "after %d recorded events of history %s" % (k, json.dumps(r, separators=(",", ":"))[:400])
                inscope = r.get("sk", 0) == 0 and r["crash"] in (0, 1, 2, 3, 4, 5, 6)
            else:
                op = "entry_literal" if r.get("kind") == 5 else "entry_char_set"
                payload = {"script": {"text": r["text"], "entry": 1, "ch": r["ch"]}, "record": r, "harness_args": harness_args}
                desc = "entry record %s" % json.dumps(r, separators=(",", ":"))[:400]
                inscope = True
            sig = "C12:%s:%s" % (op, kind)
            if inscope:
                ctx.reject(sig, "%s (%s) inside %s, %s (%s): %s" % (kind, r.get("what"), op, desc, what, detail), payload)
            else:
                # a call / stream kind of the extension round: outside the statement of C12, observed only
                observe("kind%d:%s" % (r.get("sk", 0), sig), {"record": json.dumps(r, separators=(",", ":"))[:600], "detail": detail[:300]})
        else:
            f = "run"
            if tail:
                m = re.search(r'"f":"(\w+)"', tail)
                f = m.group(1) if m else "run"
            elif rc == 66:
                f = "process-exit"    # e.g. a leak report after the last record
            ctx.reject("C12:%s:%s" % (f, kind), "%s in the harness during a %s record (%s): %s; partial line: %s" % (
                kind, f, what, detail, (tail or "")[:300]),
                {"harness_args": harness_args, "partial_line": tail})
        dirty = True
    if dirty:
        with open(path, "w") as fh:
            fh.write("\n".join(lines) + ("\n" if lines else ""))
    if not lines:
        return []
    for attempt in (1, 2):
        # (the box is shared: a judge process killed by the kernel is noise, not a verdict - one retry)
        try:
            r = vlib.tlc(JUDGE[0], JUDGE[1], workers=1, env={"TRACE": path}, timeout=1500, xmx="3g", tag="StreamTrace_j")
        except vlib.Infra as e:
            if attempt == 2:
                raise
            vlib.log("StreamTrace run failed, retrying once: %s" % str(e).splitlines()[0][:200])
            continue
        v = vlib._verdict_lines(r.out)
        if "VERDICT" in v:
            break
        vlib.log("StreamTrace gave no verdict on %s (rc=%d)%s" % (path, r.rc, ", retrying once" if attempt == 1 else ""))
    if "VERDICT" not in v:
        raise vlib.Infra("StreamTrace gave no verdict on %s (rc=%d):\n%s" % (path, r.rc, "\n".join(r.out.splitlines()[-30:])))
    vd = v["VERDICT"][-1]
    if vd["n"] != len(lines):
        raise vlib.Infra("StreamTrace consumed %d of %d records of %s" % (vd["n"], len(lines), path))
    with _LOCK:
        ctx.extra["trace_states"] = ctx.extra.get("trace_states", 0) + r.generated
        _report(ctx, vd, lines, path, what)
    return lines


def _report(ctx, vd, lines, path, what):
    for b in vd["bad"]:
        if "HARNESS-PRECONDITION" in b["why"]:
            raise vlib.Infra("harness emitted a malformed record / a call outside the API precondition: line %d of %s" % (b["l"], path))
        rec = json.loads(lines[b["l"] - 1])
        sig = "C12:%s:%s" % (b["op"], "+".join(sorted(b["why"])))
        if not b.get("scope", True):
            # outside the statement of C12 (StreamTrace.tla InScope): observed, counted, never a VIOLATION
            o = _OBS.setdefault("kind%d:%s" % (rec.get("sk", 0), sig), [0, None])
            o[0] += 1
            if o[1] is None:
                o[1] = {"event_index": b["k"], "record": json.dumps(rec, separators=(",", ":"))[:600]}
            continue
        if rec["f"] == "hist":
            payload = {"script": script_of_record(rec, b["k"]), "record": rec, "event_index": b["k"]}
            desc = "event %d %s of history %s" % (b["k"], rec["ev"][b["k"] - 1], json.dumps(rec, separators=(",", ":"))[:400])
        elif rec["f"] == "scan":
            payload = {"script": {"text": rec["text"], "scan": rec["k"], "ch": rec["ch"]}, "record": rec}
            desc = "scan record %s" % json.dumps(rec, separators=(",", ":"))[:500]
        elif rec["f"] == "longline":
            payload = {"harness_args": ["longline", "OUT", str(ctx.seed)], "record": rec}
            desc = "longline record (text = pre ++ fill^n) %s" % json.dumps(rec, separators=(",", ":"))[:700]
        else:
            payload = {"script": {"text": rec["text"], "entry": 1, "ch": rec["ch"]}, "record": rec}
            desc = "entry record %s" % json.dumps(rec, separators=(",", ":"))[:400]
        ctx.reject(sig, "%s: spec cannot explain %s (%s): %s" % (what, b["op"], ",".join(b["why"]), desc), payload)
    if vd["nbad"] > len(vd["bad"]):
        vlib.log("note: %d further rejected records in %s not listed" % (vd["nbad"] - len(vd["bad"]), path))


def count_classes(ctx, lines, cap=60000):
    for l in lines[:cap]:
        r = json.loads(l)
        if r["f"] == "hist":
            rewound = False
            bad = False
            n = len(r["text"])
            nl = 10 in r["text"]
            via = r.get("via", 0)
            offs = []      # offsets reported for the handed-out positions (as logged)
            cur = 0        # offset as far as the log tells (only used to classify restores: back / same / ahead)
            for ev in r["ev"]:
                k = ev[0]
                if k in (7, 8, 9, 10):
                    ctx.count_class((r["ch"], r.get("sk", 0), OPNAMES[k], ev[-1] if k == 7 else (ev[1] if k == 9 and ev[1] < 0 else (ev[2] if k == 10 else 0))))
                    continue
                if k == 1:
                    res = "char" if ev[1] >= 0 else ("nothing" if ev[1] == -1 else "exc")
                elif k == 2:
                    res = "exc" if len(ev) == 2 else ("line1" if ev[3] == 1 else "line>1") + ("/end" if ev[2] == n else "")
                elif k == 3:
                    res = "ok" if ev[2] == 0 else "exc"
                    if ev[1] < len(offs) and not bad:
                        res += "/back" if offs[ev[1]] < cur else ("/same" if offs[ev[1]] == cur else "/ahead")
                        if ev[2] == 0:
                            cur = offs[ev[1]]
                elif k in (5, 6):
                    res = {1: "ok", 0: "fail-loc", -1: "fail-noloc", -2: "exc"}[ev[2]]
                else:
                    res = ""
                if k == 2 and len(ev) == 5:
                    offs.append(ev[2])
                    cur = ev[2]
                elif (k == 1 and ev[1] >= 0) or (k in (5, 6) and ev[2] in (0, 1)):
                    cur += 1
                ctx.count_class((r["ch"], r.get("sk", 0), via, OPNAMES[k], res, rewound, bad, nl, n > 255))
                if k == 3:
                    rewound = True
                if k == 4:
                    bad = True
        elif r["f"] == "entry":
            ctx.count_class((r["ch"], "entry", r["kind"], r["res"], min(r["line"], 3)))
        elif r["f"] == "longline":
            ctx.count_class((r["ch"], "longline", r["fill"] == 10, len(r["pre"])))
        else:
            ctx.count_class((r["ch"], "scan", len(r["text"]), min(r["text"].count(10), 3)))


def run_shards(ctx, binary, mode_args_of, nshards, what, workers):
    """Run the harness for every shard and judge its log; shards are independent processes."""
    total = [0]
    sample_lines = []

    def one(sh):
        path = os.path.join(ctx.workdir, "%s_%d.ndjson" % (what.replace(" ", "_"), sh))
        args = mode_args_of(path, sh)
        rc, out = vlib.run_harness(binary, args, timeout=3000)
        if rc in (3, 4):
            raise vlib.Infra("harness usage/internal error: %s\n%s" % (args, out[-500:]))
        lines = judge_file(ctx, path, what, rc, out, harness_args=[str(a) for a in args])
        total[0] += len(lines)
        if sh == 0:
            sample_lines.extend(lines[:60000])
        try:
            os.unlink(path)
        except OSError:
            pass
        return len(lines)

    with concurrent.futures.ThreadPoolExecutor(max_workers=workers) as ex:
        list(ex.map(one, range(nshards)))
    return total[0], sample_lines


def run(ctx):
    thorough = ctx.tier == "thorough"
    # 1. the specification itself
    vlib.tlc_mc(ctx, "ParseStream", "MC_ParseStream_big.cfg" if thorough else "MC_ParseStream.cfg", timeout=2400)
    vlib.tlc_mc(ctx, "IStream", "MC_IStream.cfg", timeout=2400)
    # extension: stream buffers that fail at an offset (abstract machine and lock-step), get_char_error, EqLaw
    vlib.tlc_mc(ctx, "ParseStream", "MC_ParseStream_failat.cfg", timeout=2400)
    vlib.tlc_mc(ctx, "IStream", "MC_IStream_failat.cfg", timeout=2400)
    if thorough:
        r = vlib.tlc_mc(ctx, "IStream", "MC_IStream_big.cfg", timeout=3000, coverage=True)
        # vacuity: every call of the model is generated; the four calls that can reach new states are taken
        # (literal / char_set reach the same states as get_char, so TLC reports them as generated only)
        cov = r.coverage()
        for a in ("IGetChar", "IGetPosition", "ISetPosition", "ISetBad", "ILiteral", "ICharSet"):
            taken, gen = cov.get(a, (0, 0))
            if gen == 0 or (taken == 0 and a not in ("ILiteral", "ICharSet", "IGetCharError")):
                raise vlib.Infra("coverage: action %s of IStream never taken (%d:%d)" % (a, taken, gen))
        ctx.extra["action_coverage"] = {a: list(cov[a]) for a in cov if a.startswith("I") and a != "IInit"}
    # vacuity guards: each re-introduced defect must violate the named invariant
    for cfg, inv in (("MC_IStream_colbug.cfg", "SavedExact"), ("MC_IStream_colbug_future.cfg", "FutureRefines"),
                     ("MC_IStream_setposbug.cfg", "Refines"), ("MC_IStream_eofbug.cfg", "ReturnsAgree"),
                     ("MC_IStream_failbug.cfg", "ReturnsAgree")):
        r = vlib.tlc("IStream", cfg, workers=2, expect=inv)
        if inv not in r.invariant_violated:
            raise vlib.Infra("vacuity guard: %s did not violate %s" % (cfg, inv))
        ctx.extra.setdefault("vacuity_guards", []).append({"cfg": cfg, "violates": inv, "states": r.distinct})
    # 2. spec -> code: one script per generated transition of the small lock-step model
    r = vlib.tlc_mc(ctx, "IStream", "MC_IStreamScripts.cfg", workers=4)
    raw = vlib._verdict_lines(r.out).get("SCRIPT", [])
    if len(raw) < 10000:
        raise vlib.Infra("script emission produced only %d scripts" % len(raw))
    scripts = [script_of_hist(s["text"], s["hist"], failat=s["failat"]) for s in raw if s["hist"]]
    # every fifth script without a failing offset is also replayed on a std::basic_stringstream (observed only)
    scripts += [dict(x, sk=1) for x in scripts[::5] if "sk" not in x]
    if not thorough:
        scripts = scripts[ctx.seed % 2::2]
    binary = build(ctx)
    if binary is None:
        ctx.rule = "the harness does not compile against the tree under test: nothing was run"
        return
    workers = max(4, min(12, vlib.NCPU - 4))
    nparts = workers
    parts = [scripts[i::nparts] for i in range(nparts)]

    def replay_part(i):
        sp = os.path.join(ctx.workdir, "scripts_%d.ndjson" % i)
        rp = os.path.join(ctx.workdir, "replayed_%d.ndjson" % i)
        vlib.write_ndjson(sp, parts[i])
        rc, out = vlib.run_harness(binary, ["replay", sp, rp], timeout=1500)
        if rc in (3, 4):
            raise vlib.Infra("harness replay failed: %s" % out[-500:])
        lines = judge_file(ctx, rp, "TLC-generated script", rc, out, harness_args=["replay", sp, rp])
        return lines

    with concurrent.futures.ThreadPoolExecutor(max_workers=workers) as ex:
        res = list(ex.map(replay_part, range(nparts)))
    nrep = sum(len(x) for x in res)
    ctx.evaluations += nrep
    ctx.traces_validated += nrep
    count_classes(ctx, res[0], cap=20000)
    ctx.sample({"tlc_script": scripts[len(scripts) // 2]})
    ctx.extra["tlc_scripts"] = len(scripts)
    # 3. code -> spec: all texts up to the tier's length, random call sequences, both character types
    if thorough:
        maxlen, nseq, nlong, nsh = 9, 2, 20000, 48
    else:
        maxlen, nseq, nlong, nsh = 8, 1, 2000, 16
    n, sample = run_shards(ctx, binary, lambda p, sh: ["record", p, ctx.seed, maxlen, nseq, sh, nsh, nlong], nsh,
                           "random history", workers)
    ctx.evaluations += n
    ctx.traces_validated += n
    count_classes(ctx, sample)
    for l in sample[40:42]:
        ctx.sample(json.loads(l))
    ctx.extra["record_texts_exhaustive_upto"] = maxlen
    # lines longer than 2^16 columns / texts with more than 2^16 lines, char and wchar_t (12 compact records)
    nl, _ = run_shards(ctx, binary, lambda p, sh: ["longline", p, ctx.seed + sh], 1, "longline", 1)
    ctx.evaluations += nl
    ctx.traces_validated += nl
    ctx.extra["longline_records"] = nl
    scan_upto = maxlen
    if thorough:
        # exhaustive sweep over the long texts with one compact fixed-shape history each:
        # length 10 for both character types, lengths 11 and 12 alternating the type by text index
        n1, _ = run_shards(ctx, binary, lambda p, sh: ["scan", p, ctx.seed, 10, 10, sh, 16, 3], 16, "scan len 10", workers)
        nsc = 160
        n2, s2 = run_shards(ctx, binary, lambda p, sh: ["scan", p, ctx.seed, 11, 12, sh, nsc, 1 + (sh % 2)], nsc,
                            "scan len 11-12", workers)
        ctx.evaluations += n1 + n2
        ctx.traces_validated += n1 + n2
        count_classes(ctx, s2, cap=5000)
        scan_upto = 12
        ctx.extra["scan_records"] = n1 + n2
    ctx.extra["observations"] = [{"what": k, "count": v[0], "example": v[1]} for k, v in sorted(_OBS.items())]
    for k, v in sorted(_OBS.items()):
        vlib.log("OBSERVATION (outside the statement of C12, not a verdict): %s x%d e.g. %s" % (k, v[0], v[1]))
    ctx.exhaustive = False
    ctx.rule = ("histories = call sequences on one stream object: (a) every generated transition of the small TLC lock-step "
                "model (texts <= 3, <= 5 calls, followed by get_position / get_char / get_position so that the last transition "
                "is observed) as a script, on char and wchar_t, through the members of detail::stream on one type and through the "
                "free functions get_char / get_position / set_position on the other (alternating); (b) for EVERY text of length <= %d over "
                "{a,\\n,space,tab}: %d seeded random call sequence(s) per character type (get_char/get_position/"
                "set_position(any saved position: before, at or ahead of the current offset)/literal/char_set, members or free "
                "functions chosen per history, 1 in 8 with badbit set at a random step) and 3 phrase_parse_string "
                "error-location records per type, and one extension history (other stream kinds: stringstream, non-seekable, "
                "failing at an offset; position ==, location <<, get_char_error, string parser - observed only); (c) random "
                "texts of length 13..40, half of them with NUL / CR / 0xFF / 0x80 (wchar_t: U+20AC, U+10FFFF) mixed in, and per "
                "shard two texts of 300..420 characters (one line longer than 255 columns; more than 255 lines) as compact scan "
                "records; %s"
                "a class = (char type, stream kind, members/free functions, call, result class incl. direction of a restore, "
                "after-a-rewind?, bad stream?, text has newline?, long text?) of an executed "
                "event (counted on a sample of the log)" % (
                    maxlen, nseq,
                    "(d) for EVERY text of length 10..12 one compact scan history (read all with positions, rewind to a random "
                    "saved position, read all again; length 11-12: one character type per text, alternating); " if thorough else ""))
    ctx.extra["texts_exhaustive_upto"] = scan_upto
    ctx.assumptions += [
        "the underlying std stream is a std::basic_istringstream (the only stream the string entry points create); the model of clear/tellg/seekg in IStream.tla is a hand transcription of libstdc++'s unformatted input functions",
        "a failing underlying stream is driven as badbit set by the environment; on a bad stream only 'a failure, never a character' is demanded, results of get_position/set_position there are left open",
        "error message TEXT is not compared, only the 'Line l:c: ' prefix of literal/char_set failures; at end of input (no offending character) any failure is accepted",
        "IStream.tla is a hand transcription; verdicts about the code are only taken from recorded executions judged by the abstract ParseStream operators",
        "undefined behaviour / memory errors are only OBSERVED through ASan/UBSan in the harness",
    ]


def replay(ctx, payload):
    binary = build(ctx)
    p = payload["payload"]
    if binary is None or p.get("build"):
        ctx.rule = "replay of a build verdict"
        ctx.count_class("replay")
        ctx.count_class("replay2")
        return
    if p.get("script"):
        sp = os.path.join(ctx.workdir, "replay_script.ndjson")
        rp = os.path.join(ctx.workdir, "replay_out.ndjson")
        vlib.write_ndjson(sp, [p["script"]])
        rc, out = vlib.run_harness(binary, ["replay", sp, rp], timeout=600)
        judge_file(ctx, rp, "replay", rc, out, harness_args=["replay", sp, rp])
    elif p.get("harness_args"):
        args = list(p["harness_args"])
        rp = os.path.join(ctx.workdir, "replay_out.ndjson")
        args[1 if args[0] != "replay" else 2] = rp
        rc, out = vlib.run_harness(binary, args, timeout=3000)
        judge_file(ctx, rp, "replay", rc, out, harness_args=args)
    else:
        raise vlib.Infra("replay payload has neither a script nor harness arguments")
    ctx.extra["observations"] = [{"what": k, "count": v[0], "example": v[1]} for k, v in sorted(_OBS.items())]
    for k, v in sorted(_OBS.items()):
        print("OBSERVATION (outside the statement of C12, not a verdict): %s x%d e.g. %s" % (k, v[0], v[1]))
    ctx.traces_validated += 1
    ctx.evaluations += 1
    ctx.count_class("replay")
    ctx.count_class("replay2")
    ctx.rule = "replay of one saved history"
