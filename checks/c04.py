"""C04 - optional / either / variant combinators satisfy their algebraic specification.

1. TLC model-checks spec/Algebra.tla through spec/AlgebraMC.tla: for D = {0,1,2} and ALL function
   tables ([D->D] 27, [D->Opt(D)] 64, [D->Either(D,D)] 216, [D->BOOLEAN] 8, [DxD->D] 19683) the
   functor / monad / applicative laws, join = bind id, sequence short-circuit, exactly-once and
   never-called-for-absent are invariants over the enumerated initial states (8 groups of cases).
2. Vacuity guards: for every law a Bug constant re-introduces a defect into one operator; TLC must
   then violate exactly that law.
3. harness/c04_algebra.cpp runs the REAL combinators over the same domains and tables for lvalue,
   const lvalue and rvalue arguments and records {f, cat, a, tables, res, calls}.
4. spec/AlgebraJudge.tla (TLC) recomputes res and calls from the operators of Algebra.tla and judges
   every record."""
import json
import os
import re

import vlib

LEVEL = "model_checking"
JUDGE = "AlgebraJudge"
JUDGE_CFG = "AlgebraJudge.cfg"
CHUNK = 60000

GROUPS = ["functor", "optmonad", "eitmonad", "optapp", "eitapp", "seq", "once", "order",
          # extension round
          "refs", "ext", "seqerr", "variant4", "do"]
GROUP_N = {"do": 2}   # size of the element domain where it is not 3

# (bug constant, group of cases, law that must fail)
GUARDS = [
    ("map_const", "functor", "LawFunctorIdentity"),
    ("map_failure_twice", "functor", "LawFunctorComposition"),
    ("bind_ignores_function", "functor", "LawMapIsBindReturn"),
    ("bind_ignores_function", "optmonad", "LawOptLeftIdentity"),
    ("bind_post", "optmonad", "LawOptRightIdentity"),
    ("bind_post", "optmonad", "LawOptAssoc"),
    ("join_drop", "optmonad", "LawOptJoin"),
    ("either_bind_post", "eitmonad", "LawEitLeftIdentity"),
    ("either_bind_failure", "eitmonad", "LawEitRightIdentity"),
    ("either_bind_post", "eitmonad", "LawEitAssoc"),
    ("either_join_outer", "eitmonad", "LawEitJoin"),
    ("apply_swapped", "optapp", "LawOptApplyIsBindMap"),
    ("apply_swapped", "optapp", "LawOptApplyHomomorphism"),
    ("maybe_multi_default", "optapp", "LawMaybeMulti"),
    ("combine_swap", "optapp", "LawCombine"),
    ("alternative_always_second", "optapp", "LawAlternative"),
    ("apply_last_failure", "eitapp", "LawEitApplyIsBindMap"),
    ("sequence_last_failure", "seq", "LawSequenceTraverse"),
    ("sequence_last_failure", "seq", "LawSequenceShortCircuit"),
    ("cat_reverse", "seq", "LawCat"),
    ("first_success_continue", "seq", "LawFirstSuccess"),
    ("loop_skips_last", "seq", "LawLoop"),
    ("filter_twice", "once", "LawExactlyOnce"),
    ("map_absent_call", "once", "LawNeverForAbsent"),
    ("match_wrong_branch", "once", "LawBranchSelected"),
    ("filter_negated", "once", "LawFilterIsBind"),
    ("less_flip", "order", "LawOptOrder"),
    ("var_less_value_only", "order", "LawVarOrder"),
    ("compare_ignores_type", "order", "LawVarCompare"),
    # extension round
    ("chain_skips_second", "optmonad", "LawOptChain"),
    ("either_bind_post", "eitmonad", "LawEitChain"),
    ("from_pointer_null_some", "refs", "LawPointerRoundTrip"),
    ("copy_value_first_cell", "refs", "LawCopyValue"),
    ("assign_returns_copy", "ext", "LawAssign"),
    ("to_exception_always_throws", "ext", "LawToException"),
    ("output_no_space", "ext", "LawOutput"),
    ("construct_inverted", "ext", "LawConstruct"),
    ("make_failure_is_success", "ext", "LawConstruct"),
    ("sequence_error_continues", "seqerr", "LawSequenceError"),
    ("assign_keeps_index", "variant4", "LawVariantAssign"),
    ("dynamic_cast_last", "variant4", "LawDynamicCast"),
    ("do_drops_first", "do", "LawDo"),
]


def build():
    return vlib.build_harness("c04_algebra", ["c04_algebra.cpp"], libs=())


def laws_of(group):
    """the law invariants listed in the group's cfg (single source of truth for the guard check)"""
    txt = open(os.path.join(vlib.SPEC, "MC_Algebra_%s.cfg" % group)).read()
    return [w for w in re.findall(r"\bLaw\w+", txt)]


def model_check(ctx):
    thorough = ctx.tier == "thorough"
    # every law of every group must have a vacuity guard
    guarded = set((g, l) for _, g, l in GUARDS)
    for g in GROUPS:
        for law in laws_of(g):
            if (g, law) not in guarded:
                raise vlib.Infra("law %s of group %s has no vacuity guard" % (law, g))

    def mc(g):
        cfg = "MC_Algebra_%s.cfg" % g
        if thorough and g == "seq":
            cfg = "MC_Algebra_seq_big.cfg"
        return vlib.tlc_mc(ctx, "AlgebraMC", cfg, workers=4, timeout=1500, xmx="3g")
    vlib.parallel(mc, GROUPS, workers=4)

    def guard(t):
        bug, group, law = t
        cfg = os.path.join(ctx.workdir, "vac_%s_%s.cfg" % (bug, law))
        with open(cfg, "w") as f:
            f.write('SPECIFICATION Spec\nCONSTANTS\n  N = %d\n  Bug = "%s"\n  Group = "%s"\n  MaxLen = 3\nINVARIANT %s\n'
                    % (GROUP_N.get(group, 3), bug, group, law))
        r = vlib.tlc("AlgebraMC", cfg, workers=2, timeout=900, xmx="2g", tag="AlgebraVac", expect=law)
        if law not in r.invariant_violated:
            raise vlib.Infra("vacuity guard: Bug=%s did not violate %s (group %s)\n%s" % (
                bug, law, group, "\n".join(r.out.splitlines()[-20:])))
        return {"bug": bug, "group": group, "violates": law, "initial_states_examined": r.distinct}
    ctx.extra["vacuity_guards"] = vlib.parallel(guard, GUARDS, workers=6)
    vlib.log("vacuity guards: %d bug constants violate their law" % len(GUARDS))


def signature(b):
    return "C04:%s:%s" % (b["op"], "+".join(sorted(b["why"])))


TAG_RE = re.compile(r'"t":("?\w+"?)')


def klass(line):
    """(combinator, categories, tags of the value arguments, number of continuation calls)"""
    pre, _, post = line.partition(',"res":')
    m = re.match(r'\{"f":"(\w+)","cat":"([^"]*)","a":', pre)
    a = pre[m.end():]
    for k in (',"d":', ',"tf":', ',"i":', ',"st":', ',"x":', ',"types":', ',"pm":'):
        a = a.split(k)[0]
    return (m.group(1), m.group(2), tuple(TAG_RE.findall(a)), post.count('"fn":'))


def judge_file(ctx, path, what, rc, out, seed, tier):
    """stream the log into chunks, judge them with parallel single-worker TLC processes"""
    chunks = []   # (path, first line number (0-based), nlines)
    tail = None
    n = 0
    cur = None
    curn = 0
    with open(path, "rb") as f:
        for raw in f:
            if not raw.endswith(b"\n"):
                tail = raw.decode(errors="replace")
                break
            line = raw.decode(errors="replace")
            if not line.startswith('{"f":') or not line.rstrip().endswith("}"):
                tail = line  # crash marker or truncated record
                continue
            if cur is None or curn >= CHUNK:
                if cur:
                    cur.close()
                p = "%s.part%d" % (path, len(chunks))
                cur = open(p, "w")
                chunks.append([p, n, 0])
                curn = 0
            cur.write(line)
            curn += 1
            chunks[-1][2] += 1
            n += 1
            ctx.count_class(klass(line))
            if n in (1, 5000, 60000):
                ctx.sample(json.loads(line))
    if cur:
        cur.close()
    if rc != 0:
        kind = {66: "sanitizer", 67: "crash", 68: "hang", 124: "timeout"}.get(rc, "exit%d" % rc)
        m = re.search(r'"f":"(\w+)"', tail or "")
        op = m.group(1) if m else "?"
        san = re.search(r"(ERROR: \w+Sanitizer: [^\n]*|runtime error: [^\n]*)", out)
        ctx.reject("C04:%s:%s" % (op, kind), "%s during %s (%s): %s" % (kind, op, what, san.group(1) if san else out[-300:]),
                   {"f": op, "seed": seed, "tier": tier, "partial_line": tail})
    elif tail is not None:
        raise vlib.Infra("harness log %s ends with an incomplete record although the harness exited 0" % path)

    def one(ch):
        p, first, cnt = ch
        r = vlib.tlc(JUDGE, JUDGE_CFG, workers=1, env={"TRACE": p}, timeout=1500, xmx="3g", tag="AlgebraJudge")
        v = vlib._verdict_lines(r.out)
        if "VERDICT" not in v:
            raise vlib.Infra("judge gave no verdict on %s (rc=%d):\n%s" % (p, r.rc, "\n".join(r.out.splitlines()[-30:])))
        vd = v["VERDICT"][-1]
        if vd["n"] != cnt:
            raise vlib.Infra("judge consumed %d of %d records of %s" % (vd["n"], cnt, p))
        bad = []
        if vd["bad"]:
            lines = open(p).read().splitlines()
            for b in vd["bad"]:
                bad.append((b, lines[b["l"] - 1]))
        return bad, vd["nbad"], r.generated
    res = vlib.parallel(one, chunks, workers=8)
    nbad = 0
    for bad, nb, gen in res:
        nbad += nb
        ctx.extra["trace_states"] = ctx.extra.get("trace_states", 0) + gen
        for b, line in bad:
            if any(w.startswith("HARNESS") for w in b["why"]):
                raise vlib.Infra("harness emitted a record outside the model's vocabulary / precondition: %s" % line[:300])
            rec = json.loads(line)
            if "OBSERVED-ONLY" in b["why"]:
                # a record kind outside the statement of C04: judged, never a violation
                why = sorted(w for w in b["why"] if w != "OBSERVED-ONLY")
                obs = ctx.extra.setdefault("observations", {"count": 0, "by_kind": {}, "samples": []})
                obs["count"] += 1
                key = "%s:%s" % (b["op"], "+".join(why))
                obs["by_kind"][key] = obs["by_kind"].get(key, 0) + 1
                if len(obs["samples"]) < 20 and obs["by_kind"][key] <= 2:
                    obs["samples"].append({"kind": b["op"], "disagrees_in": why, "record": rec})
                    print("OBSERVATION (outside the statement of C04, not a violation): %s disagrees with the model in %s: %s"
                          % (b["op"], ",".join(why), line[:300]))
                continue
            ctx.reject(signature(b), "%s: the model cannot explain %s [%s] (%s); record: %s" % (
                what, b["op"], rec.get("cat", ""), ",".join(sorted(b["why"])), line[:500]),
                {"f": b["op"], "seed": seed, "tier": tier, "record": rec})
    for p, _, _ in chunks:
        try:
            os.unlink(p)
        except OSError:
            pass
    ctx.evaluations += n
    ctx.traces_validated += n
    ctx.extra["records_rejected"] = ctx.extra.get("records_rejected", 0) + nbad
    ctx.extra.setdefault("observations", {"count": 0, "by_kind": {}, "samples": []})
    return n


def corruption_selftest(ctx, path):
    """Binding demonstration on the recorded log itself: for every record kind take a real record and
    (a) replace its result by the result of another record of the same kind, (b) drop its continuation
    calls / append a duplicate of the first one.  The judge must reject every corrupted record."""
    first = {}
    other = {}
    withcalls = {}
    with open(path) as f:
        for line in f:
            m = re.match(r'\{"f":"(\w+)"', line)
            if not m:
                continue
            k = m.group(1)
            pre, _, post = line.rstrip("\n").partition(',"res":')
            res, _, calls = post.rpartition(',"calls":')
            if k not in first:
                first[k] = (pre, res, calls)
            elif k not in other and res != first[k][1]:
                other[k] = res
            if k not in withcalls and calls != "[]}":
                withcalls[k] = (pre, res, calls)
    corrupted = []
    for k, (pre, res, calls) in first.items():
        if k in other:
            corrupted.append((k, "result", pre + ',"res":' + other[k] + ',"calls":' + calls))
    for k, (pre, res, calls) in withcalls.items():
        corrupted.append((k, "calls-dropped", pre + ',"res":' + res + ',"calls":[]}'))
        one = calls[1:-2].split("},{")[0]
        one = one if one.endswith("}") else one + "}"
        corrupted.append((k, "call-duplicated", pre + ',"res":' + res + ',"calls":[' + one + "," + calls[1:]))
    cpath = os.path.join(ctx.workdir, "corrupted.ndjson")
    with open(cpath, "w") as f:
        for _, _, l in corrupted:
            f.write(l + "\n")
    r = vlib.tlc(JUDGE, JUDGE_CFG, workers=1, env={"TRACE": cpath}, timeout=600, xmx="2g", tag="AlgebraCorrupt")
    v = vlib._verdict_lines(r.out)
    if "VERDICT" not in v:
        raise vlib.Infra("corruption self-test: no verdict:\n%s" % "\n".join(r.out.splitlines()[-20:]))
    vd = v["VERDICT"][-1]
    rejected = set(b["l"] for b in vd["bad"])
    missed = [(k, what) for i, (k, what, _) in enumerate(corrupted) if (i + 1) not in rejected]
    if vd["nbad"] > 300:
        missed = []  # more than the verbatim cap: compare counts only
        if vd["nbad"] != len(corrupted):
            raise vlib.Infra("corruption self-test: %d of %d corrupted records rejected" % (vd["nbad"], len(corrupted)))
    if missed:
        raise vlib.Infra("corruption self-test: corrupted records accepted by the judge: %s" % missed[:10])
    ctx.extra["corruption_selftest"] = {"corrupted_records": len(corrupted), "rejected": vd["nbad"],
                                        "kinds_with_result_corruption": len(other), "kinds_with_call_corruption": len(withcalls)}


def run(ctx):
    model_check(ctx)
    binary = build()
    path = os.path.join(ctx.workdir, "records.ndjson")
    rc, out = vlib.run_harness(binary, ["record", path, ctx.seed, ctx.tier], timeout=1500)
    if rc == 0:
        corruption_selftest(ctx, path)
    n = judge_file(ctx, path, "recorded call", rc, out, ctx.seed, ctx.tier)
    try:
        os.unlink(path)
    except OSError:
        pass
    if n < (1000000 if ctx.tier == "thorough" else 100000):
        raise vlib.Infra("harness produced only %d records" % n)
    ctx.exhaustive = False
    ctx.rule = ("one record = one call of a real combinator: all values of optional<D>, either<D,D>, variant<D,D,D> "
                "(D = {0,1,2}) x ALL unary continuation tables ([D->D] 27, [D->Opt D] 64, [D->Either] 216, [D->bool] 8) "
                "x value categories (non-const lvalue, const lvalue, rvalue); binary tables [DxD->D]: "
                + ("all 19683 for optional::apply/combine, seeded samples for the other n-ary combinators; containers <= 4"
                   if ctx.tier == "thorough" else "seeded samples of 120..480 of the 19683; containers <= 3")
                + "; a class = (combinator, value categories, tags of the value arguments, number of continuation "
                  "calls observed); traces_validated counts call records (each is a one-call history)")
    ctx.assumptions += [
        "parametricity: the templates treat the element type uniformly, so the 3-element domain (and the instrumented "
        "element type whose moved-from state is a value outside the domain) stands for all element types",
        "laws (functor/monad/applicative, exactly-once, never-called-for-absent) are theorems of the MODEL checked by TLC "
        "over all tables; the real code is bound to the model per combinator call (result and continuation call log)",
        "either::first_success: calls compared as a multiset; either::loop: per-continuation call order only "
        "(the documentation does not fix more)",
        "either::sequence can only be instantiated with an rvalue source (its requires-clause rejects lvalues at compile "
        "time), so only that category is driven",
        "undefined behaviour is only OBSERVED through ASan/UBSan in the harness",
    ]


def replay(ctx, payload):
    pl = payload["payload"]
    binary = build()
    path = os.path.join(ctx.workdir, "replay.ndjson")
    seed = pl.get("seed", payload.get("seed", 1))
    tier = pl.get("tier", payload.get("tier", "quick"))
    args = ["record", path, seed, tier]
    if pl.get("f") and pl["f"] != "?":
        args.append(pl["f"])
    rc, out = vlib.run_harness(binary, args, timeout=1500)
    judge_file(ctx, path, "replay of %s" % pl.get("f"), rc, out, seed, tier)
    ctx.rule = "replay: every record of the saved combinator with the saved seed and tier"
