"""C04 - optional / either / variant combinators satisfy their algebraic specification.

1. TLC model-checks spec/Algebra.tla through spec/AlgebraMC.tla: for D = {0,1,2} and ALL function
   tables ([D->D] 27, [D->Opt(D)] 64, [D->Either(D,D)] 216, [D->BOOLEAN] 8, [DxD->D] 19683) the
   functor / monad / applicative laws, join = bind id, sequence short-circuit, exactly-once and
   never-called-for-absent are invariants over the enumerated initial states (8 groups of cases).
2. Vacuity guards: for every law a Bug constant re-introduces a defect into one operator; TLC must
   then violate exactly that law.
3. harness/c04_algebra.cpp runs the REAL combinators over the same domains and tables for lvalue,
   const lvalue and rvalue arguments and records {f, cat, a, tables, res, calls}.
4. spec/AlgebraJudge.tla (TLC) recomputes res and calls from the operators of Algebra.tla and judges
   every record.
5. Robustness (Clarification 2): whatever the tree under test does to the harness is a verdict, not an
   infrastructure failure - a unit that does not compile is rebuilt in parts down to single record kinds
   (in scope: VIOLATION <kind>:does-not-compile, observed only: OBSERVATION), a run that crashes / hangs /
   leaks is repeated kind by kind, an escaping exception is a record of its own, and only kinds named by
   the statement (InScope in the judge) can yield a VIOLATION."""
import json
import os
import re

import vlib

LEVEL = "model_checking"
JUDGE = "AlgebraJudge"
JUDGE_CFG = "AlgebraJudge.cfg"
CHUNK = 60000

GROUPS = ["functor", "optmonad", "eitmonad", "optapp", "eitapp", "seq", "once", "order",
          # extension round
          "refs", "ext", "seqerr", "variant4", "do"]
GROUP_N = {"do": 2}   # size of the element domain where it is not 3

# (bug constant, group of cases, law that must fail)
GUARDS = [
    ("map_const", "functor", "LawFunctorIdentity"),
    ("map_failure_twice", "functor", "LawFunctorComposition"),
    ("bind_ignores_function", "functor", "LawMapIsBindReturn"),
    ("bind_ignores_function", "optmonad", "LawOptLeftIdentity"),
    ("bind_post", "optmonad", "LawOptRightIdentity"),
    ("bind_post", "optmonad", "LawOptAssoc"),
    ("join_drop", "optmonad", "LawOptJoin"),
    ("either_bind_post", "eitmonad", "LawEitLeftIdentity"),
    ("either_bind_failure", "eitmonad", "LawEitRightIdentity"),
    ("either_bind_post", "eitmonad", "LawEitAssoc"),
    ("either_join_outer", "eitmonad", "LawEitJoin"),
    ("apply_swapped", "optapp", "LawOptApplyIsBindMap"),
    ("apply_swapped", "optapp", "LawOptApplyHomomorphism"),
    ("maybe_multi_default", "optapp", "LawMaybeMulti"),
    ("combine_swap", "optapp", "LawCombine"),
    ("alternative_always_second", "optapp", "LawAlternative"),
    ("apply_last_failure", "eitapp", "LawEitApplyIsBindMap"),
    ("sequence_last_failure", "seq", "LawSequenceTraverse"),
    ("sequence_last_failure", "seq", "LawSequenceShortCircuit"),
    ("cat_reverse", "seq", "LawCat"),
    ("first_success_continue", "seq", "LawFirstSuccess"),
    ("loop_skips_last", "seq", "LawLoop"),
    ("filter_twice", "once", "LawExactlyOnce"),
    ("map_absent_call", "once", "LawNeverForAbsent"),
    ("match_wrong_branch", "once", "LawBranchSelected"),
    ("filter_negated", "once", "LawFilterIsBind"),
    ("less_flip", "order", "LawOptOrder"),
    ("var_less_value_only", "order", "LawVarOrder"),
    ("compare_ignores_type", "order", "LawVarCompare"),
    # extension round
    ("chain_skips_second", "optmonad", "LawOptChain"),
    ("either_bind_post", "eitmonad", "LawEitChain"),
    ("from_pointer_null_some", "refs", "LawPointerRoundTrip"),
    ("copy_value_first_cell", "refs", "LawCopyValue"),
    ("assign_returns_copy", "ext", "LawAssign"),
    ("to_exception_always_throws", "ext", "LawToException"),
    ("output_no_space", "ext", "LawOutput"),
    ("construct_inverted", "ext", "LawConstruct"),
    ("make_failure_is_success", "ext", "LawConstruct"),
    ("sequence_error_continues", "seqerr", "LawSequenceError"),
    ("assign_keeps_index", "variant4", "LawVariantAssign"),
    ("dynamic_cast_last", "variant4", "LawDynamicCast"),
    ("do_drops_first", "do", "LawDo"),
    # round 3 audit
    ("index_zero_based", "variant4", "LawVarAccessors"),
    ("maybe_multi_default", "functor", "LawMaybeMultiVariadic"),
]


def _tla_set(name):
    """the string set `name == {...}` of spec/AlgebraJudge.tla (single source of truth for the record kinds
    and for which of them are in scope)"""
    txt = open(os.path.join(vlib.SPEC, JUDGE + ".tla")).read()
    m = re.search(r"^%s == \{([^}]*)\}" % name, txt, re.M)
    if not m:
        raise vlib.Infra("cannot find the set %s in spec/%s.tla" % (name, JUDGE))
    return re.findall(r'"(\w+)"', m.group(1))


KNOWN = _tla_set("Known")
IN_SCOPE = set(_tla_set("InScope"))
HARNESS_SRC = ["c04_algebra.cpp"]


def build(kinds=None, name="c04_algebra"):
    """kinds=None: every record kind in one translation unit; else only the named kinds are compiled
    (and only their fcppt headers included)"""
    defs = () if kinds is None else tuple(["C04_SELECT=1"] + ["C04_K_%s=1" % k for k in sorted(kinds)])
    return vlib.build_harness(name, HARNESS_SRC, libs=(), defs=defs)


def _first_error(msg):
    for l in msg.splitlines():
        if "error:" in l or " error " in l:
            return l.strip()[:400]
    return (msg.splitlines() or ["?"])[0][:400]


def observe(ctx, kind, why, detail, record=None):
    """something outside the statement of C04 disagrees / does not build / crashes: never a violation"""
    obs = ctx.extra.setdefault("observations", {"count": 0, "by_kind": {}, "samples": []})
    obs["count"] += 1
    key = "%s:%s" % (kind, why)
    obs["by_kind"][key] = obs["by_kind"].get(key, 0) + 1
    if len(obs["samples"]) < 20 and obs["by_kind"][key] <= 2:
        obs["samples"].append({"kind": kind, "disagrees_in": why.split("+"), "detail": detail[:400], "record": record})
        print("OBSERVATION (outside the statement of C04, not a violation): %s: %s: %s" % (kind, why, detail[:300]))


def try_build(kinds, name):
    try:
        return build(kinds, name), None
    except vlib.Infra as e:
        msg = str(e)
        if "compile failed" not in msg and "link failed" not in msg:
            raise
        return None, msg


def build_units(ctx):
    """-> list of (binary, kinds or None).  Normally one binary with every kind.  If that translation unit
    does not compile against the tree under test (Clarification 2: never an infrastructure failure as long as
    the harness skeleton itself builds): the in-scope kinds and the observed-only kinds are built separately,
    and a part that still does not compile is built kind by kind.  A kind named by the statement whose driver
    (well-formed calls that compile against the unchanged tree) no longer compiles is a VIOLATION
    `C04:<kind>:does-not-compile`; an observed-only kind becomes an OBSERVATION; all others are still run."""
    binary, err = try_build(None, "c04_algebra")
    if binary:
        return [(binary, None)]
    vlib.log("the harness does not compile as one unit against this tree (%s); building its parts" % _first_error(err))
    skeleton, err0 = try_build([], "c04_skeleton")
    if not skeleton:
        raise vlib.Infra("the harness skeleton (no combinator driven) does not compile:\n%s" % err0[-3000:])
    ctx.extra["harness_build"] = {"one_unit": False, "first_error": _first_error(err), "kinds_not_compiling": []}
    inscope = [k for k in KNOWN if k in IN_SCOPE]
    ext = [k for k in KNOWN if k not in IN_SCOPE]
    units = []
    parts = vlib.parallel(lambda t: try_build(t[1], t[0]), [("c04_inscope", inscope), ("c04_ext", ext)], workers=2)
    for (nm, kinds), (b, e) in zip([("c04_inscope", inscope), ("c04_ext", ext)], parts):
        if b:
            units.append((b, kinds))
            continue
        singles = vlib.parallel(lambda k: try_build([k], "c04_k_" + k), kinds, workers=8)
        for k, (bk, ek) in zip(kinds, singles):
            if bk:
                units.append((bk, [k]))
                continue
            ctx.extra["harness_build"]["kinds_not_compiling"].append({"kind": k, "first_error": _first_error(ek)})
            if k in IN_SCOPE:
                ctx.reject("C04:%s:does-not-compile" % k,
                           "the calls of %s that the harness makes (well-formed, they compile against the unchanged tree) "
                           "no longer compile: %s" % (k, _first_error(ek)),
                           {"f": k, "seed": ctx.seed, "tier": ctx.tier, "compile": True, "first_error": _first_error(ek)})
            else:
                observe(ctx, k, "does-not-compile", _first_error(ek))
    return units


def laws_of(group):
    """the law invariants listed in the group's cfg (single source of truth for the guard check)"""
    txt = open(os.path.join(vlib.SPEC, "MC_Algebra_%s.cfg" % group)).read()
    return [w for w in re.findall(r"\bLaw\w+", txt)]


def model_check(ctx):
    thorough = ctx.tier == "thorough"
    # every law of every group must have a vacuity guard
    guarded = set((g, l) for _, g, l in GUARDS)
    for g in GROUPS:
        for law in laws_of(g):
            if (g, law) not in guarded:
                raise vlib.Infra("law %s of group %s has no vacuity guard" % (law, g))

    def mc(g):
        cfg = "MC_Algebra_%s.cfg" % g
        if thorough and g == "seq":
            cfg = "MC_Algebra_seq_big.cfg"
        return vlib.tlc_mc(ctx, "AlgebraMC", cfg, workers=4, timeout=1500, xmx="3g")
    vlib.parallel(mc, GROUPS, workers=4)

    def guard(t):
        bug, group, law = t
        cfg = os.path.join(ctx.workdir, "vac_%s_%s.cfg" % (bug, law))
        with open(cfg, "w") as f:
            f.write('SPECIFICATION Spec\nCONSTANTS\n  N = %d\n  Bug = "%s"\n  Group = "%s"\n  MaxLen = 3\nINVARIANT %s\n'
                    % (GROUP_N.get(group, 3), bug, group, law))
        r = vlib.tlc("AlgebraMC", cfg, workers=2, timeout=900, xmx="2g", tag="AlgebraVac", expect=law)
        if law not in r.invariant_violated:
            raise vlib.Infra("vacuity guard: Bug=%s did not violate %s (group %s)\n%s" % (
                bug, law, group, "\n".join(r.out.splitlines()[-20:])))
        return {"bug": bug, "group": group, "violates": law, "initial_states_examined": r.distinct}
    ctx.extra["vacuity_guards"] = vlib.parallel(guard, GUARDS, workers=6)
    vlib.log("vacuity guards: %d bug constants violate their law" % len(GUARDS))


def signature(b):
    return "C04:%s:%s" % (b["op"], "+".join(sorted(b["why"])))


TAG_RE = re.compile(r'"t":("?\w+"?)')
HEAD_RE = re.compile(r'\{"f":"(\w+)","cat":"([^"]*)","a":')
RC_KIND = {66: "sanitizer", 67: "crash", 68: "hang", 124: "timeout"}


def klass(line):
    """(combinator, categories, tags of the value arguments, number of continuation calls)"""
    pre, _, post = line.partition(',"res":')
    m = HEAD_RE.match(pre)
    a = pre[m.end():]
    for k in (',"d":', ',"tf":', ',"i":', ',"st":', ',"x":', ',"types":', ',"pm":'):
        a = a.split(k)[0]
    return (m.group(1), m.group(2), tuple(TAG_RE.findall(a)), post.count('"fn":'))


def complete_record(line):
    """A complete record starts with {"f":"<kind>","cat":..., and ends with ,"calls":[...]} after a "res" (or
    "exc") field.  The flushed prefix of an aborted call can by accident end in '}' (a default value such as
    {"t":"none"} is the last thing written before the call) - it has no "calls" field."""
    if not line.endswith("]}\n") or not HEAD_RE.match(line):
        return False
    return (',"res":' in line or ',"exc":"' in line) and ',"calls":[' in line


def read_log(path):
    """-> (complete lines, truncated prefix of the aborted call or None).  Crash markers written by the signal
    handlers and partial lines are not records."""
    lines = []
    tail = None
    try:
        f = open(path, "rb")
    except OSError:
        return lines, tail
    with f:
        for raw in f:
            line = raw.decode(errors="replace")
            if complete_record(line):
                lines.append(line)
            elif line.startswith('{"f":"'):
                tail = line.rstrip("\n")  # the flushed prefix of the call that did not return
    return lines, tail


def harness_failure(ctx, kind, rc, out, tail, what, seed, tier):
    """a crash / sanitizer report / hang / timeout of a harness run is caused by the code under test: a
    VIOLATION if the combinator being driven is named by the statement, else an observation"""
    why = RC_KIND.get(rc, "exit%d" % rc)
    m = re.search(r'"f":"(\w+)"', tail or "")
    op = kind or (m.group(1) if m else "?")
    san = re.search(r"(ERROR: \w+Sanitizer: [^\n]*|runtime error: [^\n]*)", out or "")
    detail = "%s during %s (%s): %s; call: %s" % (why, op, what, san.group(1) if san else (out or "")[-300:].strip(), (tail or "?")[:300])
    if op in IN_SCOPE or op == "?" or op not in KNOWN:
        ctx.reject("C04:%s:%s" % (op, why), detail, {"f": op, "seed": seed, "tier": tier, "partial_line": tail})
    else:
        observe(ctx, op, why, detail)


def drive(ctx, units, seed, tier, only=None):
    """Run the harness units; -> list of complete record lines.  A unit that does not exit 0 is re-run kind by
    kind (the random tables of a kind do not depend on the other kinds), so that one aborting combinator
    neither hides the records of the others nor the other aborting ones."""
    tmo = 1500 if tier == "thorough" else 240
    lines = []
    nrun = [0]

    def run_one(binary, kind, timeout):
        nrun[0] += 1
        path = os.path.join(ctx.workdir, "records_%d_%s.ndjson" % (nrun[0], kind or "all"))
        args = ["record", path, seed, tier] + ([kind] if kind else [])
        rc, out = vlib.run_harness(binary, args, timeout=timeout)
        ls, tail = read_log(path)
        try:
            os.unlink(path)
        except OSError:
            pass
        return rc, out, ls, tail

    for binary, kinds in units:
        wanted = [k for k in (kinds if kinds is not None else KNOWN) if only is None or k == only]
        if not wanted:
            continue
        single = wanted[0] if (only is not None or len(wanted) == 1) else None
        rc, out, ls, tail = run_one(binary, single, tmo)
        if rc == 0 and tail is None:
            lines += ls
            continue
        if single is not None:
            lines += ls
            harness_failure(ctx, single, rc, out, tail, "recorded call", seed, tier)
            continue
        vlib.log("harness run ended with rc=%d (%s); re-running kind by kind" % (rc, RC_KIND.get(rc, "?")))
        ctx.extra.setdefault("harness_runs_failed", []).append({"rc": rc, "partial_line": (tail or "")[:200]})
        seen_failure = False
        results = vlib.parallel(lambda k: run_one(binary, k, 120 if tier == "quick" else 900), wanted, workers=6)
        for k, (rck, outk, lsk, tailk) in zip(wanted, results):
            lines += lsk
            if rck != 0 or tailk is not None:
                seen_failure = True
                harness_failure(ctx, k, rck, outk, tailk, "recorded call, run of this kind alone", seed, tier)
        if not seen_failure:
            # only the complete run fails (e.g. a leak report at exit): attribute it to the call it stopped in
            harness_failure(ctx, None, rc, out, tail, "recorded call, complete run", seed, tier)
    return lines


def judge_lines(ctx, lines, what, seed, tier):
    """judge the records with parallel single-worker TLC processes.  Records of observed-only kinds go into
    chunks of their own: the judge keeps the first 300 rejected records of a chunk verbatim, and observations
    must not use up that room.  -> (number judged, set of kinds with a rejection or observation)"""
    touched = set()
    groups = {True: [], False: []}
    n = 0
    for line in lines:
        m = HEAD_RE.match(line)
        kind = m.group(1)
        if ',"res":' not in line:
            # an exception escaped from the driven call (see record_guarded in the harness)
            touched.add(kind)
            n += 1
            ex = re.search(r',"exc":"([^"]*)"', line).group(1)
            detail = "%s: an exception escaped from the call (%s); record: %s" % (what, ex, line[:400].rstrip())
            if kind in IN_SCOPE or kind not in KNOWN:
                ctx.reject("C04:%s:exception" % kind, detail, {"f": kind, "seed": seed, "tier": tier, "record_text": line[:2000]})
            else:
                observe(ctx, kind, "exception", detail)
            continue
        groups[kind in IN_SCOPE or kind not in KNOWN].append(line)
        try:
            ctx.count_class(klass(line))
        except (AttributeError, ValueError):
            pass
        n += 1
        if n in (1, 5000, 60000):
            try:
                ctx.sample(json.loads(line))
            except ValueError:
                pass
    chunks = []
    for key in (True, False):
        g = groups[key]
        for i in range(0, len(g), CHUNK):
            p = os.path.join(ctx.workdir, "judge_%s_%d.ndjson" % ("in" if key else "obs", i // CHUNK))
            with open(p, "w") as f:
                f.writelines(g[i:i + CHUNK])
            chunks.append((p, g[i:i + CHUNK]))

    def one(ch):
        p, part = ch
        r = vlib.tlc(JUDGE, JUDGE_CFG, workers=1, env={"TRACE": p}, timeout=1500, xmx="3g", tag="AlgebraJudge")
        v = vlib._verdict_lines(r.out)
        if "VERDICT" not in v:
            raise vlib.Infra("judge gave no verdict on %s (rc=%d):\n%s" % (p, r.rc, "\n".join(r.out.splitlines()[-30:])))
        vd = v["VERDICT"][-1]
        if vd["n"] != len(part):
            raise vlib.Infra("judge consumed %d of %d records of %s" % (vd["n"], len(part), p))
        return [(b, part[b["l"] - 1]) for b in vd["bad"]], vd["nbad"], r.generated
    res = vlib.parallel(one, chunks, workers=8)
    nbad = 0
    for bad, nb, gen in res:
        nbad += nb
        ctx.extra["trace_states"] = ctx.extra.get("trace_states", 0) + gen
        for b, line in bad:
            if any(w.startswith("HARNESS") for w in b["why"]):
                raise vlib.Infra("harness emitted a record outside the model's vocabulary / precondition: %s" % line[:300])
            try:
                rec = json.loads(line)
            except ValueError:
                rec = {"text": line[:2000]}
            touched.add(b["op"])
            if "OBSERVED-ONLY" in b["why"]:
                # a record kind outside the statement of C04: judged, never a violation
                why = sorted(w for w in b["why"] if w != "OBSERVED-ONLY")
                observe(ctx, b["op"], "+".join(why), "disagrees with the model in %s: %s" % (",".join(why), line[:300].rstrip()), rec)
                continue
            ctx.reject(signature(b), "%s: the model cannot explain %s [%s] (%s); record: %s" % (
                what, b["op"], rec.get("cat", ""), ",".join(sorted(b["why"])), line[:500].rstrip()),
                {"f": b["op"], "seed": seed, "tier": tier, "record": rec})
    for p, _ in chunks:
        try:
            os.unlink(p)
        except OSError:
            pass
    ctx.evaluations += n
    ctx.traces_validated += n
    ctx.extra["records_rejected"] = ctx.extra.get("records_rejected", 0) + nbad
    ctx.extra.setdefault("observations", {"count": 0, "by_kind": {}, "samples": []})
    return n, touched


def corruption_selftest(ctx, lines, skip_kinds):
    """Binding demonstration on the recorded log itself: for every record kind take a real record and
    (a) replace its result by the result of another record of the same kind, (b) drop its continuation
    calls / append a duplicate of the first one.  The judge must reject every corrupted record.
    Kinds with a rejected record or an observation in this run are left out: if the tree under test gets a
    result wrong, exchanging results can produce a correct record."""
    first = {}
    other = {}
    withcalls = {}
    for line in lines:
        m = HEAD_RE.match(line)
        if not m or ',"res":' not in line:
            continue
        k = m.group(1)
        if k in skip_kinds:
            continue
        pre, _, post = line.rstrip("\n").partition(',"res":')
        res, _, calls = post.rpartition(',"calls":')
        if k not in first:
            first[k] = (pre, res, calls)
        elif k not in other and res != first[k][1]:
            other[k] = res
        if k not in withcalls and calls != "[]}":
            withcalls[k] = (pre, res, calls)
    corrupted = []
    for k, (pre, res, calls) in first.items():
        if k in other:
            corrupted.append((k, "result", pre + ',"res":' + other[k] + ',"calls":' + calls))
    for k, (pre, res, calls) in withcalls.items():
        corrupted.append((k, "calls-dropped", pre + ',"res":' + res + ',"calls":[]}'))
        one = calls[1:-2].split("},{")[0]
        one = one if one.endswith("}") else one + "}"
        corrupted.append((k, "call-duplicated", pre + ',"res":' + res + ',"calls":[' + one + "," + calls[1:]))
    if not corrupted:
        return
    cpath = os.path.join(ctx.workdir, "corrupted.ndjson")
    with open(cpath, "w") as f:
        for _, _, l in corrupted:
            f.write(l + "\n")
    r = vlib.tlc(JUDGE, JUDGE_CFG, workers=1, env={"TRACE": cpath}, timeout=600, xmx="2g", tag="AlgebraCorrupt")
    v = vlib._verdict_lines(r.out)
    if "VERDICT" not in v:
        raise vlib.Infra("corruption self-test: no verdict:\n%s" % "\n".join(r.out.splitlines()[-20:]))
    vd = v["VERDICT"][-1]
    rejected = set(b["l"] for b in vd["bad"])
    missed = [(k, what) for i, (k, what, _) in enumerate(corrupted) if (i + 1) not in rejected]
    if vd["nbad"] > 300:
        missed = []  # more than the verbatim cap: compare counts only
        if vd["nbad"] != len(corrupted):
            raise vlib.Infra("corruption self-test: %d of %d corrupted records rejected" % (vd["nbad"], len(corrupted)))
    if missed:
        raise vlib.Infra("corruption self-test: corrupted records accepted by the judge: %s" % missed[:10])
    ctx.extra["corruption_selftest"] = {"corrupted_records": len(corrupted), "rejected": vd["nbad"],
                                        "kinds_with_result_corruption": len(other), "kinds_with_call_corruption": len(withcalls)}


def run(ctx):
    if set(IN_SCOPE) - set(KNOWN):
        raise vlib.Infra("InScope names kinds that are not Known: %s" % sorted(set(IN_SCOPE) - set(KNOWN)))
    model_check(ctx)
    units = build_units(ctx)
    one_unit = len(units) == 1 and units[0][1] is None
    lines = drive(ctx, units, ctx.seed, ctx.tier)
    n, touched = judge_lines(ctx, lines, "recorded call", ctx.seed, ctx.tier)
    trouble = bool(ctx.violations) or ctx.extra.get("observations", {}).get("count", 0) > 0 or not one_unit \
        or bool(ctx.extra.get("harness_runs_failed")) or bool(ctx.known_hits)
    # the self-test of the judge needs records that are right: kinds untouched by any verdict of this run
    corruption_selftest(ctx, lines, touched)
    if not trouble:
        # an undisturbed run must contain every record kind and the usual volume (a silent loss of coverage is
        # a harness bug); after a crash / compile failure / rejection the verdicts above stand for themselves
        seen = set(HEAD_RE.match(l).group(1) for l in lines)
        if set(KNOWN) - seen:
            raise vlib.Infra("the harness produced no record of kind(s) %s" % sorted(set(KNOWN) - seen))
        if n < (1000000 if ctx.tier == "thorough" else 100000):
            raise vlib.Infra("harness produced only %d records" % n)
    ctx.exhaustive = False
    ctx.rule = ("one record = one call of a real combinator: all values of optional<D>, either<D,D>, variant<D,D,D> "
                "(D = {0,1,2}) x ALL unary continuation tables ([D->D] 27, [D->Opt D] 64, [D->Either] 216, [D->bool] 8) "
                "x value categories (non-const lvalue, const lvalue, rvalue); binary tables [DxD->D]: "
                + ("all 19683 for optional::apply/combine, seeded samples for the other n-ary combinators; containers <= 4"
                   if ctx.tier == "thorough" else "seeded samples of 120..480 of the 19683; containers <= 3")
                + "; a class = (combinator, value categories, tags of the value arguments, number of continuation "
                  "calls observed); traces_validated counts call records (each is a one-call history)")
    ctx.assumptions += [
        "parametricity: the templates treat the element type uniformly, so the 3-element domain (and the instrumented "
        "element type whose moved-from state is a value outside the domain) stands for all element types",
        "laws (functor/monad/applicative, exactly-once, never-called-for-absent) are theorems of the MODEL checked by TLC "
        "over all tables; the real code is bound to the model per combinator call (result and continuation call log)",
        "either::first_success: calls compared as a multiset; either::loop: per-continuation call order only "
        "(the documentation does not fix more)",
        "either::sequence can only be instantiated with an rvalue source (its requires-clause rejects lvalues at compile "
        "time), so only that category is driven",
        "undefined behaviour is only OBSERVED through ASan/UBSan in the harness",
    ]


def replay(ctx, payload):
    pl = payload["payload"]
    seed = pl.get("seed", payload.get("seed", 1))
    tier = pl.get("tier", payload.get("tier", "quick"))
    kind = pl.get("f") if pl.get("f") in KNOWN else None
    units = build_units(ctx)   # rejects again what does not compile
    if kind is None or any(kinds is None or kind in kinds for _, kinds in units):
        lines = drive(ctx, units, seed, tier, only=kind)
        judge_lines(ctx, lines, "replay of %s" % (kind or "every combinator"), seed, tier)
    ctx.rule = "replay: every record of the saved combinator with the saved seed and tier"
