"""C13 - axis-aligned boxes behave as half-open point sets.

1. TLC model-checks spec/BoxLaws.tla: the formula-level definitions of spec/Box.tla (per-coordinate
   comparisons, min/max) coincide with the point-set definitions (Pts(b) = {p : pos <= p < max}) for
   every box and every pair of boxes with corners in [-3,3], N = 1 and 2 (quick: [-2,2] for N = 2):
   contains_point = membership, intersects <=> common point (non-empty operands), intersection = common
   points and the null box for disjoint non-empty operands, contains <=> subset (non-empty inner),
   extend_bounding_box = least box containing both (non-empty operands), size/pos/max, corner_points,
   shrink, stretch_absolute, center, interval distance.  Twelve bug-constant configurations must be
   refuted (vacuity guards, one per law).
2. harness/c13_box.cpp enumerates the same boxes / pairs / points on the real fcppt::math::box functions
   (int and unsigned; unsigned in [0,6] for N = 1 and [0,4] for N = 2) plus seeded random 3-D boxes and
   logs inputs and outputs; spec/BoxJudge.tla (TLC) judges every record at the point-set level.
3. Sensitivity guard: corrupted copies of real records must be rejected by the same judge."""
import copy
import json
import os
import re

import vlib

LEVEL = "model_checking"
JUDGE = "BoxJudge"
JUDGE_CFG = "BoxJudge.cfg"

LAWS = ["PtsLaw", "ContainsPointLaw", "IntersectsLaw", "IntersectionLaw", "IntersectionLaw", "ContainsLaw", "ExtendLaw", "ExtendPointLaw",
        "CornerLaw", "ShrinkStretchLaw", "CenterLaw", "DistanceLaw"]
GUARDS = [("BoxLaws", "MC_BoxLaws_bug%d.cfg" % (i + 1), law) for i, law in enumerate(LAWS)]
# extension round: the transcription of interval_distance before the proposed repair must be refuted
GUARDS.append(("BoxLaws", "MC_BoxLaws_bug_olddistance.cfg", "DistanceDocLaw"))

INPUT_KEYS = ("f", "T", "N", "ap", "am", "pts", "amounts", "cube", "lo", "hi", "bs", "a1", "a2")
# record kinds that are entirely outside the statement of C13 (observed only, see spec/BoxJudge.tla)
OBSERVED_KINDS = ("interval_distance", "null")
# functions driven inside box1 / box2 records that are outside the statement (a crash inside them is an observation)
OBSERVED_STAGES = ("init_max_init_dim", "center", "extend_bounding_box_point", "structure_cast_output", "distance_comparison", "structure_cast", "center", "distance", "output")


def build():
    return vlib.build_harness("c13_box", ["c13_box.cpp"], libs=())


def signature(b):
    return "C13:%s:%s" % (b["op"], "+".join(sorted(b["why"])))


def inputs_of(rec):
    return {k: rec[k] for k in INPUT_KEYS if k in rec}

PID = "C13"


def split_why(why):
    """(reasons inside the statement of the property, observed-only reasons without the obs: prefix)"""
    return [w for w in why if not w.startswith("obs:")], [w[4:] for w in why if w.startswith("obs:")]


def observe(ctx, op, obs, line):
    """a disagreement outside the statement of the property: recorded in the evidence
    (coverage.observations) and in the log, never a rejected event"""
    o = ctx.extra.setdefault("observations", {})
    key = "%s:%s:%s" % (PID, op, "+".join(sorted(obs)))
    e = o.setdefault(key, {"count": 0, "example": line[:700]})
    e["count"] += 1
    if e["count"] == 1:
        vlib.log("OBSERVED (outside the statement of %s, not a violation): %s" % (PID, key))


def judge_light(ctx, module, cfg, trace_path, nchunks=48, par=8, xmx="1200m", timeout=1500):
    """vlib.judge_trace with small JVM heaps and bounded parallelism (the machine is shared): the
    record file is split on line boundaries, every chunk is judged by its own single-worker TLC.
    Returns the rejected records {l (global 1-based line), op, why[]}."""
    nlines = sum(1 for _ in open(trace_path))
    nchunks = max(2, min(nchunks, nlines // 60))
    chunks = vlib.split_file(trace_path, nchunks)

    def one(ch):
        p, first = ch
        r = vlib.tlc(module, cfg, workers=1, env={"TRACE": p}, timeout=timeout, tag=module + "_j", xmx=xmx)
        v = vlib._verdict_lines(r.out)
        if "VERDICT" not in v:
            raise vlib.Infra("judge %s gave no verdict on %s (rc=%d):\n%s" % (module, p, r.rc, "\n".join(r.out.splitlines()[-30:])))
        vd = v["VERDICT"][-1]
        bad = []
        for b in vd["bad"]:
            b = dict(b)
            b["l"] = b["l"] + first
            bad.append(b)
        if vd["nbad"] > len(vd["bad"]):
            # RecordLoop lists at most 300 rejected records per run: judge this chunk again in pieces
            # of 250 records so that nothing (in particular nothing in scope) is dropped
            ls = open(p).read().splitlines()
            bad, gen = [], r.generated
            for k in range(0, len(ls), 250):
                q = "%s.sub%d" % (p, k)
                with open(q, "w") as fh:
                    fh.write("\n".join(ls[k:k + 250]) + "\n")
                b2, g2 = one((q, first + k))
                os.unlink(q)
                bad += b2
                gen += g2
            return bad, gen
        return bad, r.generated
    res = vlib.parallel(one, chunks, workers=par)
    bad = []
    for b, g in res:
        bad += b
        ctx.extra["trace_states"] = ctx.extra.get("trace_states", 0) + g
    for p, _ in chunks:
        try:
            os.unlink(p)
        except OSError:
            pass
    return sorted(bad, key=lambda b: b["l"])


def judge_file(ctx, path, what, rc, out, judge=True):
    lines, tail = vlib.check_trace_file(path)
    crash = [l for l in lines if l.startswith('{"e":"crash"')]
    lines = [l for l in lines if not l.startswith('{"e":"crash"')]
    if crash and rc == 0:
        raise vlib.Infra("crash record in a trace of a harness that exited 0")
    if rc != 0:
        op = "?"
        if tail:
            m = re.search(r'"f":"(\w+)"', tail)
            op = m.group(1) if m else "?"
        kind = {66: "sanitizer", 67: "crash", 68: "hang", 124: "timeout"}.get(rc, "exit%d" % rc)
        san = re.search(r"(ERROR: \w+Sanitizer: [^\n]*|runtime error: [^\n]*|Assertion [^\n]*)", out)
        payload = {"partial_line": tail}
        if tail:
            try:
                payload["record"] = inputs_of(json.loads(re.sub(r",\s*$", "", tail) + "}"))
            except ValueError:
                pass
        # a box1 / box2 record batches many functions: the crash line of the harness names the one that ran
        stage = ""
        for c in crash:
            try:
                stage = json.loads(c).get("stage", "") or stage
            except ValueError:
                pass
        if not stage:
            fr = re.findall(r"in (?:\w+ )?fcppt::math::box::(\w+)", out)
            stage = next((x for x in fr if x not in ("object", "detail")), "")
        if stage:
            kind = "%s-in-%s" % (kind, stage)
        if op in OBSERVED_KINDS or stage in OBSERVED_STAGES:
            observe(ctx, op, [kind], tail or "")
        else:
            ctx.reject("C13:%s:%s" % (op, kind), "%s during %s (%s): %s" % (kind, op, what, san.group(1) if san else out[-300:]), payload)
        with open(path, "w") as f:
            f.write("\n".join(lines) + ("\n" if lines else ""))
    if not lines or not judge:
        return lines
    bad = judge_light(ctx, JUDGE, JUDGE_CFG, path)
    ctx.evaluations += len(lines)
    if not hasattr(ctx, "unexplained"):
        ctx.unexplained = set()
    for b in bad:
        ctx.unexplained.add(lines[b["l"] - 1])
        ins, obs = split_why(b["why"])
        if obs:
            observe(ctx, b["op"], obs, lines[b["l"] - 1])
        if not ins:
            continue
        b = dict(b, why=ins)
        if "HARNESS-PRECONDITION" in b["why"]:
            raise vlib.Infra("harness record outside its own input space at line %d of %s: %s" % (b["l"], path, lines[b["l"] - 1][:300]))
        rec = json.loads(lines[b["l"] - 1])
        ctx.reject(signature(b), "%s: the point-set semantics of Box.tla cannot explain %s (%s); record: %s" % (
            what, b["op"], ",".join(b["why"]), lines[b["l"] - 1][:500]), {"record": inputs_of(rec), "observed_prefix": lines[b["l"] - 1][:4000]})
    return lines




def shape(p, m):
    return tuple("<" if x < y else ("=" if x == y else ">") for x, y in zip(p, m))


def rel(a, b):
    """relative placement of two intervals, per coordinate"""
    (a1, a2), (b1, b2) = a, b
    if a1 >= a2 or b1 >= b2:
        return "empty"
    if a2 < b1 or b2 < a1:
        return "apart"
    if a2 == b1 or b2 == a1:
        return "touch"
    if (a1, a2) == (b1, b2):
        return "equal"
    if a1 <= b1 and b2 <= a2:
        return "b-in-a" + ("-edge" if a1 == b1 or a2 == b2 else "")
    if b1 <= a1 and a2 <= b2:
        return "a-in-b" + ("-edge" if a1 == b1 or a2 == b2 else "")
    return "overlap"


def cube_boxes(n, lo, hi):
    w = hi - lo + 1
    W = w ** n
    def cube(k):
        return [lo + (k // w ** i) % w for i in range(n)]
    return [(cube(k // W), cube(k % W)) for k in range(W * W)]


def count_classes(ctx, lines):
    cache = {}
    for l in lines:
        r = json.loads(l)
        f = r["f"]
        if f == "box1":
            ctx.count_class((f, r["T"], r["N"], shape(r["ap"], r["am"])))
        elif f == "box2":
            if r["cube"]:
                key = (r["N"], r["lo"], r["hi"])
                if key not in cache:
                    cache[key] = cube_boxes(*key)
                bs = cache[key]
            else:
                bs = [(b[0], b[1]) for b in r["bs"]]
            for bp, bm in bs:
                ctx.count_class((f, r["T"], r["N"], tuple(rel((r["ap"][i], r["am"][i]), (bp[i], bm[i])) for i in range(r["N"]))))
        elif f == "interval_distance":
            for b in r["bs"]:
                ctx.count_class((f, rel((r["a1"], r["a2"]), (b[0], b[1]))))
        else:
            ctx.count_class((f, r["T"], r["N"]))


def corruptions(recs):
    out = []

    cur = [None]
    cnt = {}
    PER_KEY = 4    # several candidate records per kind: one accepted corruption must not fail the guard

    def mut(r, fn, why):
        r = copy.deepcopy(r)
        fn(r)
        out.append((r, why, cur[0]))

    def _one(r):
        f = r["f"]
        n = r["N"]
        key = (f, r["T"], n)
        if cnt.get(key, 0) >= PER_KEY:
            return
        cur[0] = key
        ne = all(x < y for x, y in zip(r.get("ap", [0]), r.get("am", [1])))
        # shrink is compared exactly only when the shrunk box is non-empty: corrupt such an entry
        ksh = next((k for k, v in enumerate(r.get("shv", [])) if all(p0 + a0 < m0 - a0 for p0, m0, a0 in zip(r["ap"], r["am"], v))), None) if f == "box1" else None
        if f == "box1" and ne and all(y - x >= 2 for x, y in zip(r["ap"], r["am"])) and 1 in r["cp"] and 0 in r["cp"] and ksh is not None and len(r["stv"]) > 0:
            mut(r, lambda x: x["pos"].__setitem__(0, x["pos"][0] + 1), "pos-max")
            mut(r, lambda x: x["size"].__setitem__(0, x["size"][0] + 1), "size")
            mut(r, lambda x: x["mm"].__setitem__(0, x["mm"][0] + 1), "pos-max-nonconst-read")
            mut(r, lambda x: x["wm"].__setitem__(0, x["wm"][0] + 1), "pos-max-nonconst-write")
            mut(r, lambda x: x["vp"].__setitem__(0, x["vp"][0] + 1), "pos-max-nonconst-write")
            mut(r, lambda x: x["imm"].__setitem__(0, x["imm"][0] + 1), "init_max")
            mut(r, lambda x: x["idp"][0].__setitem__(0, x["idp"][0][0] - 1), "init_dim")
            mut(r, lambda x: x["pdm"][0].__setitem__(0, x["pdm"][0][0] - 1), "constructor-pos-dim")
            i1, i0 = r["cp"].index(1), r["cp"].index(0)
            mut(r, lambda x: x["cp"].__setitem__(i1, 0), "contains_point")
            mut(r, lambda x: x["cp"].__setitem__(i0, 1), "contains_point")
            mut(r, lambda x: x["corners"].__setitem__(0, x["corners"][1]), "corner_points")
            if r["T"] != "f64":
                mut(r, lambda x: x["center"].__setitem__(0, x["center"][0] + 1), "center")
            mut(r, lambda x: x["epm"][0].__setitem__(0, x["epm"][0][0] + 1), "extend_bounding_box-point")
            mut(r, lambda x: x["shp"][ksh].__setitem__(0, x["shp"][ksh][0] - 1), "shrink")
            mut(r, lambda x: x["stm"][0].__setitem__(0, x["stm"][0][0] - 1), "stretch_absolute")
            if r["T"] != "f64":
                mut(r, lambda x: x["scm"].__setitem__(0, x["scm"][0] + 1), "structure_cast")
                mut(r, lambda x: x["text"].__setitem__(1, 91), "output-text")
            cnt[key] = cnt.get(key, 0) + 1
        elif f == "box2" and ne and 1 in r["isx"] and 0 in r["isx"] and 1 in r["con"]:
            i1 = r["isx"].index(1)
            mut(r, lambda x: x["isx"].__setitem__(i1, 0), "intersects")
            c1 = max(k for k in range(len(r["con"])) if r["con"][k] == 1 and r["inp"][k] != r["inm"][k])
            mut(r, lambda x: x["con"].__setitem__(c1, 0), "contains")
            mut(r, lambda x: x["inm"][c1].__setitem__(0, x["inm"][c1][0] + 1), "intersection-points")
            mut(r, lambda x: x["exp"][c1].__setitem__(0, x["exp"][c1][0] - 1), "extend_bounding_box")
            mut(r, lambda x: x["eq"].__setitem__(c1, 1 - x["eq"][c1]), "comparison")
            if r["dist"]:
                mut(r, lambda x: x["dist"][c1].__setitem__(0, x["dist"][c1][0] + 7), "distance")
            out_before = len(out)
            for k in range(len(r["isx"])):
                # a disjoint non-empty partner: the null box is demanded
                if r["isx"][k] == 0 and r["inp"][k] == [0] * n and r["inm"][k] == [0] * n:
                    bb = cube_boxes(n, r["lo"], r["hi"])[k] if r["cube"] else r["bs"][k]
                    if all(x < y for x, y in zip(bb[0], bb[1])):
                        mut(r, lambda x: (x["inp"][k].__setitem__(0, 1), x["inm"][k].__setitem__(0, 1)), "intersection-not-null-box")
                        break
            if len(out) > out_before:
                cnt[key] = cnt.get(key, 0) + 1
        elif f == "null":
            mut(r, lambda x: x["max"].__setitem__(0, 1), "null")
            cnt[key] = cnt.get(key, 0) + 1
        elif f == "interval_distance" and r["a1"] + 2 <= r["a2"]:
            ks = [k for k, b in enumerate(r["bs"]) if b[0] < b[1]]
            apart = next((k for k in ks if r["bs"][k][0] > r["a2"]), None)
            if apart is None:
                return
            mut(r, lambda x: x["d12"].__setitem__(apart, x["d12"][apart] + 1), "value")
            mut(r, lambda x: x["d21"].__setitem__(apart, x["d21"][apart] - 1), "value")
            cnt[key] = cnt.get(key, 0) + 1
    for r in recs:
        try:
            _one(r)
        except (IndexError, KeyError, ValueError, StopIteration):
            pass    # this record is not a usable candidate
    return out


def check_corruptions(ctx, cor, bad):
    """Per (kind of record, expected reason): at least one of the corrupted candidate records must be
    rejected by the judge with that reason.  A single candidate on which the corruption happens to leave
    a value the specification also accepts does not fail the guard; only a kind/reason for which NO
    candidate is rejected does (exit 2)."""
    groups = {}
    for i, (rec, why, key) in enumerate(cor):
        got = bad.get(i + 1, [])
        ok = why in got or "obs:" + why in got
        g = groups.setdefault((str(key), why), [0, 0, rec, got])
        g[0] += 1
        g[1] += 1 if ok else 0
    failed = [(k, g) for k, g in groups.items() if g[1] == 0]
    if failed:
        k, g = failed[0]
        raise vlib.Infra("sensitivity guard: none of the %d corrupted %s records (expected reason %s) was rejected, e.g. judged %s: %s" % (
            g[0], k[0], k[1], g[3], json.dumps(g[2])[:300]))
    rejected = sum(g[1] for g in groups.values())
    ctx.extra["judge_sensitivity"] = {"corrupted_records": len(cor), "rejected_with_expected_reason": rejected,
                                      "groups": len(groups), "every_group_rejected": True, "all_rejected": rejected == len(cor)}


def sensitivity_guard(ctx, lines):
    """corrupt copies of records the judge currently explains completely (records with any reason - a
    violation or an observation - are no candidates); a kind whose records are all unexplained is skipped"""
    unexpl = getattr(ctx, "unexplained", set())
    # interval_distance records carry the known observation (nested intervals sharing an end point) on the
    # unchanged tree; they stay candidates, their corruption ("value" on a pair of intervals that are apart)
    # is a different reason
    recs = [json.loads(l) for l in lines if l not in unexpl or l.startswith('{"f":"interval_distance"')]
    cor = corruptions(recs)
    kinds = set((c[0]["f"], c[0]["T"], c[0]["N"]) for c in cor)
    need = {(f, t, n) for f in ("box1", "box2", "null") for t in ("i32", "u32", "i64", "f64") for n in (1, 2, 3)} | {("interval_distance", "i32", 1)}
    touched = set()
    for l in unexpl:
        r = json.loads(l)
        touched.add((r["f"], r.get("T"), r.get("N")))
    missing = need - kinds - touched
    if missing:
        raise vlib.Infra("sensitivity guard: no corruptible record for %s" % sorted(missing))
    p = os.path.join(ctx.workdir, "corrupted.ndjson")
    vlib.write_ndjson(p, [c[0] for c in cor])
    bad = {b["l"]: b["why"] for b in judge_light(ctx, JUDGE, JUDGE_CFG, p, nchunks=6, par=6)}
    check_corruptions(ctx, cor, bad)
    ctx.extra["judge_sensitivity"]["kinds_skipped_because_unexplained"] = sorted(str(k) for k in (need - kinds) & touched)


def run(ctx):
    thorough = ctx.tier == "thorough"
    # 1. the specification itself: formula level == point-set level
    vlib.tlc_mc(ctx, "BoxLaws", "MC_BoxLaws_n1.cfg", workers=4, xmx="2g")
    vlib.tlc_mc(ctx, "BoxLaws", "MC_BoxLaws_n2.cfg" if thorough else "MC_BoxLaws_n2q.cfg", timeout=3000, xmx="2g")
    if thorough:
        # extension round: 3-D, corners in [-1,1]: 729 boxes, 531 441 ordered pairs
        vlib.tlc_mc(ctx, "BoxLaws", "MC_BoxLaws_n3.cfg", timeout=3000, xmx="2g")

    def guard(g):
        mod, cfg, inv = g
        r = vlib.tlc(mod, cfg, workers=2, xmx="1g", expect=inv)
        if inv not in r.invariant_violated:
            raise vlib.Infra("vacuity guard: %s/%s did not violate %s" % (mod, cfg, inv))
        return {"module": mod, "cfg": cfg, "violates": inv}
    ctx.extra["vacuity_guards"] = vlib.parallel(guard, GUARDS, workers=6)
    # 2. code -> spec
    binary = build()
    tpath = os.path.join(ctx.workdir, "recorded.ndjson")
    # every section of the enumeration (type x dimension, random 3-D, observed-only) in its own process: a call that
    # kills the process (abort, undocumented exception, watchdog) ends only its section; all complete records are judged
    rc, all_lines = 0, []
    for sec in list(range(1, 9)) + [10, 11, 12, 13, 9]:
        spath_k = "%s.sec%d" % (tpath, sec)
        rc_k, out_k = vlib.run_harness(binary, ["record", spath_k, ctx.tier, ctx.seed, sec], timeout=1600 if thorough else 600)
        all_lines += judge_file(ctx, spath_k, "enumeration, section %d" % sec, rc_k, out_k, judge=False)
        rc = rc or rc_k
        os.unlink(spath_k)
    with open(tpath, "w") as f:
        f.write("".join(l + "\n" for l in all_lines))
    lines = judge_file(ctx, tpath, "enumeration", 0, "")
    npairs = 0
    nunary = 0
    for l in lines:
        m = re.search(r'"f":"box2".*?"nb":(\d+)', l[:400])
        if m:
            npairs += int(m.group(1))
        elif '"f":"box1"' in l[:20]:
            nunary += 1
        elif '"f":"interval_distance"' in l[:30]:
            npairs += 2 * l.count("],[") + 2
    # evaluations: one per box (box1), one per pair (box2); records are batches
    ctx.evaluations = nunary + npairs + sum(1 for l in lines if '"f":"null"' in l[:20])
    ctx.traces_validated += len(lines)
    ctx.extra["records"] = len(lines)
    ctx.extra["box_pairs_judged"] = npairs
    if lines:
        count_classes(ctx, lines)
        for pat in ('"f":"box1","T":"i32","N":2,"ap":[-1,0],"am":[2,2]', '"f":"box2","T":"i32","N":3', '"f":"box2","T":"u32","N":1,"ap":[2],"am":[5]'):
            for l in lines:
                if pat in l[:120]:
                    ctx.sample(json.loads(l) if len(l) < 3000 else {"truncated_record": l[:3000]})
                    break
        if rc == 0 and not ctx.violations:
            sensitivity_guard(ctx, lines)
    ctx.exhaustive = True
    ctx.rule = ("exhaustive enumeration by the harness: every box and every ordered pair of boxes with corners in [-3,3] for N=1 and N=2 "
                "(quick: [-2,2] for N=2), int; unsigned [0,6] for N=1 and [0,4] for N=2; every lattice point of the cube enlarged by 1; "
                "shrink/stretch amounts 0..2; plus seeded random 3-D boxes (3/4 non-empty) with 20 partners and 40 points each "
                "(not exhaustive); one record per box (box1) / per first operand with all partners (box2); evaluations counts boxes + pairs; "
                "a class = (record kind, type, N, per-coordinate relative placement: empty/apart/touch/overlap/nested(-edge)/equal, "
                "or per-coordinate shape pos<max / = / > for box1)")
    ctx.assumptions += [
        "results for empty or inverted operands are only held to the point-set clause (equal point sets); intersects, contains (inner), extend_bounding_box and distance are only judged for non-empty operands",
        "extend_bounding_box(box, point) is judged by the documentation's 'just big enough' in the closed sense (min/max of the corners); with the half-open reading a point on the new maximum is not a member - not part of the statement",
        "interval_distance: for nested intervals sharing an end point both 0 (documentation text) and minus the common length (usual reading, what the code returns) are accepted",
        "unsigned coordinate type: amounts that would wrap and distance (negative results) are not driven",
        "center is judged for non-empty boxes only (integral division truncates)",
    ]


def replay(ctx, payload):
    binary = build()
    rec = payload["payload"].get("record")
    if not rec:
        raise vlib.Infra("replay file carries no record")
    ipath = os.path.join(ctx.workdir, "replay_in.ndjson")
    vlib.write_ndjson(ipath, [rec])
    opath = os.path.join(ctx.workdir, "replay_out.ndjson")
    rc, out = vlib.run_harness(binary, ["replay", ipath, opath], timeout=300)
    judge_file(ctx, opath, "replay", rc, out)
    ctx.traces_validated += 1
    ctx.count_class("replay")
    ctx.count_class("replay2")
    ctx.rule = "replay of one saved record"
