"""C07 - raw_vector and buffer behave like std::vector for every operation history.

1. TLC model-checks spec/RawVector.tla (all histories over small constants; sanity laws).
2. TLC emits one operation script per generated transition of a small model; the harness replays
   them on the real raw_vector / buffer (spec -> code).
3. The harness records random histories (code -> spec).
4. spec/RawVectorTrace.tla (TLC) judges every recorded event: contents, returned iterators,
   observers, capacity >= size and the heap discipline (alloc/free pairing, ownership, leaks).
ASan/UBSan/LSan reports of the harness are turned into rejected events (observed, not decided by
the spec)."""
import json
import os
import re

import vlib

LEVEL = "model_checking"
TRACE_MODULE = "RawVectorTrace"
TRACE_CFG = "RawVectorTrace.cfg"
OBSERVED_ONLY = {"dynamic-array", "heap:dynamic-array-block-mismatch"}


def build():
    return vlib.build_harness("c07_rawvec", ["c07_rawvec.cpp"], libs=("core",))


def signature(b):
    return "C07:%s:%s" % (b["op"], "+".join(sorted(b["why"])))


def run_resuming(binary, args, out_path, first_arg_index, timeout, max_restarts=40):
    """Runs the harness; when it is stopped inside a driven call (sanitizer abort, crash, hang) the
    complete lines are kept, the abort is remembered, and the harness is restarted at the history
    after the aborted one, so that the rest of the histories are still executed and judged.
    Returns (list of (rc, output, truncated_tail, history_index), path of the merged complete trace)."""
    aborts = []
    merged = out_path
    seg = 0
    start = 0
    with open(merged, "w") as mf:
        while True:
            seg_path = "%s.seg%d" % (out_path, seg)
            a = list(args)
            a[a.index("@OUT")] = seg_path
            a += [start] if first_arg_index is None else []
            rc, out = vlib.run_harness(binary, a, timeout=timeout)
            lines, tail = vlib.check_trace_file(seg_path) if os.path.exists(seg_path) else ([], None)
            # drop an incomplete last history (from its reset line on) when the run was aborted
            last_h = None
            for l in lines:
                if l.startswith('{"e":"reset"'):
                    last_h = json.loads(l)["h"]
            keep = lines
            if rc != 0 and last_h is not None:
                idx = max(i for i, l in enumerate(lines) if l.startswith('{"e":"reset"'))
                aborts.append((rc, out, tail, last_h, lines[idx:]))
                keep = lines[:idx]
            elif rc != 0:
                aborts.append((rc, out, tail, None, lines))
                keep = []
            for l in keep:
                mf.write(l + "\n")
            try:
                os.unlink(seg_path)
            except OSError:
                pass
            if rc == 0 or last_h is None or seg >= max_restarts:
                break
            start = last_h + 1
            seg += 1
    return aborts, merged


def report_aborts(ctx, aborts, what):
    for rc, out, tail, h, hist_lines in aborts:
        op = "?"
        if tail:
            m = re.search(r'"op":"(\w+)"', tail) or re.search(r'"e":"(\w+)"', tail)
            op = m.group(1) if m else "?"
        kind = {66: "sanitizer", 67: "crash", 68: "hang", 124: "timeout"}.get(rc, "exit%d" % rc)
        san = re.search(r"(ERROR: \w+Sanitizer: [^\n]*|runtime error: [^\n]*)", out)
        script = script_of(hist_lines)
        if tail:
            try:
                script += script_of([tail + "}"])
            except ValueError:
                pass
        if op in ("dctor", "dfill", "ddestroy"):
            ctx.extra.setdefault("observations", []).append({"op": op, "why": [kind], "history": h})
            continue
        ctx.reject("C07:%s:%s" % (op, kind), "%s during %s (%s, history %s): %s" % (
            kind, op, what, h, san.group(1) if san else out[-300:]), {"script": script, "partial_line": tail})


def judge_file(ctx, path, what, rc, out):
    lines, tail = vlib.check_trace_file(path)
    if rc != 0:
        # sanitizer report / crash / hang inside a driven call
        op = "?"
        if tail:
            m = re.search(r'"op":"(\w+)"', tail) or re.search(r'"e":"(\w+)"', tail)
            op = m.group(1) if m else "?"
        kind = {66: "sanitizer", 67: "crash", 68: "hang", 124: "timeout"}.get(rc, "exit%d" % rc)
        san = re.search(r"(ERROR: \w+Sanitizer: [^\n]*|runtime error: [^\n]*)", out)
        hist = vlib.history_of(lines, len(lines)) if lines else []
        ctx.reject("C07:%s:%s" % (op, kind), "%s during %s (%s): %s" % (kind, op, what, san.group(1) if san else out[-300:]),
                   {"script": script_of(hist) + ([json.loads(tail + "}")] if tail and tail.endswith("true") else []),
                    "partial_line": tail})
        # judge the complete prefix as well
        with open(path, "w") as f:
            f.write("\n".join(lines) + ("\n" if lines else ""))
    if not lines:
        return
    bad = vlib.judge_trace(ctx, TRACE_MODULE, TRACE_CFG, path)
    ctx.evaluations += len(lines)
    for b in bad:
        # fcppt::container::dynamic_array is an anchor file of C07 but not named in its statement
        # ("raw_vector and buffer"): disagreements there are observed only, never an alarm
        obs = [w for w in b["why"] if w in OBSERVED_ONLY]
        if obs:
            ctx.extra.setdefault("observations", []).append({"line": b["l"], "op": b["op"], "why": obs})
            b["why"] = [w for w in b["why"] if w not in OBSERVED_ONLY]
            if not b["why"]:
                continue
        if "HARNESS-PRECONDITION" in b["why"]:
            # after a rejected event the objects of this history may be corrupt (e.g. a wrapped
            # write_size): the driver's own view of what is valid then no longer matches the spec's.
            # Only a precondition failure in a history without an earlier rejection is a harness bug.
            start = b["l"] - 1
            while start > 0 and '"e":"reset"' not in lines[start]:
                start -= 1
            if any(start < x["l"] < b["l"] and x is not b for x in bad):
                continue
            raise vlib.Infra("harness emitted an operation outside the API precondition at line %d of %s" % (b["l"], path))
        hist = vlib.history_of(lines, b["l"])
        ev = json.loads(lines[b["l"] - 1])
        ctx.reject(signature(b), "%s: spec cannot explain %s (%s); event: %s" % (
            what, b["op"], ",".join(b["why"]), lines[b["l"] - 1][:400]), {"script": script_of(hist), "event": ev})
    return lines


def script_of(hist_lines):
    ops = []
    for l in hist_lines:
        try:
            e = json.loads(l)
        except ValueError:
            continue
        if e.get("e") == "op":
            ops.append({k: e[k] for k in ("op", "o", "o2", "pos", "pos2", "n", "x", "k", "alias", "xs", "kind", "some")})
    return ops


def count_classes(ctx, lines):
    for l in lines:
        e = json.loads(l)
        if e.get("e") == "op":
            sz = 0
            cap = 0
            for v in e["vs"]:
                if v["o"] == e["o"] and v.get("live"):
                    sz, cap = v["size"], v["cap"]
            ctx.count_class((e["op"], min(sz, 4), "full" if sz == cap else "room", e["alias"] >= 0, e["kind"]))
        elif e.get("e") == "read_chars":
            ctx.count_class(("read_chars", len(e["text"]) >= e["skip"] + e["count"]))
        elif e.get("e") == "read_chars_big":
            ctx.count_class(("read_chars_big", "oom" if e["oom"] else e["some"], e["count_q"] >= 4096))


def run(ctx):
    thorough = ctx.tier == "thorough"
    # 1. the specification itself: abstract model, and the pointer-level transcription in lock-step
    vlib.tlc_mc(ctx, "RawVector", "MC_RawVector.cfg")
    if thorough:
        vlib.tlc_mc(ctx, "RawVector", "MC_RawVector_big.cfg", timeout=3000)
        vlib.tlc_mc(ctx, "RawVectorImpl", "MC_RawVectorImpl.cfg", timeout=3000)
        vlib.tlc_mc(ctx, "BufferImpl", "MC_BufferImpl.cfg", timeout=3600)
    # vacuity guard: the refinement / return-value invariants CAN fail - with the two repaired defects
    # re-introduced into the transcription TLC must find a counterexample
    for mod, cfg, inv in (("RawVectorImpl", "MC_RawVectorImpl_aliasbug.cfg", "Refines"),
                          ("RawVectorImpl", "MC_RawVectorImpl_erasebug.cfg", "ReturnsAgree"),
                          ("BufferImpl", "MC_BufferImpl_growbug.cfg", "BRepInv")):
        r = vlib.tlc(mod, cfg, workers=4, expect=inv)
        if inv not in r.invariant_violated:
            raise vlib.Infra("vacuity guard: %s did not violate %s" % (cfg, inv))
        ctx.extra.setdefault("vacuity_guards", []).append({"cfg": cfg, "violates": inv, "states": r.distinct})
    # 2. operation scripts, one per generated transition: of a small abstract model (two vectors and a
    #    buffer) and of the pointer-level model (reaches spare-capacity / stale-cell states)
    r = vlib.tlc_mc(ctx, "RawVector", "MC_RawVectorScripts.cfg", workers=4)
    scripts = vlib._verdict_lines(r.out).get("SCRIPT", [])
    if len(scripts) < 1000:
        raise vlib.Infra("script emission produced only %d scripts" % len(scripts))
    if not thorough:
        scripts = scripts[ctx.seed % 3::3]
    r = vlib.tlc_mc(ctx, "RawVectorImpl", "MC_RawVectorImplScripts.cfg", workers=4)
    iscripts = vlib._verdict_lines(r.out).get("SCRIPT", [])
    if len(iscripts) < 1000:
        raise vlib.Infra("impl script emission produced only %d scripts" % len(iscripts))
    scripts += iscripts
    r = vlib.tlc_mc(ctx, "BufferImpl", "MC_BufferImplScripts.cfg" if thorough else "MC_BufferImplScripts_q.cfg", workers=6, timeout=1800)
    bscripts = vlib._verdict_lines(r.out).get("SCRIPT", [])
    if len(bscripts) < 1000:
        raise vlib.Infra("buffer impl script emission produced only %d scripts" % len(bscripts))
    scripts += bscripts if thorough else bscripts[ctx.seed % 4::4]
    spath = os.path.join(ctx.workdir, "scripts.ndjson")
    vlib.write_ndjson(spath, scripts)
    binary = build()
    # 3. spec -> code
    rpath = os.path.join(ctx.workdir, "replayed.ndjson")
    aborts, rpath = run_resuming(binary, ["replay", spath, "@OUT"], rpath, None, 1500)
    report_aborts(ctx, aborts, "TLC-generated script")
    lines = judge_file(ctx, rpath, "TLC-generated script", 0, "")
    ctx.traces_validated += len(scripts)
    if lines:
        count_classes(ctx, lines[:200000])
        ctx.sample({"tlc_script": scripts[len(scripts) // 2]})
    # 4. code -> spec
    nh, ml = (100000, 60) if thorough else (4000, 60)
    tpath = os.path.join(ctx.workdir, "recorded.ndjson")
    aborts, tpath = run_resuming(binary, ["record", "@OUT", ctx.seed, nh, ml], tpath, None, 3000)
    report_aborts(ctx, aborts, "random history")
    lines = judge_file(ctx, tpath, "random history", 0, "")
    ctx.traces_validated += nh
    if lines:
        count_classes(ctx, lines[:300000])
        ctx.sample({"recorded_events": [json.loads(x) for x in lines[1:3]]})
    # 5. io::read_chars with counts around 2^31 / 2^32 on a virtual stream (seeded C07g: count narrowed to int)
    bpath = os.path.join(ctx.workdir, "bigread.ndjson")
    rc, out = vlib.run_harness(binary, ["bigread", bpath, 0], timeout=900)
    lines = judge_file(ctx, bpath, "read_chars with a wide count", rc, out)
    if lines:
        count_classes(ctx, lines)
        ctx.traces_validated += len(lines)
        # binding guard: every judged field of an accepted wide read is corrupted in turn (one record per
        # corruption); the trace spec must reject exactly those records
        good = [json.loads(x) for x in lines if '"some":true' in x and '"oom":false' in x]
        if good and not any(v[0].startswith("C07:read_chars") for v in ctx.violations):
            base = good[len(good) // 2]
            corrupt = []
            for k, f in (("size_r", lambda v: v + 1), ("size_q", lambda v: v - 1), ("pos_r", lambda v: v + 1),
                         ("head", lambda v: [v[0] + 1] + v[1:]), ("tail", lambda v: v[:3] + [v[3] + 1]),
                         ("some", lambda v: False)):
                c = dict(base)
                c[k] = f(c[k])
                corrupt.append(c)
            corrupt.append(base)
            cpath = os.path.join(ctx.workdir, "bigread_corrupt.ndjson")
            vlib.write_ndjson(cpath, corrupt)
            cbad = sorted(b["l"] for b in vlib.judge_trace(ctx, TRACE_MODULE, TRACE_CFG, cpath, nchunks=1))
            if cbad != list(range(1, len(corrupt))):
                raise vlib.Infra("binding guard: corrupted wide reads rejected at %r, expected 1..%d" % (cbad, len(corrupt) - 1))
            ctx.extra.setdefault("vacuity_guards", []).append({"trace": "bigread_corrupt", "rejected": len(cbad)})
    ctx.rule = ("histories: (a) every generated transition of the small TLC model as an op script, (b) seeded random "
                "histories <= 60 ops over 3 vectors + 2 buffers with all valid positions/counts and aliased values, "
                "(c) read_chars over all text lengths 0..20 x counts 0..24, and counts 2^31-1 .. 3*2^31+7 on a virtual stream; a class = (operation, size bucket, "
                "full/room capacity, aliased?, iterator kind) of an executed event")
    ctx.assumptions += [
        "memory safety (out-of-allocation access, double free, leaks) is only OBSERVED via ASan/UBSan/LSan in the harness and the allocator seam, not decided by the TLA+ spec",
        "element type int and the tracking allocator stand for all trivial T / allocators",
        "self-insertion of a range of the vector into itself and self-move are API preconditions and are not driven",
    ]


def replay(ctx, payload):
    binary = build()
    spath = os.path.join(ctx.workdir, "replay_script.ndjson")
    vlib.write_ndjson(spath, [payload["payload"]["script"]])
    rpath = os.path.join(ctx.workdir, "replay_out.ndjson")
    rc, out = vlib.run_harness(binary, ["replay", spath, rpath], timeout=600)
    judge_file(ctx, rpath, "replay", rc, out)
    ctx.traces_validated += 1
    ctx.count_class("replay")
    ctx.count_class("replay2")
    ctx.rule = "replay of one saved history"
